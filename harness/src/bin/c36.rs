//! C36: the three expression parsers (revset, fileset, template) and the shared alias
//! expansion.  Two streams:
//!  * alias cases: grammar-guided alias maps and expressions; the real parse + expand_aliases
//!    result (converted to the generic tree of Model/C36.v) is compared with the model;
//!  * fuzzing (labelled as such): seeded character soups, mutations of valid expressions, capped
//!    nesting, hostile alias declarations/definitions, run in a child process under
//!    catch_unwind in a thread with an 8 MiB stack and a per-input watchdog; a panic, a crash of
//!    the child (stack overflow) is a violation with the input as replay.
use std::collections::HashMap;
use std::io::BufRead as _;
use std::io::Write as _;
use std::path::PathBuf;
use std::process::Command;
use std::process::Stdio;
use std::sync::mpsc;
use std::time::Duration;

use jj_cli::template_parser as tpp;
use jj_lib::dsl_util;
use jj_lib::dsl_util::AliasId;
use jj_lib::fileset;
use jj_lib::fileset::verif_fileset_parser as fsp;
use jj_lib::repo_path::RepoPathUiConverter;
use jj_lib::revset;
use jjv::Rng;

// ------------------------------------------------------------------ generic tree printing

#[derive(Default)]
struct Interner {
    names: HashMap<String, u64>,
}

impl Interner {
    fn id(&mut self, s: &str) -> u64 {
        let n = self.names.len() as u64 + 1;
        *self.names.entry(s.to_string()).or_insert(n)
    }
}

fn list(xs: Vec<String>) -> String {
    format!("[{}]", xs.join("; "))
}

fn aid_term(id: &AliasId<'_>, it: &mut Interner) -> String {
    match id {
        AliasId::Symbol(n) => format!("(ASymbol {})", it.id(n)),
        AliasId::Pattern(n, p) => format!("(APattern {} {})", it.id(n), it.id(p)),
        AliasId::Function(n, ps) => {
            let ps = ps.iter().map(|p| it.id(p).to_string()).collect();
            format!("(AFunction {} {})", it.id(n), list(ps))
        }
        AliasId::Parameter(n) => format!("(AParam {})", it.id(n)),
    }
}

/// "A", "P:x", "F(x, y)" (AliasId's Display) back to a model id.
fn aid_from_display(s: &str, it: &mut Interner) -> String {
    if let Some(open) = s.find('(') {
        let name = &s[..open];
        let inner = &s[open + 1..s.len() - 1];
        let ps: Vec<String> = if inner.is_empty() {
            vec![]
        } else {
            inner.split(", ").map(|p| it.id(p).to_string()).collect()
        };
        format!("(AFunction {} {})", it.id(name), list(ps))
    } else if let Some((n, p)) = s.split_once(':') {
        format!("(APattern {} {})", it.id(n), it.id(p))
    } else {
        format!("(ASymbol {})", it.id(s))
    }
}

fn call_term<'i, T>(
    f: &dsl_util::FunctionCallNode<'i, T>,
    it: &mut Interner,
    conv: &dyn Fn(&dsl_util::ExpressionNode<'i, T>, &mut Interner) -> String,
) -> String {
    let args = f.args.iter().map(|a| conv(a, it)).collect();
    let kw = f
        .keyword_args
        .iter()
        .map(|k| format!("({}, {})", it.id(k.name), conv(&k.value, it)))
        .collect();
    format!("(ECall {} {} {})", it.id(f.name), list(args), list(kw))
}

fn revset_term(n: &revset::ExpressionNode<'_>, it: &mut Interner) -> String {
    use revset::ExpressionKind as K;
    match &n.kind {
        K::Identifier(name) => format!("(EIdent {})", it.id(name)),
        K::String(_) | K::RemoteSymbol(_) | K::AtWorkspace(_) | K::AtCurrentWorkspace | K::DagRangeAll | K::RangeAll => {
            "ELeaf".into()
        }
        K::Pattern(p) => format!("(EPattern {} {})", it.id(p.name), revset_term(&p.value, it)),
        K::Unary(_, a) => format!("(EOp {})", list(vec![revset_term(a, it)])),
        K::Binary(_, l, r) => format!("(EOp {})", list(vec![revset_term(l, it), revset_term(r, it)])),
        K::UnionAll(ns) => format!("(EOp {})", list(ns.iter().map(|x| revset_term(x, it)).collect())),
        K::FunctionCall(f) => call_term(f, it, &revset_term),
        K::AliasExpanded(id, b) => format!("(EExpanded {} {})", aid_term(id, it), revset_term(b, it)),
    }
}

fn fileset_term(n: &fsp::ExpressionNode<'_>, it: &mut Interner) -> String {
    use fsp::ExpressionKind as K;
    match &n.kind {
        K::Identifier(name) => format!("(EIdent {})", it.id(name)),
        K::String(_) => "ELeaf".into(),
        K::Pattern(p) => format!("(EPattern {} {})", it.id(p.name), fileset_term(&p.value, it)),
        K::Unary(_, a) => format!("(EOp {})", list(vec![fileset_term(a, it)])),
        K::Binary(_, l, r) => format!("(EOp {})", list(vec![fileset_term(l, it), fileset_term(r, it)])),
        K::UnionAll(ns) => format!("(EOp {})", list(ns.iter().map(|x| fileset_term(x, it)).collect())),
        K::FunctionCall(f) => call_term(f, it, &fileset_term),
        K::AliasExpanded(id, b) => format!("(EExpanded {} {})", aid_term(id, it), fileset_term(b, it)),
    }
}

fn template_term(n: &tpp::ExpressionNode<'_>, it: &mut Interner) -> String {
    use tpp::ExpressionKind as K;
    match &n.kind {
        K::Identifier(name) => format!("(EIdent {})", it.id(name)),
        K::Boolean(_) | K::Integer(_) | K::String(_) => "ELeaf".into(),
        K::Pattern(p) => format!("(EPattern {} {})", it.id(p.name), template_term(&p.value, it)),
        K::Unary(_, a) => format!("(EOp {})", list(vec![template_term(a, it)])),
        K::Binary(_, l, r) => format!("(EOp {})", list(vec![template_term(l, it), template_term(r, it)])),
        K::Concat(ns) => format!("(EOp {})", list(ns.iter().map(|x| template_term(x, it)).collect())),
        K::FunctionCall(f) => call_term(f, it, &template_term),
        K::MethodCall(m) => {
            // object, then the method's positional and keyword argument values (the method name
            // is never alias-substituted: template_parser.rs fold, MethodCall arm)
            let mut xs = vec![template_term(&m.object, it)];
            xs.extend(m.function.args.iter().map(|a| template_term(a, it)));
            xs.extend(m.function.keyword_args.iter().map(|k| template_term(&k.value, it)));
            format!("(EOp {})", list(xs))
        }
        K::Lambda(l) => format!("(EOp {})", list(vec![template_term(&l.body, it)])),
        K::AliasExpanded(id, b) => format!("(EExpanded {} {})", aid_term(id, it), template_term(b, it)),
    }
}

// ------------------------------------------------------------------ generators

const LANGS: [&str; 3] = ["revset", "fileset", "template"];
const SYMBOLS: &[&str] = &["A", "B", "C"];
const FUNCS: &[&str] = &["F", "G"];
const PATS: &[&str] = &["P", "Q"];
const PARAMS: &[&str] = &["p", "q"];
const PLAIN: &[&str] = &["x", "y", "main"];

fn gen_atom(lang: usize, rng: &mut Rng) -> String {
    match rng.below(10) {
        0..=2 => rng.pick(SYMBOLS).to_string(),
        3..=4 => rng.pick(PARAMS).to_string(),
        5..=6 => rng.pick(PLAIN).to_string(),
        7 => "\"s\\n\"".to_string(),
        8 => match lang {
            0 => rng.pick(&["@", "x@", "x@o", "'raw'", "::", ".."]).to_string(),
            1 => rng.pick(&["'raw'", "a/b.c", "*.rs"]).to_string(),
            _ => rng.pick(&["12", "true", "'raw'", "0"]).to_string(),
        },
        _ => "z".to_string(),
    }
}

fn gen_call(lang: usize, rng: &mut Rng, depth: u32, name: &str) -> String {
    let n = rng.below(4);
    let mut args: Vec<String> = (0..n.min(3)).map(|_| gen_expr(lang, rng, depth)).collect();
    if lang != 1 && rng.chance(1, 8) {
        // keyword argument (always after the positional ones)
        args.push(format!("k={}", gen_expr(lang, rng, depth)));
    }
    let trailing = if !args.is_empty() && rng.chance(1, 10) { "," } else { "" };
    format!("{name}({}{trailing})", args.join(", "))
}

/// A syntactically valid expression of the language (by construction).
fn gen_expr(lang: usize, rng: &mut Rng, depth: u32) -> String {
    if depth == 0 {
        return gen_atom(lang, rng);
    }
    let d = depth - 1;
    match rng.below(14) {
        0..=2 => gen_atom(lang, rng),
        3..=4 => {
            let name = if rng.chance(2, 3) { *rng.pick(FUNCS) } else { "h" };
            gen_call(lang, rng, d, name)
        }
        5 => {
            let name = if rng.chance(2, 3) { *rng.pick(PATS) } else { "glob" };
            // pattern values are primaries: an atom, a call or a parenthesised expression
            let v = match rng.below(3) {
                0 => gen_atom(lang, rng),
                1 => {
                    let nm = if rng.chance(1, 2) { "F" } else { "h" };
                    gen_call(lang, rng, d, nm)
                }
                _ => format!("({})", gen_expr(lang, rng, d)),
            };
            let v = if v == "::" || v == ".." || v.starts_with(['\'']) && lang == 2 { "x".to_string() } else { v };
            format!("{name}:{v}")
        }
        6 => format!("({})", gen_expr(lang, rng, d)),
        7 => match lang {
            0 => format!("~{}", gen_operand(lang, rng, d)),
            1 => format!("~{}", gen_operand(lang, rng, d)),
            _ => format!("{}{}", rng.pick(&["!", "-"]), gen_operand(lang, rng, d)),
        },
        8..=10 => {
            let ops: &[&str] = match lang {
                0 => &[" | ", " & ", " ~ ", "::", "..", " | "],
                1 => &[" | ", " & ", " ~ ", "|"],
                _ => &[" ++ ", " == ", " || ", " && ", " + ", " >= ", " ++ "],
            };
            let op = *rng.pick(ops);
            format!("{}{op}{}", gen_operand(lang, rng, d), gen_operand(lang, rng, d))
        }
        11 => match lang {
            0 => format!("{}{}", gen_operand(lang, rng, d), rng.pick(&["-", "+", "::", "..", "--"])),
            1 => format!("{} | {} | {}", gen_operand(lang, rng, d), gen_atom(lang, rng), gen_atom(lang, rng)),
            _ => format!("{}.m({})", gen_operand(lang, rng, d), gen_expr(lang, rng, d)),
        },
        12 => match lang {
            0 => format!("::{}", gen_operand(lang, rng, d)),
            1 => gen_call(lang, rng, d, "h"),
            _ => format!("h(|p| {})", gen_expr(lang, rng, d)),
        },
        _ => {
            let nm = *rng.pick(FUNCS);
            gen_call(lang, rng, d, nm)
        }
    }
}

/// An operand that is safe next to any operator: an atom that is not an operator itself, a call
/// or a parenthesised expression.
fn gen_operand(lang: usize, rng: &mut Rng, depth: u32) -> String {
    match rng.below(4) {
        0..=1 => {
            let a = gen_atom(lang, rng);
            if a == "::" || a == ".." || a == "a/b.c" || a == "*.rs" { "x".to_string() } else { a }
        }
        2 if depth > 0 => {
            let nm = if rng.chance(1, 2) { *rng.pick(FUNCS) } else { "h" };
            gen_call(lang, rng, depth - 1, nm)
        }
        _ => format!("({})", gen_expr(lang, rng, depth.saturating_sub(1))),
    }
}

// (no "positional after keyword argument" definition: that parse error has the same kind as an
// alias arity mismatch and the outcome classes could not be told apart)
const BAD_DEFNS: &[&str] = &["", "(", "A |", "F(", "\"unterminated", "x y", ")", "P:", "\"\\q\""];

struct AliasSpec {
    decl: String,
    defn: String,
}

/// An expression that uses the alias declared by `decl` with the right arity.
fn reference(decl: &str) -> String {
    if let Some(open) = decl.find('(') {
        let arity = if decl.ends_with("()") { 0 } else { decl.matches(',').count() + 1 };
        format!("{}({})", &decl[..open], vec!["x"; arity].join(", "))
    } else if let Some((n, _)) = decl.split_once(':') {
        format!("{n}:x")
    } else {
        decl.to_string()
    }
}

fn gen_aliases(lang: usize, rng: &mut Rng) -> Vec<AliasSpec> {
    let mut out: Vec<AliasSpec> = vec![];
    let n = rng.below(8);
    for _ in 0..n {
        let decl = match rng.below(10) {
            0..=3 => rng.pick(SYMBOLS).to_string(),
            4..=7 => {
                let name = *rng.pick(FUNCS);
                let mut ps: Vec<&str> = PARAMS.to_vec();
                rng.shuffle(&mut ps);
                ps.truncate(rng.below(3) as usize);
                format!("{name}({})", ps.join(", "))
            }
            _ => format!("{}:{}", rng.pick(PATS), rng.pick(PARAMS)),
        };
        let defn = if rng.chance(1, 10) {
            rng.pick(BAD_DEFNS).to_string()
        } else {
            let d = 1 + rng.below(2) as u32;
            gen_expr(lang, rng, d)
        };
        out.push(AliasSpec { decl, defn });
    }
    // a third of the maps get an explicit reference cycle (direct, mutual or through a
    // function / pattern alias) on top of the accidental ones
    if out.len() >= 2 && rng.chance(1, 3) {
        let op = if lang == 2 { " ++ " } else { " | " };
        let len = 1 + rng.usize(out.len().min(3));
        let mut idx: Vec<usize> = (0..out.len()).collect();
        rng.shuffle(&mut idx);
        idx.truncate(len);
        for k in 0..len {
            let to = reference(&out[idx[(k + 1) % len]].decl);
            let a = &mut out[idx[k]];
            a.defn = format!("({}){op}{to}", if a.defn.is_empty() { "x" } else { &a.defn });
        }
    }
    out
}

// ------------------------------------------------------------------ running the real code

/// Result of parse + expand on one language, as Model.C36 terms.
struct AliasRun {
    input: Option<String>,  // generic term of the parsed input (None: input did not parse)
    am: String,             // mk_aliases term
    outer: String,          // outermost locals
    result: String,         // ires term
    class: &'static str,
}

fn leak(s: String) -> &'static str {
    Box::leak(s.into_boxed_str())
}

macro_rules! model_aliases {
    ($specs:expr, $it:expr, $parse_defn:expr, $term:expr, $decl:expr) => {{
        // mirror AliasesMap::insert: a later symbol/pattern replaces; overloads sorted by arity,
        // same arity replaced
        let mut syms: Vec<(String, String)> = vec![];
        let mut pats: Vec<(String, String, String)> = vec![];
        let mut funs: Vec<(String, Vec<(Vec<String>, String)>)> = vec![];
        for spec in $specs.iter() {
            let defn_text: &'static str = leak(spec.defn.clone());
            let d = match $parse_defn(defn_text) {
                Ok(node) => format!("(Some {})", $term(&node, $it)),
                Err(_) => "None".to_string(),
            };
            match $decl(&spec.decl) {
                Some(dsl_util::AliasDeclaration::Symbol(n)) => {
                    syms.retain(|(k, _)| *k != n);
                    syms.push((n, d));
                }
                Some(dsl_util::AliasDeclaration::Pattern(n, p)) => {
                    pats.retain(|(k, _, _)| *k != n);
                    pats.push((n, p, d));
                }
                Some(dsl_util::AliasDeclaration::Function(n, ps)) => {
                    if !funs.iter().any(|(k, _)| *k == n) {
                        funs.push((n.clone(), vec![]));
                    }
                    let ovs = &mut funs.iter_mut().find(|(k, _)| *k == n).unwrap().1;
                    ovs.retain(|(q, _)| q.len() != ps.len());
                    ovs.push((ps, d));
                    ovs.sort_by_key(|(q, _)| q.len());
                }
                None => {}
            }
        }
        let s = list(syms.iter().map(|(n, d)| format!("({}, {})", $it.id(n), d)).collect());
        let p = list(pats.iter().map(|(n, q, d)| format!("({}, ({}, {}))", $it.id(n), $it.id(q), d)).collect());
        let f = list(
            funs.iter()
                .map(|(n, ovs)| {
                    let o = list(
                        ovs.iter()
                            .map(|(ps, d)| format!("({}, {})", list(ps.iter().map(|x| $it.id(x).to_string()).collect()), d))
                            .collect(),
                    );
                    format!("({}, {})", $it.id(n), o)
                })
                .collect(),
        );
        format!("(mk_aliases {s} {p} {f})")
    }};
}

fn run_revset(text: &'static str, specs: &[AliasSpec], locals_spec: &[(&'static str, &'static str)], it: &mut Interner) -> AliasRun {
    let mut map = revset::RevsetAliasesMap::new();
    for s in specs {
        let _ = map.insert(&s.decl, s.defn.clone(), None);
    }
    let map: &'static revset::RevsetAliasesMap = Box::leak(Box::new(map));
    let declp = |d: &str| revset_decl(d);
    let am = model_aliases!(specs, it, revset::parse_program, revset_term, declp);
    let mut locals: HashMap<&'static str, revset::ExpressionNode<'static>> = HashMap::new();
    let mut outer = vec![];
    for (k, v) in locals_spec {
        if let Ok(node) = revset::parse_program(v) {
            if !locals.contains_key(k) {
                outer.push(format!("({}, {})", it.id(k), revset_term(&node, it)));
                locals.insert(k, node);
            }
        }
    }
    let input_node = revset::parse_program(text);
    let Ok(node) = input_node else {
        return AliasRun { input: None, am, outer: list(outer), result: "ISyntax".into(), class: "noparse" };
    };
    let input = revset_term(&node, it);
    let r = jjv::catch(|| dsl_util::expand_aliases_with_locals(node, map, &locals));
    let (result, class) = match r {
        None => ("IPanic".to_string(), "panic"),
        Some(Ok(n)) => (format!("(IOk {})", revset_term(&n, it)), "ok"),
        Some(Err(e)) => {
            let mut cur = &e;
            while let Some(o) = cur.origin() {
                cur = o;
            }
            match cur.kind() {
                revset::RevsetParseErrorKind::RecursiveAlias(id) => (format!("(IRecursive {})", aid_from_display(id, it)), "recursive"),
                revset::RevsetParseErrorKind::InvalidFunctionArguments { .. } => ("IArgs".to_string(), "args"),
                _ => ("ISyntax".to_string(), "syntax"),
            }
        }
    };
    AliasRun { input: Some(input), am, outer: list(outer), result, class }
}

/// Declaration kinds as the real declaration parsers classify them (through a throw-away map:
/// the name lists tell which table the declaration went to).
fn revset_decl(d: &str) -> Option<dsl_util::AliasDeclaration> {
    let mut m = revset::RevsetAliasesMap::new();
    m.insert(d, "x", None).ok()?;
    decl_from_map(d, m.symbol_names().next(), m.pattern_names().next(), m.function_names().next())
}

fn decl_from_map(d: &str, sym: Option<&str>, pat: Option<&str>, fun: Option<&str>) -> Option<dsl_util::AliasDeclaration> {
    if let Some(n) = sym {
        Some(dsl_util::AliasDeclaration::Symbol(n.to_string()))
    } else if let Some(n) = pat {
        let p = d.split_once(':')?.1.trim();
        Some(dsl_util::AliasDeclaration::Pattern(n.to_string(), p.to_string()))
    } else if let Some(n) = fun {
        let inner = d[d.find('(')? + 1..d.rfind(')')?].trim();
        let ps = if inner.is_empty() {
            vec![]
        } else {
            inner.split(',').map(|s| s.trim().to_string()).filter(|s| !s.is_empty()).collect()
        };
        Some(dsl_util::AliasDeclaration::Function(n.to_string(), ps))
    } else {
        None
    }
}

fn run_fileset(text: &'static str, specs: &[AliasSpec], it: &mut Interner) -> AliasRun {
    let mut map = fileset::FilesetAliasesMap::new();
    for s in specs {
        let _ = map.insert(&s.decl, s.defn.clone(), None);
    }
    let map: &'static fileset::FilesetAliasesMap = Box::leak(Box::new(map));
    let declp = |d: &str| {
        let mut m = fileset::FilesetAliasesMap::new();
        m.insert(d, "x", None).ok()?;
        decl_from_map(d, m.symbol_names().next(), m.pattern_names().next(), m.function_names().next())
    };
    let am = model_aliases!(specs, it, fsp::parse_program, fileset_term, declp);
    let Ok(node) = fsp::parse_program(text) else {
        return AliasRun { input: None, am, outer: "[]".into(), result: "ISyntax".into(), class: "noparse" };
    };
    let input = fileset_term(&node, it);
    let r = jjv::catch(|| fsp::expand_aliases(node, map));
    let (result, class) = match r {
        None => ("IPanic".to_string(), "panic"),
        Some(Ok(n)) => (format!("(IOk {})", fileset_term(&n, it)), "ok"),
        Some(Err(e)) => {
            let mut cur: &fileset::FilesetParseError = &e;
            while let Some(o) = std::error::Error::source(cur).and_then(|s| s.downcast_ref::<fileset::FilesetParseError>()) {
                cur = o;
            }
            match cur.kind() {
                fileset::FilesetParseErrorKind::RecursiveAlias(id) => (format!("(IRecursive {})", aid_from_display(id, it)), "recursive"),
                fileset::FilesetParseErrorKind::InvalidArguments { .. } => ("IArgs".to_string(), "args"),
                _ => ("ISyntax".to_string(), "syntax"),
            }
        }
    };
    AliasRun { input: Some(input), am, outer: "[]".into(), result, class }
}

fn run_template(text: &'static str, specs: &[AliasSpec], it: &mut Interner) -> AliasRun {
    let mut map = tpp::TemplateAliasesMap::new();
    for s in specs {
        let _ = map.insert(&s.decl, s.defn.clone(), None);
    }
    let map: &'static tpp::TemplateAliasesMap = Box::leak(Box::new(map));
    let declp = |d: &str| {
        let mut m = tpp::TemplateAliasesMap::new();
        m.insert(d, "x", None).ok()?;
        decl_from_map(d, m.symbol_names().next(), m.pattern_names().next(), m.function_names().next())
    };
    let am = model_aliases!(specs, it, tpp::parse_template, template_term, declp);
    let Ok(node) = tpp::parse_template(text) else {
        return AliasRun { input: None, am, outer: "[]".into(), result: "ISyntax".into(), class: "noparse" };
    };
    let input = template_term(&node, it);
    let r = jjv::catch(|| dsl_util::expand_aliases(node, map));
    let (result, class) = match r {
        None => ("IPanic".to_string(), "panic"),
        Some(Ok(n)) => (format!("(IOk {})", template_term(&n, it)), "ok"),
        Some(Err(e)) => {
            let mut cur = &e;
            while let Some(o) = cur.origin() {
                cur = o;
            }
            match cur.kind() {
                tpp::TemplateParseErrorKind::RecursiveAlias(id) => (format!("(IRecursive {})", aid_from_display(id, it)), "recursive"),
                tpp::TemplateParseErrorKind::InvalidArguments { .. } => ("IArgs".to_string(), "args"),
                _ => ("ISyntax".to_string(), "syntax"),
            }
        }
    };
    AliasRun { input: Some(input), am, outer: "[]".into(), result, class }
}

// ------------------------------------------------------------------ fuzzing (child process)

const SOUP: &[char] = &[
    'a', 'b', 'x', 'A', 'F', 'P', '0', '9', '_', ' ', '\t', '\n', '(', ')', '(', ')', '"', '\'', '\\', '@',
    ':', '.', '-', '+', '~', '|', '&', ',', '=', '*', '/', '^', '!', '<', '>', '%', '[', ']', '?', '#',
    '{', '}', ';', '\0', '\x1b', '\x7f', 'é', '漢', '\u{301}', '😀', '\u{2028}', '\u{feff}', 'n', 't', 'e',
];

/// Hand-picked hostile fragments (integer overflow, empty arguments, lone quotes, stacked
/// operators, pattern chains, lambda edge cases, NUL) spliced into soups and mutations.
const SNIPPETS: &[&str] = &[
    "99999999999999999999", "-9223372036854775808", "9223372036854775807", "0x10", "\"\\x\"", "\"\\xg0\"",
    "\"\\", "x.y.z", "a:b:c", "f(,)", "f(a,,b)", "f(a=1,a=2)", "f(a=1, b)", "|x,| x", "||", "|x, x| x", "x@y@z",
    "@@", "'", "\"", "a\0b", "::..::", "x----", "x++++", "x^^", "~~~~x", "!!!!x", "x.m().n()", "x:y:z",
    "P:P:P:x", "P:", ":x", "F((x))", "F(F(F(F(F(F(F(F(x))))))))", "A|B|C|A|B|C", "x & ~ y ~ z", "\u{feff}x",
    "x\u{2028}y", "\"\\e\\0\\t\\r\\n\\\"\\\\\"", "k=v", "f(k=)", "f(=v)", "'a''b'", "\"a\"\"b\"", "x --y", "a.-b",
];

fn mutate(s: &str, rng: &mut Rng) -> String {
    let mut cs: Vec<char> = s.chars().collect();
    for _ in 0..1 + rng.below(3) {
        let pos = rng.usize(cs.len() + 1);
        match rng.below(6) {
            0 => cs.insert(pos, *rng.pick(SOUP)),
            1 if pos < cs.len() => {
                cs.remove(pos);
            }
            2 if pos < cs.len() => cs[pos] = *rng.pick(SOUP),
            3 if pos < cs.len() => {
                let c = cs[pos];
                cs.insert(pos, c);
            }
            4 => cs.truncate(pos),
            _ if cs.len() >= 2 => {
                let a = rng.usize(cs.len());
                let b = rng.usize(cs.len());
                cs.swap(a, b);
            }
            _ => cs.push(*rng.pick(SOUP)),
        }
    }
    cs.into_iter().collect()
}

/// Nesting capped at 8 (DESIGN O1: the revset parser is exponential in parenthesis depth).
fn gen_nested(lang: usize, rng: &mut Rng) -> String {
    let d = 1 + rng.below(8) as usize;
    let core = gen_atom(lang, rng);
    match rng.below(6) {
        0 => format!("{}{}{}", "(".repeat(d), core, ")".repeat(d)),
        1 => format!("{}{}", (if lang == 2 { "!" } else { "~" }).repeat(d), core),
        2 => {
            let mut s = core;
            for _ in 0..d {
                s = format!("F({s})");
            }
            s
        }
        3 => {
            let sep = if lang == 2 { " ++ " } else { "|" };
            (0..d * 4).map(|_| "x").collect::<Vec<_>>().join(sep)
        }
        4 => match lang {
            0 => format!("x{}", "-".repeat(d * 3)),
            1 => format!("{}x", "P:".repeat(d)),
            _ => format!("x{}", ".m()".repeat(d)),
        },
        _ => format!("{}{}", "(".repeat(d), core),
    }
}

fn gen_fuzz_input(lang: usize, rng: &mut Rng) -> String {
    let s = match rng.below(10) {
        0..=2 => {
            let len = rng.below(30) + rng.geometric(6) * 8;
            let mut t = String::new();
            for _ in 0..len.min(120) {
                if rng.chance(1, 12) {
                    t.push_str(*rng.pick::<&str>(SNIPPETS));
                } else {
                    t.push(*rng.pick(SOUP));
                }
            }
            t
        }
        3..=6 => {
            let d = 1 + rng.below(3) as u32;
            let mut e = gen_expr(lang, rng, d);
            if rng.chance(1, 4) {
                let bounds: Vec<usize> = (0..=e.len()).filter(|p| e.is_char_boundary(*p)).collect();
                let pos = *rng.pick(&bounds);
                e.insert_str(pos, *rng.pick::<&str>(SNIPPETS));
            }
            mutate(&e, rng)
        }
        7..=8 => gen_nested(lang, rng),
        _ => gen_expr(lang, rng, 3),
    };
    // total length capped at 200 bytes
    let mut end = s.len().min(200);
    while !s.is_char_boundary(end) {
        end -= 1;
    }
    s[..end].to_string()
}

fn hex(s: &str) -> String {
    s.bytes().map(|b| format!("{b:02x}")).collect()
}
fn unhex(s: &str) -> String {
    let b: Vec<u8> = (0..s.len() / 2).map(|i| u8::from_str_radix(&s[2 * i..2 * i + 2], 16).unwrap()).collect();
    String::from_utf8(b).unwrap()
}

/// Fixed hostile alias sets used by the fuzz stream (declared in every language's syntax).
const FUZZ_ALIASES: &[&[(&str, &str)]] = &[
    &[],
    &[("A", "A"), ("B", "C"), ("C", "B"), ("F(p)", "F(p)"), ("G(p)", "F(G(p))"), ("P:p", "P:p")],
    &[("A", "("), ("F()", "A"), ("F(p)", "p"), ("F(p, q)", "F(q)"), ("G(p)", "\"\\x\""), ("P:p", "Q:p"), ("Q:p", "P:p")],
    &[("A", "B"), ("B", "x"), ("F(p)", "h(p, A)"), ("G(p, q)", "F(F(F(p)))"), ("P:p", "F(p)")],
];

/// One fuzz input on one language: 0 = Ok, 1 = Err (2 = panic is decided by the caller).
fn fuzz_one(lang: usize, text: &str, alias_set: usize) -> u8 {
    let specs = FUZZ_ALIASES[alias_set];
    match lang {
        0 => {
            let mut map = revset::RevsetAliasesMap::new();
            for (d, v) in specs {
                let _ = map.insert(d, *v, None);
            }
            // hostile declarations too
            let _ = map.insert(text, "x", None);
            let _ = revset::parse_symbol(text);
            match revset::parse_program(text) {
                Err(_) => 1,
                Ok(node) => match dsl_util::expand_aliases(node, &map) {
                    Ok(_) => 0,
                    Err(_) => 1,
                },
            }
        }
        1 => {
            let mut map = fileset::FilesetAliasesMap::new();
            for (d, v) in specs {
                let _ = map.insert(d, *v, None);
            }
            let _ = map.insert(text, "x", None);
            let conv = RepoPathUiConverter::Fs { cwd: PathBuf::from("/repo/sub"), base: PathBuf::from("/repo") };
            let ctx = fileset::FilesetParseContext { aliases_map: &map, path_converter: &conv };
            let mut diag = fileset::FilesetDiagnostics::new();
            let a = fileset::parse(&mut diag, text, &ctx).is_ok();
            let b = fileset::parse_maybe_bare(&mut diag, text, &ctx).is_ok();
            if a || b { 0 } else { 1 }
        }
        _ => {
            let mut map = tpp::TemplateAliasesMap::new();
            for (d, v) in specs {
                let _ = map.insert(d, *v, None);
            }
            let _ = map.insert(text, "x", None);
            match tpp::parse(text, &map) {
                Ok(_) => 0,
                Err(_) => 1,
            }
        }
    }
}

/// Deep-nesting forms whose parsing time stays about linear in the depth:
/// (language, repeated prefix, core, repeated suffix).  The revset parser is exponential in
/// anything nested inside `primary` (parentheses, function arguments: DESIGN O1), so for revset
/// only prefix / postfix operator chains and pattern chains are used.
const DEEP_FORMS: &[(usize, &str, &str, &str)] = &[
    (1, "(", "a", ")"),
    (1, "~", "a", ""),
    (1, "f(", "a", ")"),
    (1, "x:", "a", ""),
    (2, "(", "a", ")"),
    (2, "-(", "a", ")"),
    (2, "f(", "a", ")"),
    (2, "!", "a", ""),
    (2, "x.m(", "a", ")"),
    (0, "~", "a", ""),
    (0, "", "a", "-"),
    (0, "x:", "a", ""),
];
const DEEP_DEPTHS: &[usize] = &[50, 300, 1000, 3000, 10000, 50000];

fn deep_text(form: usize, depth: usize) -> String {
    let (_, pre, core, suf) = DEEP_FORMS[form];
    format!("{}{}{}", pre.repeat(depth), core, suf.repeat(depth))
}

/// Parse (and expand with an empty alias map / resolve) one deeply nested input: 0 Ok, 1 Err.
fn deep_one(lang: usize, text: &str) -> u8 {
    match lang {
        0 => {
            let map = revset::RevsetAliasesMap::new();
            match revset::parse_program(text) {
                Err(_) => 1,
                Ok(node) => match dsl_util::expand_aliases(node, &map) {
                    Ok(_) => 0,
                    Err(_) => 1,
                },
            }
        }
        1 => {
            let map = fileset::FilesetAliasesMap::new();
            let conv = RepoPathUiConverter::Fs { cwd: PathBuf::from("/repo/sub"), base: PathBuf::from("/repo") };
            let ctx = fileset::FilesetParseContext { aliases_map: &map, path_converter: &conv };
            let mut diag = fileset::FilesetDiagnostics::new();
            if fileset::parse(&mut diag, text, &ctx).is_ok() { 0 } else { 1 }
        }
        _ => {
            let map = tpp::TemplateAliasesMap::new();
            if tpp::parse(text, &map).is_ok() { 0 } else { 1 }
        }
    }
}

/// One alias case (generation + real parse + real expansion), as the fields the parent emits.
struct AliasCase {
    term: String,
    nontrivial: bool,
    shape: String,
    panicked: bool,
    note: String,
}

fn alias_case(i: usize, mut rng: Rng) -> AliasCase {
    let lang = rng.below(3) as usize;
    let specs = gen_aliases(lang, &mut rng);
    let d = 1 + rng.below(3) as u32;
    let mut text = gen_expr(lang, &mut rng, d);
    if !specs.is_empty() && rng.chance(1, 3) {
        // make sure some alias is actually used
        let op = if lang == 2 { " ++ " } else { " | " };
        text = format!("({text}){op}{}", reference(&rng.pick(&specs).decl));
    }
    let text: &'static str = leak(text);
    let mut it = Interner::default();
    let run = match lang {
        0 => {
            let locals: Vec<(&'static str, &'static str)> = if rng.chance(1, 4) {
                let k = *rng.pick(&["x", "A", "p", "y"]);
                vec![(k, leak(gen_expr(0, &mut rng, 1)))]
            } else {
                vec![]
            };
            run_revset(text, &specs, &locals, &mut it)
        }
        1 => run_fileset(text, &specs, &mut it),
        _ => run_template(text, &specs, &mut it),
    };
    let panicked = run.class == "panic";
    let note = if panicked {
        format!("alias case {i} ({}): panic on input hex {}", LANGS[lang], hex(text))
    } else {
        String::new()
    };
    let Some(input) = run.input else {
        // generator produced text the parser rejects: recorded as a fuzz-stream error
        return AliasCase {
            term: format!("(CFuzz {lang} {} 1)", text.len()),
            nontrivial: false,
            shape: format!("gen-noparse {}", LANGS[lang]),
            panicked,
            note,
        };
    };
    AliasCase {
        term: format!("(CAlias {lang} {} {} {} {})", run.am, run.outer, input, run.result),
        nontrivial: !specs.is_empty() && run.class != "ok" || run.result.contains("EExpanded"),
        shape: format!("alias {} {}", LANGS[lang], run.class),
        panicked,
        note,
    }
}

/// Child process: works through the lines of the job file from JJV_C36_START on, announcing
/// every item ("S k") before it runs it and reporting its result ("R k payload"), in a thread
/// with a fixed 8 MiB stack.  `alias` selects the alias stream (lines "index<TAB>rng state"),
/// otherwise the fuzz stream (lines "lang<TAB>alias set<TAB>hex text").
fn child_main(path: &str, mode: u8) {
    std::panic::set_hook(Box::new(|_| {}));
    let inputs: Vec<String> = std::fs::read_to_string(path).unwrap().lines().map(|l| l.to_string()).collect();
    let start: usize = std::env::var("JJV_C36_START").ok().and_then(|s| s.parse().ok()).unwrap_or(0);
    let handle = std::thread::Builder::new()
        .stack_size(8 << 20)
        .spawn(move || {
            let out = std::io::stdout();
            for (k, line) in inputs.iter().enumerate().skip(start) {
                {
                    let mut o = out.lock();
                    writeln!(o, "S {k}").unwrap();
                    o.flush().unwrap();
                }
                // self-test of the crash handling: JJV_C36_SELFTEST_CRASH=<item> aborts there
                if std::env::var("JJV_C36_SELFTEST_CRASH").ok().as_deref() == Some(&k.to_string()) {
                    std::process::abort();
                }
                let mut parts = line.split('\t');
                let payload = if mode == 2 {
                    let form: usize = parts.next().unwrap().parse().unwrap();
                    let depth: usize = parts.next().unwrap().parse().unwrap();
                    let text = deep_text(form, depth);
                    let lang = DEEP_FORMS[form].0;
                    let t0 = std::time::Instant::now();
                    let r = std::panic::catch_unwind(|| deep_one(lang, &text));
                    let ms = t0.elapsed().as_millis();
                    match r {
                        Ok(c) => format!("{c} {ms}"),
                        Err(_) => format!("2 {ms}"),
                    }
                } else if mode == 1 {
                    let i: usize = parts.next().unwrap().parse().unwrap();
                    let state: u64 = parts.next().unwrap().parse().unwrap();
                    let c = alias_case(i, Rng(state));
                    format!("{}\t{}\t{}\t{}\t{}", c.nontrivial, c.panicked, c.shape, c.note, c.term)
                } else {
                    let lang: usize = parts.next().unwrap().parse().unwrap();
                    let aset: usize = parts.next().unwrap().parse().unwrap();
                    let text = unhex(parts.next().unwrap_or(""));
                    let r = std::panic::catch_unwind(|| fuzz_one(lang, &text, aset));
                    match r {
                        Ok(c) => c.to_string(),
                        Err(_) => "2".to_string(),
                    }
                };
                let mut o = out.lock();
                writeln!(o, "R {k} {payload}").unwrap();
                o.flush().unwrap();
            }
        })
        .unwrap();
    let _ = handle.join();
}

enum Item {
    Done(String),
    /// the child died while working on the item; `true` = Rust's stack-overflow handler fired
    /// ("has overflowed its stack" on stderr) and the process was killed by SIGABRT / SIGSEGV
    Crash(bool),
    Timeout,
}

/// Runs the `n` items of a job file in child processes (restarted after a crash or a watchdog
/// kill); returns what became of every item.
fn run_children(env_key: &str, path: &std::path::Path, n: usize, watchdog_secs: u64) -> Vec<Item> {
    let mut results: Vec<Option<Item>> = (0..n).map(|_| None).collect();
    let mut start = 0;
    let exe = std::env::current_exe().unwrap();
    while start < n {
        let err_path = path.with_extension("stderr");
        let err_file = std::fs::File::create(&err_path).unwrap();
        let mut child = Command::new(&exe)
            .env(env_key, path)
            .env("JJV_C36_START", start.to_string())
            .stdout(Stdio::piped())
            .stderr(Stdio::from(err_file))
            .spawn()
            .unwrap();
        let stdout = child.stdout.take().unwrap();
        let (tx, rx) = mpsc::channel::<String>();
        let reader = std::thread::spawn(move || {
            for line in std::io::BufReader::new(stdout).lines().map_while(Result::ok) {
                if tx.send(line).is_err() {
                    break;
                }
            }
        });
        let mut current: Option<usize> = None;
        let mut crashed: Option<usize> = None;
        let mut next_start = n;
        loop {
            match rx.recv_timeout(Duration::from_secs(watchdog_secs)) {
                Ok(line) => {
                    if let Some(rest) = line.strip_prefix("S ") {
                        current = rest.trim().parse().ok();
                    } else if let Some(rest) = line.strip_prefix("R ") {
                        if let Some((k, payload)) = rest.split_once(' ') {
                            if let Ok(k) = k.parse::<usize>() {
                                if k < n {
                                    results[k] = Some(Item::Done(payload.to_string()));
                                }
                                current = None;
                            }
                        }
                    }
                }
                Err(mpsc::RecvTimeoutError::Timeout) => {
                    let _ = child.kill();
                    if let Some(k) = current {
                        results[k] = Some(Item::Timeout);
                        next_start = k + 1;
                    }
                    break;
                }
                Err(mpsc::RecvTimeoutError::Disconnected) => {
                    // child ended: normally, or it crashed in the middle of item `current`
                    if let Some(k) = current {
                        crashed = Some(k);
                        next_start = k + 1;
                    }
                    break;
                }
            }
        }
        let status = child.wait().ok();
        let _ = reader.join();
        if let Some(k) = crashed {
            use std::os::unix::process::ExitStatusExt as _;
            let sig = status.and_then(|s| s.signal());
            let msg = std::fs::read_to_string(&err_path).unwrap_or_default();
            let overflow = matches!(sig, Some(6) | Some(11)) && msg.contains("has overflowed its stack");
            results[k] = Some(Item::Crash(overflow));
        }
        if next_start == n {
            // a child that died before announcing an item leaves it unprocessed: count the first
            // such item as a crash and go on after it
            if let Some(k) = results.iter().position(|r| r.is_none()) {
                results[k] = Some(Item::Crash(false));
                next_start = k + 1;
            }
        }
        start = next_start;
    }
    results.into_iter().map(|r| r.unwrap_or(Item::Crash(false))).collect()
}

/// Runs all fuzz inputs in child processes; returns the outcome code per input.
fn run_fuzz(inputs: &[(usize, usize, String)], scratch: &std::path::Path) -> Vec<u8> {
    let path = scratch.join("fuzz_inputs.tsv");
    let mut f = std::fs::File::create(&path).unwrap();
    for (lang, aset, text) in inputs {
        writeln!(f, "{lang}\t{aset}\t{}", hex(text)).unwrap();
    }
    drop(f);
    run_children("JJV_C36_CHILD", &path, inputs.len(), 20)
        .into_iter()
        .map(|r| match r {
            Item::Done(p) => p.trim().parse().unwrap_or(3),
            Item::Crash(_) => 3,
            Item::Timeout => 4,
        })
        .collect()
}

fn main() {
    if let Ok(path) = std::env::var("JJV_C36_CHILD") {
        child_main(&path, 0);
        return;
    }
    if let Ok(path) = std::env::var("JJV_C36_ALIAS") {
        child_main(&path, 1);
        return;
    }
    if let Ok(path) = std::env::var("JJV_C36_DEEP") {
        child_main(&path, 2);
        return;
    }
    if let Ok(dir) = std::env::var("JJV_C36_PROBE") {
        // manual probe: every deep form at every depth, with timing
        let path = PathBuf::from(&dir).join("deep_probe.tsv");
        std::fs::create_dir_all(&dir).unwrap();
        let mut jobs = vec![];
        let mut f = std::fs::File::create(&path).unwrap();
        for form in 0..DEEP_FORMS.len() {
            for d in DEEP_DEPTHS {
                writeln!(f, "{form}\t{d}").unwrap();
                jobs.push((form, *d));
            }
        }
        drop(f);
        let items = run_children("JJV_C36_DEEP", &path, jobs.len(), 120);
        for ((form, d), it) in jobs.iter().zip(items) {
            let r = match it {
                Item::Done(p) => p,
                Item::Crash(o) => format!("CRASH overflow={o}"),
                Item::Timeout => "TIMEOUT".to_string(),
            };
            println!("{} {:?} depth {} -> {}", LANGS[DEEP_FORMS[*form].0], DEEP_FORMS[*form], d, r);
        }
        return;
    }
    jjv::run("C36", "C36", |ctx| {
        // ---- fuzz stream: indices with i % 5 >= 3; every case is a batch of FUZZ_BATCH inputs in
        // one language, recorded with the worst outcome of the batch
        const FUZZ_BATCH: usize = 16;
        let mut fuzz_inputs: Vec<(usize, usize, String)> = vec![];
        let mut fuzz_index: Vec<usize> = vec![];
        let mut alias_index: Vec<usize> = vec![];
        let mut deep_index: Vec<usize> = vec![];
        let mut deep_jobs: Vec<(usize, usize)> = vec![];
        for i in ctx.indices() {
            if i % 50 == 49 {
                // deep-nesting stream (2% of the cases): one linear-time form at one depth
                let mut rng = ctx.rng(i);
                let form = rng.usize(DEEP_FORMS.len());
                let depth = *rng.pick(DEEP_DEPTHS);
                deep_jobs.push((form, depth));
                deep_index.push(i);
            } else if i % 5 >= 3 {
                let mut rng = ctx.rng(i);
                let lang = rng.below(3) as usize;
                for _ in 0..FUZZ_BATCH {
                    let aset = rng.below(FUZZ_ALIASES.len() as u64) as usize;
                    fuzz_inputs.push((lang, aset, gen_fuzz_input(lang, &mut rng)));
                }
                fuzz_index.push(i);
            } else {
                alias_index.push(i);
            }
        }
        let scratch = ctx.scratch.clone();
        let outcomes = run_fuzz(&fuzz_inputs, &scratch);
        let mut fuzz_results: HashMap<usize, (usize, usize, u8)> = HashMap::new();
        for (b, i) in fuzz_index.iter().enumerate() {
            let mut worst = 0u8;
            let mut accepted = 0;
            let mut total_len = 0;
            for k in b * FUZZ_BATCH..(b + 1) * FUZZ_BATCH {
                let o = outcomes[k];
                total_len += fuzz_inputs[k].2.len();
                if o == 0 {
                    accepted += 1;
                }
                // severity: panic/crash > timeout > err > ok
                let sev = |x: u8| match x {
                    2 | 3 => 3,
                    4 => 2,
                    1 => 1,
                    _ => 0,
                };
                if sev(o) > sev(worst) {
                    worst = o;
                }
                if o >= 2 {
                    ctx.note(format!(
                        "fuzz case {} input {} ({}; alias set {}): outcome {} text hex {}",
                        i,
                        k - b * FUZZ_BATCH,
                        LANGS[fuzz_inputs[k].0],
                        fuzz_inputs[k].1,
                        o,
                        hex(&fuzz_inputs[k].2)
                    ));
                    if o == 2 || o == 3 {
                        ctx.panicked();
                    }
                }
            }
            // outcome 0 = at least one input accepted and none failed badly; 1 = all rejected
            let code = if worst >= 2 { worst } else if accepted > 0 { 0 } else { 1 };
            fuzz_results.insert(*i, (fuzz_inputs[b * FUZZ_BATCH].0, total_len, code));
        }
        ctx.note("fuzzing part: seeded character soups with hostile snippets, mutated valid expressions, nesting \
                  capped at 8, length capped at 200 bytes, 4 fixed alias sets incl. recursive and ill-formed ones; \
                  child process, catch_unwind, 8 MiB stack, 20 s watchdog per input");
        // ---- deep-nesting stream: child process, fixed 8 MiB stack, 120 s watchdog
        let deep_path = scratch.join("deep_jobs.tsv");
        {
            let mut f = std::fs::File::create(&deep_path).unwrap();
            for (form, depth) in &deep_jobs {
                writeln!(f, "{form}\t{depth}").unwrap();
            }
        }
        let deep_items = run_children("JJV_C36_DEEP", &deep_path, deep_jobs.len(), 120);
        let mut deep_results: HashMap<usize, (usize, usize, u8)> = HashMap::new();
        for ((i, (form, depth)), item) in deep_index.iter().zip(&deep_jobs).zip(deep_items) {
            let code: u8 = match item {
                Item::Done(p) => p.split(' ').next().and_then(|c| c.parse().ok()).unwrap_or(3),
                Item::Crash(true) => 5,
                Item::Crash(false) => 3,
                Item::Timeout => 4,
            };
            if code >= 2 {
                let (lang, pre, core, suf) = DEEP_FORMS[*form];
                ctx.note(format!(
                    "deep case {i} ({}): {:?}*{depth} {:?} {:?}*{depth} -> outcome {code}",
                    LANGS[lang], pre, core, suf
                ));
                if code != 5 || *depth < 500 {
                    ctx.panicked();
                }
            }
            deep_results.insert(*i, (*form, *depth, code));
        }
        ctx.note("deep-nesting part: linear-time forms (fileset/template parenthesis, call and operator towers,                   pattern chains; revset only operator and pattern chains because parenthesis / argument nesting                   is exponential, O1) at depths 50..50000; child process, 8 MiB stack, 120 s watchdog");
        // ---- alias stream: also in a child process (a missing recursion check would overflow the
        // stack, which no catch_unwind can turn into a value)
        let alias_path = scratch.join("alias_jobs.tsv");
        {
            let mut f = std::fs::File::create(&alias_path).unwrap();
            for i in &alias_index {
                writeln!(f, "{i}\t{}", ctx.rng(*i).0).unwrap();
            }
        }
        let alias_items = run_children("JJV_C36_ALIAS", &alias_path, alias_index.len(), 60);
        let mut alias_results: HashMap<usize, Item> = alias_index.iter().copied().zip(alias_items).collect();
        // ---- emission, in index order
        for i in ctx.indices() {
            if let Some((form, depth, o)) = deep_results.get(&i) {
                let (lang, pre, core, suf) = DEEP_FORMS[*form];
                let term = format!(
                    "(CDeep {lang} {} {} {} {depth} {o})",
                    jjv::coq::bytes(pre.as_bytes()),
                    jjv::coq::bytes(core.as_bytes()),
                    jjv::coq::bytes(suf.as_bytes())
                );
                let out = ["ok", "err", "PANIC", "CRASH", "TIMEOUT", "stack-overflow"][(*o).min(5) as usize];
                ctx.count(&format!("deep depth={depth} {out}"));
                ctx.emit(i, term, *depth >= 1000, &format!("deep {} {out}", LANGS[lang]));
                continue;
            }
            if let Some((lang, len, o)) = fuzz_results.get(&i) {
                let term = format!("(CFuzz {lang} {len} {o})");
                let shape =
                    format!("fuzz {} {}", LANGS[*lang], ["ok", "err", "PANIC", "CRASH", "timeout"][(*o).min(4) as usize]);
                ctx.emit(i, term, *o == 0, &shape);
                continue;
            }
            match alias_results.remove(&i) {
                Some(Item::Done(payload)) => {
                    let mut p = payload.splitn(5, '\t');
                    let nontrivial = p.next() == Some("true");
                    let panicked = p.next() == Some("true");
                    let shape = p.next().unwrap_or("alias ?").to_string();
                    let note = p.next().unwrap_or("").to_string();
                    let term = p.next().unwrap_or("(CFuzz 0 0 3)").to_string();
                    if panicked {
                        ctx.panicked();
                    }
                    if !note.is_empty() {
                        ctx.note(note);
                    }
                    ctx.emit(i, term, nontrivial, &shape);
                }
                Some(Item::Timeout) => {
                    ctx.note(format!("alias case {i}: watchdog timeout (60 s)"));
                    ctx.emit(i, "(CFuzz 0 0 4)".to_string(), false, "alias timeout");
                }
                Some(Item::Crash(_)) | None => {
                    ctx.panicked();
                    ctx.note(format!(
                        "alias case {i}: the child process crashed (stack overflow / abort) while parsing or expanding; \
                         replay with --only {i}"
                    ));
                    ctx.emit(i, "(CFuzz 0 0 3)".to_string(), false, "alias CRASH");
                }
            }
        }
    });
}
