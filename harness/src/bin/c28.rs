//! C28: ignore decisions three ways — Gallina model vs jj vs `git check-ignore`.
//!
//! Per case: a small directory tree, a global excludes file, .gitignore files at the root and in
//! sub-directories. jj's answer for FILES is observed through a real snapshot of the directory
//! (auto-track everything, nothing tracked before: a file is ignored iff it is absent from the
//! snapshot's tree), for DIRECTORIES through the public GitIgnoreFile API composed the way the
//! walk composes it (chain_with_file per entered directory, matches_dir on the way down).
//! Git's answer comes from one `git check-ignore --no-index -v -n -z --stdin` run per case.
use std::collections::BTreeSet;
use std::fs;
use std::path::Path;
use std::process::Command;
use std::process::Stdio;
use std::sync::Arc;

use jj_lib::gitignore::GitIgnoreFile;
use jj_lib::local_working_copy::EolConversionMode;
use jj_lib::local_working_copy::ExecChangeSetting;
use jj_lib::local_working_copy::TreeState;
use jj_lib::local_working_copy::TreeStateSettings;
use jj_lib::matchers::EverythingMatcher;
use jj_lib::matchers::NothingMatcher;
use jj_lib::repo::Repo as _;
use jj_lib::repo_path::RepoPath;
use jj_lib::repo_path::RepoPathBuf;
use jj_lib::working_copy::SnapshotOptions;
use jjv::Rng;
use jjv::coq;
use pollster::FutureExt as _;
use testutils::TestRepo;

fn settings() -> TreeStateSettings {
    TreeStateSettings {
        conflict_marker_style: jj_lib::conflicts::ConflictMarkerStyle::Diff,
        eol_conversion_mode: EolConversionMode::None,
        exec_change_setting: ExecChangeSetting::Respect,
        fsmonitor_settings: jj_lib::fsmonitor::FsmonitorSettings::None,
    }
}

const DIRS: &[&str] = &["a", "b", "c"];
const FILES: &[&str] = &["f", "g", "x.o", "y.o", "keep.o", "foo", "ab", "a.b", "#h", "!n", "foo ", "x*y"];

fn any_name(rng: &mut Rng) -> &'static str {
    if rng.chance(1, 3) { *rng.pick(DIRS) } else { *rng.pick(FILES) }
}

/// One ignore-file line.
/// Less usual pattern forms (a third of the generated lines).
const EXOTIC: &[&str] = &[
    "[[:alpha:]]", "[[:digit:]]*", "a\\/f", "**a", "a**", "***", "/**", "**/", "!", "\\", "//a",
    "a//f", "*/", "a/*/", " a", "[a", "[]", "[]]", "[a-]", "[--0]", "[\\]]", "\\[a]", "a\\",
    "a/**/", "**/**", "**/*", "*/**", "a/**b", "a/**/**/f", "**/a/**", "?", "??", "x.o/",
    "/*", "/*/", "!/*", "a/b/../f", "./f", "a/./f", "[!]", "[^]]", "[x-a].o", "[.-x].o", "foo\\  ",
    "\\ ", "#", "\\", "*.o ", "!*.o ", "a/ ", "/ a", "**/.gitignore", ".*", "[.]gitignore",
];

fn pattern_line(rng: &mut Rng) -> String {
    if rng.chance(1, 3) {
        return rng.pick(EXOTIC).to_string();
    }
    let n = any_name(rng);
    let d = *rng.pick(DIRS);
    let d2 = *rng.pick(DIRS);
    let line = match rng.below(45) {
        0 | 1 | 2 => n.to_string(),
        3 => format!("/{n}"),
        4 => format!("{n}/"),
        5 | 6 => format!("{d}/{n}"),
        7 => format!("/{d}/{n}"),
        8 => format!("{d}/"),
        9 => format!("{d}/*"),
        10 | 11 => "*.o".to_string(),
        12 => "!*.o".to_string(),
        13 | 14 => format!("!{n}"),
        15 => "*".to_string(),
        16 => "!*/".to_string(),
        17 => format!("**/{n}"),
        18 => format!("{d}/**"),
        19 => format!("{d}/**/{n}"),
        20 => "**".to_string(),
        21 => "?.o".to_string(),
        22 => "x.?".to_string(),
        23 => "[xy].o".to_string(),
        24 => "[!x].o".to_string(),
        25 => "[a-c]".to_string(),
        26 => "[^a]*".to_string(),
        27 => "\\#h".to_string(),
        28 => "\\!n".to_string(),
        29 => "foo\\ ".to_string(),
        30 => format!("{n}  "),
        31 => "#comment".to_string(),
        32 => String::new(),
        33 => "x**.o".to_string(),
        34 => "*/f".to_string(),
        35 => format!("{d}/*/{n}"),
        36 => format!("**/{d}/"),
        37 => format!("/**/{n}"),
        38 => format!("!{d}/{n}"),
        39 => format!("!/{d}/"),
        40 => "x\\*y".to_string(),
        41 => "*.[oa]".to_string(),
        42 => format!("{d}/{d2}/"),
        43 => format!("{d}/**/{d2}/*"),
        // known finding (globstar-after-literal-prefix): jj and Git disagree on these
        _ => format!("{d}**/{n}"),
    };
    line
}

fn ignore_file(rng: &mut Rng) -> String {
    let mut s = String::new();
    for _ in 0..rng.range(1, 4) {
        s.push_str(&pattern_line(rng));
        s.push('\n');
    }
    if rng.chance(1, 8) {
        // no final newline
        s.pop();
    }
    s
}

fn list_all(root: &Path, rel: &mut Vec<String>, files: &mut Vec<String>, dirs: &mut Vec<String>) {
    let dir = rel.iter().fold(root.to_path_buf(), |p, c| p.join(c));
    let mut names: Vec<_> = fs::read_dir(&dir)
        .unwrap()
        .map(|e| e.unwrap().file_name().into_string().unwrap())
        .collect();
    names.sort();
    for n in names {
        if rel.is_empty() && (n == ".git" || n == ".jj") {
            continue;
        }
        rel.push(n);
        let p = rel.iter().fold(root.to_path_buf(), |p, c| p.join(c));
        if p.symlink_metadata().unwrap().is_dir() {
            dirs.push(rel.join("/"));
            list_all(root, rel, files, dirs);
        } else {
            files.push(rel.join("/"));
        }
        rel.pop();
    }
}

/// Is directory `path` ignored the way the walk decides it: some directory on the way down
/// (including itself) matches_dir under the chain of the directories above it.
fn jj_dir_ignored(root: &Path, base: &Arc<GitIgnoreFile>, path: &str) -> bool {
    let comps: Vec<&str> = path.split('/').collect();
    let mut chain = base.clone();
    let mut disk = root.to_path_buf();
    let mut repo = String::new();
    for (k, c) in comps.iter().enumerate() {
        let dir_repo = RepoPathBuf::from_internal_string(repo.clone()).unwrap();
        chain = chain.chain_with_file(&dir_repo, disk.join(".gitignore")).unwrap();
        if !repo.is_empty() {
            repo.push('/');
        }
        repo.push_str(c);
        disk.push(c);
        let p = RepoPathBuf::from_internal_string(repo.clone()).unwrap();
        if chain.matches_dir(&p) {
            return true;
        }
        let _ = k;
    }
    false
}

fn git_check(root: &Path, excludes: &Path, paths: &[String]) -> Option<Vec<bool>> {
    // a loaded machine occasionally fails to spawn / times out: retry before giving up
    for attempt in 0..4 {
        if let Some(r) = git_check_once(root, excludes, paths) {
            return Some(r);
        }
        std::thread::sleep(std::time::Duration::from_millis(200 * (attempt + 1)));
    }
    None
}

fn git_check_once(root: &Path, excludes: &Path, paths: &[String]) -> Option<Vec<bool>> {
    // paths as arguments: `--stdin` mode of git 2.39 is ~10x slower per invocation
    let out = Command::new("timeout")
        .arg("60")
        .arg("git")
        .arg("-c")
        .arg(format!("core.excludesFile={}", excludes.display()))
        .arg("-c")
        .arg("core.quotePath=false")
        .args(["check-ignore", "--no-index", "-v", "-n", "--"])
        .args(paths)
        .current_dir(root)
        .env("GIT_CONFIG_GLOBAL", "/dev/null")
        .env("GIT_CONFIG_SYSTEM", "/dev/null")
        .env_remove("GIT_DIR")
        .stdin(Stdio::null())
        .stdout(Stdio::piped())
        .stderr(Stdio::null())
        .output()
        .ok()?;
    // lines: <source>:<linenum>:<pattern> TAB <pathname>   (non-matching: "::" TAB <pathname>)
    let text = String::from_utf8(out.stdout).ok()?;
    let lines: Vec<&str> = text.split('\n').filter(|l| !l.is_empty()).collect();
    if lines.len() != paths.len() {
        return None;
    }
    let mut res = vec![];
    for (line, p) in lines.iter().zip(paths) {
        let (left, path) = line.split_once('\t')?;
        if path != p {
            return None;
        }
        let pat = left.splitn(3, ':').nth(2)?;
        res.push(!pat.is_empty() && !pat.starts_with('!'));
    }
    Some(res)
}

struct Outcome {
    index: usize,
    term: String,
    nontrivial: bool,
    shape: String,
    jj_panicked: bool,
    note: Option<String>,
}

fn run_case(i: usize, mut rng: Rng, scratch: &Path, store: &Arc<jj_lib::store::Store>) -> Outcome {
    let mut jj_panicked = false;
    let mut note: Option<String> = None;

    let root = scratch.join(format!("c{i}"));
    fs::create_dir_all(&root).unwrap();
    let excludes = scratch.join(format!("c{i}.excludes"));
    // the tree
    let mut made = BTreeSet::new();
    for _ in 0..rng.range(5, 12) {
        let mut comps: Vec<&str> = vec![];
        for _ in 0..rng.below(4) {
            comps.push(*rng.pick(DIRS));
        }
        let leaf = *rng.pick(FILES);
        let mut p = root.clone();
        let mut ok = true;
        for c in &comps {
            p.push(c);
            match p.symlink_metadata() {
                Ok(md) if md.is_dir() => {}
                Ok(_) => {
                    ok = false;
                    break;
                }
                Err(_) => fs::create_dir(&p).unwrap(),
            }
        }
        if !ok {
            continue;
        }
        p.push(leaf);
        if p.symlink_metadata().is_err() {
            fs::write(&p, b"x").unwrap();
            made.insert(p);
        }
    }
    if rng.chance(1, 3) {
        // an empty directory
        let p = root.join(*rng.pick(DIRS)).join("e");
        if p.parent().unwrap().is_dir() && p.symlink_metadata().is_err() {
            fs::create_dir(&p).unwrap();
        }
    }
    // ignore files
    let base_text = if rng.chance(1, 3) { ignore_file(&mut rng) } else { String::new() };
    fs::write(&excludes, &base_text).unwrap();
    let mut ignore_files: Vec<(String, String)> = vec![];
    let mut candidates = vec![String::new()];
    {
        let (mut f, mut d) = (vec![], vec![]);
        list_all(&root, &mut vec![], &mut f, &mut d);
        candidates.extend(d);
    }
    for (k, dir) in candidates.iter().enumerate() {
        let p = if k == 0 { 4 } else { 2 };
        if rng.below(6) < p {
            let text = ignore_file(&mut rng);
            let path = if dir.is_empty() { root.join(".gitignore") } else { root.join(dir).join(".gitignore") };
            fs::write(path, &text).unwrap();
            ignore_files.push((dir.clone(), text));
        }
    }
    let (mut files, mut dirs) = (vec![], vec![]);
    list_all(&root, &mut vec![], &mut files, &mut dirs);

    let t0 = std::time::Instant::now();
    // git
    // a minimal git repository (cheaper than spawning `git init`)
    fs::create_dir_all(root.join(".git").join("objects")).unwrap();
    fs::create_dir_all(root.join(".git").join("refs")).unwrap();
    fs::write(root.join(".git").join("HEAD"), b"ref: refs/heads/main\n").unwrap();
    let mut all: Vec<(String, bool)> = files.iter().map(|f| (f.clone(), false)).collect();
    all.extend(dirs.iter().map(|d| (d.clone(), true)));
    let git = git_check(&root, &excludes, &all.iter().map(|p| p.0.clone()).collect::<Vec<_>>());

    let t1 = std::time::Instant::now();
    // jj
    let jj = jjv::catch(|| {
        let base = GitIgnoreFile::empty()
            .chain(RepoPath::root(), &excludes, base_text.as_bytes())
            .unwrap();
        let state = root.join(".jj").join("working_copy");
        fs::create_dir_all(&state).unwrap();
        let mut ts = TreeState::init(store.clone(), root.clone(), state, &settings()).unwrap();
        let opts = SnapshotOptions {
            base_ignores: base.clone(),
            progress: None,
            start_tracking_matcher: &EverythingMatcher,
            force_tracking_matcher: &NothingMatcher,
            max_new_file_size: u64::MAX,
        };
        ts.snapshot(&opts).block_on().unwrap();
        let tracked: BTreeSet<String> = ts
            .current_tree()
            .entries()
            .map(|(p, _)| p.as_internal_file_string().to_string())
            .collect();
        all.iter()
            .map(|(p, is_dir)| if *is_dir { jj_dir_ignored(&root, &base, p) } else { !tracked.contains(p) })
            .collect::<Vec<bool>>()
    });
    let t2 = std::time::Instant::now();
    let _ = fs::remove_dir_all(&root);
    let _ = fs::remove_file(&excludes);
    if std::env::var_os("VERIF_DEBUG").is_some() { eprintln!("case {i}: git {:?} jj {:?} rm {:?}", t1 - t0, t2 - t1, t2.elapsed()); }

    let (jj, git, panicked) = match (jj, git) {
        (Some(j), Some(g)) => (j, g, false),
        (j, g) => {
            if j.is_none() {
                jj_panicked = true;
            }
            if g.is_none() {
                note = Some(format!("case {i}: git check-ignore failed"));
            }
            (vec![false; all.len()], vec![false; all.len()], true)
        }
    };
    let queries = coq::list(all.iter().enumerate(), |(k, (p, is_dir))| {
        format!(
            "(mk_query (P \"{}\") {} {} {})",
            p.replace('"', "\"\""),
            coq::b(*is_dir),
            coq::b(jj[k]),
            coq::b(git[k])
        )
    });
    let files_term = coq::list(ignore_files.iter(), |(d, t)| {
        format!("((P \"{d}\"), {})", coq::bytes(t.as_bytes()))
    });
    let term = coq::app(
        "C28.mk_case",
        &[coq::bytes(base_text.as_bytes()), files_term, queries, coq::b(panicked)],
    );
    let n_ignored = jj.iter().filter(|b| **b).count();
    let shape = format!(
        "files={} base={} ignored={}",
        ignore_files.len().min(4),
        !base_text.is_empty(),
        match n_ignored { 0 => "none", n if n == all.len() => "all", _ => "some" }
    );
    Outcome { index: i, term, nontrivial: n_ignored > 0 && n_ignored < all.len(), shape, jj_panicked, note }
}

fn main() {
    jjv::run("C28", "C28", |ctx| {
        unsafe { std::env::set_var("TMPDIR", &ctx.scratch) };
        let test_repo = TestRepo::init();
        let store = test_repo.repo.store().clone();
        let scratch = fs::canonicalize(&ctx.scratch).unwrap();
        // cases are independent: run them on a few threads (most of the time is spent waiting
        // for `git check-ignore`), emit in index order
        let indices = ctx.indices();
        let rngs: Vec<(usize, Rng)> = indices.iter().map(|i| (*i, ctx.rng(*i))).collect();
        let next = std::sync::atomic::AtomicUsize::new(0);
        let results = std::sync::Mutex::new(Vec::<Outcome>::new());
        std::thread::scope(|sc| {
            for _ in 0..8 {
                sc.spawn(|| {
                    loop {
                        let k = next.fetch_add(1, std::sync::atomic::Ordering::SeqCst);
                        if k >= rngs.len() {
                            break;
                        }
                        let (i, rng) = rngs[k].clone();
                        let o = run_case(i, rng, &scratch, &store);
                        results.lock().unwrap().push(o);
                    }
                });
            }
        });
        let mut results = results.into_inner().unwrap();
        results.sort_by_key(|o| o.index);
        for o in results {
            if o.jj_panicked {
                ctx.panicked();
            }
            if let Some(n) = o.note {
                ctx.note(n);
            }
            ctx.emit(o.index, o.term, o.nontrivial, &o.shape);
        }
    });
}
