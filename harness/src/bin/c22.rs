//! C22: changed-path index vs tree diffs.
//!
//! Per case a random history (merges incl. conflicting ones, file/directory replacement,
//! commits that change nothing) is written into a real `TestRepo` while the changed-path
//! index is built at random points with random `max_commits` (first build = enable; later
//! builds extend the pre/post ranges; commits written afterwards are indexed incrementally
//! by `DefaultMutableIndex::add_commit`, one or several per transaction). Recorded: the value
//! of every path of a fixed sorted universe in every commit's tree and in the real
//! `merge_commit_trees(parents)`; the REAL `Index::changed_paths_in_commit` of every commit,
//! `stats().changed_path_commits_range`, and the commits matching `files(m)` for path-set
//! matchers with the index as built and after the index has been removed (`reinit`).
use std::collections::HashMap;
use std::sync::Arc;

use futures::TryStreamExt as _;
use jj_lib::backend::CommitId;
use jj_lib::backend::CopyId;
use jj_lib::backend::TreeValue;
use jj_lib::commit::Commit;
use jj_lib::config::ConfigLayer;
use jj_lib::config::ConfigSource;
use jj_lib::default_index::DefaultIndexStore;
use jj_lib::default_index::DefaultReadonlyIndex;
use jj_lib::fileset::FilesetExpression;
use jj_lib::merge::Merge;
use jj_lib::merged_tree::MergedTree;
use jj_lib::merged_tree_builder::MergedTreeBuilder;
use jj_lib::repo::ReadonlyRepo;
use jj_lib::repo::Repo;
use jj_lib::repo_path::RepoPathBuf;
use jj_lib::revset::ResolvedRevsetExpression;
use jj_lib::revset::RevsetFilterPredicate;
use jj_lib::rewrite::merge_commit_trees;
use jj_lib::settings::UserSettings;
use jjv::coq;
use pollster::FutureExt as _;
use testutils::TestRepo;

const PATHS: [&str; 6] = ["a", "b", "d", "d/x", "d/y", "e"];
const CONTENTS: [&str; 3] = ["1\n", "2\n", "3\n"];

fn settings() -> UserSettings {
    let mut config = testutils::base_user_config();
    config.add_layer(
        ConfigLayer::parse(
            ConfigSource::CommandArg,
            "debug.commit-timestamp = \"2001-02-03T04:05:06+07:00\"\n",
        )
        .unwrap(),
    );
    UserSettings::from_config(config).unwrap()
}

fn path(i: usize) -> RepoPathBuf {
    RepoPathBuf::from_internal_string(PATHS[i]).unwrap()
}

fn listing(repo: &dyn Repo, expr: Arc<ResolvedRevsetExpression>) -> Vec<CommitId> {
    let revset = expr.evaluate(repo).unwrap();
    revset.stream().try_collect().block_on().unwrap()
}

enum Step {
    Commit(usize), // creation number
    Build(u32),
}
enum TStep {
    One(Step),
    Fork(Vec<Step>, Vec<Step>),
}

fn main() {
    jjv::run("C22", "C22", |ctx| {
        // SAFETY: single-threaded at this point.
        unsafe { std::env::set_var("TMPDIR", &ctx.scratch) };
        let settings = settings();
        if std::env::var_os("VERIF_DEBUG").is_some() {
            std::panic::set_hook(Box::new(|info| eprintln!("{info}")));
        }
        for i in ctx.indices() {
            let mut rng = ctx.rng(i);
            let thorough = ctx.tier == "thorough";
            let test_repo = TestRepo::init_with_settings(&settings);
            let mut repo: Arc<ReadonlyRepo> = test_repo.repo.clone();
            let store = repo.store().clone();
            let n_new = rng.range(2, if thorough { 16 } else { 10 }) as usize;
            let mut commits: Vec<Commit> = vec![store.root_commit()];
            let mut parents_of: Vec<Vec<usize>> = vec![vec![]];
            let mut steps: Vec<TStep> = vec![TStep::One(Step::Commit(0))];
            let mut builds = 0;
            let mut merges = 0;
            let mut forks = 0;
            let mut k = 0;
            // writes one commit whose parents are drawn from `allowed` (creation numbers)
            let mut make_commit = |rng: &mut jjv::Rng,
                                   tx: &mut jj_lib::transaction::Transaction,
                                   commits: &mut Vec<Commit>,
                                   parents_of: &mut Vec<Vec<usize>>,
                                   allowed: &[usize],
                                   merges: &mut usize| {
                let k = commits.len();
                let np = if allowed.len() >= 3 && rng.chance(1, 3) { 2 } else { 1 };
                let mut ps: Vec<usize> = vec![];
                let mut tries = 0;
                while ps.len() < np && tries < 20 {
                    tries += 1;
                    let p = if rng.chance(1, 8) { allowed[0] } else { *rng.pick(allowed) };
                    if !ps.contains(&p) {
                        ps.push(p);
                    }
                }
                if ps.len() > 1 {
                    *merges += 1;
                }
                let pcommits: Vec<Commit> = ps.iter().map(|&p| commits[p].clone()).collect();
                let base: MergedTree = merge_commit_trees(tx.repo(), &pcommits).block_on().unwrap();
                let mut builder = MergedTreeBuilder::new(base);
                let n_edits = match rng.below(8) {
                    0 => 0, // changes nothing relative to the (merged) parents
                    1..=4 => 1,
                    5..=6 => 2,
                    _ => 3,
                };
                for _ in 0..n_edits {
                    let p = rng.usize(PATHS.len());
                    if rng.chance(1, 4) {
                        builder.set_or_remove(path(p), Merge::absent());
                    } else {
                        // "d" as a file excludes d/x, d/y and vice versa
                        if p == 2 {
                            builder.set_or_remove(path(3), Merge::absent());
                            builder.set_or_remove(path(4), Merge::absent());
                        } else if p == 3 || p == 4 {
                            builder.set_or_remove(path(2), Merge::absent());
                        }
                        let content: &str = CONTENTS[rng.usize(CONTENTS.len())];
                        let id = testutils::write_file(&store, &path(p), content);
                        builder.set_or_remove(
                            path(p),
                            Merge::resolved(Some(TreeValue::File {
                                id,
                                executable: false,
                                copy_id: CopyId::placeholder(),
                            })),
                        );
                    }
                }
                let tree = builder.write_tree().block_on().unwrap();
                let commit = tx
                    .repo_mut()
                    .new_commit(pcommits.iter().map(|c| c.id().clone()).collect(), tree)
                    .set_description(format!("c{k}"))
                    .write()
                    .block_on()
                    .unwrap();
                commits.push(commit);
                parents_of.push(ps);
            };
            let build_at = |repo: &Arc<ReadonlyRepo>, maxc: u32| -> Arc<ReadonlyRepo> {
                let store_impl: &DefaultIndexStore = repo.index_store().downcast_ref().unwrap();
                store_impl
                    .build_changed_path_index_at_operation(repo.op_id(), repo.store(), maxc, |_| ())
                    .block_on()
                    .unwrap();
                repo.reload_at(repo.operation()).block_on().unwrap()
            };
            while k < n_new {
                // maybe (re)build the changed-path index here
                if rng.chance(1, 4) {
                    let maxc = *rng.pick(&[0u32, 0, 1, 2, 3, 5, u32::MAX, u32::MAX - 1]);
                    repo = build_at(&repo, maxc);
                    steps.push(TStep::One(Step::Build(maxc)));
                    builds += 1;
                }
                if forks == 0 && n_new - k >= 2 && rng.chance(1, 4) {
                    // two concurrent operations from the same state, merged afterwards
                    forks += 1;
                    let n0 = commits.len();
                    let base_allowed: Vec<usize> = (0..n0).collect();
                    let mut sides: Vec<Vec<Step>> = vec![];
                    let mut side_repos: Vec<Arc<ReadonlyRepo>> = vec![];
                    let budget = n_new - k;
                    let na = 1 + rng.usize((budget - 1).min(2));
                    let nb = 1 + rng.usize((budget - na).min(2));
                    for &cnt in &[na, nb] {
                        let mut tx = repo.start_transaction();
                        let mut side: Vec<Step> = vec![];
                        let first_own = commits.len();
                        for _ in 0..cnt {
                            let allowed: Vec<usize> =
                                base_allowed.iter().copied().chain(first_own..commits.len()).collect();
                            make_commit(&mut rng, &mut tx, &mut commits, &mut parents_of, &allowed, &mut merges);
                            side.push(Step::Commit(commits.len() - 1));
                            k += 1;
                        }
                        let side_repo = tx.commit("c22 side").block_on().unwrap();
                        std::thread::sleep(std::time::Duration::from_millis(2));
                        side_repos.push(side_repo);
                        sides.push(side);
                    }
                    // a side may (re)build the index at its own operation before the merge
                    for (x, side_repo) in side_repos.iter().enumerate() {
                        if rng.chance(1, 3) {
                            let maxc = *rng.pick(&[0u32, 1, 3, u32::MAX]);
                            build_at(side_repo, maxc);
                            sides[x].push(Step::Build(maxc));
                            builds += 1;
                        }
                    }
                    repo = test_repo.env.load_repo_at_head(&settings, test_repo.repo_path());
                    let b = sides.pop().unwrap();
                    let a = sides.pop().unwrap();
                    steps.push(TStep::Fork(a, b));
                    continue;
                }
                let batch = (1 + rng.geometric(3) as usize).min(n_new - k);
                let mut tx = repo.start_transaction();
                for _ in 0..batch {
                    k += 1;
                    let allowed: Vec<usize> = (0..commits.len()).collect();
                    make_commit(&mut rng, &mut tx, &mut commits, &mut parents_of, &allowed, &mut merges);
                    steps.push(TStep::One(Step::Commit(commits.len() - 1)));
                }
                repo = tx.commit("c22").block_on().unwrap();
            }
            if rng.chance(1, 3) {
                let maxc = *rng.pick(&[0u32, 1, 2, 4, u32::MAX]);
                repo = build_at(&repo, maxc);
                steps.push(TStep::One(Step::Build(maxc)));
                builds += 1;
            }
            let n = commits.len();
            let num: HashMap<CommitId, usize> =
                commits.iter().enumerate().map(|(x, c)| (c.id().clone(), x)).collect();

            // position = creation order (sequential operations); verified through all()
            let mut order: Vec<usize> = listing(repo.as_ref(), ResolvedRevsetExpression::all())
                .iter()
                .map(|id| num[id])
                .collect();
            order.reverse();
            // position of every commit (creation number -> index position); the two sides of a
            // fork may come out in either order (the operation with the older timestamp is kept)
            let mut pos_of = vec![usize::MAX; n];
            for (p, &x) in order.iter().enumerate() {
                pos_of[x] = p;
            }
            if order.len() != n {
                ctx.note(format!("case {i}: all() lists {} of {n} commits", order.len()));
            }
            for t in steps.iter_mut() {
                if let TStep::Fork(a, b) = t {
                    let first = |side: &Vec<Step>| {
                        side.iter().find_map(|s| if let Step::Commit(x) = s { Some(pos_of[*x]) } else { None })
                    };
                    if first(a) > first(b) {
                        std::mem::swap(a, b);
                        ctx.count("fork sides swapped by operation order");
                    }
                }
            }

            // tree values over the path universe (directories count as absent)
            let mut intern: HashMap<String, u64> = HashMap::new();
            let mut value_of = |tree: &MergedTree, p: usize| -> u64 {
                let v = tree.path_value(&path(p)).block_on().unwrap();
                // absent, a directory, or a directory-level conflict (merged recursively):
                // not a file-level path
                if v.iter().all(|t| matches!(t, None | Some(TreeValue::Tree(_)))) {
                    return 0;
                }
                let key = format!("{v:?}");
                let next = intern.len() as u64 + 1;
                *intern.entry(key).or_insert(next)
            };
            let mut trees: Vec<(Vec<u64>, Vec<u64>)> = vec![];
            let mut conflicts = 0;
            for x in 0..n {
                let t = commits[x].tree();
                let pcommits: Vec<Commit> = parents_of[x].iter().map(|&p| commits[p].clone()).collect();
                let pt: MergedTree = if pcommits.is_empty() {
                    store.empty_merged_tree()
                } else {
                    merge_commit_trees(repo.as_ref(), &pcommits).block_on().unwrap()
                };
                if pt.has_conflict() {
                    conflicts += 1;
                }
                trees.push((
                    (0..PATHS.len()).map(|p| value_of(&t, p)).collect(),
                    (0..PATHS.len()).map(|p| value_of(&pt, p)).collect(),
                ));
            }

            // the implementation's stored sets and range
            let pidx: HashMap<String, usize> =
                PATHS.iter().enumerate().map(|(x, p)| (p.to_string(), x)).collect();
            let stored: Vec<Option<Vec<usize>>> = order
                .iter()
                .map(|&x| &commits[x])
                .map(|c| {
                    repo.index()
                        .changed_paths_in_commit(c.id())
                        .block_on()
                        .unwrap()
                        .map(|paths| paths.map(|p| pidx[p.as_internal_file_string()]).collect())
                })
                .collect();
            let ro: &DefaultReadonlyIndex = repo.readonly_index().downcast_ref().unwrap();
            let range = ro.stats().changed_path_commits_range;

            // matchers and files() evaluations
            let mut matchers: Vec<Vec<usize>> = vec![];
            for _ in 0..3 {
                matchers.push(match rng.below(6) {
                    0 => (0..PATHS.len()).collect(),
                    1 => vec![2, 3, 4], // prefix "d"
                    2 => vec![],
                    _ => (0..PATHS.len()).filter(|_| rng.chance(1, 3)).collect(),
                });
            }
            let fileset = |m: &Vec<usize>| -> FilesetExpression {
                if m.len() == PATHS.len() {
                    FilesetExpression::all()
                } else if *m == vec![2, 3, 4] {
                    FilesetExpression::prefix_path(path(2))
                } else {
                    FilesetExpression::union_all(m.iter().map(|&p| FilesetExpression::file_path(path(p))).collect())
                }
            };
            let eval = |repo: &dyn Repo, m: &Vec<usize>| -> Vec<usize> {
                let expr = ResolvedRevsetExpression::all()
                    .filtered(RevsetFilterPredicate::File(fileset(m)));
                let mut v: Vec<usize> = listing(repo, expr).iter().map(|id| pos_of[num[id]]).collect();
                v.sort();
                v
            };
            let enabled: Vec<Vec<usize>> = matchers.iter().map(|m| eval(repo.as_ref(), m)).collect();
            // remove the index altogether: commit index is rebuilt without changed paths
            let store_impl: &DefaultIndexStore = repo.index_store().downcast_ref().unwrap();
            store_impl.reinit().unwrap();
            let plain = test_repo.env.load_repo_at_head(&settings, test_repo.repo_path());
            let plain_ro: &DefaultReadonlyIndex = plain.readonly_index().downcast_ref().unwrap();
            if plain_ro.stats().changed_path_commits_range.is_some() {
                ctx.note(format!("case {i}: index still enabled after reinit"));
            }
            let disabled: Vec<Vec<usize>> = matchers.iter().map(|m| eval(plain.as_ref(), m)).collect();

            let nl = |v: &[usize]| coq::list(v.iter(), |x| format!("{x}"));
            let step_term = |s: &Step| match s {
                Step::Commit(x) => format!(
                    "(CCommit {} {})",
                    coq::list(trees[*x].0.iter(), |v| format!("{v}")),
                    coq::list(trees[*x].1.iter(), |v| format!("{v}"))
                ),
                Step::Build(m) => format!("(CBuild {m})"),
            };
            let steps_term = coq::list(steps.iter(), |t| match t {
                TStep::One(s) => format!("(CT {})", step_term(s)),
                TStep::Fork(a, b) => format!(
                    "(CF {} {})",
                    coq::list(a.iter(), |s| step_term(s)),
                    coq::list(b.iter(), |s| step_term(s))
                ),
            });
            let term = coq::app(
                "C22.mk_case",
                &[
                    format!("{}", PATHS.len()),
                    steps_term,
                    coq::list(stored.iter(), |s| coq::opt(s.as_ref(), |l| nl(l))),
                    coq::opt(range.as_ref(), |r| format!("({}, {})", r.start, r.end)),
                    coq::list(matchers.iter(), |m| nl(m)),
                    coq::list(enabled.iter(), |m| nl(m)),
                    coq::list(disabled.iter(), |m| nl(m)),
                ],
            );
            let indexed = stored.iter().filter(|s| s.is_some()).count();
            let shape = format!(
                "builds={} forks={} indexed={}",
                builds.min(2),
                forks,
                if indexed == 0 { "none" } else if indexed == n { "all" } else { "part" }
            );
            if conflicts > 0 {
                ctx.count("(cases with a conflicted merged-parents tree)");
            }
            if merges > 0 {
                ctx.count("(cases with merge commits)");
            }
            ctx.emit(i, term, indexed > 0 && n >= 4, &shape);
        }
    });
}
