//! Shared by c18 / c37 / c39 / c20: random commit DAGs in a real `testutils::TestRepo`,
//! deterministic ids, and the index's own position order read back through the public
//! revset API (a revset iterates in descending index position).
#![allow(dead_code)]
use std::collections::HashMap;
use std::sync::Arc;

use jj_lib::backend::ChangeId;
use jj_lib::backend::CommitId;
use jj_lib::commit::Commit;
use jj_lib::config::ConfigLayer;
use jj_lib::config::ConfigSource;
use jj_lib::repo::MutableRepo;
use jj_lib::repo::ReadonlyRepo;
use jj_lib::repo::Repo;
use jj_lib::default_index::DefaultReadonlyIndex;
use jj_lib::revset::ResolvedExpression;
use jj_lib::settings::UserSettings;
use jjv::Rng;
use pollster::FutureExt as _;

/// Settings with a fixed commit timestamp so that commit ids depend on the case only.
/// (Operation timestamps stay real: concurrent operations are merged in the order of their
/// end times, so callers commit them a few milliseconds apart.)
pub fn settings() -> UserSettings {
    let mut config = testutils::base_user_config();
    config.add_layer(
        ConfigLayer::parse(
            ConfigSource::CommandArg,
            "debug.commit-timestamp = \"2001-02-03T04:05:06+07:00\"\n",
        )
        .unwrap(),
    );
    UserSettings::from_config(config).unwrap()
}

/// Temp dirs of `TestRepo` go below the harness scratch dir, never /tmp.
pub fn use_scratch(scratch: &std::path::Path) {
    // SAFETY: called once at start-up before any thread is spawned.
    unsafe { std::env::set_var("TMPDIR", scratch) };
}

/// A DAG shape: `parents[k]` lists earlier node numbers; an empty list means "child of the
/// root commit only".
#[derive(Clone, Debug)]
pub struct Shape {
    pub parents: Vec<Vec<usize>>,
}

/// Random DAG with `n` nodes. `style`: 0 = mixed, 1 = mostly linear (deep), 2 = wide/bushy,
/// 3 = many merges incl. octopus.
pub fn random_shape(rng: &mut Rng, n: usize, style: u64) -> Shape {
    let mut parents: Vec<Vec<usize>> = vec![];
    for k in 0..n {
        if k == 0 {
            parents.push(vec![]);
            continue;
        }
        let roll = rng.below(100);
        let (p_root, p_merge2, p_octo) = match style {
            1 => (2, 8, 2),
            2 => (12, 15, 5),
            3 => (4, 35, 20),
            _ => (6, 22, 8),
        };
        let np = if roll < p_root {
            0
        } else if roll < p_root + p_merge2 {
            2
        } else if roll < p_root + p_merge2 + p_octo {
            3 + rng.below(3) as usize
        } else {
            1
        };
        let np = np.min(k);
        let mut ps: Vec<usize> = vec![];
        let mut tries = 0;
        while ps.len() < np && tries < 50 {
            tries += 1;
            // recent-biased or uniform choice
            let p = if style == 2 || rng.chance(1, 3) {
                rng.usize(k)
            } else {
                let back = 1 + rng.geometric(6) as usize + rng.usize(2);
                k.saturating_sub(back.min(k))
            };
            if !ps.contains(&p) {
                ps.push(p);
            }
        }
        parents.push(ps);
    }
    Shape { parents }
}

pub fn change_id_for(rng: &mut Rng) -> ChangeId {
    let mut b = vec![0u8; 16];
    for x in b.iter_mut() {
        *x = rng.below(256) as u8;
    }
    ChangeId::new(b)
}

/// Writes node `k` of `shape` (its parents must have been written) into `mut_repo`.
pub fn write_node(
    mut_repo: &mut MutableRepo,
    shape: &Shape,
    k: usize,
    commits: &[Commit],
    change_id: ChangeId,
    tag: &str,
) -> Commit {
    let store = mut_repo.store().clone();
    let parent_ids: Vec<CommitId> = if shape.parents[k].is_empty() {
        vec![store.root_commit_id().clone()]
    } else {
        shape.parents[k].iter().map(|&p| commits[p].id().clone()).collect()
    };
    mut_repo
        .new_commit(parent_ids, store.empty_merged_tree())
        .set_change_id(change_id)
        .set_description(format!("{tag} node {k}"))
        .write()
        .block_on()
        .unwrap()
}

/// The readonly index's position order of the `known` commits, ascending (position 0
/// first): the index's own revset walk iterates by descending index position
/// (`DefaultReadonlyIndexRevset::iter_graph_impl`, synchronous).
pub fn index_order(repo: &Arc<ReadonlyRepo>, known: &[CommitId]) -> Vec<CommitId> {
    let index: &DefaultReadonlyIndex = repo.readonly_index().downcast_ref().unwrap();
    let expression = ResolvedExpression::Commits(known.to_vec());
    let revset = index.evaluate_revset_impl(&expression, repo.store()).unwrap();
    let mut ids: Vec<CommitId> =
        revset.iter_graph_impl(false).map(|node| node.unwrap().0).collect();
    ids.reverse();
    assert_eq!(ids.len(), known.len());
    ids
}

/// The same through the public `Revset` trait (works for a `MutableRepo` too): a revset
/// streams its commits by descending index position.
pub fn index_order_dyn(repo: &dyn Repo, known: &[CommitId]) -> Vec<CommitId> {
    use futures::TryStreamExt as _;
    let revset = jj_lib::revset::ResolvedRevsetExpression::commits(known.to_vec())
        .evaluate(repo)
        .unwrap();
    let mut ids: Vec<CommitId> = revset.stream().try_collect().block_on().unwrap();
    ids.reverse();
    assert_eq!(ids.len(), known.len());
    ids
}

/// Graph by positions for the given ascending id order: (parents by position, id -> pos).
pub fn graph_of(repo: &dyn Repo, order: &[CommitId]) -> (Vec<Vec<usize>>, HashMap<CommitId, usize>) {
    let pos: HashMap<CommitId, usize> =
        order.iter().enumerate().map(|(i, id)| (id.clone(), i)).collect();
    let mut g = vec![];
    for id in order {
        let c = repo.store().get_commit(id).unwrap();
        g.push(c.parent_ids().iter().map(|p| pos[p]).collect());
    }
    (g, pos)
}

pub fn coq_graph(g: &[Vec<usize>]) -> String {
    jjv::coq::list(g.iter(), |ps| jjv::coq::list(ps.iter(), |p| format!("{p}")))
}

pub fn coq_nats(xs: &[usize]) -> String {
    jjv::coq::list(xs.iter(), |p| format!("{p}"))
}

/// Ancestor closure (reflexive) over a position graph, for generator guidance only.
pub fn ancestors_of(g: &[Vec<usize>], x: usize) -> Vec<usize> {
    let mut seen = vec![false; g.len()];
    let mut work = vec![x];
    while let Some(y) = work.pop() {
        if seen[y] {
            continue;
        }
        seen[y] = true;
        work.extend(g[y].iter().copied());
    }
    (0..g.len()).filter(|&i| seen[i]).collect()
}

pub fn reload(test_repo: &testutils::TestRepo, settings: &UserSettings) -> Arc<ReadonlyRepo> {
    test_repo.env.load_repo_at_head(settings, test_repo.repo_path())
}

/// One finished case, produced off the main thread.
pub struct CaseOut {
    pub term: String,
    pub nontrivial: bool,
    pub shape: String,
    pub panicked: bool,
}

/// Runs `f` for every case index on a few worker threads (each case is a function of its
/// index alone, so the outcome does not depend on the scheduling) and returns the results in
/// index order. `VERIF_THREADS` overrides the number of workers.
pub fn par_cases(
    ctx: &jjv::Ctx,
    f: impl Fn(&jjv::Ctx, usize) -> CaseOut + Sync,
) -> Vec<(usize, CaseOut)> {
    use std::sync::atomic::AtomicUsize;
    use std::sync::atomic::Ordering;
    let indices = ctx.indices();
    let threads = std::env::var("VERIF_THREADS")
        .ok()
        .and_then(|s| s.parse::<usize>().ok())
        .unwrap_or(8)
        .clamp(1, indices.len().max(1));
    let next = AtomicUsize::new(0);
    let out = std::sync::Mutex::new(Vec::new());
    std::thread::scope(|s| {
        for _ in 0..threads {
            s.spawn(|| {
                loop {
                    let k = next.fetch_add(1, Ordering::SeqCst);
                    if k >= indices.len() {
                        break;
                    }
                    let i = indices[k];
                    let r = f(ctx, i);
                    out.lock().unwrap().push((i, r));
                }
            });
        }
    });
    let mut v = out.into_inner().unwrap();
    v.sort_by_key(|(i, _)| *i);
    v
}
