//! Shared glue for the per-property harness binaries (`src/bin/cXX.rs`).
//!
//! Every binary generates seeded cases, runs the *implementation* (jj built from
//! /repo's working tree with `--cfg jj_vcs_jj_verif`) on each, and emits one Coq
//! term per case (`Model.Cxx.case`: input + implementation output). The `check`
//! driver has the Coq VM evaluate `Cxx.check_case` (model-vs-implementation and the
//! proved property checker) on them.
use std::collections::BTreeMap;
use std::collections::HashSet;
use std::fmt::Write as _;
use std::hash::Hash;
use std::hash::Hasher;
use std::path::PathBuf;

/// SplitMix64: the only source of randomness in the harness.
#[derive(Clone, Debug)]
pub struct Rng(pub u64);

impl Rng {
    pub fn new(seed: u64) -> Self {
        Rng(seed)
    }
    pub fn next_u64(&mut self) -> u64 {
        self.0 = self.0.wrapping_add(0x9E3779B97F4A7C15);
        let mut z = self.0;
        z = (z ^ (z >> 30)).wrapping_mul(0xBF58476D1CE4E5B9);
        z = (z ^ (z >> 27)).wrapping_mul(0x94D049BB133111EB);
        z ^ (z >> 31)
    }
    /// Uniform in `0..n` (n > 0).
    pub fn below(&mut self, n: u64) -> u64 {
        self.next_u64() % n
    }
    pub fn range(&mut self, lo: u64, hi_incl: u64) -> u64 {
        lo + self.below(hi_incl - lo + 1)
    }
    pub fn usize(&mut self, n: usize) -> usize {
        self.below(n as u64) as usize
    }
    pub fn chance(&mut self, num: u64, den: u64) -> bool {
        self.below(den) < num
    }
    pub fn pick<'a, T>(&mut self, xs: &'a [T]) -> &'a T {
        &xs[self.usize(xs.len())]
    }
    /// Geometric-ish small number: 0 with prob 1/2, 1 with 1/4 ... capped.
    pub fn geometric(&mut self, cap: u64) -> u64 {
        let mut k = 0;
        while k < cap && self.chance(1, 2) {
            k += 1;
        }
        k
    }
    pub fn shuffle<T>(&mut self, xs: &mut [T]) {
        for i in (1..xs.len()).rev() {
            let j = self.usize(i + 1);
            xs.swap(i, j);
        }
    }
}

fn mix(a: u64, b: u64) -> u64 {
    let mut r = Rng(a ^ b.wrapping_mul(0xD6E8FEB86659FD93));
    r.next_u64()
}

pub struct Ctx {
    pub prop: String,
    pub seed: u64,
    pub n: usize,
    pub tier: String,
    pub only: Option<usize>,
    pub out: PathBuf,
    pub scratch: PathBuf,
    cases: Vec<(usize, String)>,
    distinct: HashSet<u64>,
    distinct_nontrivial: HashSet<u64>,
    shapes: BTreeMap<String, u64>,
    samples: Vec<String>,
    notes: Vec<String>,
    panics: u64,
}

impl Ctx {
    /// Per-case generator state, a function of (seed, property, index) only.
    pub fn rng(&self, index: usize) -> Rng {
        let mut h = 0xcbf29ce484222325u64;
        for b in self.prop.bytes() {
            h = (h ^ b as u64).wrapping_mul(0x100000001b3);
        }
        Rng(mix(mix(self.seed, h), index as u64))
    }
    /// Indices to run: `0..n`, or the single replayed index.
    pub fn indices(&self) -> Vec<usize> {
        match self.only {
            Some(i) => vec![i],
            None => (0..self.n).collect(),
        }
    }
    /// Record one case as a Coq term of type `Model.Cxx.case`.
    pub fn emit(&mut self, index: usize, term: String, nontrivial: bool, shape: &str) {
        let mut h = std::collections::hash_map::DefaultHasher::new();
        term.hash(&mut h);
        let k = h.finish();
        self.distinct.insert(k);
        if nontrivial {
            self.distinct_nontrivial.insert(k);
        }
        *self.shapes.entry(shape.to_string()).or_insert(0) += 1;
        if self.samples.len() < 3 && nontrivial && term.len() < 600 {
            self.samples.push(term.clone());
        }
        self.cases.push((index, term));
    }
    pub fn count(&mut self, shape: &str) {
        *self.shapes.entry(shape.to_string()).or_insert(0) += 1;
    }
    pub fn note(&mut self, s: impl Into<String>) {
        self.notes.push(s.into());
    }
    pub fn panicked(&mut self) {
        self.panics += 1;
    }
}

fn json_str(s: &str) -> String {
    let mut o = String::from("\"");
    for c in s.chars() {
        match c {
            '"' => o.push_str("\\\""),
            '\\' => o.push_str("\\\\"),
            '\n' => o.push_str("\\n"),
            '\r' => o.push_str("\\r"),
            '\t' => o.push_str("\\t"),
            c if (c as u32) < 0x20 => write!(o, "\\u{:04x}", c as u32).unwrap(),
            c => o.push(c),
        }
    }
    o.push('"');
    o
}

/// Entry point of every binary.
pub fn run(prop: &str, model_module: &str, body: impl FnOnce(&mut Ctx)) {
    let mut seed = 0u64;
    let mut n = 200usize;
    let mut tier = "quick".to_string();
    let mut only = None;
    let mut out = PathBuf::from(".");
    let mut shards = 8usize;
    let mut args = std::env::args().skip(1);
    while let Some(a) = args.next() {
        let mut val = || args.next().expect("missing value");
        match a.as_str() {
            "--seed" => seed = val().parse().unwrap(),
            "--n" => n = val().parse().unwrap(),
            "--tier" => tier = val(),
            "--only" => only = Some(val().parse().unwrap()),
            "--out" => out = PathBuf::from(val()),
            "--shards" => shards = val().parse().unwrap(),
            other => panic!("unknown argument {other}"),
        }
    }
    std::fs::create_dir_all(&out).unwrap();
    let scratch = out.join("scratch");
    let _ = std::fs::remove_dir_all(&scratch);
    std::fs::create_dir_all(&scratch).unwrap();
    let mut ctx = Ctx {
        prop: prop.to_string(),
        seed,
        n,
        tier,
        only,
        out: out.clone(),
        scratch: scratch.clone(),
        cases: vec![],
        distinct: HashSet::new(),
        distinct_nontrivial: HashSet::new(),
        shapes: BTreeMap::new(),
        samples: vec![],
        notes: vec![],
        panics: 0,
    };
    // Panics inside jj are values, not harness crashes; keep stderr quiet.
    std::panic::set_hook(Box::new(|_| {}));
    body(&mut ctx);
    let _ = std::fs::remove_dir_all(&scratch);

    // Shard the cases over `shards` Coq files, 25 cases per `Eval`.
    let shards = shards.max(1).min(ctx.cases.len().max(1));
    let per = ctx.cases.len().div_ceil(shards).max(1);
    for (k, shard) in ctx.cases.chunks(per).enumerate() {
        let mut s = String::new();
        writeln!(s, "From Verif Require Import Base.Prelude Model.{model_module}.").unwrap();
        writeln!(s, "Import ListNotations. Local Open Scope N_scope.").unwrap();
        for chunk in shard.chunks(25) {
            writeln!(s, "Eval vm_compute in (check_chunk {model_module}.check_case [").unwrap();
            for (j, (idx, term)) in chunk.iter().enumerate() {
                let sep = if j + 1 == chunk.len() { "" } else { ";" };
                writeln!(s, " ({idx}, {term}){sep}").unwrap();
            }
            writeln!(s, "]).").unwrap();
        }
        std::fs::write(out.join(format!("cases_{k}.v")), s).unwrap();
    }
    let mut tsv = String::new();
    for (idx, term) in &ctx.cases {
        writeln!(tsv, "{idx}\t{}", term.replace('\n', " ")).unwrap();
    }
    std::fs::write(out.join("cases.tsv"), tsv).unwrap();
    let mut j = String::new();
    write!(
        j,
        "{{\"property\":{},\"seed\":{},\"n\":{},\"cases\":{},\"distinct\":{},\"distinct_nontrivial\":{},\"panics\":{},\"shapes\":{{",
        json_str(prop),
        seed,
        n,
        ctx.cases.len(),
        ctx.distinct.len(),
        ctx.distinct_nontrivial.len(),
        ctx.panics
    )
    .unwrap();
    for (i, (k, v)) in ctx.shapes.iter().enumerate() {
        if i > 0 {
            j.push(',');
        }
        write!(j, "{}:{}", json_str(k), v).unwrap();
    }
    j.push_str("},\"samples\":[");
    for (i, s) in ctx.samples.iter().enumerate() {
        if i > 0 {
            j.push(',');
        }
        j.push_str(&json_str(s));
    }
    j.push_str("],\"notes\":[");
    for (i, s) in ctx.notes.iter().enumerate() {
        if i > 0 {
            j.push(',');
        }
        j.push_str(&json_str(s));
    }
    j.push_str("]}");
    std::fs::write(out.join("stats.json"), j).unwrap();
}

/// Path of the `jj` executable built by this harness crate from /repo's working tree
/// (`src/bin/jjbin.rs`). Properties that drive the CLI must list "jjbin" under
/// "extra_bins" in props/Cxx.json so that `./check` rebuilds it.
pub fn jj_bin_path() -> PathBuf {
    let exe = std::env::current_exe().expect("current_exe");
    exe.parent().expect("bin dir").join("jjbin")
}

/// Run `f`, turning a panic into `None`.
pub fn catch<T>(f: impl FnOnce() -> T) -> Option<T> {
    std::panic::catch_unwind(std::panic::AssertUnwindSafe(f)).ok()
}

// ---------------------------------------------------------------- Coq term printers

pub mod coq {
    use std::fmt::Write as _;

    pub fn n(x: u64) -> String {
        format!("{x}")
    }
    pub fn z(x: i64) -> String {
        if x < 0 {
            format!("({x})%Z")
        } else {
            format!("{x}%Z")
        }
    }
    pub fn b(x: bool) -> String {
        if x { "true".into() } else { "false".into() }
    }
    pub fn list<T>(xs: impl IntoIterator<Item = T>, f: impl Fn(T) -> String) -> String {
        let mut s = String::from("[");
        for (i, x) in xs.into_iter().enumerate() {
            if i > 0 {
                s.push_str("; ");
            }
            s.push_str(&f(x));
        }
        s.push(']');
        s
    }
    pub fn opt<T>(x: Option<T>, f: impl Fn(T) -> String) -> String {
        match x {
            None => "None".into(),
            Some(v) => format!("(Some {})", f(v)),
        }
    }
    pub fn pair(a: String, b: String) -> String {
        format!("({a}, {b})")
    }
    /// Byte string as `(hex "0a1b…")` (decoded by `Prelude.hex` to `list N`).
    pub fn bytes(xs: &[u8]) -> String {
        let mut s = String::with_capacity(xs.len() * 2 + 8);
        s.push_str("(hex \"");
        for x in xs {
            write!(s, "{x:02x}").unwrap();
        }
        s.push_str("\")");
        s
    }
    /// Constructor application.
    pub fn app(ctor: &str, args: &[String]) -> String {
        let mut s = format!("({ctor}");
        for a in args {
            s.push(' ');
            s.push_str(a);
        }
        s.push(')');
        s
    }
}
