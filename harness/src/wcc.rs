//! Shared by the checkout-side working-copy binaries (c24, c25, c27):
//! driving the real `LocalWorkingCopy` through `testutils::TestWorkspace`, full recursive
//! disk listings, tree <-> plain-data conversion, generators and Coq printers.
//! Included with `#[path = "../wcc.rs"] mod wcc;`.
#![allow(dead_code)]
use std::collections::BTreeMap;
use std::os::unix::fs::PermissionsExt as _;
use std::path::Path;
use std::path::PathBuf;

use futures::stream::StreamExt as _;
use jj_lib::backend::TreeValue;
use jj_lib::local_working_copy::LocalWorkingCopy;
use jj_lib::matchers::Matcher;
use jj_lib::matchers::PrefixMatcher;
use jj_lib::backend::MergedTreeValue;
use jj_lib::merged_tree::MergedTree;
use jj_lib::repo::Repo as _;
use jj_lib::repo_path::RepoPath;
use jj_lib::repo_path::RepoPathBuf;
use jj_lib::store::Store;
use jj_lib::working_copy::CheckoutError;
use jj_lib::working_copy::CheckoutStats;
use jjv::Rng;
use pollster::FutureExt as _;
use testutils::TestTreeBuilder;
use testutils::TestWorkspace;
use testutils::commit_with_tree;

/// A repo path as its components.
pub type P = Vec<String>;

#[derive(Clone, Debug, PartialEq, Eq)]
pub enum TVal {
    File(String, bool),
    Sym(String),
}
/// Flat tree; `BTreeMap<Vec<String>, _>` iterates in `RepoPath` order (component-wise).
pub type Tree = BTreeMap<P, TVal>;

#[derive(Clone, Debug, PartialEq, Eq)]
pub enum Node {
    File(Vec<u8>, bool),
    Sym(String),
    Dir,
}
pub type Disk = BTreeMap<P, Node>;

pub fn to_repo_path(p: &P) -> RepoPathBuf {
    RepoPathBuf::from_internal_string(p.join("/")).expect("valid repo path")
}

pub fn from_repo_path(p: &RepoPath) -> P {
    p.components().map(|c| c.as_internal_str().to_string()).collect()
}

pub fn disk_path(root: &Path, p: &P) -> PathBuf {
    let mut r = root.to_path_buf();
    for c in p {
        r.push(c);
    }
    r
}

// ------------------------------------------------------------------ trees

pub fn write_tree(store: &std::sync::Arc<Store>, t: &Tree) -> MergedTree {
    let mut b = TestTreeBuilder::new(store.clone());
    for (p, v) in t {
        let rp = to_repo_path(p);
        match v {
            TVal::File(c, x) => {
                b.file(&rp, c.as_bytes()).executable(*x);
            }
            TVal::Sym(target) => b.symlink(&rp, target),
        }
    }
    b.write_merged_tree()
}

fn tval_of(store: &Store, path: &RepoPath, v: &TreeValue) -> Option<TVal> {
    match v {
        TreeValue::File { id, executable, .. } => {
            let bytes = testutils::read_file(store, path, id);
            Some(TVal::File(String::from_utf8(bytes).ok()?, *executable))
        }
        TreeValue::Symlink(id) => Some(TVal::Sym(store.read_symlink(path, id).block_on().ok()?)),
        _ => None,
    }
}

/// `Some(None)` = absent, `Some(Some(v))` = resolved file/symlink, `None` = anything else
/// (conflict, tree, submodule) which this harness never generates.
pub fn merged_value(store: &Store, path: &RepoPath, v: &MergedTreeValue) -> Option<Option<TVal>> {
    match v.as_resolved() {
        Some(None) => Some(None),
        Some(Some(tv)) => tval_of(store, path, tv).map(Some),
        None => None,
    }
}

/// Reads a real tree back as plain data; `None` if it contains anything but resolved
/// files and symlinks.
pub fn read_tree(tree: &MergedTree) -> Option<Tree> {
    let store = tree.store().clone();
    let mut out = Tree::new();
    for (path, value) in tree.entries() {
        let value = value.ok()?;
        let v = merged_value(&store, &path, &value)??;
        out.insert(from_repo_path(&path), v);
    }
    Some(out)
}

pub type DiffEntry = (P, Option<TVal>, Option<TVal>);

/// The real `diff_stream_for_file_system` order between two trees under a matcher.
pub fn real_diff(t1: &MergedTree, t2: &MergedTree, matcher: &dyn Matcher) -> Option<Vec<DiffEntry>> {
    let store = t1.store().clone();
    let mut out = vec![];
    let mut stream = t1.diff_stream_for_file_system(t2, matcher);
    while let Some(entry) = stream.next().block_on() {
        let diff = entry.values.ok()?;
        let b = merged_value(&store, &entry.path, &diff.before)?;
        let a = merged_value(&store, &entry.path, &diff.after)?;
        out.push((from_repo_path(&entry.path), b, a));
    }
    Some(out)
}

pub fn prefix_matcher(patterns: &[P]) -> PrefixMatcher {
    PrefixMatcher::new(patterns.iter().map(to_repo_path).collect::<Vec<_>>())
}

// ------------------------------------------------------------------ disk

fn list_rec(dir: &Path, prefix: &P, out: &mut Disk) {
    let mut names: Vec<_> = std::fs::read_dir(dir)
        .map(|rd| rd.filter_map(|e| e.ok()).map(|e| e.file_name()).collect())
        .unwrap_or_default();
    names.sort();
    for name in names {
        let s = name.to_string_lossy().to_string();
        let mut p = prefix.clone();
        p.push(s.clone());
        let full = dir.join(&name);
        let Ok(md) = full.symlink_metadata() else { continue };
        let ft = md.file_type();
        if ft.is_symlink() {
            let target = std::fs::read_link(&full).map(|t| t.to_string_lossy().to_string()).unwrap_or_default();
            out.insert(p, Node::Sym(target));
        } else if ft.is_dir() {
            out.insert(p.clone(), Node::Dir);
            if prefix.is_empty() && s == ".jj" {
                // jj's own directory: only its direct children, as opaque directories
                // (their contents legitimately change with every saved state)
                let mut kids: Vec<_> = std::fs::read_dir(&full)
                    .map(|rd| rd.filter_map(|e| e.ok()).map(|e| e.file_name()).collect())
                    .unwrap_or_default();
                kids.sort();
                for k in kids {
                    let mut q = p.clone();
                    q.push(k.to_string_lossy().to_string());
                    out.insert(q, Node::Dir);
                }
            } else {
                list_rec(&full, &p, out);
            }
        } else {
            let bytes = std::fs::read(&full).unwrap_or_default();
            let exec = md.permissions().mode() & 0o111 != 0;
            out.insert(p, Node::File(bytes, exec));
        }
    }
}

/// Full recursive listing (type, bytes, exec bit, link target) below `root`.
pub fn list_disk(root: &Path) -> Disk {
    let mut out = Disk::new();
    list_rec(root, &vec![], &mut out);
    out
}

/// One disk edit performed by the harness between checkouts (untracked obstacles,
/// user modifications). Failures are ignored: the listing afterwards is the input.
#[derive(Clone, Debug)]
pub enum Edit {
    WriteFile(P, String, bool),
    MkDir(P),
    Symlink(P, String),
    Remove(P),
}

pub fn remove_any(full: &Path) {
    if let Ok(md) = full.symlink_metadata() {
        if md.file_type().is_dir() {
            let _ = std::fs::remove_dir_all(full);
        } else {
            let _ = std::fs::remove_file(full);
        }
    }
}

/// Makes sure the parent of `p` is a chain of real directories, replacing whatever is
/// in the way. Never follows symlinks. Refuses to work inside `.jj`.
fn force_parent_dirs(root: &Path, p: &P) -> bool {
    let mut cur = root.to_path_buf();
    for c in &p[..p.len() - 1] {
        if c == "." || c == ".." || c.is_empty() {
            return false;
        }
        cur.push(c);
        match cur.symlink_metadata() {
            Ok(md) if md.file_type().is_dir() => {}
            Ok(_) => {
                let _ = std::fs::remove_file(&cur);
                if std::fs::create_dir(&cur).is_err() {
                    return false;
                }
            }
            Err(_) => {
                if std::fs::create_dir(&cur).is_err() {
                    return false;
                }
            }
        }
    }
    true
}

pub fn apply_edit(root: &Path, e: &Edit) {
    let p = match e {
        Edit::WriteFile(p, ..) | Edit::MkDir(p) | Edit::Symlink(p, _) | Edit::Remove(p) => p,
    };
    if p.is_empty() || p[0] == ".jj" || p.iter().any(|c| c == "." || c == ".." || c.is_empty()) {
        return;
    }
    let full = disk_path(root, p);
    match e {
        Edit::Remove(_) => {
            // only if reachable through real directories
            let mut cur = root.to_path_buf();
            for c in &p[..p.len() - 1] {
                cur.push(c);
                if !cur.symlink_metadata().map(|m| m.file_type().is_dir()).unwrap_or(false) {
                    return;
                }
            }
            remove_any(&full);
        }
        Edit::WriteFile(_, c, x) => {
            if !force_parent_dirs(root, p) {
                return;
            }
            remove_any(&full);
            if std::fs::write(&full, c.as_bytes()).is_ok() {
                let mode = if *x { 0o755 } else { 0o644 };
                let _ = std::fs::set_permissions(&full, std::fs::Permissions::from_mode(mode));
            }
        }
        Edit::MkDir(_) => {
            if !force_parent_dirs(root, p) {
                return;
            }
            if !full.symlink_metadata().map(|m| m.file_type().is_dir()).unwrap_or(false) {
                remove_any(&full);
                let _ = std::fs::create_dir(&full);
            }
        }
        Edit::Symlink(_, target) => {
            if !force_parent_dirs(root, p) {
                return;
            }
            remove_any(&full);
            let _ = std::os::unix::fs::symlink(target, &full);
        }
    }
}

// ------------------------------------------------------------------ generators

pub const NAMES: &[&str] = &["a", "b", "c", "d"];
pub const ODD_NAMES: &[&str] = &[".git", ".jj", "..", ".", "a.b", ".gitx", "B"];
pub const CONTENTS: &[&str] = &["", "x", "y", "zz"];
pub const TARGETS: &[&str] = &["a", "b/c", "nowhere", "../outside", "."];

pub fn gen_name(rng: &mut Rng, odd: u64) -> String {
    if odd > 0 && rng.chance(odd, 100) {
        rng.pick(ODD_NAMES).to_string()
    } else {
        rng.pick(NAMES).to_string()
    }
}

pub fn gen_path(rng: &mut Rng, odd: u64) -> P {
    let depth = 1 + rng.geometric(2) as usize + if rng.chance(1, 8) { 1 } else { 0 };
    (0..depth).map(|_| gen_name(rng, odd)).collect()
}

pub fn gen_tval(rng: &mut Rng) -> TVal {
    if rng.chance(1, 5) {
        TVal::Sym(rng.pick(TARGETS).to_string())
    } else {
        TVal::File(rng.pick(CONTENTS).to_string(), rng.chance(1, 4))
    }
}

pub fn is_prefix(a: &P, b: &P) -> bool {
    a.len() <= b.len() && a[..] == b[..a.len()]
}

/// Inserts `p` unless it would make a path both a file and a directory.
pub fn tree_insert(t: &mut Tree, p: P, v: TVal) -> bool {
    if t.keys().any(|q| q != &p && (is_prefix(q, &p) || is_prefix(&p, q))) {
        return false;
    }
    t.insert(p, v);
    true
}

pub fn gen_tree(rng: &mut Rng, odd: u64) -> Tree {
    let n = rng.below(3) + rng.geometric(5);
    let mut t = Tree::new();
    for _ in 0..n {
        let p = gen_path(rng, odd);
        let v = gen_tval(rng);
        tree_insert(&mut t, p, v);
    }
    t
}

/// A second tree related to the first: deletions, content / exec-bit / target changes,
/// file<->directory replacements in both directions, additions.
pub fn mutate_tree(rng: &mut Rng, t1: &Tree, odd: u64) -> Tree {
    if rng.chance(1, 10) {
        return gen_tree(rng, odd);
    }
    let mut t = t1.clone();
    let steps = 1 + rng.geometric(4);
    for _ in 0..steps {
        let keys: Vec<P> = t.keys().cloned().collect();
        match rng.below(9) {
            0 | 1 if !keys.is_empty() => {
                t.remove(rng.pick(&keys));
            }
            8 if !keys.is_empty() => {
                // rename within the same directory: the parent is pruned and needed again
                let k = rng.pick(&keys).clone();
                if let Some(v) = t.remove(&k) {
                    let mut q = k.clone();
                    q.pop();
                    q.push(gen_name(rng, odd));
                    if !tree_insert(&mut t, q, v.clone()) {
                        t.insert(k, v);
                    }
                }
            }
            2 if !keys.is_empty() => {
                // change value in place (content, exec flip, retarget, file<->symlink)
                let k = rng.pick(&keys).clone();
                let new = match (&t[&k], rng.below(3)) {
                    (TVal::File(c, x), 0) => TVal::File(c.clone(), !x),
                    (TVal::Sym(_), 0) => TVal::Sym(rng.pick(TARGETS).to_string()),
                    _ => gen_tval(rng),
                };
                t.insert(k, new);
            }
            3 if !keys.is_empty() => {
                // file -> directory: p becomes p/x (and maybe p/y/z)
                let k = rng.pick(&keys).clone();
                t.remove(&k);
                let mut q = k.clone();
                q.push(gen_name(rng, odd));
                if rng.chance(1, 3) {
                    q.push(gen_name(rng, odd));
                }
                let v = gen_tval(rng);
                tree_insert(&mut t, q, v);
                if rng.chance(1, 3) {
                    let mut q2 = k.clone();
                    q2.push(gen_name(rng, odd));
                    let v = gen_tval(rng);
                    tree_insert(&mut t, q2, v);
                }
            }
            4 if !keys.is_empty() => {
                // directory -> file: a proper prefix of some path becomes a leaf
                let k = rng.pick(&keys).clone();
                if k.len() >= 2 {
                    let cut = 1 + rng.usize(k.len() - 1);
                    let d: P = k[..cut].to_vec();
                    let gone: Vec<P> = t.keys().filter(|q| is_prefix(&d, q)).cloned().collect();
                    for q in gone {
                        t.remove(&q);
                    }
                    let v = gen_tval(rng);
                    tree_insert(&mut t, d, v);
                }
            }
            _ => {
                let p = gen_path(rng, odd);
                let v = gen_tval(rng);
                tree_insert(&mut t, p, v);
            }
        }
    }
    t
}

/// Disk edits aimed at the places where the two trees differ: untracked files,
/// directories and symlinked directories in the way at every depth, deleted or replaced
/// tracked files, exec flips; plus a few at random paths. `outside_rel(depth)` gives the
/// relative link target reaching the sentinel directory outside the workspace.
pub fn gen_edits(rng: &mut Rng, t1: &Tree, t2: &Tree, intensity: u64) -> Vec<Edit> {
    let mut interesting: Vec<P> = vec![];
    for p in t1.keys().chain(t2.keys()) {
        for k in 1..=p.len() {
            interesting.push(p[..k].to_vec());
        }
        if rng.chance(1, 6) {
            let mut q = p.clone();
            q.push(rng.pick(NAMES).to_string());
            interesting.push(q);
        }
    }
    interesting.sort();
    interesting.dedup();
    let n = if intensity == 0 { 0 } else { rng.below(intensity) + rng.geometric(3) };
    let mut edits = vec![];
    for _ in 0..n {
        let p = if !interesting.is_empty() && rng.chance(4, 5) {
            rng.pick(&interesting).clone()
        } else {
            gen_path(rng, 10)
        };
        let depth = p.len();
        let e = match rng.below(10) {
            0 | 1 | 2 => Edit::WriteFile(p, rng.pick(&["u", "x", ""]).to_string(), rng.chance(1, 5)),
            3 | 4 => Edit::MkDir(p),
            5 => Edit::Symlink(p, outside_rel(depth)),
            6 => Edit::Symlink(p, rng.pick(&["a", "b", ".", "..", "nowhere", ".jj", ".git"]).to_string()),
            7 | 8 => Edit::Remove(p),
            _ => {
                // directory with something untracked inside
                let mut q = p.clone();
                q.push("u".to_string());
                Edit::WriteFile(q, "u".to_string(), false)
            }
        };
        edits.push(e);
    }
    edits
}

/// Link target reaching `<env root>/outside` from a link at depth `depth` inside
/// `<env root>/repo`.
pub fn outside_rel(depth: usize) -> String {
    let mut s = String::new();
    for _ in 0..depth {
        s.push_str("../");
    }
    s.push_str("outside");
    s
}

pub fn gen_sparse(rng: &mut Rng, t1: &Tree, t2: &Tree) -> Vec<P> {
    let mut cands: Vec<P> = vec![];
    for p in t1.keys().chain(t2.keys()) {
        for k in 1..=p.len() {
            cands.push(p[..k].to_vec());
        }
    }
    for n in NAMES {
        cands.push(vec![n.to_string()]);
    }
    cands.sort();
    cands.dedup();
    let n = rng.below(4);
    let mut out: Vec<P> = vec![];
    if rng.chance(1, 6) {
        out.push(vec![]);
    }
    for _ in 0..n {
        out.push(rng.pick(&cands).clone());
    }
    out.sort();
    out.dedup();
    out
}

// ------------------------------------------------------------------ the real working copy

pub struct Ws {
    pub tw: TestWorkspace,
    pub root: PathBuf,
    pub outside: PathBuf,
}

pub const SENTINEL: &str = "keep";

impl Ws {
    /// Fresh workspace `<tmp>/repo` with a sentinel directory `<tmp>/outside` next to it.
    pub fn new() -> Ws {
        let tw = TestWorkspace::init();
        let root = tw.workspace.workspace_root().to_owned();
        let outside = tw.env.root().join("outside");
        std::fs::create_dir(&outside).unwrap();
        std::fs::write(outside.join(SENTINEL), b"sentinel").unwrap();
        Ws { tw, root, outside }
    }

    pub fn with_settings(settings: &jj_lib::settings::UserSettings) -> Ws {
        let tw = TestWorkspace::init_with_settings(settings);
        let root = tw.workspace.workspace_root().to_owned();
        let outside = tw.env.root().join("outside");
        std::fs::create_dir(&outside).unwrap();
        std::fs::write(outside.join(SENTINEL), b"sentinel").unwrap();
        Ws { tw, root, outside }
    }

    pub fn store(&self) -> std::sync::Arc<Store> {
        self.tw.repo.store().clone()
    }

    /// Everything outside the workspace that a checkout could reach through a symlink:
    /// the sentinel directory and the names next to the workspace root.
    pub fn outside_listing(&self) -> (Disk, Vec<String>) {
        let mut names: Vec<String> = std::fs::read_dir(self.tw.env.root())
            .map(|rd| rd.filter_map(|e| e.ok()).map(|e| e.file_name().to_string_lossy().to_string()).collect())
            .unwrap_or_default();
        names.sort();
        (list_disk(&self.outside), names)
    }

    pub fn check_out(&mut self, tree: &MergedTree) -> Option<Result<CheckoutStats, CheckoutError>> {
        let commit = commit_with_tree(self.tw.repo.store(), tree.clone());
        let op_id = self.tw.repo.op_id().clone();
        let ws = &mut self.tw.workspace;
        jjv::catch(|| ws.check_out(op_id, None, &commit).block_on())
    }

    /// Sets the working-copy tree without touching the disk (`LockedWorkingCopy::reset`).
    pub fn reset(&mut self, tree: &MergedTree) -> bool {
        let commit = commit_with_tree(self.tw.repo.store(), tree.clone());
        let op_id = self.tw.repo.op_id().clone();
        let ws = &mut self.tw.workspace;
        jjv::catch(|| {
            let mut locked = ws.start_working_copy_mutation().block_on().unwrap();
            locked.locked_wc().reset(&commit).block_on().unwrap();
            locked.finish(op_id).block_on().unwrap();
        })
        .is_some()
    }

    pub fn set_sparse(&mut self, patterns: &[P]) -> Option<Result<CheckoutStats, CheckoutError>> {
        let op_id = self.tw.repo.op_id().clone();
        let ws = &mut self.tw.workspace;
        let pats: Vec<RepoPathBuf> = patterns.iter().map(to_repo_path).collect();
        jjv::catch(|| {
            let mut locked = ws.start_working_copy_mutation().block_on().unwrap();
            let r = locked.locked_wc().set_sparse_patterns(pats).block_on();
            if r.is_ok() {
                locked.finish(op_id).block_on().unwrap();
            }
            r
        })
    }

    pub fn sparse(&self) -> Vec<P> {
        self.tw.workspace.working_copy().sparse_patterns().unwrap().iter().map(|p| from_repo_path(p)).collect()
    }

    pub fn wc_tree(&self) -> MergedTree {
        self.tw.workspace.working_copy().tree().unwrap().clone()
    }

    /// (path, is_placeholder) for every recorded file state, in stored order.
    pub fn file_states(&self) -> Vec<(P, bool)> {
        let wc: &LocalWorkingCopy = self.tw.workspace.working_copy().downcast_ref().unwrap();
        wc.file_states()
            .unwrap()
            .iter()
            .map(|(p, st)| (from_repo_path(p), st.mtime.0 == 0 && st.size == 0))
            .collect()
    }

    pub fn snapshot(&mut self) -> Option<MergedTree> {
        let tw = &mut self.tw;
        jjv::catch(|| tw.snapshot().ok()).flatten()
    }

    /// Snapshot that does not start tracking new files (untracked entries stay untracked).
    pub fn snapshot_tracked_only(&mut self) -> Option<MergedTree> {
        let tw = &mut self.tw;
        jjv::catch(|| {
            let options = jj_lib::working_copy::SnapshotOptions {
                start_tracking_matcher: &jj_lib::matchers::NothingMatcher,
                ..testutils::empty_snapshot_options()
            };
            tw.snapshot_with_options(&options).ok().map(|(t, _)| t)
        })
        .flatten()
    }
}

#[derive(Clone, Debug, PartialEq, Eq)]
pub enum Outcome {
    Ok(CheckoutStats),
    Reserved,
    InvalidPath,
    Other(String),
    Panic,
}

pub fn outcome(r: Option<Result<CheckoutStats, CheckoutError>>) -> Outcome {
    match r {
        None => Outcome::Panic,
        Some(Ok(s)) => Outcome::Ok(s),
        Some(Err(CheckoutError::ReservedPathComponent { .. })) => Outcome::Reserved,
        Some(Err(CheckoutError::InvalidRepoPath(_))) => Outcome::InvalidPath,
        Some(Err(e)) => Outcome::Other(format!("{e}")),
    }
}

// ------------------------------------------------------------------ Coq printers

fn coq_str(s: &str) -> String {
    // Coq string literals: `""` is the escaped quote, no other escapes; the case files are
    // line oriented, so only printable ASCII is generated.
    assert!(s.bytes().all(|b| (0x20..0x7f).contains(&b)), "non-printable in {s:?}");
    format!("\"{}\"", s.replace('"', "\"\""))
}

pub fn coq_content(b: &[u8]) -> String {
    coq_str(std::str::from_utf8(b).expect("ascii content"))
}

pub fn coq_path(p: &P) -> String {
    for c in p {
        assert!(!c.contains('/'));
    }
    format!("(pth {})", coq_str(&p.join("/")))
}

pub fn coq_tval(v: &TVal) -> String {
    match v {
        TVal::File(c, x) => format!("(TFile {} {})", coq_content(c.as_bytes()), jjv::coq::b(*x)),
        TVal::Sym(t) => format!("(TSym {})", coq_content(t.as_bytes())),
    }
}

pub fn coq_tree(t: &Tree) -> String {
    jjv::coq::list(t.iter(), |(p, v)| format!("({}, {})", coq_path(p), coq_tval(v)))
}

pub fn coq_node(n: &Node) -> String {
    match n {
        Node::File(c, x) => format!("(EFile {} {})", coq_content(c), jjv::coq::b(*x)),
        Node::Sym(t) => format!("(ESym {})", coq_content(t.as_bytes())),
        Node::Dir => "EDir".to_string(),
    }
}

pub fn coq_disk(d: &Disk) -> String {
    jjv::coq::list(d.iter(), |(p, n)| format!("({}, {})", coq_path(p), coq_node(n)))
}

pub fn coq_paths(ps: &[P]) -> String {
    jjv::coq::list(ps.iter(), coq_path)
}

pub fn coq_diff(d: &[DiffEntry]) -> String {
    jjv::coq::list(d.iter(), |(p, b, a)| {
        format!(
            "(mkD {} {} {})",
            coq_path(p),
            jjv::coq::opt(b.as_ref(), coq_tval),
            jjv::coq::opt(a.as_ref(), coq_tval)
        )
    })
}

pub fn coq_outcome(o: &Outcome) -> String {
    match o {
        Outcome::Ok(s) => format!(
            "(ROk (mkStats {} {} {} {}))",
            s.added_files, s.updated_files, s.removed_files, s.skipped_files
        ),
        Outcome::Reserved => "RReserved".into(),
        Outcome::InvalidPath => "RInvalid".into(),
        Outcome::Other(_) => "ROther".into(),
        Outcome::Panic => "RPanic".into(),
    }
}

pub fn coq_states(s: &[(P, bool)]) -> String {
    jjv::coq::list(s.iter(), |(p, b)| format!("({}, {})", coq_path(p), jjv::coq::b(*b)))
}

/// PrefixMatcher::matches on plain data (harness-side decisions only).
pub fn matches_sparse(sparse: &[P], p: &P) -> bool {
    sparse.iter().any(|r| is_prefix(r, p))
}

/// Runs the cases on a few worker threads (each case is a function of its index and its
/// own generator state only) and returns the results in index order.
pub fn par_cases<T: Send>(ctx: &jjv::Ctx, f: impl Fn(usize, jjv::Rng) -> T + Sync) -> Vec<(usize, T)> {
    let indices = ctx.indices();
    let workers = 8usize.min(indices.len().max(1));
    let results = std::sync::Mutex::new(Vec::new());
    std::thread::scope(|scope| {
        for k in 0..workers {
            let indices = &indices;
            let results = &results;
            let f = &f;
            scope.spawn(move || {
                for (n, &i) in indices.iter().enumerate() {
                    if n % workers == k {
                        let out = f(i, ctx.rng(i));
                        results.lock().unwrap().push((i, out));
                    }
                }
            });
        }
    });
    let mut v = results.into_inner().unwrap();
    v.sort_by_key(|(i, _)| *i);
    v
}

// ------------------------------------------------------------------ observed file-system calls

thread_local! {
    static FS_CALLS: std::cell::RefCell<Option<Vec<(String, String)>>> = const { std::cell::RefCell::new(None) };
}

/// Registers the process-wide callback of jj_lib::verif: the `fs.*` points reached on a
/// thread that is recording are appended to that thread's buffer (a checkout runs on the
/// thread that called it).
pub fn install_fs_trace() {
    jj_lib::verif::set_callback(Some(std::sync::Arc::new(|kind: &str, detail: &str| {
        if kind.starts_with("fs.") {
            FS_CALLS.with(|b| {
                if let Some(v) = b.borrow_mut().as_mut() {
                    v.push((kind.to_string(), detail.to_string()));
                }
            });
        }
        jj_lib::verif::CONTINUE
    })));
}

pub fn fs_trace_start() {
    FS_CALLS.with(|b| *b.borrow_mut() = Some(vec![]));
}

/// Stops recording; returns (op code, path relative to `root`) per call. A path that is not
/// below `root` is reported with the single component `<outside>`.
pub fn fs_trace_stop(root: &Path) -> Vec<(u64, P)> {
    let calls = FS_CALLS.with(|b| b.borrow_mut().take()).unwrap_or_default();
    calls
        .into_iter()
        .map(|(kind, detail)| {
            let code = match kind.as_str() {
                "fs.create_dir" => 0,
                "fs.remove_dir" => 1,
                "fs.create_new" => 2,
                "fs.write" => 3,
                "fs.remove_file" => 4,
                "fs.symlink" => 5,
                "fs.lstat" => 6,
                _ => 99,
            };
            let path = Path::new(&detail);
            let rel = match path.strip_prefix(root) {
                Ok(r) => r.components().map(|c| c.as_os_str().to_string_lossy().to_string()).collect(),
                Err(_) => vec!["<outside>".to_string()],
            };
            (code, rel)
        })
        .collect()
}

pub fn coq_calls(calls: &[(u64, P)]) -> String {
    jjv::coq::list(calls.iter(), |(c, p)| format!("({}, {})", c, coq_path(p)))
}
