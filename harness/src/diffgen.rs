//! Content generators shared by the C03 (diff) and C04 (file merge) harness binaries.
//! Included with `#[path = "../diffgen.rs"] mod diffgen;`.
#![allow(dead_code)]
use jjv::Rng;

/// Line texts (without terminator). Few distinct texts so that repeats and moves happen.
const LINE_POOL: &[&[u8]] = &[
    b"a", b"b", b"c", b"d", b"e", b"f", b"a b", b"a  b", b" a b", b"ab", b"a\tb ", b"", b" ", b"x_1 = y+2;",
    b"x_1 = y + 2;", b"foo(bar)", b"foo( bar )", b"\xc3\xa9t\xc3\xa9", b"\xff\xfe", b"<<<<<<<", b"=======", b"a\rb",
];

#[derive(Clone, Copy, Debug, PartialEq, Eq)]
pub enum Pool {
    Lines,
    Repeats,
    Eol,
    Space,
    Binary,
    Words,
}

impl Pool {
    pub fn name(self) -> &'static str {
        match self {
            Pool::Lines => "lines",
            Pool::Repeats => "repeats",
            Pool::Eol => "eol",
            Pool::Space => "space",
            Pool::Binary => "binary",
            Pool::Words => "words",
        }
    }
}

pub fn pick_pool(rng: &mut Rng) -> Pool {
    match rng.below(16) {
        0..=5 => Pool::Lines,
        6 => Pool::Repeats,
        7..=8 => Pool::Eol,
        9..=10 => Pool::Space,
        11..=12 => Pool::Binary,
        _ => Pool::Words,
    }
}

/// A document as a list of line texts with their terminators.
fn join(lines: &[Vec<u8>]) -> Vec<u8> {
    lines.concat()
}

fn gen_line(rng: &mut Rng, pool: Pool, alphabet: usize) -> Vec<u8> {
    match pool {
        Pool::Lines | Pool::Repeats => {
            let mut l = LINE_POOL[rng.usize(alphabet.min(LINE_POOL.len()))].to_vec();
            l.push(b'\n');
            l
        }
        Pool::Eol => {
            let mut l = LINE_POOL[rng.usize(alphabet.min(6))].to_vec();
            match rng.below(4) {
                0 => l.extend_from_slice(b"\r\n"),
                1 => l.push(b'\r'),
                _ => l.push(b'\n'),
            }
            l
        }
        Pool::Space => {
            // whitespace-only differences between a few texts
            let base: &[&[u8]] = &[b"a", b"b", b"ab"];
            let sp: &[&[u8]] = &[b"", b" ", b"  ", b"\t", b" \t", b"\x0c", b"\x0b"];
            let mut l = vec![];
            for _ in 0..rng.range(0, 3) {
                l.extend_from_slice(*rng.pick(sp));
                l.extend_from_slice(*rng.pick(base));
            }
            l.extend_from_slice(*rng.pick(sp));
            if rng.chance(1, 6) {
                l.extend_from_slice(b"\r\n");
            } else {
                l.push(b'\n');
            }
            l
        }
        Pool::Binary => {
            let alpha: &[u8] = &[0, 0x0a, 0x20, 0x41, 0x80, 0xff, 0x5f, 0x0d];
            let n = rng.range(0, 5);
            let mut l: Vec<u8> = (0..n).map(|_| *rng.pick(&alpha[..alphabet.clamp(2, 8)])).collect();
            if rng.chance(2, 3) {
                l.push(b'\n');
            }
            l
        }
        Pool::Words => {
            let ws: &[&[u8]] = &[b"foo", b"bar", b"x", b"_y1", b"\xc3\xa9"];
            let ps: &[&[u8]] = &[b" ", b"  ", b"(", b")", b",", b" + ", b".", b"\t"];
            let mut l = vec![];
            for _ in 0..rng.range(0, 4) {
                if rng.chance(3, 4) {
                    l.extend_from_slice(ws[rng.usize(alphabet.min(ws.len()))]);
                }
                l.extend_from_slice(*rng.pick(ps));
            }
            if rng.chance(3, 4) {
                l.push(b'\n');
            }
            l
        }
    }
}

/// A base document: a list of lines.
pub fn gen_doc(rng: &mut Rng, pool: Pool, alphabet: usize, max_lines: usize) -> Vec<Vec<u8>> {
    let n = match pool {
        Pool::Repeats => 0,
        _ => rng.usize(max_lines + 1),
    };
    let mut lines: Vec<Vec<u8>> = (0..n).map(|_| gen_line(rng, pool, alphabet)).collect();
    if pool == Pool::Repeats {
        // > max_occurrences (100) copies of one or two short lines, a few others sprinkled in
        let a = b"a\n".to_vec();
        let k = rng.range(95, 125) as usize;
        lines = vec![a; k];
        if rng.chance(1, 2) {
            let b = b"b\n".to_vec();
            let kb = *rng.pick(&[1usize, 3, 99, 100, 101, 104]);
            for _ in 0..kb {
                let at = rng.usize(lines.len() + 1);
                lines.insert(at, b.clone());
            }
        }
        for _ in 0..rng.range(0, 3) {
            let at = rng.usize(lines.len() + 1);
            lines.insert(at, gen_line(rng, Pool::Lines, 6));
        }
    }
    lines
}

/// Random line edits of a document (insert / delete / replace / duplicate / move / swap).
pub fn edit_doc(rng: &mut Rng, doc: &[Vec<u8>], pool: Pool, alphabet: usize, max_edits: u64) -> Vec<Vec<u8>> {
    let mut d = doc.to_vec();
    let edits = rng.range(0, max_edits);
    let line_pool = if pool == Pool::Repeats { Pool::Lines } else { pool };
    for _ in 0..edits {
        match rng.below(9) {
            7 | 8 if !d.is_empty() => {
                // in-line tweak: replace, insert or delete a few bytes inside one line
                let at = rng.usize(d.len());
                let line = &mut d[at];
                let body = line.len().saturating_sub(1);
                let pos = rng.usize(body + 1);
                match rng.below(3) {
                    0 => {
                        let w: &[&[u8]] = &[b"x", b"foo", b" ", b"_", b"+", b"\xc3\xa9", b"  "];
                        let ins = *rng.pick(w);
                        for (j, c) in ins.iter().enumerate() {
                            line.insert(pos + j, *c);
                        }
                    }
                    1 if body > 0 => {
                        let k = (1 + rng.usize(3)).min(body - pos.min(body - 1));
                        let p = pos.min(body - 1);
                        line.drain(p..p + k);
                    }
                    _ if body > 0 => {
                        let p = pos.min(body - 1);
                        line[p] = *rng.pick(&[b'x', b' ', b'_', b'1', b'(']);
                    }
                    _ => {}
                }
            }
            0 | 1 => {
                let at = rng.usize(d.len() + 1);
                let l = if pool == Pool::Repeats && rng.chance(1, 2) {
                    b"a\n".to_vec()
                } else {
                    gen_line(rng, line_pool, alphabet)
                };
                d.insert(at, l);
            }
            2 | 3 if !d.is_empty() => {
                let at = rng.usize(d.len());
                let k = (1 + rng.geometric(6) as usize).min(d.len() - at);
                d.drain(at..at + k);
            }
            4 if !d.is_empty() => {
                let at = rng.usize(d.len());
                d[at] = gen_line(rng, line_pool, alphabet);
            }
            5 if !d.is_empty() => {
                let at = rng.usize(d.len());
                let l = d[at].clone();
                let to = rng.usize(d.len() + 1);
                d.insert(to, l);
            }
            6 if d.len() >= 2 => {
                let at = rng.usize(d.len());
                let l = d.remove(at);
                let to = rng.usize(d.len() + 1);
                d.insert(to, l);
            }
            _ => {}
        }
    }
    d
}

/// Final touches on the byte level: strip the final newline, or truncate to empty.
pub fn finish(rng: &mut Rng, doc: &[Vec<u8>]) -> Vec<u8> {
    let mut bytes = join(doc);
    match rng.below(12) {
        0 => {
            if bytes.last() == Some(&b'\n') {
                bytes.pop();
            }
        }
        1 => bytes.clear(),
        2 => bytes.extend_from_slice(b"tail"),
        _ => {}
    }
    bytes
}

/// `n` inputs: a base and `n - 1` edited variants (some identical to the base or to each other).
pub fn gen_inputs(rng: &mut Rng, pool: Pool, n: usize, max_lines: usize) -> Vec<Vec<u8>> {
    let alphabet = rng.range(2, 6) as usize;
    let base = gen_doc(rng, pool, alphabet, max_lines);
    let mut docs: Vec<Vec<Vec<u8>>> = vec![base.clone()];
    for _ in 1..n {
        let d = match rng.below(10) {
            0 => base.clone(),
            1 => docs[rng.usize(docs.len())].clone(),
            2 => gen_doc(rng, if pool == Pool::Repeats { Pool::Lines } else { pool }, alphabet, max_lines),
            _ => {
                let from = docs[rng.usize(docs.len())].clone();
                edit_doc(rng, &from, pool, alphabet, 4)
            }
        };
        docs.push(d);
    }
    let mut out: Vec<Vec<u8>> = docs.iter().map(|d| finish(rng, d)).collect();
    if rng.chance(1, 8) {
        rng.shuffle(&mut out);
    }
    out
}
