//! Deterministic scheduler over the `jj_lib::verif::point` hooks (shared by c14/c21).
//!
//! Every actor thread blocks at each (filtered) point until the scheduler releases it;
//! the code between two points is one atomic step. Included with `#[path]`.
#![allow(dead_code)]
use std::cell::RefCell;
use std::panic::AssertUnwindSafe;
use std::sync::Arc;
use std::sync::Condvar;
use std::sync::Mutex;
use std::sync::Once;
use std::time::Duration;
use std::time::Instant;

#[derive(Clone, Debug, PartialEq)]
pub enum Status {
    Running,
    Parked { kind: String, detail: String },
    Done { panicked: bool },
}

struct Slot {
    status: Status,
    go: bool,
    go_ret: u32,
    kill: bool,
    notes: Vec<String>,
}

pub struct Shared {
    m: Mutex<Vec<Slot>>,
    cv: Condvar,
    filter: Box<dyn Fn(&str, &str) -> bool + Send + Sync>,
}

thread_local! {
    static ACTOR: RefCell<Option<(Arc<Shared>, usize)>> = const { RefCell::new(None) };
}

static INSTALL: Once = Once::new();

fn dispatch(kind: &str, detail: &str) -> u32 {
    let actor = ACTOR.with(|a| a.borrow().clone());
    match actor {
        None => 0,
        Some((shared, i)) => shared.park(i, kind, detail),
    }
}

/// Registers the process-wide callback (idempotent). Threads that are not actors pass
/// through every point.
pub fn install() {
    INSTALL.call_once(|| {
        jj_lib::verif::set_callback(Some(Arc::new(dispatch)));
    });
}

/// Harness-level point (e.g. the start of a command).
pub fn point(kind: &str, detail: &str) -> u32 {
    dispatch(kind, detail)
}

/// Non-blocking message from an actor thread to the scheduler.
pub fn note(s: String) {
    let actor = ACTOR.with(|a| a.borrow().clone());
    if let Some((shared, i)) = actor {
        shared.m.lock().unwrap()[i].notes.push(s);
    }
}

impl Shared {
    pub fn new(n: usize, filter: impl Fn(&str, &str) -> bool + Send + Sync + 'static) -> Arc<Self> {
        let slots = (0..n)
            .map(|_| Slot { status: Status::Running, go: false, go_ret: 0, kill: false, notes: vec![] })
            .collect();
        Arc::new(Shared { m: Mutex::new(slots), cv: Condvar::new(), filter: Box::new(filter) })
    }

    fn park(&self, i: usize, kind: &str, detail: &str) -> u32 {
        if std::thread::panicking() || !(self.filter)(kind, detail) {
            return 0;
        }
        let mut g = self.m.lock().unwrap();
        if g[i].kill {
            drop(g);
            panic!("verif-kill");
        }
        g[i].status = Status::Parked { kind: kind.to_string(), detail: detail.to_string() };
        self.cv.notify_all();
        loop {
            if g[i].kill {
                g[i].status = Status::Running;
                drop(g);
                panic!("verif-kill");
            }
            if g[i].go {
                g[i].go = false;
                g[i].status = Status::Running;
                return g[i].go_ret;
            }
            g = self.cv.wait(g).unwrap();
        }
    }

    /// Body of actor thread `i`: runs `f` with the actor identity set, then marks it done.
    pub fn run_actor(self: &Arc<Self>, i: usize, f: impl FnOnce()) {
        ACTOR.with(|a| *a.borrow_mut() = Some((self.clone(), i)));
        let r = std::panic::catch_unwind(AssertUnwindSafe(f));
        ACTOR.with(|a| *a.borrow_mut() = None);
        let mut g = self.m.lock().unwrap();
        g[i].status = Status::Done { panicked: r.is_err() };
        self.cv.notify_all();
    }

    /// Waits until no actor is running. Err = watchdog expired (a thread blocks outside a point).
    pub fn wait_quiet(&self, timeout: Duration) -> Result<(), String> {
        let deadline = Instant::now() + timeout;
        let mut g = self.m.lock().unwrap();
        loop {
            if g.iter().all(|s| s.status != Status::Running) {
                return Ok(());
            }
            let now = Instant::now();
            if now >= deadline {
                return Err("watchdog: an actor neither reached a point nor finished".to_string());
            }
            let (g2, _) = self.cv.wait_timeout(g, deadline - now).unwrap();
            g = g2;
        }
    }

    pub fn status(&self, i: usize) -> Status {
        self.m.lock().unwrap()[i].status.clone()
    }

    pub fn take_notes(&self, i: usize) -> Vec<String> {
        std::mem::take(&mut self.m.lock().unwrap()[i].notes)
    }

    /// Lets actor `i` (which must be parked) run until its next point; `ret` is what the
    /// point returns to the code (0 = continue, 1 = skip).
    pub fn release(&self, i: usize, ret: u32, timeout: Duration) -> Result<(), String> {
        {
            let mut g = self.m.lock().unwrap();
            assert!(matches!(g[i].status, Status::Parked { .. }));
            g[i].go = true;
            g[i].go_ret = ret;
            g[i].status = Status::Running;
            self.cv.notify_all();
        }
        self.wait_quiet(timeout)
    }

    /// Crash of every actor: parked threads unwind without performing any further effect
    /// (guards are dropped, so OS locks are released as they are when a process dies).
    pub fn kill_all(&self) {
        let mut g = self.m.lock().unwrap();
        for s in g.iter_mut() {
            s.kill = true;
        }
        self.cv.notify_all();
    }
}
