//! Generators and Coq printers shared by the conflict-marker harnesses (included with
//! `#[path = "../conf_gen.rs"] mod conf_gen;`).
#![allow(dead_code)]
use bstr::BString;
use jj_lib::conflicts::ConflictMarkerStyle;
use jj_lib::diff::ContentDiff;
use jj_lib::diff::DiffHunkKind;
use jj_lib::merge::Merge;
use jjv::Rng;
use jjv::coq;

pub const MARKERS: &[u8] = b"<>+-%\\|=";

/// One line without its terminator.
pub fn gen_line(rng: &mut Rng, pools: &mut Vec<&'static str>) -> Vec<u8> {
    match rng.below(12) {
        0..=5 => rng.pick(&[&b"a"[..], b"b", b"c", b"d", b"e"]).to_vec(),
        6 => vec![],
        7 | 8 => {
            // marker look-alike of length 1..20, with and without trailing text
            pools.push("pool:marker-like-line");
            let ch = *rng.pick(MARKERS);
            let k = *rng.pick(&[1usize, 2, 3, 5, 6, 7, 7, 8, 9, 10, 11, 12, 15, 19, 20]);
            let mut l = vec![ch; k];
            let sfx: &[u8] = *rng.pick(&[
                &b""[..], b"", b" x", b"x", b"\t", b" ", b"\x0c", b"\x0b", b" conflict 1 of 1",
                b"\r",
            ]);
            l.extend_from_slice(sfx);
            l
        }
        9 => {
            // a prefix byte in front of a marker run (diff-style prefixes)
            let p = *rng.pick(b" +-");
            let ch = *rng.pick(MARKERS);
            let k = *rng.pick(&[1usize, 5, 6, 7, 9, 10]);
            let mut l = vec![p];
            l.extend(std::iter::repeat_n(ch, k));
            if rng.chance(1, 2) {
                l.extend_from_slice(b" y");
            }
            l
        }
        10 => {
            pools.push("pool:cr-bytes");
            rng.pick(&[&b"\r"[..], b"a\rb", b"x\r", b"\r\r", b"\ra"]).to_vec()
        }
        _ => rng.pick(&[&b"foo bar"[..], b"a b", b"x y z", b"+a", b"-b", b" c"]).to_vec(),
    }
}

pub fn render(lines: &[Vec<u8>], eol_mode: u64, final_eol: bool, rng: &mut Rng) -> Vec<u8> {
    let mut out = vec![];
    for (i, l) in lines.iter().enumerate() {
        out.extend_from_slice(l);
        if i + 1 < lines.len() || final_eol {
            let crlf = match eol_mode {
                0 => false,
                1 => true,
                _ => rng.chance(1, 2),
            };
            if crlf {
                out.push(b'\r');
            }
            out.push(b'\n');
        }
    }
    out
}

pub fn edit(base: &[Vec<u8>], rng: &mut Rng, pools: &mut Vec<&'static str>) -> Vec<Vec<u8>> {
    let mut l = base.to_vec();
    let n = rng.geometric(3);
    for _ in 0..n {
        match rng.below(3) {
            0 if !l.is_empty() => {
                let i = rng.usize(l.len());
                l[i] = gen_line(rng, pools);
            }
            1 if !l.is_empty() => {
                let i = rng.usize(l.len());
                l.remove(i);
            }
            _ => {
                let i = rng.usize(l.len() + 1);
                l.insert(i, gen_line(rng, pools));
            }
        }
    }
    l
}

/// The scenario in which a word-level merge synthesizes marker lines no input contains.
pub fn word_synth(rng: &mut Rng) -> Vec<Vec<u8>> {
    let kinds: &[&[u8]] = if rng.chance(1, 2) {
        &[b"<<<<<<<", b"|||||||", b"=======", b">>>>>>>"]
    } else {
        &[b"<<<<<<<", b"+++++++", b"-------", b"+++++++", b">>>>>>>"]
    };
    let mut base = vec![];
    let mut s1 = vec![];
    let mut s2 = vec![];
    for (i, k) in kinds.iter().enumerate() {
        let mut b = b"a".to_vec();
        b.extend_from_slice(k);
        b.extend_from_slice(b"b\n");
        base.extend_from_slice(&b);
        s1.extend_from_slice(&b[1..]);
        s2.extend_from_slice(&b[..b.len() - 2]);
        s2.push(b'\n');
        let filler = format!("x{i}\n");
        for f in [&mut base, &mut s1, &mut s2] {
            f.extend_from_slice(filler.as_bytes());
        }
    }
    for (f, t) in [(&mut base, "o\n"), (&mut s1, "p\n"), (&mut s2, "q\n")] {
        f.extend_from_slice(b"sep\n");
        f.extend_from_slice(t.as_bytes());
    }
    vec![s1, base, s2]
}

pub fn detect_crlf(files: &[Vec<u8>]) -> bool {
    let mut flags = vec![];
    for f in files {
        if let Some(i) = f.iter().position(|b| *b == b'\n') {
            flags.push(i > 0 && f[i - 1] == b'\r');
        }
    }
    !flags.is_empty() && flags.iter().all(|x| *x)
}

pub fn hunk_term(h: &Merge<BString>) -> String {
    coq::list(h.iter(), |t| coq::bytes(t))
}

pub fn hunks_term(hs: &[Merge<BString>]) -> String {
    coq::list(hs.iter(), hunk_term)
}

pub fn diff_term(l: &[u8], r: &[u8]) -> String {
    let d = ContentDiff::by_line([l, r]);
    let hs: Vec<String> = d
        .hunks()
        .map(|h| {
            coq::app(
                "Conflicts.mk_dhunk",
                &[
                    coq::b(h.kind == DiffHunkKind::Matching),
                    coq::bytes(h.contents[0]),
                    coq::bytes(h.contents[1]),
                ],
            )
        })
        .collect();
    format!("({}, {}, [{}])", coq::bytes(l), coq::bytes(r), hs.join("; "))
}

pub fn mutate(out: &[u8], rng: &mut Rng, len: usize) -> Vec<u8> {
    let mut lines: Vec<Vec<u8>> = out.split_inclusive(|b| *b == b'\n').map(|l| l.to_vec()).collect();
    let n = 1 + rng.geometric(2);
    for _ in 0..n {
        if lines.is_empty() {
            break;
        }
        let i = rng.usize(lines.len());
        match rng.below(9) {
            0 => {
                lines.remove(i);
            }
            1 => {
                let l = lines[i].clone();
                lines.insert(i, l);
            }
            2 => {
                // turn a line into a marker line of a length around `len`
                let ch = *rng.pick(MARKERS);
                let k = (len + rng.usize(3)).saturating_sub(1);
                let mut l = vec![ch; k];
                l.extend_from_slice(*rng.pick(&[&b"\n"[..], b" t\n", b"\r\n", b"z\n", b""]));
                lines.insert(i, l);
            }
            3 => {
                if lines[i].len() > 1 {
                    lines[i].remove(0);
                }
            }
            4 => {
                // editors stripping trailing whitespace: " \n" -> "\n"
                if lines[i].first() == Some(&b' ') {
                    lines[i].remove(0);
                }
            }
            5 => {
                let j = rng.usize(lines.len());
                lines.swap(i, j);
            }
            6 => {
                if lines[i].ends_with(b"\n") && !lines[i].ends_with(b"\r\n") {
                    let at = lines[i].len() - 1;
                    lines[i].insert(at, b'\r');
                }
            }
            7 => {
                if lines[i].ends_with(b"\n") {
                    lines[i].pop();
                }
            }
            _ => {
                lines[i].insert(0, *rng.pick(b" +-x"));
            }
        }
    }
    lines.concat()
}

pub fn synthetic(rng: &mut Rng, len: usize) -> Vec<u8> {
    let mut out = vec![];
    let n = 2 + rng.usize(10);
    for _ in 0..n {
        if rng.chance(3, 5) {
            let ch = *rng.pick(MARKERS);
            let k = (len + rng.usize(3)).saturating_sub(1);
            out.extend(std::iter::repeat_n(ch, k));
            out.extend_from_slice(*rng.pick(&[&b"\n"[..], b" l\n", b"\r\n", b"\n", b"q\n"]));
        } else {
            out.extend_from_slice(*rng.pick(&[
                &b"a\n"[..], b"b\n", b" a\n", b"-a\n", b"+b\n", b"\n", b"\r\n", b"c",
            ]));
        }
    }
    out
}


/// Line diffs the diff styles need for the conflict hunks of `hunks` (as Coq terms).
pub fn record_diffs(hunks: &[Merge<BString>], style: ConflictMarkerStyle, files: &[Vec<u8>]) -> Vec<String> {
    let mut diffs: Vec<String> = vec![];
    if !matches!(style, ConflictMarkerStyle::Diff | ConflictMarkerStyle::DiffExperimental) {
        return diffs;
    }
    let eol: &[u8] = if detect_crlf(files) { b"\r\n" } else { b"\n" };
    let mut seen = std::collections::HashSet::new();
    for h in hunks.iter().filter(|h| !h.is_resolved()) {
        let all_eol = h.iter().all(|c| c.last().is_none_or(|b| *b == b'\n'));
        let terms: Vec<Vec<u8>> = h
            .iter()
            .map(|c| {
                let mut v = c.to_vec();
                if !all_eol {
                    v.extend_from_slice(eol);
                }
                v
            })
            .collect();
        let nrem = terms.len() / 2;
        for r in 0..nrem {
            let left = &terms[2 * r + 1];
            let mut js = vec![r + 1];
            if style == ConflictMarkerStyle::Diff {
                js.push(r);
            }
            for j in js {
                let right = &terms[2 * j];
                if seen.insert((left.clone(), right.clone())) {
                    diffs.push(diff_term(left, right));
                }
            }
        }
    }
    diffs
}
