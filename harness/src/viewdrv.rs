//! Shared driver for C10 / C11: runs `RepoV.op` sequences through a real `MutableRepo`
//! (testutils::TestRepo, test backend) and records what the implementation did, with commit
//! ids canonicalised to creation order (= index position; the root commit is 0).
#![allow(dead_code)]
use std::collections::HashMap;
use std::sync::Arc;

use jj_lib::backend::ChangeId;
use jj_lib::backend::CommitId;
use jj_lib::backend::CopyId;
use jj_lib::backend::TreeValue;
use jj_lib::commit::Commit;
use jj_lib::merge::Merge;
use jj_lib::merged_tree::MergedTree;
use jj_lib::merged_tree_builder::MergedTreeBuilder;
use jj_lib::op_store::RefTarget;
use jj_lib::ref_name::RefNameBuf;
use jj_lib::ref_name::WorkspaceNameBuf;
use jj_lib::repo::ReadonlyRepo;
use jj_lib::repo::Repo as _;
use jj_lib::revset::ResolvedRevsetExpression;
use jj_lib::revset::RevsetExpression;
use jj_lib::rewrite::CommitRewriter;
use jj_lib::rewrite::EmptyBehavior;
use jj_lib::rewrite::RebaseOptions;
use jj_lib::rewrite::RebasedCommit;
use jj_lib::rewrite::RewriteRefsOptions;
use jj_lib::rewrite::merge_commit_trees;
use jj_lib::transaction::Transaction;
use jjv::coq;
use pollster::FutureExt as _;
use testutils::TestRepo;
use testutils::repo_path_buf;

#[derive(Clone, Debug)]
pub struct Opts {
    pub imm: Vec<usize>,
    pub empty: u8, // 0 Keep, 1 AbandonNewlyEmpty, 2 AbandonAllEmpty
    pub delete_abandoned: bool,
    pub simplify: bool,
    /// filled in by the driver: (old commit, 1 = abandoned by the emptiness policy /
    /// 2 = rebased copy changed emptiness)
    pub oracle: Vec<(usize, u8)>,
}

#[derive(Clone, Debug)]
pub enum Op {
    New { ps: Vec<usize>, desc: u64, empty: bool },
    AddHeads(Vec<usize>),
    SetBookmark { name: u64, target: Vec<Option<usize>> },
    Edit { ws: u64, c: usize },
    CheckOut { ws: u64, c: usize },
    RemoveWs(u64),
    Rewrite { old: usize, ps: Option<Vec<usize>>, desc: u64 },
    Abandon(usize),
    AbandonWith(usize, Vec<usize>),
    SetRewritten(usize, usize),
    Divergent(usize, Vec<usize>),
    Rebase(Opts),
    Commit,
}

fn nat_list(xs: &[usize]) -> String {
    coq::list(xs.iter(), |x| format!("{x}%nat"))
}

pub fn target_term(t: &[Option<usize>]) -> String {
    coq::list(t.iter(), |x| coq::opt(*x, |v| format!("{v}%nat")))
}

impl Op {
    pub fn term(&self) -> String {
        match self {
            Op::New { ps, desc, empty } => {
                format!("(ONew {} {} {})", nat_list(ps), desc, coq::b(*empty))
            }
            Op::AddHeads(hs) => format!("(OAddHeads {})", nat_list(hs)),
            Op::SetBookmark { name, target } => {
                format!("(OSetBookmark {} {})", name, target_term(target))
            }
            Op::Edit { ws, c } => format!("(OEdit {ws} {c}%nat)"),
            Op::CheckOut { ws, c } => format!("(OCheckOut {ws} {c}%nat)"),
            Op::RemoveWs(ws) => format!("(ORemoveWs {ws})"),
            Op::Rewrite { old, ps, desc } => format!(
                "(ORewrite {old}%nat {} {desc})",
                coq::opt(ps.as_ref(), |p| nat_list(p))
            ),
            Op::Abandon(old) => format!("(OAbandon {old}%nat)"),
            Op::AbandonWith(old, ps) => format!("(OAbandonWith {old}%nat {})", nat_list(ps)),
            Op::SetRewritten(old, new) => format!("(OSetRewritten {old}%nat {new}%nat)"),
            Op::Divergent(old, news) => format!("(ODivergent {old}%nat {})", nat_list(news)),
            Op::Rebase(o) => format!(
                "(ORebase (mk_opts {} {} {} {} {}))",
                nat_list(&o.imm),
                o.empty,
                coq::b(o.delete_abandoned),
                coq::b(o.simplify),
                coq::list(o.oracle.iter(), |(x, k)| format!("({x}%nat, {k})"))
            ),
            Op::Commit => "OCommit".to_string(),
        }
    }
    pub fn kind(&self) -> &'static str {
        match self {
            Op::New { .. } => "new",
            Op::AddHeads(_) => "addheads",
            Op::SetBookmark { .. } => "bookmark",
            Op::Edit { .. } => "edit",
            Op::CheckOut { .. } => "checkout",
            Op::RemoveWs(_) => "rmws",
            Op::Rewrite { .. } => "rewrite",
            Op::Abandon(_) => "abandon",
            Op::AbandonWith(..) => "abandonwith",
            Op::SetRewritten(..) => "setrewritten",
            Op::Divergent(..) => "divergent",
            Op::Rebase(_) => "rebase",
            Op::Commit => "commit",
        }
    }
}

/// A committed view in canonical form.
#[derive(Clone, Debug, PartialEq, Eq)]
pub struct ViewObs {
    pub heads: Vec<usize>,
    pub bms: Vec<(u64, Vec<Option<usize>>)>,
    pub wcs: Vec<(u64, usize)>,
}

impl ViewObs {
    pub fn term(&self) -> String {
        format!(
            "(mk_view {} {} {} true)",
            nat_list(&self.heads),
            coq::list(self.bms.iter(), |(n, t)| format!("({}, {})", n, target_term(t))),
            coq::list(self.wcs.iter(), |(n, c)| format!("({n}, {c}%nat)")),
        )
    }
}

#[derive(Clone, Debug)]
pub struct CommitObs {
    pub parents: Vec<usize>,
    pub change: u64,
    pub desc: u64,
    pub empty: bool,
    pub preds: Vec<usize>,
}

impl CommitObs {
    pub fn term(&self) -> String {
        format!(
            "(mk_commit {} {} {} {} {})",
            nat_list(&self.parents),
            self.change,
            self.desc,
            coq::b(self.empty),
            nat_list(&self.preds)
        )
    }
}

#[derive(Clone, Copy, Debug, PartialEq, Eq)]
pub enum Outcome {
    Ok,
    Err,
    Panic,
}

pub struct Driver {
    _test_repo: TestRepo,
    pub repo: Arc<ReadonlyRepo>,
    tx: Option<Transaction>,
    pub commits: Vec<Commit>,
    id2pos: HashMap<CommitId, usize>,
    change2num: HashMap<ChangeId, u64>,
    preds: HashMap<usize, Vec<usize>>,
    first_uncommitted: usize,
    file_counter: u64,
    pub ops: Vec<Op>,
    pub views: Vec<ViewObs>,
    pub untracked: usize,
    pub rebased: usize,
    pub abandoned_in_rebase: usize,
    rebase_log: std::rc::Rc<std::cell::RefCell<Vec<(Commit, Option<Commit>)>>>,
}

fn bname(n: u64) -> RefNameBuf {
    RefNameBuf::from(format!("b{n}"))
}
fn wname(n: u64) -> WorkspaceNameBuf {
    WorkspaceNameBuf::from(format!("w{n}"))
}
fn parse_num(s: &str) -> u64 {
    s[1..].parse().unwrap()
}

impl Driver {
    pub fn new() -> Self {
        let test_repo = TestRepo::init();
        let repo = test_repo.repo.clone();
        let root = repo.store().root_commit();
        let mut d = Driver {
            _test_repo: test_repo,
            repo,
            tx: None,
            commits: vec![],
            id2pos: HashMap::new(),
            change2num: HashMap::new(),
            preds: HashMap::new(),
            first_uncommitted: 1,
            file_counter: 0,
            ops: vec![],
            views: vec![],
            untracked: 0,
            rebased: 0,
            abandoned_in_rebase: 0,
            rebase_log: Default::default(),
        };
        d.track(root);
        d
    }

    fn track(&mut self, c: Commit) -> usize {
        if let Some(p) = self.id2pos.get(c.id()) {
            return *p;
        }
        let pos = self.commits.len();
        self.id2pos.insert(c.id().clone(), pos);
        self.change2num.entry(c.change_id().clone()).or_insert(pos as u64);
        self.commits.push(c);
        pos
    }

    pub fn n(&self) -> usize {
        self.commits.len()
    }

    fn tx(&mut self) -> &mut Transaction {
        if self.tx.is_none() {
            self.tx = Some(self.repo.start_transaction());
        }
        self.tx.as_mut().unwrap()
    }

    pub fn has_rewrites(&mut self) -> bool {
        self.tx().repo().has_rewrites()
    }

    fn id(&self, pos: usize) -> CommitId {
        self.commits[pos].id().clone()
    }

    fn pos(&mut self, id: &CommitId) -> usize {
        if let Some(p) = self.id2pos.get(id) {
            return *p;
        }
        // a commit created inside jj that the driver did not see being created
        self.untracked += 1;
        let c = self.repo.store().get_commit(id).unwrap();
        self.track(c)
    }

    fn own_file_tree(&mut self, base: MergedTree, change: u64) -> MergedTree {
        self.file_counter += 1;
        let store = self.repo.store().clone();
        let path = repo_path_buf(format!("f{change}"));
        let id = testutils::write_file(&store, &path, &format!("content {}", self.file_counter));
        let mut b = MergedTreeBuilder::new(base);
        b.set_or_remove(
            path,
            Merge::normal(TreeValue::File { id, executable: false, copy_id: CopyId::placeholder() }),
        );
        b.write_tree().block_on().unwrap()
    }

    /// Current (uncommitted) view of the open transaction, canonical form. Heads are the raw set.
    pub fn current_view(&mut self) -> ViewObs {
        let (heads, bms, wcs) = {
            let repo = self.tx().repo();
            let v = repo.view();
            (
                v.heads().iter().cloned().collect::<Vec<_>>(),
                v.local_bookmarks()
                    .map(|(n, t)| (n.as_str().to_string(), t.as_merge().iter().cloned().collect::<Vec<_>>()))
                    .collect::<Vec<_>>(),
                v.wc_commit_ids()
                    .iter()
                    .map(|(n, c)| (n.as_str().to_string(), c.clone()))
                    .collect::<Vec<_>>(),
            )
        };
        self.canon_view(heads, bms, wcs)
    }

    fn canon_view(
        &mut self,
        heads: Vec<CommitId>,
        bms: Vec<(String, Vec<Option<CommitId>>)>,
        wcs: Vec<(String, CommitId)>,
    ) -> ViewObs {
        let mut hs: Vec<usize> = heads.iter().map(|h| self.pos(h)).collect();
        hs.sort();
        let mut b: Vec<(u64, Vec<Option<usize>>)> = bms
            .iter()
            .map(|(n, t)| (parse_num(n), t.iter().map(|x| x.as_ref().map(|id| self.pos(id))).collect()))
            .collect();
        b.sort();
        let mut w: Vec<(u64, usize)> = wcs.iter().map(|(n, c)| (parse_num(n), self.pos(c))).collect();
        w.sort();
        ViewObs { heads: hs, bms: b, wcs: w }
    }

    fn committed_view(&mut self) -> ViewObs {
        let repo = self.repo.clone();
        let v = repo.view();
        let heads = v.heads().iter().cloned().collect();
        let bms = v
            .local_bookmarks()
            .map(|(n, t)| (n.as_str().to_string(), t.as_merge().iter().cloned().collect()))
            .collect();
        let wcs = v.wc_commit_ids().iter().map(|(n, c)| (n.as_str().to_string(), c.clone())).collect();
        self.canon_view(heads, bms, wcs)
    }

    /// Applies one operation to the real repo. Panics inside jj are caught.
    pub fn apply(&mut self, op: Op) -> Outcome {
        self.ops.push(op.clone());
        let r = jjv::catch(|| self.apply_inner(&op));
        match r {
            None => {
                if matches!(op, Op::Rebase(_)) {
                    // what the implementation did before it panicked
                    let _ = jjv::catch(|| self.finish_rebase_log());
                }
                // the transaction may be in any state; drop it
                self.tx = None;
                Outcome::Panic
            }
            Some(o) => o,
        }
    }

    fn apply_inner(&mut self, op: &Op) -> Outcome {
        match op {
            Op::New { ps, desc, empty } => {
                let parents: Vec<Commit> = ps.iter().map(|p| self.commits[*p].clone()).collect();
                let parent_ids: Vec<CommitId> = parents.iter().map(|c| c.id().clone()).collect();
                let base = merge_commit_trees(self.tx().repo(), &parents).block_on().unwrap();
                let change = self.n() as u64;
                let tree = if *empty { base } else { self.own_file_tree(base, change) };
                let description = if *desc == 0 { String::new() } else { format!("d{desc}") };
                let c = self
                    .tx()
                    .repo_mut()
                    .new_commit(parent_ids, tree)
                    .set_description(description)
                    .write()
                    .block_on();
                match c {
                    Ok(c) => {
                        self.track(c);
                        Outcome::Ok
                    }
                    Err(e) => {
                        if std::env::var("VERIF_DEBUG").is_ok() {
                            eprintln!("new commit error: {e:?}");
                        }
                        Outcome::Err
                    }
                }
            }
            Op::AddHeads(hs) => {
                let cs: Vec<Commit> = hs.iter().map(|p| self.commits[*p].clone()).collect();
                match self.tx().repo_mut().add_heads(&cs).block_on() {
                    Ok(()) => Outcome::Ok,
                    Err(_) => Outcome::Err,
                }
            }
            Op::SetBookmark { name, target } => {
                let t: Vec<Option<CommitId>> = target.iter().map(|x| x.map(|p| self.id(p))).collect();
                let rt = RefTarget::from_merge(Merge::from_vec(t));
                self.tx().repo_mut().set_local_bookmark_target(&bname(*name), rt);
                Outcome::Ok
            }
            Op::Edit { ws, c } => {
                let commit = self.commits[*c].clone();
                match self.tx().repo_mut().edit(wname(*ws), &commit).block_on() {
                    Ok(()) => Outcome::Ok,
                    Err(_) => Outcome::Err,
                }
            }
            Op::CheckOut { ws, c } => {
                let commit = self.commits[*c].clone();
                match self.tx().repo_mut().check_out(wname(*ws), &commit).block_on() {
                    Ok(nc) => {
                        self.track(nc);
                        Outcome::Ok
                    }
                    Err(_) => Outcome::Err,
                }
            }
            Op::RemoveWs(ws) => match self.tx().repo_mut().remove_workspace(&wname(*ws)).block_on() {
                Ok(()) => Outcome::Ok,
                Err(_) => Outcome::Err,
            },
            Op::Rewrite { old, ps, desc } => {
                let oldc = self.commits[*old].clone();
                let description = if *desc == 0 { String::new() } else { format!("d{desc}") };
                let was_empty = oldc.is_empty(self.tx().repo()).block_on().unwrap();
                let change = self.change2num[oldc.change_id()];
                let res = match ps {
                    None => {
                        let tree = oldc.tree();
                        let tree = if was_empty { tree } else { self.own_file_tree(tree, change) };
                        self.tx()
                            .repo_mut()
                            .rewrite_commit(&oldc)
                            .set_description(description)
                            .set_tree(tree)
                            .write()
                            .block_on()
                    }
                    Some(ps) => {
                        let parent_ids: Vec<CommitId> = ps.iter().map(|p| self.id(*p)).collect();
                        let tree = {
                            let rewriter = CommitRewriter::new(self.tx().repo_mut(), oldc.clone(), parent_ids.clone());
                            rewriter.rebase().block_on().unwrap().tree()
                        };
                        let tree = if was_empty { tree } else { self.own_file_tree(tree, change) };
                        self.tx()
                            .repo_mut()
                            .rewrite_commit(&oldc)
                            .set_parents(parent_ids)
                            .set_description(description)
                            .set_tree(tree)
                            .write()
                            .block_on()
                    }
                };
                match res {
                    Ok(c) => {
                        self.track(c);
                        Outcome::Ok
                    }
                    Err(_) => Outcome::Err,
                }
            }
            Op::Abandon(old) => {
                let c = self.commits[*old].clone();
                self.tx().repo_mut().record_abandoned_commit(&c);
                Outcome::Ok
            }
            Op::AbandonWith(old, ps) => {
                let id = self.id(*old);
                let pids: Vec<CommitId> = ps.iter().map(|p| self.id(*p)).collect();
                self.tx().repo_mut().record_abandoned_commit_with_parents(id, pids);
                Outcome::Ok
            }
            Op::SetRewritten(old, new) => {
                let (o, n) = (self.id(*old), self.id(*new));
                self.tx().repo_mut().set_rewritten_commit(o, n);
                Outcome::Ok
            }
            Op::Divergent(old, news) => {
                let o = self.id(*old);
                let ns: Vec<CommitId> = news.iter().map(|p| self.id(*p)).collect();
                self.tx().repo_mut().set_divergent_rewrite(o, ns);
                Outcome::Ok
            }
            Op::Rebase(o) => {
                let imm_ids: Vec<CommitId> = o.imm.iter().map(|p| self.id(*p)).collect();
                let immutable: Arc<ResolvedRevsetExpression> = RevsetExpression::commits(imm_ids);
                let options = RebaseOptions {
                    empty: match o.empty {
                        0 => EmptyBehavior::Keep,
                        1 => EmptyBehavior::AbandonNewlyEmpty,
                        _ => EmptyBehavior::AbandonAllEmpty,
                    },
                    rewrite_refs: RewriteRefsOptions { delete_abandoned_bookmarks: o.delete_abandoned },
                    simplify_ancestor_merge: o.simplify,
                };
                let log = self.rebase_log.clone();
                log.borrow_mut().clear();
                let res = self
                    .tx()
                    .repo_mut()
                    .rebase_descendants_with_options(&immutable, &options, |old, rebased| match rebased {
                        RebasedCommit::Rewritten(c) => log.borrow_mut().push((old, Some(c))),
                        RebasedCommit::Abandoned { .. } => log.borrow_mut().push((old, None)),
                    })
                    .block_on();
                self.finish_rebase_log();
                if let Err(e) = &res {
                    if std::env::var("VERIF_DEBUG").is_ok() {
                        eprintln!("rebase error: {e:?}");
                        for (i, c) in self.commits.iter().enumerate() {
                            eprintln!("  {i} = {}", format!("{:?}", c.id()));
                        }
                    }
                    return Outcome::Err;
                }
                // working-copy commits re-created by update_wc_commits, in workspace-name order
                let wc_ids: Vec<CommitId> =
                    self.tx().repo().view().wc_commit_ids().values().cloned().collect();
                for id in wc_ids {
                    if !self.id2pos.contains_key(&id) {
                        let c = self.repo.store().get_commit(&id).unwrap();
                        self.track(c);
                    }
                }
                Outcome::Ok
            }
            Op::Commit => {
                let tx = self.tx.take().unwrap_or_else(|| self.repo.start_transaction());
                let repo = tx.commit("verif").block_on().unwrap();
                self.repo = repo;
                // predecessors recorded by this operation
                let op = self.repo.operation().clone();
                for pos in self.first_uncommitted..self.commits.len() {
                    let id = self.id(pos);
                    if let Some(ps) = op.predecessors_for_commit(&id) {
                        let v: Vec<usize> = ps.iter().map(|p| self.id2pos[p]).collect();
                        self.preds.insert(pos, v);
                    }
                }
                self.first_uncommitted = self.commits.len();
                let v = self.committed_view();
                self.views.push(v);
                Outcome::Ok
            }
        }
    }

    /// Turns the progress-callback log of the last rebase into the oracle of its `Op::Rebase`
    /// and tracks the commits it created (in creation order).
    fn finish_rebase_log(&mut self) {
        let log: Vec<(Commit, Option<Commit>)> = self.rebase_log.borrow_mut().drain(..).collect();
        if log.is_empty() {
            return;
        }
        let mut oracle: Vec<(usize, u8)> = vec![];
        for (old, new) in log {
            let old_pos = self.id2pos[old.id()];
            match new {
                None => {
                    self.abandoned_in_rebase += 1;
                    oracle.push((old_pos, 1));
                }
                Some(c) => {
                    self.rebased += 1;
                    let e_old = old.is_empty(self.tx().repo()).block_on().unwrap();
                    let e_new = c.is_empty(self.tx().repo()).block_on().unwrap();
                    if e_old != e_new {
                        oracle.push((old_pos, 2));
                    }
                    self.track(c);
                }
            }
        }
        oracle.sort();
        if let Some(Op::Rebase(o)) = self.ops.last_mut() {
            o.oracle = oracle;
        }
    }

    /// All commits the driver knows, in creation order, as the implementation sees them.
    pub fn graph(&mut self) -> Vec<CommitObs> {
        let repo = self.repo.clone();
        let mut out = vec![];
        for pos in 0..self.commits.len() {
            let c = self.commits[pos].clone();
            let parents: Vec<usize> = c.parent_ids().iter().map(|p| self.id2pos[p]).collect();
            let d = c.description();
            let desc = if d.is_empty() { 0 } else { parse_num(d.trim_end()) };
            // commits of an aborted transaction are not in the committed index
            let empty = jjv::catch(|| c.is_empty(repo.as_ref()).block_on().unwrap()).unwrap_or(false);
            out.push(CommitObs {
                parents,
                change: self.change2num[c.change_id()],
                desc,
                empty,
                preds: self.preds.get(&pos).cloned().unwrap_or_default(),
            });
        }
        out
    }
}

pub fn ops_term(ops: &[Op]) -> String {
    coq::list(ops.iter(), |o| o.term())
}
