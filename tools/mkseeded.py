#!/usr/bin/env python3
"""Record a confirmed seeded change: copies patch.diff / demo.diff / notes.md from the mutation
author's output, writes meta.json (property, summary, what it needs, what the coordinator ran,
what our checks reported)."""
import json, os, re, shutil, sys
ROOT = "/verif"
META = json.load(open(os.path.join(ROOT, "tools", "seeded_meta.json")))
def detection(pid, logname=None):
    log = os.path.join(ROOT, "work", "mut", (logname or pid) + ".log")
    first = os.path.join(ROOT, "work", "mut", "round1", (logname or pid) + ".log")
    out = []
    for tag, p in (("first run", first), ("final run", log)):
        if not os.path.exists(p):
            continue
        t = open(p, errors="replace").read()
        v = re.findall(r"^VIOLATION .*$", t, re.M)
        q = re.findall(r"^%s quick: .*$" % pid, t, re.M)
        hows = re.findall(r"^# (\w+):", t, re.M)
        if v:
            out.append("%s: %s [%s] (%s)" % (tag, v[-1], ",".join(hows), q[-1] if q else ""))
        else:
            out.append("%s: NOT DETECTED (%s)" % (tag, q[-1] if q else "no result"))
    return " ;; ".join(out)
for sid, m in META.items():
    pid = m["property"]
    src = os.path.join("/tmp/mutw/out", m.get("src", pid))
    dst = os.path.join(ROOT, "seeded", sid)
    os.makedirs(dst, exist_ok=True)
    if os.path.isdir(src):
        for f in ("patch.diff", "demo.diff", "notes.md"):
            if os.path.exists(os.path.join(src, f)):
                shutil.copy(os.path.join(src, f), os.path.join(dst, f))
    m2 = dict(m)
    m2["detected_by"] = m.get("detected_by_override") or detection(pid, m.get("log"))
    json.dump(m2, open(os.path.join(dst, "meta.json"), "w"), indent=1, sort_keys=True)
    print(sid, "->", m2["detected_by"][:150])
