#!/bin/sh
# usage: tools/goal.sh coq/Proofs/X.v LINE   -- show the goals after line LINE
f=$1; n=$2
d=$(mktemp -d /verif/work/goal.XXXXXX)
head -n "$n" "$f" > "$d/G.v"
printf '\nShow.\n' >> "$d/G.v"
(cd /verif/coq && timeout 300 coqc -Q . Verif -noglob -o "$d/G.vo" "$d/G.v" 2>&1 | tail -n ${3:-60})
rm -rf "$d"
