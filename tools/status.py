#!/usr/bin/env python3
"""Print a one-line status per property from props/*.json and evidence/*.json."""
import json, os, glob
ROOT = os.path.dirname(os.path.dirname(os.path.abspath(__file__)))
ids = [json.loads(l)["id"] for l in open(os.path.join(ROOT, "properties.jsonl"))]
for pid in ids:
    pj = os.path.join(ROOT, "props", pid + ".json")
    ev = os.path.join(ROOT, "evidence", pid + ".json")
    c = json.load(open(pj)) if os.path.exists(pj) else None
    e = json.load(open(ev)) if os.path.exists(ev) else None
    files = [os.path.exists(os.path.join(ROOT, p)) for p in ("coq/Model/%s.v" % pid, "coq/Props/%s.v" % pid, "harness/src/bin/%s.rs" % pid.lower())]
    s = "%s model=%d props=%d bin=%d cfg=%s claimed=%s" % (pid, files[0], files[1], files[2], "y" if c else "n", c.get("claimed", True) if c else "-")
    if e:
        cov = e["coverage"]
        s += " | %s thm %d/%d cases %d nontriv %d viol %d wall %.0fs" % (e["tier"], cov.get("discharged", 0), cov.get("obligations", 0), cov.get("evaluations", 0), cov.get("distinct_nontrivial", 0), e.get("violations", 0), e["wall_s"])
    print(s)
