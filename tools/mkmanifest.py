#!/usr/bin/env python3
"""Generate MANIFEST.json from props/*.json (claimed checks) and props/not_applicable.json."""
import json, glob, os
ROOT = os.path.dirname(os.path.dirname(os.path.abspath(__file__)))
import subprocess
def hook_commits():
    try:
        out = subprocess.run(["git", "-C", "/repo", "log", "--format=%H %s", "--grep", "^verif hook"], capture_output=True, text=True).stdout
        return [l.split()[0] for l in out.splitlines() if l.strip()][::-1]
    except Exception:
        return []
checks = []
claimed = set()
for p in sorted(glob.glob(os.path.join(ROOT, "props", "C*.json"))):
    c = json.load(open(p))
    if not c.get("claimed", True):
        continue
    pid = c["id"]
    claimed.add(pid)
    checks.append({
        "property_id": pid,
        "quick_cmd": "./check %s --tier quick" % pid,
        "thorough_cmd": "./check %s --tier thorough" % pid,
        "evidence_file": "/verif/evidence/%s.json" % pid,
        "replay_cmd_template": "./check %s --replay {path}" % pid,
        "engine": "coq-model+correspondence",
        "level_claimed": {"category": "proof", "text": c["level_text"], "design_ref": c.get("design_ref", "DESIGN.md §6")},
        "level_note": c["level_note"],
        "technique": c["technique"],
    })
na_path = os.path.join(ROOT, "props", "not_applicable.json")
na = json.load(open(na_path)) if os.path.exists(na_path) else {}
allp = [json.loads(l)["id"] for l in open(os.path.join(ROOT, "properties.jsonl"))]
not_app = []
for pid in allp:
    if pid in claimed:
        continue
    not_app.append({"property_id": pid, "reason": na.get(pid, "not yet claimed: model, theorems and tie for this property are not built yet (see DESIGN.md §6); nothing is asserted about it")})
m = {
    "version": 1,
    "setup_cmd": "./check --setup",
    "hooks": {
        "guard": "jj_vcs_jj_verif",
        "enable": "RUSTFLAGS=\"--cfg jj_vcs_jj_verif\" (set in /verif/harness/.cargo/config.toml; the harness crate builds /repo/lib, /repo/core, /repo/cli by path)",
        "baseline_off_cmd": "cd /repo && cargo nextest run --workspace --no-fail-fast --offline || cargo test --workspace --no-fail-fast --offline",
        "source_commits": hook_commits(),
        "add_only": True,
    },
    "engines": [{
        "name": "coq-model+correspondence",
        "path": "/verif/check",
        "serves_properties": sorted(claimed),
        "kind_free_text": "Coq 8.16.1 theorems over hand-written executable Gallina models (coq/Model, coq/Proofs, coq/Props), constants regenerated from the Rust sources by tools/gen_tables.py, and a per-run correspondence check: the Rust harness (harness/) runs the implementation on seeded cases and the Coq VM evaluates model-vs-implementation and the proved property checker on each case",
    }],
    "checks": checks,
    "notes": "See DESIGN.md. known_findings.txt lists genuine defects recorded or fixed.",
    "not_applicable": not_app,
}
with open(os.path.join(ROOT, "MANIFEST.json"), "w") as f:
    json.dump(m, f, indent=1)
    f.write("\n")
print("claimed:", len(claimed), "unclaimed:", len(not_app))
