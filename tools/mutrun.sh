#!/bin/bash
# Run registered checks against a MUTATED copy of /repo without touching /repo or /verif:
#   tools/mutrun.sh <patch.diff> C01 [C02 ...]         (patch relative to /repo's HEAD)
# A private mount namespace bind-mounts a scratch git worktree of /repo over /repo and a copy
# of /verif (with its build caches) over /verif, so absolute paths inside the checks still work.
# Everything lives under /tmp/mutrun.$$ and is removed afterwards. Env TIER=quick|thorough.
set -u
patch=$(readlink -f "$1"); shift
base=/tmp/mutrun.$$
mkdir -p "$base"
trap 'git -C /repo worktree remove --force "$base/repo" >/dev/null 2>&1; rm -rf "$base"; git -C /repo worktree prune' EXIT
git -C /repo worktree add --detach "$base/repo" HEAD >/dev/null 2>&1 || { echo "worktree failed"; exit 2; }
if [ -s "$patch" ]; then
  git -C "$base/repo" apply "$patch" || { echo "PATCH DOES NOT APPLY"; exit 2; }
fi
mkdir -p "$base/verif"
rsync -a --exclude work --exclude replays --exclude .git /verif/ "$base/verif/"
out="$base/out.txt"
unshare -m bash -c "
  mount --bind $base/repo /repo && mount --bind $base/verif /verif && cd /verif &&
  for p in $*; do
    echo \"== \$p\"; timeout 3000 ./check \$p --tier ${TIER:-quick} 2>&1 | tail -6
    for r in \$(ls replays/\$p/*.json 2>/dev/null | head -2); do echo \"-- \$r\"; head -c 1500 \$r; echo; done
  done" | tee "$out"
