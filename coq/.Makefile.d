Base/Prelude.vo Base/Prelude.glob Base/Prelude.v.beautified Base/Prelude.required_vo: Base/Prelude.v 
Base/Prelude.vio: Base/Prelude.v 
Base/Prelude.vos Base/Prelude.vok Base/Prelude.required_vos: Base/Prelude.v 
Model/Merge.vo Model/Merge.glob Model/Merge.v.beautified Model/Merge.required_vo: Model/Merge.v Base/Prelude.vo
Model/Merge.vio: Model/Merge.v Base/Prelude.vio
Model/Merge.vos Model/Merge.vok Model/Merge.required_vos: Model/Merge.v Base/Prelude.vos
Model/C01.vo Model/C01.glob Model/C01.v.beautified Model/C01.required_vo: Model/C01.v Base/Prelude.vo Model/Merge.vo
Model/C01.vio: Model/C01.v Base/Prelude.vio Model/Merge.vio
Model/C01.vos Model/C01.vok Model/C01.required_vos: Model/C01.v Base/Prelude.vos Model/Merge.vos
