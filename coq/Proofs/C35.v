(** Proofs for C35 (and the unescape totality used by C36). *)
From Verif Require Import Base.Prelude Gen.Tables Model.C35.
From Coq Require Import Lia.
Local Open Scope N_scope.

(* ------------------------------------------------------------------ the scraped tables *)

Lemma escape_table_value :
  escape_table = [(34, [92; 34]); (92, [92; 92]); (9, [92; 116]); (13, [92; 114]);
                  (10, [92; 110]); (0, [92; 48])].
Proof. vm_compute. reflexivity. Qed.

Lemma unescape_table_value :
  unescape_table = [([34], 34); ([92], 92); ([116], 9); ([114], 13); ([110], 10); ([48], 0);
                    ([101], 27)].
Proof. vm_compute. reflexivity. Qed.

Lemma tables_wf_true : tables_wf = true.
Proof. vm_compute. reflexivity. Qed.

Lemma format_string_value : forall s, format_string s = 34 :: escape_string s ++ [34].
Proof. intros s. reflexivity. Qed.

Lemma format_remote_value : forall x a b,
  format_remote_symbol x a b = format_symbol x a ++ 64 :: format_symbol x b.
Proof.
  intros x a b. unfold format_remote_symbol, format_remote_pieces.
  cbn [app]. rewrite app_nil_r. reflexivity.
Qed.

(* ------------------------------------------------------------------ equality tests *)

Lemma str_eqb_spec : forall a b : str, str_eqb a b = true <-> a = b.
Proof.
  unfold str_eqb. induction a as [|x a IH]; destruct b as [|y b]; cbn [list_eqb]; split; intros H;
    try reflexivity; try discriminate.
  - apply andb_true_iff in H. destruct H as [H1 H2]. apply N.eqb_eq in H1. apply IH in H2.
    congruence.
  - injection H as -> ->. apply andb_true_iff. split; [apply N.eqb_refl | apply IH; reflexivity].
Qed.

Lemma str_eqb_refl : forall a, str_eqb a a = true.
Proof. intros a. apply str_eqb_spec. reflexivity. Qed.

Lemma node_eqb_spec : forall a b, node_eqb a b = true <-> a = b.
Proof.
  intros a b. destruct a, b; cbn [node_eqb]; split; intros H; try discriminate; try reflexivity;
    try (apply str_eqb_spec in H; congruence);
    try (injection H as ->; apply str_eqb_refl).
  - apply andb_true_iff in H. destruct H as [H1 H2].
    apply str_eqb_spec in H1. apply str_eqb_spec in H2. congruence.
  - injection H as -> ->. rewrite !str_eqb_refl. reflexivity.
Qed.

(* ------------------------------------------------------------------ hex digits *)

Lemma small_enum16 : forall d, d < 16 ->
  d = 0 \/ d = 1 \/ d = 2 \/ d = 3 \/ d = 4 \/ d = 5 \/ d = 6 \/ d = 7 \/ d = 8 \/ d = 9 \/
  d = 10 \/ d = 11 \/ d = 12 \/ d = 13 \/ d = 14 \/ d = 15.
Proof. intros d H. lia. Qed.

Lemma hex_lower_digit : forall d, d < 16 ->
  is_hex_digit (hex_lower d) = true /\ hexv (hex_lower d) = Some d /\ (hex_lower d =? 43) = false.
Proof.
  intros d H. apply small_enum16 in H.
  repeat (destruct H as [H|H]; [subst d; vm_compute; repeat split; reflexivity|]).
  subst d. vm_compute. repeat split; reflexivity.
Qed.

Lemma from_hex2 : forall a b, a < 16 -> b < 16 ->
  from_str_radix16_u8 [hex_lower a; hex_lower b] = Some (16 * a + b).
Proof.
  intros a b Ha Hb.
  destruct (hex_lower_digit a Ha) as (_ & Hva & H43).
  destruct (hex_lower_digit b Hb) as (_ & Hvb & _).
  unfold from_str_radix16_u8. rewrite H43.
  cbn [hex_digits_value]. rewrite Hva. cbn [hex_digits_value]. rewrite Hvb.
  cbn [hex_digits_value].
  replace (16 * (16 * 0 + a) + b) with (16 * a + b) by lia.
  destruct (N.leb_spec (16 * a + b) 255); [reflexivity | lia].
Qed.

(* ------------------------------------------------------------------ escape, then lex, then unescape *)

Definition part_char (p : part) : option N :=
  match p with PContent c => Some c | PEscape b => unescape_arm b end.

Lemma unescape_parts_cons : forall p ps c s,
  part_char p = Some c -> unescape_parts ps = Some s -> unescape_parts (p :: ps) = Some (c :: s).
Proof.
  intros [c'|b] ps c s Hp Hs; cbn [unescape_parts part_char] in *.
  - injection Hp as ->. rewrite Hs. reflexivity.
  - rewrite Hp, Hs. reflexivity.
Qed.

Lemma lex_hex_escape : forall h1 h2 tail ps r,
  is_hex_digit h1 = true -> is_hex_digit h2 = true ->
  lex_literal_body tail = Some (ps, r) ->
  lex_literal_body (92 :: 120 :: h1 :: h2 :: tail) = Some (PEscape [120; h1; h2] :: ps, r).
Proof.
  intros h1 h2 tail ps r H1 H2 Ht.
  cbn [lex_literal_body].
  change (92 =? 34) with false. change (92 =? 92) with true. change (120 =? 120) with true.
  cbv iota. rewrite H1, H2. cbn [andb]. rewrite Ht. reflexivity.
Qed.

Lemma lex_single_escape : forall d tail ps r,
  escape_single d = true -> (d =? 120) = false ->
  lex_literal_body tail = Some (ps, r) ->
  lex_literal_body (92 :: d :: tail) = Some (PEscape [d] :: ps, r).
Proof.
  intros d tail ps r H1 H2 Ht.
  cbn [lex_literal_body].
  change (92 =? 34) with false. change (92 =? 92) with true.
  cbv iota. rewrite H2, H1, Ht. reflexivity.
Qed.

Lemma ascii_escape_default_ctrl : forall c,
  is_ascii_control c = true -> c <> 9 -> c <> 13 -> c <> 10 ->
  ascii_escape_default c = [92; 120; hex_lower (c / 16); hex_lower (c mod 16)].
Proof.
  intros c Hc H9 H13 H10. unfold is_ascii_control in Hc.
  apply orb_true_iff in Hc.
  assert (Hr : c <= 31 \/ c = 127).
  { destruct Hc as [Hc|Hc]; [left; apply N.leb_le; exact Hc | right; apply N.eqb_eq; exact Hc]. }
  unfold ascii_escape_default.
  destruct (N.eqb_spec c 9); [contradiction|].
  destruct (N.eqb_spec c 13); [contradiction|].
  destruct (N.eqb_spec c 10); [contradiction|].
  destruct (N.eqb_spec c 39); [lia|].
  destruct (N.eqb_spec c 34); [lia|].
  destruct (N.eqb_spec c 92); [lia|].
  destruct (N.leb_spec 32 c); destruct (N.leb_spec c 126); cbn [andb]; try reflexivity; lia.
Qed.

Lemma unescape_arm_hex : forall h1 h2,
  unescape_arm [120; h1; h2] = from_str_radix16_u8 [h1; h2].
Proof.
  intros h1 h2. unfold unescape_arm. rewrite unescape_table_value.
  cbn [assoc_s str_eqb list_eqb].
  change (34 =? 120) with false. change (92 =? 120) with false. change (116 =? 120) with false.
  change (114 =? 120) with false. change (110 =? 120) with false. change (48 =? 120) with false.
  change (101 =? 120) with false. cbn [andb]. reflexivity.
Qed.

(** One character: escape it, lex it back, unescape it. *)
Lemma lex_escape_char : forall c tail ps r,
  lex_literal_body tail = Some (ps, r) ->
  exists p, lex_literal_body (escape_char c ++ tail) = Some (p :: ps, r) /\ part_char p = Some c.
Proof.
  intros c tail ps r Ht. unfold escape_char. rewrite escape_table_value. cbn [assoc_n].
  destruct (N.eqb_spec 34 c) as [<-|N34].
  { exists (PEscape [34]). split; [apply lex_single_escape; auto | vm_compute; reflexivity]. }
  destruct (N.eqb_spec 92 c) as [<-|N92].
  { exists (PEscape [92]). split; [apply lex_single_escape; auto | vm_compute; reflexivity]. }
  destruct (N.eqb_spec 9 c) as [<-|N9].
  { exists (PEscape [116]). split; [apply lex_single_escape; auto | vm_compute; reflexivity]. }
  destruct (N.eqb_spec 13 c) as [<-|N13].
  { exists (PEscape [114]). split; [apply lex_single_escape; auto | vm_compute; reflexivity]. }
  destruct (N.eqb_spec 10 c) as [<-|N10].
  { exists (PEscape [110]). split; [apply lex_single_escape; auto | vm_compute; reflexivity]. }
  destruct (N.eqb_spec 0 c) as [<-|N0].
  { exists (PEscape [48]). split; [apply lex_single_escape; auto | vm_compute; reflexivity]. }
  destruct (is_ascii_control c) eqn:Hctl.
  - rewrite ascii_escape_default_ctrl by (auto; congruence).
    assert (Hlt : c < 128).
    { unfold is_ascii_control in Hctl. apply orb_true_iff in Hctl.
      destruct Hctl as [H|H]; [apply N.leb_le in H; lia | apply N.eqb_eq in H; lia]. }
    assert (Ha : c / 16 < 16) by (apply N.div_lt_upper_bound; lia).
    assert (Hb : c mod 16 < 16) by (apply N.mod_lt; lia).
    destruct (hex_lower_digit _ Ha) as (Hha & _ & _).
    destruct (hex_lower_digit _ Hb) as (Hhb & _ & _).
    exists (PEscape [120; hex_lower (c / 16); hex_lower (c mod 16)]). split.
    + cbn [app]. apply lex_hex_escape; assumption.
    + cbn [part_char]. rewrite unescape_arm_hex, from_hex2 by assumption.
      f_equal. symmetry. apply N.div_mod. lia.
  - exists (PContent c). split; [|reflexivity].
    cbn [app lex_literal_body].
    destruct (N.eqb_spec c 34); [congruence|]. destruct (N.eqb_spec c 92); [congruence|].
    rewrite Ht. reflexivity.
Qed.

Lemma lex_escape_string : forall s rest,
  exists ps, lex_literal_body (escape_string s ++ 34 :: rest) = Some (ps, rest)
             /\ unescape_parts ps = Some s.
Proof.
  induction s as [|c s IH]; intros rest.
  - exists []. split; reflexivity.
  - destruct (IH rest) as (ps & Hl & Hu).
    destruct (lex_escape_char c _ _ _ Hl) as (p & Hp & Hc).
    exists (p :: ps). split.
    + unfold escape_string in *. cbn [flat_map]. rewrite <- app_assoc. exact Hp.
    + apply unescape_parts_cons; assumption.
Qed.

Lemma string_literal_roundtrip : forall s rest,
  parse_string_literal (format_string s ++ rest) = POk s rest.
Proof.
  intros s rest. rewrite format_string_value.
  cbn [app parse_string_literal]. change (34 =? 34) with true. cbv iota.
  rewrite <- app_assoc. cbn [app].
  destruct (lex_escape_string s rest) as (ps & Hl & Hu). rewrite Hl, Hu. reflexivity.
Qed.

(* ------------------------------------------------------------------ unescape totality (C36) *)

Lemma escape_single_arm : forall d, escape_single d = true -> unescape_arm [d] <> None.
Proof.
  intros d H. unfold escape_single in H.
  repeat (apply orb_true_iff in H; destruct H as [H|H]);
    apply N.eqb_eq in H; subst d; vm_compute; discriminate.
Qed.

Lemma hexv_of_digit : forall h, is_hex_digit h = true -> exists v, hexv h = Some v /\ v < 16.
Proof.
  intros h H. unfold is_hex_digit in H. unfold hexv.
  destruct (N.leb_spec 48 h); destruct (N.leb_spec h 57); cbn [andb orb] in *.
  1: { eexists; split; [reflexivity | lia]. }
  all: destruct (N.leb_spec 97 h); destruct (N.leb_spec h 102); cbn [andb orb] in *.
  all: try (eexists; split; [reflexivity | lia]).
  all: destruct (N.leb_spec 65 h); destruct (N.leb_spec h 70); cbn [andb orb] in *.
  all: try (eexists; split; [reflexivity | lia]).
  all: discriminate.
Qed.

Lemma hex_digit_not_plus : forall h, is_hex_digit h = true -> (h =? 43) = false.
Proof.
  intros h H. destruct (N.eqb_spec h 43) as [->|]; [vm_compute in H; discriminate | reflexivity].
Qed.

Lemma from_hex2_total : forall h1 h2,
  is_hex_digit h1 = true -> is_hex_digit h2 = true -> from_str_radix16_u8 [h1; h2] <> None.
Proof.
  intros h1 h2 H1 H2.
  destruct (hexv_of_digit _ H1) as (a & Ha & La). destruct (hexv_of_digit _ H2) as (b & Hb & Lb).
  unfold from_str_radix16_u8. rewrite (hex_digit_not_plus _ H1).
  cbn [hex_digits_value]. rewrite Ha. cbn [hex_digits_value]. rewrite Hb. cbn [hex_digits_value].
  destruct (N.leb_spec (16 * (16 * 0 + a) + b) 255); [discriminate | lia].
Qed.

(** Every text the [string_escape] rule accepts is handled by a non-panicking arm of
    StringLiteralParser::parse. *)
Lemma unescape_total : forall l body rest,
  grammar_escape_body l = Some (body, rest) -> unescape_arm body <> None.
Proof.
  intros l body rest H. unfold grammar_escape_body in H.
  destruct l as [|d r1]; [discriminate|].
  destruct (N.eqb_spec d 120) as [->|Hd].
  - destruct r1 as [|h1 [|h2 r2]]; try discriminate.
    destruct (is_hex_digit h1) eqn:H1; [|discriminate].
    destruct (is_hex_digit h2) eqn:H2; [|discriminate].
    cbn [andb] in H. injection H as <- <-.
    rewrite unescape_arm_hex. apply from_hex2_total; assumption.
  - destruct (escape_single d) eqn:Hs; [|discriminate].
    injection H as <- <-. apply escape_single_arm. exact Hs.
Qed.

(** The lexer only produces escape parts the grammar rule accepts. *)
Lemma lex_parts_total : forall l ps rest,
  lex_literal_body l = Some (ps, rest) -> unescape_parts ps <> None.
Proof.
  assert (Hpush : forall p o ps rest, push_part p o = Some (ps, rest) ->
            exists ps', o = Some (ps', rest) /\ ps = p :: ps').
  { intros p [[ps' r']|] ps rest H; cbn in H; [|discriminate].
    injection H as <- <-. eauto. }
  intros l. remember (length l) as n eqn:Hn. revert l Hn.
  induction n as [n IH] using (well_founded_induction Wf_nat.lt_wf).
  intros l Hn ps rest H. destruct l as [|c r]; [discriminate|]. cbn [lex_literal_body] in H.
  destruct (N.eqb_spec c 34).
  { injection H as <- <-. cbn. discriminate. }
  destruct (N.eqb_spec c 92).
  - destruct r as [|d r1]; [discriminate|].
    destruct (N.eqb_spec d 120) as [->|Hd].
    + destruct r1 as [|h1 [|h2 r2]]; try discriminate.
      destruct (is_hex_digit h1) eqn:H1; [|discriminate].
      destruct (is_hex_digit h2) eqn:H2; [|discriminate].
      cbn [andb] in H. apply Hpush in H. destruct H as (ps' & Hl & ->).
      cbn [unescape_parts]. rewrite unescape_arm_hex.
      pose proof (from_hex2_total h1 h2 H1 H2) as Hh.
      destruct (from_str_radix16_u8 [h1; h2]); [|congruence].
      assert (Hr : unescape_parts ps' <> None).
      { eapply (IH (length r2)); [subst n; cbn [length]; lia | reflexivity | exact Hl]. }
      destruct (unescape_parts ps'); [discriminate | congruence].
    + destruct (escape_single d) eqn:Hs; [|discriminate].
      apply Hpush in H. destruct H as (ps' & Hl & ->).
      cbn [unescape_parts]. pose proof (escape_single_arm d Hs) as Hh.
      destruct (unescape_arm [d]); [|congruence].
      assert (Hr : unescape_parts ps' <> None).
      { eapply (IH (length r1)); [subst n; cbn [length]; lia | reflexivity | exact Hl]. }
      destruct (unescape_parts ps'); [discriminate | congruence].
  - apply Hpush in H. destruct H as (ps' & Hl & ->).
    cbn [unescape_parts].
    assert (Hr : unescape_parts ps' <> None).
    { eapply (IH (length r)); [subst n; cbn [length]; lia | reflexivity | exact Hl]. }
    destruct (unescape_parts ps'); [discriminate | congruence].
Qed.

Lemma string_literal_never_panics : forall l, parse_string_literal l <> PPanic.
Proof.
  intros [|c r]; cbn [parse_string_literal]; [discriminate|].
  destruct (c =? 34); [|discriminate].
  destruct (lex_literal_body r) as [[ps rest]|] eqn:Hl; [|discriminate].
  pose proof (lex_parts_total _ _ _ Hl) as Hp.
  destruct (unescape_parts ps); [discriminate | congruence].
Qed.

(* ------------------------------------------------------------------ identifiers *)

Section Ident.
  Context (xidc : N -> bool).
  Notation idp := (ident_part_char xidc).

  (** identifier_part restricted to ASCII is [0-9A-Za-z_*/]: a fact about pest's XID_CONTINUE
      table, audited on the real grammar by every run (case CAudit). *)
  Hypothesis ascii_ok : forall c, c < 128 -> idp c = true -> ascii_ident_expected c = true.

  Lemma not_idp : forall c, c < 128 -> ascii_ident_expected c = false -> idp c = false.
  Proof.
    intros c Hc He. destruct (idp c) eqn:Hi; [|reflexivity].
    rewrite (ascii_ok c Hc Hi) in He. discriminate.
  Qed.

  Lemma cons_m_some : forall c o m r, cons_m c o = Some (m, r) ->
    exists m', o = Some (m', r) /\ m = c :: m'.
  Proof. intros c [[m' r']|] m r H; cbn in H; [injection H as <- <-; eauto | discriminate]. Qed.

  Definition stop_ok (rest : str) : Prop :=
    match rest with
    | [] => True
    | h :: _ => idp h = false /\ h <> 46 /\ h <> 43 /\ h <> 45
    end.

  Definition identish (c : N) : Prop := idp c = true \/ c = 46 \/ c = 43 \/ c = 45.

  Lemma scan_full : forall s st m,
    scan xidc st s = Some (m, []) -> m = s /\ Forall identish s.
  Proof.
    induction s as [|c r IH]; intros st m H.
    - destruct st; cbn in H; try discriminate. injection H as <-. split; constructor.
    - cbn [scan] in H. destruct st.
      + destruct (idp c) eqn:Hi.
        * apply cons_m_some in H. destruct H as (m' & H & ->).
          apply IH in H. destruct H as [-> HF]. split; [reflexivity|].
          constructor; [left; exact Hi | exact HF].
        * destruct ((c =? 46) || (c =? 43)) eqn:Hs.
          { destruct (scan xidc ISingle r) as [[m' r']|] eqn:Hr; [|discriminate].
            injection H as <- ->. apply IH in Hr. destruct Hr as [-> HF]. split; [reflexivity|].
            constructor; [|exact HF]. apply orb_true_iff in Hs.
            destruct Hs as [Hs|Hs]; apply N.eqb_eq in Hs; unfold identish; auto. }
          destruct (N.eqb_spec c 45) as [->|]; [|discriminate].
          destruct (scan xidc IDash r) as [[m' r']|] eqn:Hr; [|discriminate].
          injection H as <- ->. apply IH in Hr. destruct Hr as [-> HF]. split; [reflexivity|].
          constructor; [unfold identish; auto | exact HF].
      + destruct (idp c) eqn:Hi; [|discriminate].
        apply cons_m_some in H. destruct H as (m' & H & ->).
        apply IH in H. destruct H as [-> HF]. split; [reflexivity|].
        constructor; [left; exact Hi | exact HF].
      + destruct (N.eqb_spec c 45) as [->|].
        * apply cons_m_some in H. destruct H as (m' & H & ->).
          apply IH in H. destruct H as [-> HF]. split; [reflexivity|].
          constructor; [unfold identish; auto | exact HF].
        * destruct (idp c) eqn:Hi; [|discriminate].
          apply cons_m_some in H. destruct H as (m' & H & ->).
          apply IH in H. destruct H as [-> HF]. split; [reflexivity|].
          constructor; [left; exact Hi | exact HF].
  Qed.

  Lemma scan_app : forall s st m rest,
    scan xidc st s = Some (m, []) -> stop_ok rest -> scan xidc st (s ++ rest) = Some (m, rest).
  Proof.
    induction s as [|c r IH]; intros st m rest H Hstop.
    - destruct st; cbn in H; try discriminate. injection H as <-. cbn [app].
      destruct rest as [|h t]; [reflexivity|].
      destruct Hstop as (Hi & H46 & H43 & H45). cbn [scan]. rewrite Hi.
      destruct (N.eqb_spec h 46); [contradiction|]. destruct (N.eqb_spec h 43); [contradiction|].
      destruct (N.eqb_spec h 45); [contradiction|]. reflexivity.
    - cbn [app scan] in *. destruct st.
      + destruct (idp c) eqn:Hi.
        * apply cons_m_some in H. destruct H as (m' & H & ->).
          rewrite (IH _ _ _ H Hstop). reflexivity.
        * destruct ((c =? 46) || (c =? 43)) eqn:Hs.
          { destruct (scan xidc ISingle r) as [[m' r']|] eqn:Hr; [|discriminate].
            injection H as <- ->. rewrite (IH _ _ _ Hr Hstop). reflexivity. }
          destruct (N.eqb_spec c 45) as [->|]; [|discriminate].
          destruct (scan xidc IDash r) as [[m' r']|] eqn:Hr; [|discriminate].
          injection H as <- ->. rewrite (IH _ _ _ Hr Hstop). reflexivity.
      + destruct (idp c) eqn:Hi; [|discriminate].
        apply cons_m_some in H. destruct H as (m' & H & ->).
        rewrite (IH _ _ _ H Hstop). reflexivity.
      + destruct (N.eqb_spec c 45) as [->|].
        * apply cons_m_some in H. destruct H as (m' & H & ->).
          rewrite (IH _ _ _ H Hstop). reflexivity.
        * destruct (idp c) eqn:Hi; [|discriminate].
          apply cons_m_some in H. destruct H as (m' & H & ->).
          rewrite (IH _ _ _ H Hstop). reflexivity.
  Qed.

  Lemma is_identifier_lex : forall s, is_identifier xidc s = true ->
    lex_identifier xidc s = Some (s, []) /\ Forall identish s
    /\ exists c r, s = c :: r /\ idp c = true.
  Proof.
    intros s H. unfold is_identifier in H.
    destruct (lex_identifier xidc s) as [[m r]|] eqn:Hl; [|discriminate].
    destruct r; [|discriminate].
    unfold lex_identifier in Hl. destruct s as [|c r]; [discriminate|].
    destruct (idp c) eqn:Hi; [|discriminate].
    apply cons_m_some in Hl. destruct Hl as (m' & Hl & ->).
    apply scan_full in Hl. destruct Hl as [-> HF].
    split; [reflexivity|]. split; [constructor; [left; exact Hi | exact HF]|]. eauto.
  Qed.

  Lemma lex_identifier_app : forall s rest,
    is_identifier xidc s = true -> stop_ok rest ->
    lex_identifier xidc (s ++ rest) = Some (s, rest).
  Proof.
    intros s rest H Hstop. unfold is_identifier in H.
    destruct (lex_identifier xidc s) as [[m r]|] eqn:Hl; [|discriminate].
    destruct r; [|discriminate].
    unfold lex_identifier in *. destruct s as [|c r]; [discriminate|]. cbn [app].
    destruct (idp c) eqn:Hi; [|discriminate].
    apply cons_m_some in Hl. destruct Hl as (m' & Hl & ->).
    pose proof (scan_full _ _ _ Hl) as [-> _].
    rewrite (scan_app _ _ _ _ Hl Hstop). reflexivity.
  Qed.

  (* ---------------------------------------------------------------- symbols *)

  (** What may follow a formatted symbol in the outputs we consider: nothing, or '@'. *)
  Definition stop_sym (rest : str) : Prop := rest = [] \/ exists t, rest = 64 :: t.

  Lemma idp_false_ascii : forall c, c < 128 -> ascii_ident_expected c = false -> idp c = false.
  Proof. exact not_idp. Qed.

  Lemma stop_sym_ok : forall rest, stop_sym rest -> stop_ok rest.
  Proof.
    intros rest [->|[t ->]]; cbn; [exact I|].
    split; [apply not_idp; [lia | vm_compute; reflexivity]|]. repeat split; discriminate.
  Qed.

  Lemma idp34 : idp 34 = false.
  Proof. apply not_idp; [lia | vm_compute; reflexivity]. Qed.

  Lemma lex_symbol_format : forall s rest, stop_sym rest ->
    exists t, lex_symbol xidc (format_symbol xidc s ++ rest) = Some (t, rest)
              /\ symtok_string t = Some s
              /\ (is_identifier xidc s = true -> t = SIdent s)
              /\ (is_identifier xidc s = false -> exists ps, t = SQuoted ps).
  Proof.
    intros s rest Hstop. unfold format_symbol.
    destruct (is_identifier xidc s) eqn:Hid.
    - exists (SIdent s). unfold lex_symbol.
      rewrite (lex_identifier_app s rest Hid (stop_sym_ok _ Hstop)).
      repeat split; try reflexivity. discriminate.
    - rewrite format_string_value. cbn [app]. rewrite <- app_assoc. cbn [app].
      destruct (lex_escape_string s rest) as (ps & Hl & Hu).
      exists (SQuoted ps). unfold lex_symbol. cbn [lex_identifier]. rewrite idp34.
      change (34 =? 34) with true. cbv iota. rewrite Hl.
      repeat split; try assumption; try discriminate. eauto.
  Qed.

  Lemma format_symbol_head : forall s rest,
    exists c t, format_symbol xidc s ++ rest = c :: t /\ is_ws c = false /\ (c =? 126) = false
                /\ (c =? 64) = false /\ (c =? 58) = false /\ (c =? 46) = false.
  Proof.
    intros s rest. unfold format_symbol. destruct (is_identifier xidc s) eqn:Hid.
    - destruct (is_identifier_lex s Hid) as (_ & _ & c & r & -> & Hi).
      exists c, (r ++ rest). split; [reflexivity|].
      assert (Hne : forall k, k < 128 -> ascii_ident_expected k = false -> c <> k).
      { intros k Hk He ->. rewrite (not_idp k Hk He) in Hi. discriminate. }
      unfold is_ws.
      repeat match goal with
             | |- context [c =? ?k] =>
               let E := fresh "E" in
               destruct (N.eqb_spec c k) as [E|E];
               [exfalso; apply (Hne k); [lia | vm_compute; reflexivity | exact E]|]
             end.
      repeat split; reflexivity.
    - rewrite format_string_value. cbn [app]. exists 34. eexists. split; [reflexivity|].
      vm_compute. repeat split; reflexivity.
  Qed.

  Lemma head_drop_while : forall (p : N -> bool) q s rest,
    Forall (fun c => c <> q) s ->
    (rest = [] \/ exists h t, rest = h :: t /\ p h = false /\ h <> q) ->
    head_is q (drop_while p (s ++ rest)) = false.
  Proof.
    intros p q s rest HF Hr. induction HF as [|c s Hc HF IH]; cbn [app].
    - destruct Hr as [->|(h & t & -> & Hp & Hq)]; [reflexivity|].
      cbn [drop_while]. rewrite Hp. cbn [head_is]. apply N.eqb_neq. exact Hq.
    - cbn [drop_while]. destruct (p c); [exact IH|]. cbn [head_is]. apply N.eqb_neq. exact Hc.
  Qed.

  Lemma identish_neq : forall s q, q < 128 -> ascii_ident_expected q = false ->
    q <> 46 -> q <> 43 -> q <> 45 -> Forall identish s -> Forall (fun c => c <> q) s.
  Proof.
    intros s q Hq He H46 H43 H45 HF. induction HF as [|c s Hc HF IH]; constructor; [|exact IH].
    intros ->. destruct Hc as [Hc|[Hc|[Hc|Hc]]]; try contradiction.
    rewrite (not_idp q Hq He) in Hc. discriminate.
  Qed.

  Lemma guard_format : forall s rest, stop_sym rest ->
    primary_guard (format_symbol xidc s ++ rest) = false.
  Proof.
    intros s rest Hstop. unfold format_symbol. destruct (is_identifier xidc s) eqn:Hid.
    - destruct (is_identifier_lex s Hid) as (_ & HF & _).
      unfold primary_guard. apply orb_false_iff. split.
      + apply head_drop_while.
        * apply identish_neq; try assumption; try lia; try discriminate. vm_compute. reflexivity.
        * destruct Hstop as [->|[t ->]]; [left; reflexivity|].
          right. exists 64, t. split; [reflexivity|]. split; [vm_compute; reflexivity | discriminate].
      + apply head_drop_while.
        * apply identish_neq; try assumption; try lia; try discriminate. vm_compute. reflexivity.
        * destruct Hstop as [->|[t ->]]; [left; reflexivity|].
          right. exists 64, t. split; [reflexivity|]. split; [vm_compute; reflexivity | discriminate].
    - rewrite format_string_value. cbn [app]. unfold primary_guard. cbn [drop_while].
      change (is_ascii_alnum 34) with false. change (34 =? 95) with false.
      change (34 =? 47) with false. change (34 =? 46) with false. change (34 =? 45) with false.
      change (34 =? 43) with false. cbn [orb head_is]. reflexivity.
  Qed.

  Lemma skip_ws_head : forall c t, is_ws c = false -> skip_ws (c :: t) = c :: t.
  Proof. intros c t H. cbn [skip_ws]. rewrite H. reflexivity. Qed.

  (* ---------------------------------------------------------------- program level *)

  Definition symbol_node (s : str) : node :=
    if is_identifier xidc s then NIdentifier s else NString s.

  Lemma build_symbol : forall s t,
    symtok_string t = Some s ->
    (is_identifier xidc s = true -> t = SIdent s) ->
    (is_identifier xidc s = false -> exists ps, t = SQuoted ps) ->
    build_node (TSymbol t) = Some (symbol_node s).
  Proof.
    intros s t Hs Hi Hq. unfold symbol_node. destruct (is_identifier xidc s).
    - rewrite (Hi eq_refl). reflexivity.
    - destruct (Hq eq_refl) as [ps ->]. cbn [build_node]. rewrite Hs. reflexivity.
  Qed.

  Lemma symbol_roundtrip : forall s,
    parse_program_symbol xidc (format_symbol xidc s) = OOk (symbol_node s).
  Proof.
    intros s. unfold parse_program_symbol.
    destruct (format_symbol_head s []) as (c & t & Heq & Hws & H126 & H64 & _).
    pose proof (guard_format s [] (or_introl eq_refl)) as Hg.
    destruct (lex_symbol_format s [] (or_introl eq_refl)) as (tok & Hl & Hs & Hi & Hq).
    rewrite app_nil_r in *. rewrite Heq in *. rewrite (skip_ws_head _ _ Hws), H126, Hg.
    unfold lex_primary_symbol. rewrite Hl. cbn [skip_ws].
    rewrite (build_symbol s tok Hs Hi Hq). reflexivity.
  Qed.

  Lemma string_roundtrip_program : forall s,
    parse_program_symbol xidc (format_string s) = OOk (NString s).
  Proof.
    intros s. unfold parse_program_symbol. rewrite format_string_value.
    rewrite skip_ws_head by (vm_compute; reflexivity).
    change (34 =? 126) with false. cbv iota.
    assert (Hg : primary_guard (34 :: escape_string s ++ [34]) = false).
    { unfold primary_guard. cbn [drop_while].
      change (is_ascii_alnum 34) with false. change (34 =? 95) with false.
      change (34 =? 47) with false. change (34 =? 46) with false. change (34 =? 45) with false.
      change (34 =? 43) with false. cbn [orb head_is]. reflexivity. }
    rewrite Hg. unfold lex_primary_symbol, lex_symbol. cbn [lex_identifier]. rewrite idp34.
    change (34 =? 34) with true. cbv iota.
    destruct (lex_escape_string s []) as (ps & Hl & Hu). rewrite Hl. cbn [skip_ws build_node].
    cbn [symtok_string]. rewrite Hu. reflexivity.
  Qed.

  Lemma remote_roundtrip : forall name remote,
    parse_program_symbol xidc (format_remote_symbol xidc name remote) = OOk (NRemote name remote).
  Proof.
    intros name remote. rewrite format_remote_value. unfold parse_program_symbol.
    set (rest := 64 :: format_symbol xidc remote).
    assert (Hstop : stop_sym rest) by (right; eexists; reflexivity).
    destruct (format_symbol_head name rest) as (c & t & Heq & Hws & H126 & H64 & _).
    pose proof (guard_format name rest Hstop) as Hg.
    destruct (lex_symbol_format name rest Hstop) as (a & Hl & Hs & _ & _).
    destruct (lex_symbol_format remote [] (or_introl eq_refl)) as (b & Hlb & Hsb & _ & _).
    rewrite app_nil_r in Hlb.
    rewrite Heq in *. rewrite (skip_ws_head _ _ Hws), H126, Hg.
    unfold lex_primary_symbol. rewrite Hl. unfold rest at 1. change (64 =? 64) with true. cbv iota.
    rewrite Hlb. cbn [skip_ws build_node]. rewrite Hs, Hsb. reflexivity.
  Qed.

  Lemma lex_symbol_none_nil : lex_symbol xidc [] = None.
  Proof. reflexivity. Qed.

  Lemma workspace_roundtrip : forall name,
    parse_program_symbol xidc (format_symbol xidc name ++ [64]) = OOk (NAtWorkspace name).
  Proof.
    intros name. unfold parse_program_symbol.
    assert (Hstop : stop_sym [64]) by (right; eexists; reflexivity).
    destruct (format_symbol_head name [64]) as (c & t & Heq & Hws & H126 & H64 & _).
    pose proof (guard_format name [64] Hstop) as Hg.
    destruct (lex_symbol_format name [64] Hstop) as (a & Hl & Hs & _ & _).
    rewrite Heq in *. rewrite (skip_ws_head _ _ Hws), H126, Hg.
    unfold lex_primary_symbol. rewrite Hl. change (64 =? 64) with true. cbv iota.
    rewrite lex_symbol_none_nil. cbn [skip_ws build_node]. rewrite Hs. reflexivity.
  Qed.

  Lemma parse_symbol_roundtrip : forall s,
    parse_symbol_name xidc (format_symbol xidc s) = match s with [] => SErr | _ => SOk s end.
  Proof.
    intros s. unfold parse_symbol_name.
    destruct (lex_symbol_format s [] (or_introl eq_refl)) as (tok & Hl & Hs & _ & _).
    rewrite app_nil_r in Hl. rewrite Hl, Hs. destruct s; reflexivity.
  Qed.

  Lemma literal_program_roundtrip : forall fs s,
    parse_literal_program xidc fs (format_string s) = LOk s.
  Proof.
    intros fs s. unfold parse_literal_program.
    pose proof (string_literal_roundtrip s []) as Hp. rewrite app_nil_r in Hp.
    rewrite format_string_value in *.
    rewrite skip_ws_head by (vm_compute; reflexivity).
    change (34 =? 34) with true. cbv iota.
    assert (Hx : xidc 34 = false).
    { pose proof idp34 as H. unfold ident_part_char in H.
      apply orb_false_iff in H. destruct H as [H _]. apply orb_false_iff in H. destruct H as [H _].
      apply orb_false_iff in H. destruct H as [H _]. exact H. }
    rewrite Hx, andb_false_r, Hp. reflexivity.
  Qed.
End Ident.

(* ------------------------------------------------------------------ the checker *)

Lemma rres_is_spec : forall r n, rres_is r n = true <-> r = ROk n.
Proof.
  intros [m| | |] n; cbn [rres_is]; split; intros H; try discriminate.
  - apply node_eqb_spec in H. congruence.
  - injection H as ->. apply node_eqb_spec. reflexivity.
Qed.

Lemma agree_s_spec : forall a r, a <> SPanic -> (agree_s a r = true <-> r = a).
Proof.
  intros [x| |] [y| |] Ha; cbn [agree_s]; split; intros H; try discriminate; try reflexivity;
    try congruence.
  - apply str_eqb_spec in H. congruence.
  - injection H as ->. apply str_eqb_refl.
Qed.

Lemma agree_l_ok_spec : forall s r, agree_l (LOk s) r = true <-> r = LOk s.
Proof.
  intros s [y| | |]; cbn [agree_l]; split; intros H; try discriminate.
  - apply str_eqb_spec in H. congruence.
  - injection H as ->. apply str_eqb_refl.
Qed.

Lemma okb_format_spec : forall name remote xid esc fstr fsym frem r_str r_sym r_rem r_ws r_ps r_fs r_tp,
  okb (CFormat name remote xid esc fstr fsym frem r_str r_sym r_rem r_ws r_ps r_fs r_tp) = true <->
  r_str = ROk (NString name)
  /\ (r_sym = ROk (NIdentifier name) \/ r_sym = ROk (NString name))
  /\ r_rem = ROk (NRemote name remote)
  /\ r_ws = ROk (NAtWorkspace name)
  /\ r_ps = match name with [] => SErr | _ => SOk name end
  /\ r_fs = LOk name /\ r_tp = LOk name.
Proof.
  intros. cbn [okb].
  rewrite !andb_true_iff, orb_true_iff, !rres_is_spec, !agree_l_ok_spec.
  rewrite agree_s_spec by (destruct name; discriminate).
  tauto.
Qed.

(* ------------------------------------------------------------------ consequences *)

Section Injective.
  Context (xidc : N -> bool).
  Hypothesis ascii_ok :
    forall c, c < 128 -> ident_part_char xidc c = true -> ascii_ident_expected c = true.

  (** Different names never get the same text. *)
  Lemma format_symbol_injective : forall s1 s2,
    format_symbol xidc s1 = format_symbol xidc s2 -> s1 = s2.
  Proof.
    intros s1 s2 H.
    pose proof (symbol_roundtrip xidc ascii_ok s1) as H1.
    pose proof (symbol_roundtrip xidc ascii_ok s2) as H2.
    rewrite H in H1. rewrite H1 in H2. injection H2 as H2. unfold symbol_node in H2.
    destruct (is_identifier xidc s1), (is_identifier xidc s2); congruence.
  Qed.

  Lemma format_remote_symbol_injective : forall n1 r1 n2 r2,
    format_remote_symbol xidc n1 r1 = format_remote_symbol xidc n2 r2 -> n1 = n2 /\ r1 = r2.
  Proof.
    intros n1 r1 n2 r2 H.
    pose proof (remote_roundtrip xidc ascii_ok n1 r1) as H1.
    pose proof (remote_roundtrip xidc ascii_ok n2 r2) as H2.
    rewrite H in H1. rewrite H1 in H2. injection H2 as -> ->. split; reflexivity.
  Qed.
End Injective.

Lemma escape_string_injective : forall s1 s2, escape_string s1 = escape_string s2 -> s1 = s2.
Proof.
  intros s1 s2 H.
  pose proof (string_literal_roundtrip s1 []) as H1.
  pose proof (string_literal_roundtrip s2 []) as H2.
  rewrite !format_string_value in *. rewrite H in H1. rewrite H1 in H2. congruence.
Qed.
