(** C46 — generic facts about fuelled loops, the predecessor graph of one operation, and
    the specification of the splice loop of [visit_op] ([Model.C46.scan]). *)
From Coq Require Import Lia Relations.
From Verif Require Import Base.Prelude Model.C46.

(** * Fuelled loops *)
Section Run.
  Context {S R : Type} (step : S -> step_res S R).
  Variable I : S -> Prop.
  Hypothesis I_step : forall s s', I s -> step s = Continue s' -> I s'.

  Lemma run_inv (Q : R -> Prop) :
    (forall s r, I s -> step s = Stop r -> Q r) ->
    forall fuel s r, I s -> run step fuel s = Some r -> Q r.
  Proof.
    intros HQ. induction fuel as [|f IH]; intros s r Hs Hr; cbn in Hr; [discriminate|].
    destruct (step s) as [s'|r'] eqn:E.
    - apply (IH s' r); eauto.
    - inversion Hr; subst. eauto.
  Qed.

  Variable measure : S -> nat.
  Hypothesis measure_step : forall s s', I s -> step s = Continue s' -> measure s' < measure s.

  Lemma run_terminates : forall fuel s, I s -> measure s < fuel -> run step fuel s <> None.
  Proof.
    induction fuel as [|f IH]; intros s Hs Hm; [lia|]. cbn.
    destruct (step s) as [s'|r'] eqn:E; [|discriminate].
    apply IH; [eauto|]. specialize (measure_step s s' Hs E). lia.
  Qed.
End Run.

(** * Small list facts *)
Lemma memN_In x l : memN x l = true <-> In x l.
Proof.
  unfold memN. rewrite existsb_exists. split.
  - intros (y & Hy & E). apply N.eqb_eq in E. now subst.
  - intros H. exists x. split; [assumption|apply N.eqb_refl].
Qed.

Lemma memN_false x l : memN x l = false <-> ~ In x l.
Proof. rewrite <- memN_In. destruct (memN x l); split; congruence. Qed.

Lemma lookup_In m c v : lookup m c = Some v -> In (c, v) m.
Proof.
  induction m as [|[k w] t IH]; cbn; [discriminate|].
  destruct (N.eqb k c) eqn:E.
  - apply N.eqb_eq in E. intros H; inversion H; subst. now left.
  - intros H. right. auto.
Qed.

Lemma lookup_In_fst m c v : lookup m c = Some v -> In c (map fst m).
Proof. intros H. apply lookup_In in H. apply in_map_iff. now exists (c, v). Qed.

Lemma is_key_true m c : is_key m c = true <-> exists v, lookup m c = Some v.
Proof.
  unfold is_key. destruct (lookup m c); split; try congruence; eauto.
  intros (v & H); discriminate.
Qed.

Lemma is_key_false m c : is_key m c = false <-> lookup m c = None.
Proof. unfold is_key. destruct (lookup m c); split; congruence. Qed.

Lemma nbrs_nonkey m c : is_key m c = false -> nbrs m c = [].
Proof. unfold nbrs. rewrite is_key_false. now intros ->. Qed.

Lemma nbrs_key m c p : In p (nbrs m c) -> is_key m c = true.
Proof. unfold nbrs, is_key. destruct (lookup m c); [reflexivity|contradiction]. Qed.

Lemma nbrs_in_all_preds m c p : In p (nbrs m c) -> In p (flat_map snd m).
Proof.
  unfold nbrs. destruct (lookup m c) as [v|] eqn:E; [|contradiction].
  intros H. apply in_flat_map. exists (c, v). split; [now apply lookup_In|assumption].
Qed.

(** * The predecessor graph of one operation *)
Definition edge (m : pmap) (c p : N) : Prop := In p (nbrs m c).
Definition mreach (m : pmap) : N -> N -> Prop := clos_refl_trans_1n N (edge m).
Definition reach_from (m : pmap) (T : list N) (x : N) : Prop := exists t, In t T /\ mreach m t x.

Lemma mreach_refl m x : mreach m x x.
Proof. constructor. Qed.

Lemma mreach_step m x y z : edge m x y -> mreach m y z -> mreach m x z.
Proof. intros. econstructor; eauto. Qed.

Lemma mreach_trans m x y z : mreach m x y -> mreach m y z -> mreach m x z.
Proof. induction 1; eauto using mreach_step. Qed.

Lemma mreach_nonkey m x y : is_key m x = false -> mreach m x y -> y = x.
Proof.
  intros Hk H. destruct H as [|y z Hxy _]; [reflexivity|].
  unfold edge in Hxy. rewrite nbrs_nonkey in Hxy by assumption. contradiction.
Qed.

(** A set containing [T] and closed under edges contains everything reachable from [T]. *)
Lemma reach_closed m (P : N -> Prop) T :
  (forall t, In t T -> P t) -> (forall c p, P c -> edge m c p -> P p) ->
  forall x, reach_from m T x -> P x.
Proof.
  intros HT Hc x (t & Ht & Hr). specialize (HT t Ht). clear Ht.
  induction Hr; eauto.
Qed.

(** * The splice loop *)
Section Scan.
  Variable m : pmap.
  Variable T0 : list N.

  Definition present (s : scan_st) (x : N) : Prop :=
    In x (sc_emit s) \/ In x (sc_done s) \/ In x (sc_rest s).

  Record scan_inv (s : scan_st) : Prop := {
    si_emit_nodup : NoDup (sc_emit s);
    si_emit_key : forall x, In x (sc_emit s) -> is_key m x = true;
    si_done_nonkey : forall x, In x (sc_done s) -> is_key m x = false;
    si_sound : forall x, present s x -> reach_from m T0 x;
    si_start : forall t, In t T0 -> present s t;
    si_closed : forall e p, In e (sc_emit s) -> edge m e p -> present s p;
    si_self : forall e, In e (sc_emit s) -> edge m e e -> sc_dup s = true \/ In e (sc_rest s);
  }.

  Lemma scan_inv_init : scan_inv (mk_scan [] false [] T0).
  Proof.
    constructor; cbn; try (intros; contradiction).
    - constructor.
    - intros x [[]|[[]|H]]. exists x. split; [assumption|apply mreach_refl].
    - intros t0 Ht. right. right. assumption.
  Qed.

  Lemma NoDup_snoc (l : list N) x : NoDup l -> ~ In x l -> NoDup (l ++ [x]).
  Proof.
    intros Hl Hx. induction Hl as [|y l Hy Hl IH]; cbn.
    - constructor; [intros []|constructor].
    - constructor.
      + rewrite in_app_iff. cbn. intros [H|[H|[]]]; [contradiction|].
        apply Hx. now left.
      + apply IH. intros H. apply Hx. now right.
  Qed.

  Lemma scan_inv_step s s' : scan_inv s -> scan_step m s = Continue s' -> scan_inv s'.
  Proof.
    intros [Hnd Hk Hd Hs Hst Hc Hself]. unfold scan_step.
    destruct (sc_rest s) as [|cur rest] eqn:Er; [discriminate|].
    assert (Hrc : reach_from m T0 cur).
    { apply Hs. right. right. rewrite Er. now left. }
    destruct (lookup m cur) as [next|] eqn:El.
    - assert (Hkc : is_key m cur = true) by (apply is_key_true; eauto).
      assert (Hnb : nbrs m cur = next) by (unfold nbrs; now rewrite El).
      destruct (memN cur (sc_emit s)) eqn:Em; intros H; inversion H; subst s'; clear H.
      + (* duplicate: remove(i) *)
        apply memN_In in Em.
        assert (Hp : forall x, present s x ->
                     present (mk_scan (sc_emit s) true (sc_done s) rest) x).
        { intros x [H|[H|H]]; unfold present; cbn; auto.
          rewrite Er in H. destruct H as [<-|H]; auto. }
        constructor; cbn; auto.
        * intros x [H|[H|H]]; apply Hs; unfold present; auto.
          right. right. rewrite Er. now right.
        * intros e p He Hep. apply Hp. eauto.
      + (* splice(i..=i, next_ids) *)
        apply memN_false in Em.
        assert (Hp : forall x, present s x ->
                 present (mk_scan (sc_emit s ++ [cur]) (sc_dup s) (sc_done s) (next ++ rest)) x).
        { intros x [H|[H|H]]; unfold present; cbn.
          - left. apply in_or_app. now left.
          - auto.
          - rewrite Er in H. destruct H as [<-|H].
            + left. apply in_or_app. right. now left.
            + right. right. apply in_or_app. now right. }
        constructor; cbn.
        * now apply NoDup_snoc.
        * intros x Hx. apply in_app_or in Hx. destruct Hx as [Hx|[<-|[]]]; auto.
        * assumption.
        * intros x [H|[H|H]].
          -- apply in_app_or in H. destruct H as [H|[<-|[]]]; [|assumption].
             apply Hs. now left.
          -- apply Hs. right. now left.
          -- apply in_app_or in H. destruct H as [H|H].
             ++ destruct Hrc as (t & Ht & Hr). exists t. split; [assumption|].
                eapply mreach_trans; [exact Hr|].
                eapply mreach_step; [|apply mreach_refl]. unfold edge. now rewrite Hnb.
             ++ apply Hs. right. right. rewrite Er. now right.
        * auto.
        * intros e p He Hep. apply in_app_or in He. destruct He as [He|[<-|[]]].
          -- apply Hp. eauto.
          -- right. right. cbn. apply in_or_app. left. unfold edge in Hep. now rewrite Hnb in Hep.
        * intros e He Hee. apply in_app_or in He. destruct He as [He|[<-|[]]].
          -- destruct (Hself e He Hee) as [H|H]; [now left|]. right.
             destruct H as [<-|H]; [contradiction|].
             apply in_or_app. now right.
          -- right. apply in_or_app. left. unfold edge in Hee. now rewrite Hnb in Hee.
    - (* not a key of this operation: i += 1 *)
      assert (Hkc : is_key m cur = false) by (now apply is_key_false).
      intros H; inversion H; subst s'; clear H.
      assert (Hp : forall x, present s x ->
                   present (mk_scan (sc_emit s) (sc_dup s) (cur :: sc_done s) rest) x).
      { intros x [H|[H|H]]; unfold present; cbn; auto.
        rewrite Er in H. destruct H as [<-|H]; auto. }
      constructor; cbn.
      + assumption.
      + assumption.
      + intros x [<-|Hx]; auto.
      + intros x [H|[[<-|H]|H]].
        * apply Hs. now left.
        * assumption.
        * apply Hs. right. now left.
        * apply Hs. right. right. rewrite Er. now right.
      + auto.
      + intros e p He Hep. apply Hp. eauto.
      + intros e He Hee. destruct (Hself e He Hee) as [H|H]; [now left|]. right.
        destruct H as [<-|H]; [|assumption].
        apply Hk in He. congruence.
  Qed.

  (** Specification of the loop's result. *)
  Record scan_post (r : list N * bool * list N) : Prop := {
    sp_emit_nodup : NoDup (fst (fst r));
    sp_emit : forall x, In x (fst (fst r)) <-> (is_key m x = true /\ reach_from m T0 x);
    sp_rest : forall x, In x (snd r) <-> (is_key m x = false /\ reach_from m T0 x);
    sp_self : forall e, In e (fst (fst r)) -> edge m e e -> snd (fst r) = true;
  }.

  Lemma scan_inv_stop s r : scan_inv s -> scan_step m s = Stop r -> scan_post r.
  Proof.
    intros [Hnd Hk Hd Hs Hst Hc Hself]. unfold scan_step.
    destruct (sc_rest s) as [|cur rest] eqn:Er.
    2:{ destruct (lookup m cur); [destruct (memN cur (sc_emit s))|]; discriminate. }
    intros H; inversion H; subst r; clear H. cbn.
    assert (Hall : forall x, reach_from m T0 x -> In x (sc_emit s) \/ In x (sc_done s)).
    { apply reach_closed.
      - intros t Ht. destruct (Hst t Ht) as [H|[H|H]]; auto. rewrite Er in H. contradiction.
      - intros c p [Hc'|Hc'] Hcp.
        + destruct (Hc c p Hc' Hcp) as [H|[H|H]]; auto. rewrite Er in H. contradiction.
        + apply Hd in Hc'. unfold edge in Hcp. rewrite nbrs_nonkey in Hcp by assumption.
          contradiction. }
    constructor; cbn.
    - assumption.
    - intros x. split.
      + intros Hx. split; [auto|]. apply Hs. now left.
      + intros [Hkx Hr]. destruct (Hall x Hr) as [H|H]; [assumption|].
        apply Hd in H. congruence.
    - intros x. rewrite <- in_rev. split.
      + intros Hx. split; [auto|]. apply Hs. right. now left.
      + intros [Hkx Hr]. destruct (Hall x Hr) as [H|H]; [|assumption].
        apply Hk in H. congruence.
    - intros e He Hee. destruct (Hself e He Hee) as [H|H]; [assumption|].
      contradiction.
  Qed.

  (** Termination: each iteration disposes of one element instance. *)
  Definition unspliced (E : list N) : nat :=
    sum_list (map (fun kv => if memN (fst kv) E then O else length (nbrs m (fst kv))) m).

  Definition scan_measure (s : scan_st) : nat := length (sc_rest s) + unspliced (sc_emit s).

  Lemma unspliced_add_gen (l : pmap) E cur :
    ~ In cur E -> In cur (map fst l) ->
    sum_list (map (fun kv => if memN (fst kv) (E ++ [cur]) then O else length (nbrs m (fst kv))) l)
    + length (nbrs m cur)
    <= sum_list (map (fun kv => if memN (fst kv) E then O else length (nbrs m (fst kv))) l).
  Proof.
    intros HE. induction l as [|[k v] t IH]; cbn; [intros []|].
    assert (Hmono : forall l0 : pmap,
      sum_list (map (fun kv => if memN (fst kv) (E ++ [cur]) then O else length (nbrs m (fst kv))) l0)
      <= sum_list (map (fun kv => if memN (fst kv) E then O else length (nbrs m (fst kv))) l0)).
    { induction l0 as [|[k0 v0] t0 IH0]; cbn; [unfold sum_list; lia|].
      destruct (memN k0 E) eqn:E1.
      - assert (memN k0 (E ++ [cur]) = true) as ->.
        { apply memN_In. apply in_or_app. left. now apply memN_In. }
        (unfold sum_list in *; lia).
      - destruct (memN k0 (E ++ [cur])); (unfold sum_list in *; lia). }
    intros [<-|Hin].
    - assert (memN k (E ++ [k]) = true) as ->.
      { apply memN_In. apply in_or_app. right. now left. }
      assert (memN k E = false) as -> by (now apply memN_false).
      specialize (Hmono t). (unfold sum_list in *; lia).
    - specialize (IH Hin).
      destruct (memN k E) eqn:E1.
      + assert (memN k (E ++ [cur]) = true) as ->.
        { apply memN_In. apply in_or_app. left. now apply memN_In. }
        (unfold sum_list in *; lia).
      + destruct (memN k (E ++ [cur])); (unfold sum_list in *; lia).
  Qed.

  Lemma scan_measure_step s s' :
    scan_inv s -> scan_step m s = Continue s' -> scan_measure s' < scan_measure s.
  Proof.
    intros _. unfold scan_step, scan_measure.
    destruct (sc_rest s) as [|cur rest] eqn:Er; [discriminate|].
    destruct (lookup m cur) as [next|] eqn:El.
    - destruct (memN cur (sc_emit s)) eqn:Em; intros H; inversion H; subst s'; clear H; cbn.
      + lia.
      + apply memN_false in Em.
        pose proof (unspliced_add_gen m (sc_emit s) cur Em (lookup_In_fst _ _ _ El)) as Hu.
        unfold unspliced. rewrite app_length.
        assert (nbrs m cur = next) as Hn by (unfold nbrs; now rewrite El).
        rewrite Hn in Hu. lia.
    - intros H; inversion H; subst s'; clear H; cbn. lia.
  Qed.

  Lemma scan_terminates : scan m T0 <> None.
  Proof.
    unfold scan.
    apply (run_terminates (scan_step m) scan_inv scan_inv_step scan_measure scan_measure_step).
    - apply scan_inv_init.
    - unfold scan_measure, scan_fuel, unspliced. cbn. lia.
  Qed.

  Lemma scan_spec r : scan m T0 = Some r -> scan_post r.
  Proof.
    unfold scan.
    apply (run_inv (scan_step m) scan_inv scan_inv_step scan_post scan_inv_stop).
    apply scan_inv_init.
  Qed.
End Scan.
