(** Layer B: a token list is matched with itself by the identity. *)
From Coq Require Import Lia Arith Sorted Permutation.
From Verif Require Import Base.Prelude Model.Diff
     Proofs.DiffBase Proofs.DiffA2 Proofs.DiffB1 Proofs.DiffB2 Proofs.DiffB3.

Lemma seq_split a n k : k <= n -> seq a n = seq a k ++ seq (a + k) (n - k).
Proof. intros H. replace n with (k + (n - k)) at 1 by lia. apply seq_app. Qed.

Lemma seq_as_map a n : seq a n = map (fun i => a + i) (seq 0 n).
Proof.
  revert a; induction n as [|n IH]; intros a; cbn [seq map]; [reflexivity|].
  rewrite Nat.add_0_r. f_equal. rewrite (IH (S a)), <- (seq_shift n 0), map_map. apply map_ext. intros i. lia.
Qed.

Lemma map_seq_shift (f : nat -> nat * nat) a n :
  map f (seq a n) = map (fun i => f (a + i)) (seq 0 n).
Proof. now rewrite seq_as_map, map_map. Qed.

Section Self.
  Context {T : Type} (eqb : T -> T -> bool).
  Hypothesis eqb_spec : forall x y, eqb x y = true <-> x = y.
  Variable order : list (T * list nat) -> list (T * list nat).
  Hypothesis order_perm : forall h, Permutation (order h) h.
  Variable max_occ : nat.

  Lemma keys_unique (h : list (T * list nat)) k ps ps' :
    NoDup (map fst h) -> In (k, ps) h -> In (k, ps') h -> ps = ps'.
  Proof.
    induction h as [|[k0 p0] t IH]; intros N H1 H2; [destruct H1|].
    cbn [map fst] in N. inversion N as [|? ? Nk Nt]; subst.
    destruct H1 as [H1|H1], H2 as [H2|H2].
    - congruence.
    - injection H1 as -> ->. exfalso. apply Nk. apply (in_map fst) in H2. exact H2.
    - injection H2 as -> ->. exfalso. apply Nk. apply (in_map fst) in H1. exact H1.
    - now apply IH.
  Qed.

  (** All candidate pairs of a list against itself are diagonal. *)
  Lemma shared_candidates_self w :
    Forall (fun p => fst p = snd p)
           (shared_candidates eqb order (histogram eqb max_occ w) (histogram eqb max_occ w)).
  Proof.
    unfold shared_candidates. destruct (histogram_ok eqb eqb_spec max_occ w) as (N & _).
    apply Forall_forall. intros p Hp. apply in_flat_map in Hp. destruct Hp as ([k ps] & He & Hp).
    cbn [fst snd] in Hp. destruct (hist_find eqb k (histogram eqb max_occ w)) as [rps|] eqn:E; [|destruct Hp].
    destruct (length ps =? length rps); [|destruct Hp]. destruct Hp as [<-|[]]. cbn [fst snd].
    apply (hist_find_in eqb eqb_spec) in E. apply (Permutation_in _ (order_perm _)) in He.
    exact (keys_unique _ k ps rps N He E).
  Qed.

  Lemma lcs_positions_self w :
    Forall (fun q => fst q = snd q) (lcs_positions eqb order max_occ w w).
  Proof.
    unfold lcs_positions. destruct (max_occ <? _); [constructor|].
    set (both := uncommon_shared eqb order _ _).
    assert (D : Forall (fun p => fst p = snd p) both).
    { unfold both, uncommon_shared. apply Forall_forall. intros p Hp. apply filter_In in Hp.
      destruct Hp as (Hp & _). pose proof (shared_candidates_self w) as S. rewrite Forall_forall in S. now apply S. }
    assert (K : keyed w w both).
    { unfold both, uncommon_shared. apply keyed_filter. now apply shared_candidates_keyed. }
    destruct both as [|b0 bt] eqn:Eb; [constructor|]. rewrite <- Eb in *. clear Eb b0 bt.
    destruct (pairs_facts w w both K) as (_ & P2 & P3).
    destruct (lcs_core _ P2 P3) as (_ & I). cbv zeta in I.
    apply Forall_forall. intros q Hq. apply I in Hq. apply in_flat_map in Hq. destruct Hq as (p & Hp & Hq).
    rewrite Forall_forall in D. rewrite (D p Hp) in Hq. clear - Hq.
    induction (snd p) as [|x l IH]; [destruct Hq|]. destruct Hq as [<-|Hq]; [reflexivity|auto].
  Qed.

  Lemma common_prefix_len_refl (l : list T) : common_prefix_len eqb l l = length l.
  Proof.
    induction l as [|a l IH]; [reflexivity|]. cbn [common_prefix_len length].
    now rewrite (proj2 (eqb_spec a a) eq_refl), IH.
  Qed.

  Lemma slice_length_le {A} (l : list A) s e : e <= length l -> length (slice l s e) = e - s.
  Proof. intros H. unfold slice. rewrite firstn_length, skipn_length. lia. Qed.

  Theorem cuw_self : forall fuel w loff roff,
    length w < fuel ->
    cuw eqb order max_occ fuel w w loff roff = map (fun i => (loff + i, roff + i)) (seq 0 (length w)).
  Proof.
    induction fuel as [|f IH]; intros w loff roff Hf; [lia|]. cbn [cuw].
    destruct w as [|x0 w0] eqn:Ew; [reflexivity|]. rewrite <- Ew in *. cbn [is_nil orb].
    replace (is_nil w) with false by (rewrite Ew; reflexivity). cbn [orb].
    assert (Hwl : 0 < length w) by (rewrite Ew; cbn; lia). clear Ew x0 w0.
    destruct (lcs_positions_spec eqb eqb_spec order order_perm max_occ w w) as (Ls & Le). cbv zeta in Ls, Le.
    pose proof (lcs_positions_self w) as Ld.
    set (lcs := lcs_positions eqb order max_occ w w) in *.
    set (go := fix go (prevl prevr : nat) (lcs : list (nat * nat)) : list (nat * nat) :=
                 match lcs with
                 | [] => cuw eqb order max_occ f (slice w prevl (length w)) (slice w prevr (length w))
                             (loff + prevl) (roff + prevr)
                 | (lp, rp) :: t =>
                     cuw eqb order max_occ f (slice w prevl lp) (slice w prevr rp)
                         (loff + prevl) (roff + prevr)
                     ++ (loff + lp, roff + rp) :: go (S lp) (S rp) t
                 end).
    assert (G : forall l prev,
               StronglySorted lt2 l -> Forall (fun q => fst q = snd q) l ->
               Forall (fun q => prev <= fst q /\ fst q < length w) l -> prev <= length w ->
               (l = [] -> 0 < prev) ->
               go prev prev l = map (fun i => (loff + i, roff + i)) (seq prev (length w - prev))).
    { induction l as [|[lp rp] t IHl]; intros prev Hs Hd Hb Hp Hz; cbn [go].
      - specialize (Hz eq_refl). rewrite IH by (rewrite slice_length_le; lia). rewrite slice_length_le by lia.
        rewrite (map_seq_shift (fun i => (loff + i, roff + i)) prev). apply map_ext. intros i. f_equal; lia.
      - inversion Hs as [|? ? Hs' Hfa]; subst. inversion Hd as [|? ? Hd1 Hd']; subst.
        inversion Hb as [|? ? (Hb1 & Hb2) Hb']; subst. cbn [fst snd] in *. subst rp.
        rewrite IH by (rewrite slice_length_le; lia). rewrite slice_length_le by lia.
        rewrite IHl; auto; try lia.
        + rewrite (seq_split prev (length w - prev) (lp - prev)) by lia. rewrite map_app.
          f_equal.
          * rewrite (map_seq_shift (fun i => (loff + i, roff + i)) prev). apply map_ext. intros i. f_equal; lia.
          * replace (prev + (lp - prev)) with lp by lia.
            replace (length w - prev - (lp - prev)) with (S (length w - S lp)) by lia. reflexivity.
        + apply Forall_forall. intros q Hq. rewrite Forall_forall in Hfa, Hb'.
          destruct (Hfa q Hq) as (A & _). destruct (Hb' q Hq) as (_ & B). cbn in A. lia. }
    assert (InRange : Forall (fun q => 0 <= fst q /\ fst q < length w) lcs).
    { eapply Forall_impl; [|exact Le]. intros q (k & A & _). split; [lia|]. apply nth_error_Some. congruence. }
    fold go. destruct lcs as [|q0 t] eqn:El.
    - unfold lead_trail. rewrite common_prefix_len_refl, skipn_all. cbn [rev common_prefix_len seq map].
      now rewrite app_nil_r.
    - rewrite <- El in *. rewrite (G lcs 0 Ls Ld InRange) by (try lia; rewrite El; discriminate). rewrite Nat.sub_0_r.
      destruct (length w) as [|n]; [lia|]. cbn [seq map]. reflexivity.
  Qed.

  Theorem collect_unchanged_words_self w :
    collect_unchanged_words eqb order max_occ w w = identity_matching (length w).
  Proof.
    unfold collect_unchanged_words, identity_matching. rewrite cuw_self by lia. reflexivity.
  Qed.
End Self.
