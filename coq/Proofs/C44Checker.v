(** Meaning of the boolean checkers C44 runs on the implementation's outputs. *)
From Verif Require Import Base.Prelude Model.C44.
From Coq Require Import Lia PeanoNat.
Local Open Scope N_scope.

Lemma cps_eqb_spec : forall a b : list N, cps_eqb a b = true <-> a = b.
Proof.
  unfold cps_eqb. induction a as [|x a IH]; destruct b as [|y b]; cbn [list_eqb]; split; intros H;
    try reflexivity; try discriminate.
  - apply andb_true_iff in H. destruct H as [H1 H2]. apply N.eqb_eq in H1. apply IH in H2.
    congruence.
  - injection H as -> ->. apply andb_true_iff. split; [apply N.eqb_refl | apply IH; reflexivity].
Qed.

Lemma is_suffix_of_spec : forall s l, is_suffix_of s l = true <-> exists p, l = p ++ s.
Proof.
  intros s l. induction l as [|c l IH]; cbn [is_suffix_of].
  - rewrite orb_false_r, cps_eqb_spec. split.
    + intros ->. exists []. reflexivity.
    + intros [p H]. destruct p; [exact (eq_sym H)|discriminate].
  - rewrite orb_true_iff, cps_eqb_spec, IH. split.
    + intros [->|[p ->]]; [exists []; reflexivity | exists (c :: p); reflexivity].
    + intros [[|c' p] H]; [left; exact (eq_sym H)|]. right. injection H as -> ->. eauto.
Qed.

Lemma is_prefix_of_spec : forall p l, is_prefix_of p l = true <-> exists q, l = p ++ q.
Proof.
  intros p l. unfold is_prefix_of. rewrite cps_eqb_spec. split.
  - intros H. exists (skipn (length p) l). rewrite H at 1. apply eq_sym, firstn_skipn.
  - intros [q ->]. rewrite firstn_app, Nat.sub_diag, firstn_all. cbn [firstn]. rewrite app_nil_r.
    reflexivity.
Qed.

(** The property of elide_start / elide_end as a proposition on (inputs, output, width). *)
Definition elide_prop (start : bool) (text ell : list ch) (max : N) (out : list N) (w : N) : Prop :=
  let tbl := text ++ ell in
  let t := out_cps text in
  let e := out_cps ell in
  out_width tbl out <= max
  /\ w = out_width tbl out
  /\ (nwidth text <= max -> out = t)
  /\ (max < nwidth text -> nwidth ell <= max ->
      if start then exists s p, out = e ++ s /\ t = p ++ s
      else exists s p, out = s ++ e /\ t = s ++ p)
  /\ (max < nwidth text -> max < nwidth ell ->
      if start then exists p, e = p ++ out else exists p, e = out ++ p).

Lemma elide_okb_spec : forall start text ell max out w,
  elide_okb start text ell max out w = true <-> elide_prop start text ell max out w.
Proof.
  intros start text ell max out w. unfold elide_okb, elide_prop. cbv zeta.
  rewrite !andb_true_iff, N.leb_le, N.eqb_eq.
  destruct (N.leb_spec (nwidth text) max) as [Hfit|Hbig].
  - rewrite cps_eqb_spec. split.
    + intros [[H1 H2] H3]. repeat split; auto; intros; lia.
    + intros (H1 & H2 & H3 & _). auto.
  - destruct (N.leb_spec (nwidth ell) max) as [Hefit|Hebig].
    + destruct start.
      * rewrite andb_true_iff, is_prefix_of_spec, is_suffix_of_spec. split.
        -- intros [[H1 H2] [[q Hq] [p Hp]]]. repeat split; auto; try (intros; lia).
           intros _ _. exists q, p. split; [exact Hq|]. rewrite Hp. f_equal.
           rewrite Hq, skipn_app, Nat.sub_diag, skipn_all. reflexivity.
        -- intros (H1 & H2 & _ & H4 & _). destruct (H4 Hbig Hefit) as (s & p & -> & Ht).
           repeat split; auto; [eexists; reflexivity|].
           exists p. rewrite skipn_app, Nat.sub_diag, skipn_all. exact Ht.
      * rewrite andb_true_iff, is_prefix_of_spec, is_suffix_of_spec. split.
        -- intros [[H1 H2] [[q Hq] [p Hp]]]. repeat split; auto; try (intros; lia).
           intros _ _. exists q, p. split; [exact Hq|]. rewrite Hp. f_equal.
           rewrite Hq, app_length, Nat.add_sub, firstn_app, Nat.sub_diag, firstn_all.
           cbn [firstn]. apply app_nil_r.
        -- intros (H1 & H2 & _ & H4 & _). destruct (H4 Hbig Hefit) as (s & p & -> & Ht).
           repeat split; auto; [eexists; reflexivity|].
           exists p. rewrite app_length, Nat.add_sub, firstn_app, Nat.sub_diag, firstn_all.
           cbn [firstn]. rewrite app_nil_r. exact Ht.
    + destruct start.
      * rewrite is_suffix_of_spec. split.
        -- intros [[H1 H2] H3]. repeat split; auto; intros; lia.
        -- intros (H1 & H2 & _ & _ & H5). auto.
      * rewrite is_prefix_of_spec. split.
        -- intros [[H1 H2] H3]. repeat split; auto; intros; lia.
        -- intros (H1 & H2 & _ & _ & H5). auto.
Qed.

(** write_truncated_* (strict reading) and write_padded_*. *)
Lemma trunc_okb_spec : forall start data ell max swd out w,
  trunc_okb start data ell max swd out w = true <->
  out_width (data ++ ell) out <= max /\ w = out_width (data ++ ell) out
  /\ (swd <= max -> out = out_cps data).
Proof.
  intros. unfold trunc_okb. cbv zeta. rewrite !andb_true_iff, N.leb_le, N.eqb_eq.
  destruct (N.leb_spec swd max).
  - rewrite cps_eqb_spec. tauto.
  - split; [intros [[? ?] _]; repeat split; auto; intros; lia | tauto].
Qed.

Lemma pad_okb_spec : forall kind data fill min swd out,
  pad_okb kind data fill min swd out = true <->
  N.of_nat (length out) = N.of_nat (length (out_cps data)) + (min - swd) * N.of_nat (length fill)
  /\ (min <= swd -> out = out_cps data)
  /\ (kind = 0 -> exists p, out = p ++ out_cps data)
  /\ (kind = 1 -> exists q, out = out_cps data ++ q).
Proof.
  intros kind data fill min swd out. unfold pad_okb. cbv zeta. rewrite !andb_true_iff, N.eqb_eq.
  assert (Hfit : (if min <=? swd then cps_eqb out (out_cps data) else true) = true
                 <-> (min <= swd -> out = out_cps data)).
  { destruct (N.leb_spec min swd); [rewrite cps_eqb_spec; tauto|]. split; auto. intros _ ?; lia. }
  rewrite Hfit.
  destruct (N.eqb_spec kind 0) as [->|K0].
  - rewrite is_suffix_of_spec. split.
    + intros [[H1 H2] H3]. repeat split; auto. discriminate.
    + intros (H1 & H2 & H3 & _). auto.
  - destruct (N.eqb_spec kind 1) as [->|K1].
    + rewrite is_prefix_of_spec. split.
      * intros [[H1 H2] H3]. repeat split; auto. discriminate.
      * intros (H1 & H2 & _ & H4). auto.
    + split.
      * intros [[H1 H2] _]. repeat split; auto; intros; contradiction.
      * intros (H1 & H2 & _). auto.
Qed.

(* ------------------------------------------------------------------ the wrap checker *)

Definition spaces (g : list N) : Prop := Forall (fun c => c = 32) g.

Lemma all_spaces_spec : forall g, all_spaces g = true <-> spaces g.
Proof.
  intros g. unfold all_spaces, spaces. rewrite forallb_forall, Forall_forall. split; intros H x Hx.
  - apply N.eqb_eq. rewrite N.eqb_sym. apply H. exact Hx.
  - rewrite N.eqb_sym. apply N.eqb_eq. apply H. exact Hx.
Qed.

Lemma drop_spaces_split : forall g, exists s, g = s ++ drop_spaces g /\ spaces s.
Proof.
  induction g as [|c g IH]; [exists []; split; [reflexivity | constructor]|].
  cbn [drop_spaces]. destruct (N.eqb_spec c 32) as [->|Hc].
  - destruct IH as (s & Hs & Hsp). exists (32 :: s). split; [cbn [app]; congruence|].
    constructor; [reflexivity | exact Hsp].
  - exists []. split; [reflexivity | constructor].
Qed.

Lemma gap_hard_spec : forall g, gap_hard g = true -> exists s, g = s ++ [10] /\ spaces s.
Proof.
  intros g H. unfold gap_hard in H. apply cps_eqb_spec in H.
  destruct (drop_spaces_split g) as (s & Hs & Hsp). exists s. rewrite H in Hs. auto.
Qed.

(** A line as the checker sees it. *)
Definition line_prop (width : N) (l : wline) : Prop :=
  (wl_width l <= width \/ ~ In 32 (wl_bytes l)) /\ ~ In 10 (wl_bytes l).

(** [tiles pos prev ls text]: starting at byte offset [pos] (the end of line [prev]), the rest of
    [text] is: for each further line a gap (spaces, or spaces and one newline; a soft gap is
    non-empty and was forced: the next word did not fit) followed by the line's bytes at exactly
    the offset it reports; and finally only spaces. *)
Inductive tiles (width : N) : N -> wline -> list wline -> list N -> Prop :=
| tiles_nil : forall pos prev tail, spaces tail -> tiles width pos prev [] tail
| tiles_cons : forall pos prev l ls g rest,
    wl_start l = pos + N.of_nat (length g) ->
    ((exists s, g = s ++ [10] /\ spaces s)
     \/ (spaces g /\ g <> [] /\ width < wl_width prev + N.of_nat (length g) + wl_first l)) ->
    line_prop width l ->
    tiles width (wl_start l + N.of_nat (length (wl_bytes l))) l ls rest ->
    tiles width pos prev (l :: ls) (g ++ wl_bytes l ++ rest).

Lemma existsb_N_false : forall c l, existsb (N.eqb c) l = false <-> ~ In c l.
Proof.
  intros c l. split.
  - intros H Hin. assert (existsb (N.eqb c) l = true) as E.
    { apply existsb_exists. exists c. split; [exact Hin | apply N.eqb_refl]. }
    congruence.
  - intros H. destruct (existsb (N.eqb c) l) eqn:E; [|reflexivity].
    apply existsb_exists in E. destruct E as (x & Hx & Hc). apply N.eqb_eq in Hc. subst x.
    contradiction.
Qed.

Lemma line_ok_spec : forall text width l,
  line_ok text width l = true ->
  line_prop width l /\ wl_end l <= N.of_nat (length text)
  /\ exists q, skipn_n (wl_start l) text = wl_bytes l ++ q.
Proof.
  intros text width l H. unfold line_ok in H.
  apply andb_true_iff in H. destruct H as [H H3]. apply andb_true_iff in H. destruct H as [H H2].
  apply andb_true_iff in H. destruct H as [H0 H1].
  split; [|split].
  - split.
    + apply orb_true_iff in H2. destruct H2 as [H2|H2]; [left; apply N.leb_le; exact H2|].
      right. apply existsb_N_false. unfold has_space in H2. apply negb_true_iff in H2. exact H2.
    + apply existsb_N_false. apply negb_true_iff in H3. exact H3.
  - apply N.leb_le. exact H0.
  - unfold is_prefix in H1. apply cps_eqb_spec in H1.
    exists (skipn (length (wl_bytes l)) (skipn_n (wl_start l) text)).
    rewrite H1 at 1. apply eq_sym, firstn_skipn.
Qed.

Lemma skipn_skipn' : forall {B} (x y : nat) (l : list B), skipn x (skipn y l) = skipn (x + y) l.
Proof.
  intros B x y. revert x. induction y as [|y IH]; intros x l.
  - rewrite Nat.add_0_r. reflexivity.
  - destruct l as [|b l]; [rewrite !skipn_nil; reflexivity|].
    rewrite Nat.add_succ_r. cbn [skipn]. apply IH.
Qed.

Lemma skipn_n_add : forall (text : list N) a b q r,
  skipn_n a text = q ++ r -> b = a + N.of_nat (length q) -> skipn_n b text = r.
Proof.
  intros text a b q r H ->. unfold skipn_n in *.
  rewrite N2Nat.inj_add, Nat2N.id, Nat.add_comm, <- skipn_skipn', H.
  rewrite skipn_app, Nat.sub_diag, skipn_all. reflexivity.
Qed.

Lemma lines_after_spec : forall text width ls prev,
  lines_after text width prev ls = true ->
  tiles width (wl_end prev) prev ls (skipn_n (wl_end prev) text).
Proof.
  intros text width ls. induction ls as [|l r IH]; intros prev H; cbn [lines_after] in H.
  - constructor. apply all_spaces_spec. exact H.
  - apply andb_true_iff in H. destruct H as [H Hrest]. apply andb_true_iff in H.
    destruct H as [H Hline]. apply andb_true_iff in H. destruct H as [Hpos Hgap].
    apply N.leb_le in Hpos.
    set (pos := wl_end prev) in *.
    set (g := firstn (N.to_nat (wl_start l - pos)) (skipn_n pos text)) in *.
    destruct (line_ok_spec _ _ _ Hline) as (Hlp & Hend & q & Hq).
    assert (Hlen : length g = N.to_nat (wl_start l - pos)).
    { unfold g. apply firstn_length_le. unfold skipn_n. rewrite skipn_length.
      unfold wl_end in Hend. lia. }
    assert (Hsplit : skipn_n pos text = g ++ skipn_n (wl_start l) text).
    { unfold g. rewrite <- (firstn_skipn (N.to_nat (wl_start l - pos)) (skipn_n pos text)) at 1.
      f_equal. unfold skipn_n. rewrite skipn_skipn'. f_equal. lia. }
    rewrite Hsplit, Hq.
    apply tiles_cons.
    + rewrite Hlen. lia.
    + apply orb_true_iff in Hgap. destruct Hgap as [Hh|Hs]; [left; apply gap_hard_spec; exact Hh|].
      right. apply andb_true_iff in Hs. destruct Hs as [Hs Hw]. apply andb_true_iff in Hs.
      destruct Hs as [Hs Hne]. split; [apply all_spaces_spec; exact Hs|]. split.
      * intros E. apply negb_true_iff, N.eqb_neq in Hne. apply Hne.
        rewrite E in Hlen. cbn [length] in Hlen. lia.
      * apply N.ltb_lt. exact Hw.
    + exact Hlp.
    + specialize (IH l Hrest). unfold wl_end in IH.
      erewrite (skipn_n_add text (wl_start l) _ (wl_bytes l) q Hq eq_refl) in IH. exact IH.
Qed.

(** The whole report: the first line starts the text; the rest tiles what follows it. *)
Definition wrap_prop (text : list N) (width : N) (ls : list wline) : Prop :=
  exists l0 r rest,
    ls = l0 :: r /\ wl_start l0 = 0 /\ line_prop width l0
    /\ text = wl_bytes l0 ++ rest
    /\ tiles width (wl_end l0) l0 r rest.

Lemma lines_ok_spec : forall text width ls,
  lines_ok text width ls = true -> wrap_prop text width ls.
Proof.
  intros text width [|l0 r] H; cbn [lines_ok] in H; [discriminate|].
  apply andb_true_iff in H. destruct H as [H Hafter]. apply andb_true_iff in H.
  destruct H as [H0 Hline]. apply N.eqb_eq in H0.
  destruct (line_ok_spec _ _ _ Hline) as (Hlp & _ & q & Hq).
  exists l0, r, q. split; [reflexivity|]. split; [exact H0|]. split; [exact Hlp|].
  rewrite H0 in Hq. unfold skipn_n in Hq. cbn [N.to_nat skipn] in Hq. split; [exact Hq|].
  pose proof (lines_after_spec _ _ _ _ Hafter) as Ht.
  assert (Hr : skipn_n (wl_end l0) text = q).
  { unfold wl_end. rewrite H0. cbn [N.add]. unfold skipn_n. rewrite Nat2N.id, Hq.
    rewrite skipn_app, Nat.sub_diag, skipn_all. reflexivity. }
  rewrite Hr in Ht. exact Ht.
Qed.

Lemma wrapped_okb_spec : forall ls wrapped,
  wrapped_okb ls wrapped = true <-> wrapped = join_lines ls.
Proof.
  intros ls wrapped. unfold wrapped_okb. change (list_eqb N.eqb) with cps_eqb.
  rewrite cps_eqb_spec. split; intros H; congruence.
Qed.
