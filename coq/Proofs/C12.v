(** C12, part 2: [merge_ref_targets] (lib/src/refs.rs:108-200) on the model of Model/C12.v.
    Rules on whole targets, no invented ids, termination of the [find_pair_to_remove] loop,
    fast-forward, and the "otherwise a conflict, nothing silently dropped" decomposition. *)
From Verif Require Import Base.Prelude Model.Merge Model.C12 Proofs.MergeDen Proofs.C01
  Proofs.C01Simp Proofs.C01Checker Proofs.C02 Proofs.C12Vec.
From Coq Require Import Lia Arith Permutation.
Local Open Scope Z_scope.

(** * generic list facts *)
Lemma swap_pairs_perm {X} : forall n (l : list X), (length l <= n)%nat -> Permutation (swap_pairs l) l.
Proof.
  induction n as [|n IH]; intros l H.
  - destruct l; [constructor|cbn in H; lia].
  - destruct l as [|a [|b t]]; cbn [swap_pairs]; try reflexivity.
    apply Permutation_trans with (b :: a :: t); [|apply perm_swap].
    do 2 constructor. apply IH. cbn in H. lia.
Qed.

Lemma neg_inner_perm {X} (l : list X) : Permutation (neg_inner l) l.
Proof.
  unfold neg_inner. eapply Permutation_trans; [apply (swap_pairs_perm _ _ (le_n _))|].
  destruct l as [|x t]; [constructor|]. cbn [rotate_left1]. symmetry. apply Permutation_cons_append.
Qed.

Lemma position_some {X} (p : X -> bool) l : forall i,
  position p l = Some i -> exists x, nth_error l i = Some x /\ p x = true.
Proof.
  induction l as [|h t IH]; intros i H; [discriminate|]. cbn [position] in H.
  destruct (p h) eqn:E.
  - injection H as <-. exists h. auto.
  - destruct (position p t) as [j|]; [|discriminate]. cbn in H. injection H as <-.
    destruct (IH j eq_refl) as (x & A & B). exists x. auto.
Qed.

Lemma position_none {X} (p : X -> bool) l :
  position p l = None <-> forall x, In x l -> p x = false.
Proof.
  induction l as [|h t IH]; cbn [position]; [split; [intros _ x []|reflexivity]|].
  destruct (p h) eqn:E.
  - split; [discriminate|]. intros H. rewrite (H h (or_introl eq_refl)) in E. discriminate.
  - destruct (position p t) as [j|]; cbn.
    + split; [discriminate|]. intros H.
      assert (C : Some j = None) by (apply IH; intros x Hx; apply H; now right). discriminate.
    + split; [|reflexivity]. intros _ x [<-|Hx]; [exact E|]. now apply (proj1 IH).
Qed.

Ltac dmatch E :=
  match goal with
  | |- context [match ?x with Some _ => _ | None => _ end] => destruct x eqn:E
  end.

Section C12.
  Context {A : Type} (eqb : A -> A -> bool) (ancb : A -> A -> bool).
  Hypothesis eqb_spec : forall x y, eqb x y = true <-> x = y.

  Notation T := (option A).
  Notation teqb := (C12.teqb eqb).
  Notation find_pair := (find_pair_to_remove eqb ancb).
  Notation nt := (non_trivial eqb ancb).
  Notation mrt := (merge_ref_targets eqb ancb).
  Notation odd l := (Nat.odd (length l) = true).

  Lemma teqb_spec : forall x y : T, teqb x y = true <-> x = y.
  Proof. exact (option_eqb_spec eqb eqb_spec). Qed.

  Lemma target_eqb_spec : forall x y : list T, target_eqb eqb x y = true <-> x = y.
  Proof. exact (list_eqb_spec teqb teqb_spec). Qed.

  Lemma target_eqb_refl x : target_eqb eqb x x = true.
  Proof. now apply target_eqb_spec. Qed.

  (** * the three rules on whole targets (refs.rs:114-116) *)
  Lemma mrt_unchanged_left (b r : list T) : mrt b b r = r.
  Proof.
    unfold merge_ref_targets. cbn [trivial_merge].
    destruct (target_eqb eqb b r) eqn:E; cbn [andb].
    - apply target_eqb_spec in E. now subst.
    - now rewrite target_eqb_refl.
  Qed.

  Lemma mrt_unchanged_right (l b : list T) : mrt l b b = l.
  Proof.
    unfold merge_ref_targets. cbn [trivial_merge].
    destruct (target_eqb eqb l b) eqn:E; cbn [andb]; [reflexivity|].
    now rewrite target_eqb_refl.
  Qed.

  Lemma mrt_agree (x b : list T) : mrt x b x = x.
  Proof. unfold merge_ref_targets. cbn [trivial_merge]. now rewrite target_eqb_refl. Qed.

  (** What the first [trivial_merge] (on whole targets) can return. *)
  Lemma whole_trivial (l b r res : list T) :
    trivial_merge (target_eqb eqb) true [l; b; r] = Some res ->
    (l = r /\ res = l) \/ (l = b /\ res = r) \/ (r = b /\ res = l).
  Proof.
    cbn [trivial_merge]. destruct (target_eqb eqb l r) eqn:E1; cbn [andb].
    - intros H. injection H as <-. apply target_eqb_spec in E1. auto.
    - destruct (target_eqb eqb l b) eqn:E2.
      + intros H. injection H as <-. apply target_eqb_spec in E2. auto.
      + destruct (target_eqb eqb r b) eqn:E3; [|discriminate].
        intros H. injection H as <-. apply target_eqb_spec in E3. auto.
  Qed.

  Lemma whole_trivial_none (l b r : list T) :
    trivial_merge (target_eqb eqb) true [l; b; r] = None -> l <> r /\ l <> b /\ r <> b.
  Proof.
    cbn [trivial_merge]. destruct (target_eqb eqb l r) eqn:E1; cbn [andb]; [discriminate|].
    destruct (target_eqb eqb l b) eqn:E2; [discriminate|].
    destruct (target_eqb eqb r b) eqn:E3; [discriminate|]. intros _.
    repeat split; intros C; subst; rewrite target_eqb_refl in *; discriminate.
  Qed.

  (** * [find_pair_to_remove] *)
  Definition le (x y : A) : Prop := x = y \/ ancb x y = true.

  Lemma pick_some i1 a1 i2 a2 ai aid :
    pick eqb ancb i1 a1 i2 a2 = Some (ai, aid) ->
    exists id1 id2, a1 = Some id1 /\ a2 = Some id2 /\
      ((ai = i1 /\ aid = id1 /\ le id1 id2) \/ (ai = i2 /\ aid = id2 /\ le id2 id1)).
  Proof.
    unfold pick, le. destruct a1 as [id1|]; [|discriminate]. destruct a2 as [id2|]; [|discriminate].
    intros H. exists id1, id2. split; [reflexivity|split; [reflexivity|]].
    destruct (eqb id1 id2) eqn:E.
    - injection H as <- <-. apply eqb_spec in E. auto.
    - destruct (ancb id1 id2) eqn:E1.
      + injection H as <- <-. auto.
      + destruct (ancb id2 id1) eqn:E2; [|discriminate]. injection H as <- <-. auto.
  Qed.

  Lemma find_inner_some rems i1 a1 rest ri ai :
    find_inner eqb ancb rems i1 a1 rest = Some (ri, ai) ->
    exists i2 a2 aid, In (i2, a2) rest /\ pick eqb ancb i1 a1 i2 a2 = Some (ai, aid)
                      /\ position (remove_ok ancb aid) rems = Some ri.
  Proof.
    induction rest as [|[i2 a2] t IH]; [discriminate|]. cbn [find_inner].
    destruct (pick eqb ancb i1 a1 i2 a2) as [[ai' aid]|] eqn:P.
    - destruct (position (remove_ok ancb aid) rems) as [ri'|] eqn:Q.
      + intros H. injection H as <- <-. exists i2, a2, aid. split; [now left|auto].
      + intros H. destruct (IH H) as (j & a & d & I & X & Y). exists j, a, d. split; [now right|auto].
    - intros H. destruct (IH H) as (j & a & d & I & X & Y). exists j, a, d. split; [now right|auto].
  Qed.

  Lemma find_inner_none rems i1 a1 rest :
    find_inner eqb ancb rems i1 a1 rest = None <->
    forall i2 a2 ai aid, In (i2, a2) rest -> pick eqb ancb i1 a1 i2 a2 = Some (ai, aid) ->
      position (remove_ok ancb aid) rems = None.
  Proof.
    induction rest as [|[i2 a2] t IH]; cbn [find_inner]; [split; [intros _ ? ? ? ? []|reflexivity]|].
    destruct (pick eqb ancb i1 a1 i2 a2) as [[ai' aid']|] eqn:P.
    - destruct (position (remove_ok ancb aid') rems) as [ri'|] eqn:Q.
      + split; [discriminate|]. intros H. rewrite (H i2 a2 ai' aid' (or_introl eq_refl) P) in Q. discriminate.
      + rewrite IH. split.
        * intros H j a x d [E|I] X; [|eauto]. injection E as <- <-. rewrite P in X. injection X as <- <-. exact Q.
        * intros H j a x d I X. apply (H j a x d); auto. now right.
    - rewrite IH. split.
      + intros H j a x d [E|I] X; [|eauto]. injection E as <- <-. rewrite P in X. discriminate.
      + intros H j a x d I X. apply (H j a x d); auto. now right.
  Qed.

  Lemma find_outer_some rems al ri ai :
    find_outer eqb ancb rems al = Some (ri, ai) ->
    exists pre i1 a1 post i2 a2 aid,
      al = pre ++ (i1, a1) :: post /\ In (i2, a2) post
      /\ pick eqb ancb i1 a1 i2 a2 = Some (ai, aid)
      /\ position (remove_ok ancb aid) rems = Some ri.
  Proof.
    induction al as [|[i1 a1] t IH]; [discriminate|]. cbn [find_outer].
    destruct (find_inner eqb ancb rems i1 a1 t) as [p|] eqn:F.
    - intros H. injection H as ->. apply find_inner_some in F as (i2 & a2 & aid & I & X & Y).
      exists [], i1, a1, t, i2, a2, aid. auto.
    - intros H. destruct (IH H) as (pre & j1 & b1 & post & j2 & b2 & d & E & I & X & Y).
      exists ((i1, a1) :: pre), j1, b1, post, j2, b2, d. rewrite E. auto.
  Qed.

  Lemma find_outer_none rems al :
    find_outer eqb ancb rems al = None <->
    forall pre i1 a1 post i2 a2 ai aid,
      al = pre ++ (i1, a1) :: post -> In (i2, a2) post ->
      pick eqb ancb i1 a1 i2 a2 = Some (ai, aid) -> position (remove_ok ancb aid) rems = None.
  Proof.
    induction al as [|[i1 a1] t IH]; cbn [find_outer].
    - split; [|reflexivity]. intros _ pre ? ? ? ? ? ? ? E. now destruct pre.
    - destruct (find_inner eqb ancb rems i1 a1 t) as [p|] eqn:F.
      + split; [discriminate|]. intros H. destruct p as [ri ai].
        apply find_inner_some in F as (i2 & a2 & aid & I & X & Y).
        rewrite (H [] i1 a1 t i2 a2 ai aid eq_refl I X) in Y. discriminate.
      + rewrite IH. split.
        * intros H pre j1 b1 post j2 b2 x d E I X. destruct pre as [|q pre].
          -- cbn in E. injection E as <- <- <-. exact (proj1 (find_inner_none _ _ _ _) F j2 b2 x d I X).
          -- cbn in E. injection E as <- ->. eapply H; eauto.
        * intros H pre j1 b1 post j2 b2 x d E I X.
          apply (H ((i1, a1) :: pre) j1 b1 post j2 b2 x d); auto. now rewrite E.
  Qed.

  Lemma enumerate_split {X} (l : list X) pre i x post :
    enumerate_from 0 l = pre ++ (i, x) :: post ->
    i = length pre /\ nth_error l i = Some x
    /\ forall j y, In (j, y) post -> (i < j)%nat /\ nth_error l j = Some y.
  Proof.
    intros E.
    assert (H : forall p q, nth_error (pre ++ (i, x) :: post) p = Some q ->
                            fst q = p /\ nth_error l p = Some (snd q)).
    { intros p q Hq. rewrite <- E, nth_error_enumerate in Hq. cbn [Nat.add] in Hq.
      destruct (nth_error l p); [|discriminate]. cbn in Hq. injection Hq as <-. auto. }
    destruct (H (length pre) (i, x)) as [HA1 HB1].
    { rewrite nth_error_app2, Nat.sub_diag by lia. reflexivity. }
    cbn [fst snd] in HA1, HB1. subst i. split; [reflexivity|split; [exact HB1|]].
    intros j y Hin. apply In_nth_error in Hin as [k Hk].
    destruct (H (length pre + S k)%nat (j, y)) as [C D].
    { rewrite nth_error_app2 by lia. replace (length pre + S k - length pre)%nat with (S k) by lia.
      exact Hk. }
    cbn [fst snd] in C, D. subst j. split; [lia|exact D].
  Qed.

  (** A found pair: the dropped add [aid] at add slot [ai], a qualifying remove at remove slot
      [ri], and another add [a'] (at a different slot) that is [aid] or a descendant of it. *)
  Lemma find_pair_some (c : list T) ri ai :
    find_pair c = Some (ri, ai) ->
    exists aid r j a',
      nth_error (adds c) ai = Some (Some aid) /\ nth_error (removes c) ri = Some r
      /\ remove_ok ancb aid r = true
      /\ j <> ai /\ nth_error (adds c) j = Some (Some a') /\ le aid a'.
  Proof.
    unfold find_pair_to_remove. intros H.
    apply find_outer_some in H as (pre & i1 & a1 & post & i2 & a2 & aid & E & I & P & Q).
    destruct (enumerate_split _ _ _ _ _ E) as (_ & N1 & N2). destruct (N2 i2 a2 I) as [L N3].
    apply position_some in Q as (r & R1 & R2).
    apply pick_some in P as (id1 & id2 & -> & -> & [(-> & -> & Hle)|(-> & -> & Hle)]).
    - exists id1, r, i2, id2. repeat split; auto. lia.
    - exists id2, r, i1, id1. repeat split; auto. lia.
  Qed.

  Lemma enumerate_app {X} (l1 l2 : list X) : forall s,
    enumerate_from s (l1 ++ l2) = enumerate_from s l1 ++ enumerate_from (s + length l1) l2.
  Proof.
    induction l1 as [|x t IH]; intros s; cbn [app enumerate_from length].
    - now rewrite Nat.add_0_r.
    - rewrite IH. now rewrite Nat.add_succ_r.
  Qed.

  (** Declarative reading of "no pair can be removed": for any two adds that are equal or
      related by ancestry, no remove is absent or an ancestor of the one that would be dropped. *)
  Lemma find_pair_none_spec (c : list T) :
    find_pair c = None <->
    forall i1 i2 a1 a2 ai aid,
      (i1 < i2)%nat -> nth_error (adds c) i1 = Some a1 -> nth_error (adds c) i2 = Some a2 ->
      pick eqb ancb i1 a1 i2 a2 = Some (ai, aid) ->
      forall r, In r (removes c) -> remove_ok ancb aid r = false.
  Proof.
    unfold find_pair_to_remove. rewrite find_outer_none. split.
    - intros H i1 i2 a1 a2 ai aid L N1 N2 P. apply position_none.
      assert (L1 : (i1 < length (adds c))%nat) by (apply nth_error_Some; congruence).
      pose proof (firstn_skipn i1 (adds c)) as Sp.
      assert (Sk : skipn i1 (adds c) = a1 :: skipn (S i1) (adds c)).
      { clear -N1. revert i1 N1. induction (adds c) as [|h t IH]; intros [|i] N; cbn in *; try discriminate.
        - now injection N as ->.
        - now apply IH. }
      rewrite Sk in Sp.
      apply (H (enumerate_from 0 (firstn i1 (adds c))) i1 a1
               (enumerate_from (S i1) (skipn (S i1) (adds c))) i2 a2 ai aid); [|  |exact P].
      + transitivity (enumerate_from 0 (firstn i1 (adds c) ++ a1 :: skipn (S i1) (adds c)));
          [now rewrite Sp|]. rewrite enumerate_app. cbn [Nat.add enumerate_from].
        rewrite firstn_length, Nat.min_l by lia. reflexivity.
      + apply nth_error_In with (n := (i2 - S i1)%nat). rewrite nth_error_enumerate, nth_error_skipn'.
        replace (S i1 + (i2 - S i1))%nat with i2 by lia. unfold term in *. now rewrite N2.
    - intros H pre i1 a1 post i2 a2 ai aid E I P.
      destruct (enumerate_split _ _ _ _ _ E) as (_ & N1 & N2). destruct (N2 i2 a2 I) as [L N3].
      apply position_none. eauto.
  Qed.

  Lemma find_pair_single (x : T) : find_pair [x] = None.
  Proof. reflexivity. Qed.

  (** * one iteration of [merge_ref_targets_non_trivial] *)
  Lemma vsr_keeps {X} (l : list X) j ai x y :
    nth_error l j = Some x -> nth_error l ai = Some y -> j <> ai -> In x (vec_swap_remove ai l).
  Proof.
    intros Hj Hai Hne. destruct (exists_last (l := l)) as (l' & z & ->); [intros ->; now destruct j|].
    rewrite vsr_snoc.
    assert (Lj : (j < length (l' ++ [z]))%nat) by (apply nth_error_Some; congruence).
    assert (La : (ai < length (l' ++ [z]))%nat) by (apply nth_error_Some; congruence).
    rewrite app_length in Lj, La. cbn [length] in Lj, La.
    destruct (Nat.lt_ge_cases j (length l')) as [L|G].
    - rewrite nth_error_app1 in Hj by exact L. apply nth_error_In with (n := j).
      rewrite nth_error_set_nth. destruct (Nat.eqb ai j) eqn:E; [apply Nat.eqb_eq in E; lia|exact Hj].
    - assert (j = length l') by lia. subst j.
      rewrite nth_error_app2, Nat.sub_diag in Hj by lia. cbn in Hj. injection Hj as <-.
      apply nth_error_In with (n := ai). rewrite nth_error_set_nth, Nat.eqb_refl.
      destruct (nth_error l' ai) eqn:E; [reflexivity|]. apply nth_error_None in E. lia.
  Qed.

  Record StepFacts (c c' : list T) (aid : A) (r : T) (a' : A) : Prop := {
    sf_len : (3 <= length c)%nat /\ length c' = (length c - 2)%nat;
    sf_odd : odd c';
    sf_adds : Permutation (adds c) (Some aid :: adds c');
    sf_rems : Permutation (removes c) (r :: removes c');
    sf_ok : remove_ok ancb aid r = true;
    sf_other : In (Some a') (adds c') /\ le aid a';
  }.

  Lemma odd_minus2 n : Nat.odd n = true -> (3 <= n)%nat -> Nat.odd (n - 2) = true.
  Proof.
    intros H L. destruct n as [|[|n]]; try lia. replace (S (S n) - 2)%nat with n by lia.
    now rewrite Nat.odd_succ_succ in H.
  Qed.

  Lemma step_facts (c : list T) ri ai :
    odd c -> find_pair c = Some (ri, ai) ->
    exists aid r a', StepFacts c (merge_swap_remove ri ai c) aid r a'.
  Proof.
    intros Hodd H. apply find_pair_some in H as (aid & r & j & a' & Na & Nr & Ok & Hne & Nj & Hle).
    assert (Hlen : (3 <= length c)%nat).
    { destruct (length_evens_odds c) as (L1 & L2 & _). specialize (L2 Hodd).
      assert (ai < length (adds c))%nat by (apply nth_error_Some; congruence).
      assert (j < length (adds c))%nat by (apply nth_error_Some; congruence).
      unfold adds in *. lia. }
    destruct (msr_adds_removes c ri ai Hodd Hlen) as (EA & ER & EL). unfold term in EA, ER, EL.
    exists aid, r, a'. constructor.
    - split; [exact Hlen|exact EL].
    - rewrite EL. now apply odd_minus2.
    - rewrite EA. now apply vsr_perm.
    - rewrite ER. now apply vsr_perm.
    - exact Ok.
    - split; [|exact Hle]. rewrite EA. eapply vsr_keeps; eauto.
  Qed.

  (** * the loop *)
  Lemma nt_ind (P : list T -> Prop) :
    (forall c ri ai, odd c -> P c -> find_pair c = Some (ri, ai) -> P (merge_swap_remove ri ai c)) ->
    forall fuel c, odd c -> P c -> P (nt fuel c) /\ odd (nt fuel c).
  Proof.
    intros Hstep. induction fuel as [|f IH]; intros c Hodd HP; [cbn; auto|].
    cbn [non_trivial]. destruct (find_pair c) as [[ri ai]|] eqn:E; [|auto].
    destruct (step_facts c ri ai Hodd E) as (aid & r & a' & SF).
    apply IH; [exact (sf_odd _ _ _ _ _ SF)|eauto].
  Qed.

  (** Termination: every iteration removes two terms, so [length c] iterations suffice and the
      loop ends because no pair is found (never because the fuel ran out). *)
  Lemma odd_lt3 (c : list T) : odd c -> (length c < 3)%nat -> exists x, c = [x].
  Proof.
    intros H L. destruct c as [|x [|y [|z t]]]; cbn in *; try discriminate; try lia. now exists x.
  Qed.

  Lemma nt_stuck fuel : forall c : list T,
    odd c -> (length c < 2 * fuel + 3)%nat -> find_pair (nt fuel c) = None.
  Proof.
    induction fuel as [|f IH]; intros c Hodd L.
    - destruct (odd_lt3 c Hodd) as [x ->]; [lia|]. reflexivity.
    - cbn [non_trivial]. destruct (find_pair c) as [[ri ai]|] eqn:E; [|exact E].
      destruct (step_facts c ri ai Hodd E) as (aid & r & a' & SF).
      apply IH; [exact (sf_odd _ _ _ _ _ SF)|]. destruct (sf_len _ _ _ _ _ SF). lia.
  Qed.

  Lemma nt_fuel_mono fuel : forall (c : list T) extra,
    odd c -> (length c < 2 * fuel + 3)%nat -> nt (fuel + extra) c = nt fuel c.
  Proof.
    induction fuel as [|f IH]; intros c extra Hodd L.
    - destruct (odd_lt3 c Hodd) as [x ->]; [lia|]. now destruct extra.
    - cbn [Nat.add non_trivial]. destruct (find_pair c) as [[ri ai]|] eqn:E; [|reflexivity].
      destruct (step_facts c ri ai Hodd E) as (aid & r & a' & SF).
      apply IH; [exact (sf_odd _ _ _ _ _ SF)|]. destruct (sf_len _ _ _ _ _ SF). lia.
  Qed.

  Lemma nt_terminates (c : list T) :
    odd c ->
    find_pair (nt (length c) c) = None
    /\ forall extra, nt (length c + extra) c = nt (length c) c.
  Proof.
    intros Hodd. split; [apply nt_stuck|intros; apply nt_fuel_mono]; auto; lia.
  Qed.

  (** Terms only disappear. *)
  Lemma step_incl c c' aid r a' : StepFacts c c' aid r a' -> forall t, In t c' -> In t c.
  Proof.
    intros SF t Hin. apply in_evens_or_odds. apply in_evens_or_odds in Hin as [H|H].
    - left. eapply Permutation_in; [symmetry; exact (sf_adds _ _ _ _ _ SF)|now right].
    - right. eapply Permutation_in; [symmetry; exact (sf_rems _ _ _ _ _ SF)|now right].
  Qed.

  Lemma nt_incl fuel (c : list T) : odd c -> forall t, In t (nt fuel c) -> In t c.
  Proof.
    intros Hodd. apply (nt_ind (fun c' => forall t, In t c' -> In t c)); auto.
    intros c1 ri ai Ho HP E t Hin. destruct (step_facts c1 ri ai Ho E) as (aid & r & a' & SF).
    apply HP. eapply step_incl; eauto.
  Qed.

  (** Polarity is kept: adds stay adds, removes stay removes, with multiplicity. *)
  Lemma count_perm (v : T) l1 l2 : Permutation l1 l2 -> count teqb v l1 = count teqb v l2.
  Proof. induction 1; cbn [count]; lia. Qed.

  Lemma nt_counts fuel (c : list T) : odd c -> forall v,
    count teqb v (adds (nt fuel c)) <= count teqb v (adds c)
    /\ count teqb v (removes (nt fuel c)) <= count teqb v (removes c).
  Proof.
    intros Hodd.
    apply (nt_ind (fun c' => forall v, count teqb v (adds c') <= count teqb v (adds c)
                                       /\ count teqb v (removes c') <= count teqb v (removes c)));
      [|exact Hodd|intros; lia].
    intros c1 ri ai Ho HP E v. destruct (step_facts c1 ri ai Ho E) as (aid & r & a' & SF).
    destruct (HP v) as [H1 H2].
    rewrite (count_perm v _ _ (sf_adds _ _ _ _ _ SF)) in H1.
    rewrite (count_perm v _ _ (sf_rems _ _ _ _ _ SF)) in H2. cbn [count] in H1, H2.
    destruct (teqb (Some aid) v), (teqb r v); lia.
  Qed.

  (** * nothing is silently dropped *)
  Definition Trans : Prop := forall x y z, ancb x y = true -> ancb y z = true -> ancb x z = true.

  Lemma le_trans : Trans -> forall x y z, le x y -> le y z -> le x z.
  Proof.
    intros HT x y z [->|H1] [->|H2]; unfold le; auto. right. eapply HT; eauto.
  Qed.

  (** Every add of the conflict is still an add of the result, or was dropped in favour of a
      descendant that is; absent adds are never dropped. *)
  Definition covered (res : list T) (t : T) : Prop :=
    match t with
    | None => In None (adds res)
    | Some x => exists x', In (Some x') (adds res) /\ le x x'
    end.

  Lemma covered_self res t : In t (adds res) -> covered res t.
  Proof. destruct t as [x|]; cbn; [|auto]. intros H. exists x. split; [exact H|now left]. Qed.

  Lemma nt_cover (HT : Trans) fuel : forall c : list T,
    odd c -> forall t, In t (adds c) -> covered (nt fuel c) t.
  Proof.
    induction fuel as [|f IH]; intros c Hodd t Hin; [now apply covered_self|].
    cbn [non_trivial]. destruct (find_pair c) as [[ri ai]|] eqn:E; [|now apply covered_self].
    destruct (step_facts c ri ai Hodd E) as (aid & r & a' & SF).
    pose proof (sf_odd _ _ _ _ _ SF) as Ho'. destruct (sf_other _ _ _ _ _ SF) as [Ia' Hle].
    pose proof (Permutation_in _ (sf_adds _ _ _ _ _ SF) Hin) as Hin'.
    destruct Hin' as [Heq|Hin'].
    - subst t. destruct (IH _ Ho' (Some a') Ia') as (x' & Ix & Lx). exists x'. split; [exact Ix|].
      eapply le_trans; eauto.
    - now apply IH.
  Qed.

  (** The pairs removed by the loop, as (remove, add) terms. *)
  Fixpoint drops_den (ds : list (T * A)) (v : T) : Z :=
    match ds with
    | [] => 0
    | (r0, a) :: t => ind teqb (Some a) v - ind teqb r0 v + drops_den t v
    end.

  Definition justified (res : list T) (d : T * A) : Prop :=
    remove_ok ancb (snd d) (fst d) = true /\ covered res (Some (snd d)).

  Lemma den_count (l : list T) v : den teqb l v = count teqb v (adds l) - count teqb v (removes l).
  Proof.
    unfold Merge.den, adds, removes.
    assert (H : forall s, den_s teqb s l v = sg s * (count teqb v (evens l) - count teqb v (odds l))).
    { induction l as [|x t IH]; intros s; [cbn; lia|].
      rewrite den_s_cons, IH, evens_cons, odds_cons. cbn [count]. unfold ind.
      destruct (teqb x v), s; cbn [sg negb]; lia. }
    rewrite H. cbn [sg]. lia.
  Qed.

  Lemma step_den c c' aid r a' : StepFacts c c' aid r a' ->
    forall v, den teqb c v = den teqb c' v + ind teqb (Some aid) v - ind teqb r v.
  Proof.
    intros SF v. rewrite !den_count.
    rewrite (count_perm v _ _ (sf_adds _ _ _ _ _ SF)), (count_perm v _ _ (sf_rems _ _ _ _ _ SF)).
    cbn [count]. unfold ind. destruct (teqb (Some aid) v), (teqb r v); lia.
  Qed.

  Lemma nt_den (HT : Trans) fuel : forall c : list T,
    odd c ->
    exists ds, (forall v, den teqb c v = den teqb (nt fuel c) v + drops_den ds v)
               /\ Forall (justified (nt fuel c)) ds
               /\ length c = (length (nt fuel c) + 2 * length ds)%nat.
  Proof.
    induction fuel as [|f IH]; intros c Hodd.
    - exists []. cbn [non_trivial drops_den length]. split; [intros; lia|split; [apply Forall_nil|now rewrite Nat.mul_0_r, Nat.add_0_r]].
    - cbn [non_trivial]. destruct (find_pair c) as [[ri ai]|] eqn:E.
      2:{ exists []. cbn [drops_den length]. split; [intros; lia|split; [apply Forall_nil|now rewrite Nat.mul_0_r, Nat.add_0_r]]. }
      destruct (step_facts c ri ai Hodd E) as (aid & r & a' & SF).
      pose proof (sf_odd _ _ _ _ _ SF) as Ho'. destruct (sf_other _ _ _ _ _ SF) as [Ia' Hle].
      destruct (IH _ Ho') as (ds & D & J & L). exists ((r, aid) :: ds). split; [|split].
      + intros v. rewrite (step_den _ _ _ _ _ SF v), D. cbn [drops_den]. lia.
      + constructor; [|exact J]. split; [exact (sf_ok _ _ _ _ _ SF)|]. cbn [snd covered].
        destruct (nt_cover HT f _ Ho' (Some a') Ia') as (x' & Ix & Lx).
        exists x'. split; [exact Ix|]. eapply le_trans; eauto.
      + destruct (sf_len _ _ _ _ _ SF) as [L3 L2]. cbn [length]. unfold term in *. lia.
  Qed.

  (** * the flattened and simplified input *)
  Lemma in_simplify (m : list T) t : odd m -> In t (simplify teqb m) -> In t m.
  Proof.
    intros Hodd Hin. apply In_nth_error in Hin as [j Hj].
    destruct (simplified_mapping_sound teqb teqb_spec m Hodd) as (_ & L & S).
    assert (Lj : (j < length (simplified_mapping teqb m))%nat).
    { rewrite L. apply nth_error_Some. congruence. }
    destruct (nth_error (simplified_mapping teqb m) j) as [i|] eqn:Ei.
    2:{ apply nth_error_None in Ei. lia. }
    destruct (S j i Ei) as (_ & _ & Eq). rewrite Hj in Eq. eapply nth_error_In. symmetry. exact Eq.
  Qed.

  Lemma flatten3 (l b r : list T) : flatten [l; b; r] = l ++ neg_inner b ++ r.
  Proof. cbn [flatten flatten_rest]. now rewrite app_nil_r. Qed.

  Lemma odd_three (x y z : nat) :
    Nat.odd x = true -> Nat.odd y = true -> Nat.odd z = true -> Nat.odd (x + y + z) = true.
  Proof.
    intros Hx Hy Hz. apply Nat.odd_spec in Hx as [a ->], Hy as [b ->], Hz as [c ->].
    apply Nat.odd_spec. exists (a + b + c + 1)%nat. lia.
  Qed.

  Lemma flatten3_odd (l b r : list T) : odd l -> odd b -> odd r -> odd (flatten [l; b; r]).
  Proof.
    intros Hl Hb Hr. rewrite flatten3, !app_length.
    rewrite (Permutation_length (neg_inner_perm b)), Nat.add_assoc. now apply odd_three.
  Qed.

  Lemma in_flatten3 (l b r : list T) t : In t (flatten [l; b; r]) -> In t l \/ In t b \/ In t r.
  Proof.
    rewrite flatten3. intros H. apply in_app_or in H as [H|H]; [auto|].
    apply in_app_or in H as [H|H]; [|auto]. right. left.
    eapply Permutation_in; [apply neg_inner_perm|exact H].
  Qed.

  Lemma flat_simplified_odd (l b r : list T) :
    odd l -> odd b -> odd r -> odd (flat_simplified eqb l b r).
  Proof.
    intros Hl Hb Hr. unfold flat_simplified.
    destruct (simplify_arity teqb teqb_spec (flatten [l; b; r])) as [E _].
    pose proof (flatten3_odd l b r Hl Hb Hr) as F. unfold target, term in *.
    rewrite <- Nat.negb_even in F |- *. now rewrite E.
  Qed.

  Lemma flat_simplified_den (l b r : list T) v :
    odd l -> odd b -> odd r ->
    den teqb (flat_simplified eqb l b r) v = den teqb l v - den teqb b v + den teqb r v.
  Proof.
    intros Hl Hb Hr. unfold flat_simplified.
    rewrite (simplify_den teqb teqb_spec), (flatten_den teqb); [cbn; lia|reflexivity|].
    repeat constructor; auto.
  Qed.

  Lemma trivial_in (m : list T) v : odd m -> trivial_merge teqb true m = Some v -> In v m.
  Proof.
    intros Hodd H. apply (trivial_merge_spec teqb teqb_spec) in H as [Hpos _]; [|exact Hodd].
    destruct (in_dec (eq_dec_of_eqb teqb teqb_spec) v m) as [I|I]; [exact I|].
    rewrite (den_notin teqb teqb_spec) in Hpos by exact I. lia.
  Qed.

  (** * no invented id *)
  Lemma mrt_no_invention (l b r : list T) t :
    odd l -> odd b -> odd r -> In t (mrt l b r) -> In t l \/ In t b \/ In t r.
  Proof.
    intros Hl Hb Hr. unfold merge_ref_targets, target, term.
    destruct (trivial_merge _ true [l; b; r]) as [res|] eqn:E1.
    - destruct (whole_trivial _ _ _ _ E1) as [[_ ->]|[[_ ->]|[_ ->]]]; auto.
    - pose proof (flat_simplified_odd l b r Hl Hb Hr) as Ho.
      assert (Hm : forall t, In t (flat_simplified eqb l b r) -> In t l \/ In t b \/ In t r).
      { intros u Hu. apply in_flatten3. eapply in_simplify; [|exact Hu]. now apply flatten3_odd. }
      cbv zeta. dmatch E2.
      + intros [<-|[]]. apply Hm. now apply trivial_in.
      + intros H. apply Hm. eapply nt_incl; eauto.
  Qed.

  Lemma mrt_nontrivial (l b r : list T) :
    trivial_merge (target_eqb eqb) true [l; b; r] = None ->
    trivial_merge teqb true (flat_simplified eqb l b r) = None ->
    mrt l b r = nt (length (flat_simplified eqb l b r)) (flat_simplified eqb l b r).
  Proof.
    unfold merge_ref_targets. intros H1 H2. dmatch E1.
    { exfalso. first [discriminate|pose proof (eq_trans (eq_sym E1) H1) as X; discriminate X]. }
    cbv zeta. dmatch E2.
    { exfalso. first [discriminate|pose proof (eq_trans (eq_sym E2) H2) as X; discriminate X]. }
    reflexivity.
  Qed.

  (** * fast-forward *)
  Definition Antisym : Prop := forall x y, ancb x y = true -> ancb y x = true -> x = y.

  Lemma eqb_neq x y : x <> y -> eqb x y = false.
  Proof. intros H. destruct (eqb x y) eqn:E; [|reflexivity]. now apply eqb_spec in E. Qed.

  Lemma simplify3_distinct (a b c : T) :
    a <> b -> c <> b -> simplify teqb [a; b; c] = [a; b; c].
  Proof.
    intros H1 H2. unfold simplify, simplified_pairs.
    rewrite (simp_loop_clean teqb); [reflexivity|reflexivity|].
    intros j k pj pk Hj Hk Nj Nk.
    destruct k as [|[|[|k]]]; cbn in Hk, Nk; try discriminate.
    2:{ destruct k; discriminate. }
    injection Nk as <-. cbn [snd].
    destruct j as [|[|[|j]]]; cbn in Hj, Nj; try discriminate.
    - injection Nj as <-. cbn [snd]. destruct (teqb b a) eqn:E; [|reflexivity].
      apply teqb_spec in E. congruence.
    - injection Nj as <-. cbn [snd]. destruct (teqb b c) eqn:E; [|reflexivity].
      apply teqb_spec in E. congruence.
    - destruct j; discriminate.
  Qed.

  (** Both sides moved forward along one line: [b] below [x] below [y]; the side at [y] wins,
      whichever side it is. [b] may also be absent (both sides added the ref). *)
  Lemma mrt_fast_forward_gen (b0 : T) (x y : A) :
    Antisym -> remove_ok ancb x b0 = true -> ancb x y = true ->
    mrt [Some x] [b0] [Some y] = [Some y] /\ mrt [Some y] [b0] [Some x] = [Some y].
  Proof.
    intros HA Hb Hxy.
    destruct (eq_dec_of_eqb eqb eqb_spec x y) as [->|Nxy]; [split; apply mrt_agree|].
    assert (Nyx : y <> x) by congruence.
    destruct (eq_dec_of_eqb teqb teqb_spec (Some x) b0) as [<-|Nxb].
    { split; [apply mrt_unchanged_left|apply mrt_unchanged_right]. }
    assert (Nyb : Some y <> b0).
    { intros <-. cbn in Hb. apply Nxy. now apply HA. }
    assert (Ayx : ancb y x = false).
    { destruct (ancb y x) eqn:E; [|reflexivity]. exfalso. apply Nxy. now apply HA. }
    assert (TN : forall u v : T, u <> v -> teqb u v = false).
    { intros u v H. destruct (teqb u v) eqn:E; [|reflexivity]. now apply teqb_spec in E. }
    assert (LN : forall u v : list T, u <> v -> target_eqb eqb u v = false).
    { intros u v H. destruct (target_eqb eqb u v) eqn:E; [|reflexivity]. now apply target_eqb_spec in E. }
    assert (W1 : trivial_merge (target_eqb eqb) true [[Some x]; [b0]; [Some y]] = None).
    { cbn [trivial_merge]. rewrite !LN by congruence. reflexivity. }
    assert (W2 : trivial_merge (target_eqb eqb) true [[Some y]; [b0]; [Some x]] = None).
    { cbn [trivial_merge]. rewrite !LN by congruence. reflexivity. }
    assert (F1 : flat_simplified eqb [Some x] [b0] [Some y] = [Some x; b0; Some y]).
    { unfold flat_simplified. change (flatten [[Some x]; [b0]; [Some y]]) with [Some x; b0; Some y].
      now apply simplify3_distinct. }
    assert (F2 : flat_simplified eqb [Some y] [b0] [Some x] = [Some y; b0; Some x]).
    { unfold flat_simplified. change (flatten [[Some y]; [b0]; [Some x]]) with [Some y; b0; Some x].
      now apply simplify3_distinct. }
    assert (T1 : trivial_merge teqb true [Some x; b0; Some y] = None).
    { cbn [trivial_merge]. rewrite !TN by congruence. reflexivity. }
    assert (T2 : trivial_merge teqb true [Some y; b0; Some x] = None).
    { cbn [trivial_merge]. rewrite !TN by congruence. reflexivity. }
    rewrite <- F1 in T1. rewrite <- F2 in T2.
    rewrite (mrt_nontrivial _ _ _ W1 T1), (mrt_nontrivial _ _ _ W2 T2), F1, F2. split.
    - cbn [length non_trivial]. unfold find_pair_to_remove.
      cbn [adds removes evens odds enumerate_from find_outer find_inner pick].
      rewrite (eqb_neq _ _ Nxy), Hxy. cbn [position]. rewrite Hb. reflexivity.
    - cbn [length non_trivial]. unfold find_pair_to_remove.
      cbn [adds removes evens odds enumerate_from find_outer find_inner pick].
      rewrite (eqb_neq _ _ Nyx), Ayx, Hxy. cbn [position]. rewrite Hb. reflexivity.
  Qed.

  (** Complete description for three normal (or absent-base) pairwise distinct targets: the
      merge resolves exactly when one side is an ancestor of the other AND the base is absent
      or an ancestor of that ancestor side; in every other case the conflict is recorded. *)
  Lemma mrt_normal (b0 : T) (x y : A) :
    x <> y -> Some x <> b0 -> Some y <> b0 ->
    mrt [Some x] [b0] [Some y] =
      if ancb x y then (if remove_ok ancb x b0 then [Some y] else [Some x; b0; Some y])
      else if ancb y x then (if remove_ok ancb y b0 then [Some x] else [Some x; b0; Some y])
      else [Some x; b0; Some y].
  Proof.
    intros Nxy Nxb Nyb.
    assert (TN : forall u v : T, u <> v -> teqb u v = false).
    { intros u v H. destruct (teqb u v) eqn:E; [|reflexivity]. now apply teqb_spec in E. }
    assert (LN : forall u v : list T, u <> v -> target_eqb eqb u v = false).
    { intros u v H. destruct (target_eqb eqb u v) eqn:E; [|reflexivity]. now apply target_eqb_spec in E. }
    assert (W1 : trivial_merge (target_eqb eqb) true [[Some x]; [b0]; [Some y]] = None).
    { cbn [trivial_merge]. rewrite !LN by congruence. reflexivity. }
    assert (F1 : flat_simplified eqb [Some x] [b0] [Some y] = [Some x; b0; Some y]).
    { unfold flat_simplified. change (flatten [[Some x]; [b0]; [Some y]]) with [Some x; b0; Some y].
      now apply simplify3_distinct. }
    assert (T1 : trivial_merge teqb true [Some x; b0; Some y] = None).
    { cbn [trivial_merge]. rewrite !TN by congruence. reflexivity. }
    rewrite <- F1 in T1. rewrite (mrt_nontrivial _ _ _ W1 T1), F1.
    cbn [length non_trivial]. unfold find_pair_to_remove.
    cbn [adds removes evens odds enumerate_from find_outer find_inner pick].
    rewrite (eqb_neq _ _ Nxy).
    destruct (ancb x y) eqn:Axy.
    - cbn [position]. destruct (remove_ok ancb x b0); reflexivity.
    - destruct (ancb y x) eqn:Ayx; [|reflexivity].
      cbn [position]. destruct (remove_ok ancb y b0); reflexivity.
  Qed.

  (** * otherwise a conflict: how every result is justified *)
  Definition Outcome (l b r res : list T) : Prop :=
    (l = r /\ res = l) \/ (l = b /\ res = r) \/ (r = b /\ res = l)
    \/ (exists v, res = [v] /\ Resolves teqb true (flatten [l; b; r]) v)
    \/ (exists ds,
          (forall v, den teqb l v - den teqb b v + den teqb r v = den teqb res v + drops_den ds v)
          /\ Forall (justified res) ds
          /\ (forall t, 0 < den teqb l t - den teqb b t + den teqb r t -> covered res t)
          /\ find_pair res = None).

  Lemma count_pos_in (v : T) l : 0 < count teqb v l -> In v l.
  Proof.
    induction l as [|x t IH]; cbn [count]; [lia|].
    destruct (teqb x v) eqn:E; [apply teqb_spec in E; subst; now left|]. intros H. right. apply IH. lia.
  Qed.

  Lemma count_nonneg (v : T) l : 0 <= count teqb v l.
  Proof. induction l as [|x t IH]; cbn [count]; [lia|]. destruct (teqb x v); lia. Qed.

  Lemma mrt_outcome (l b r : list T) :
    Trans -> odd l -> odd b -> odd r -> Outcome l b r (mrt l b r).
  Proof.
    intros HT Hl Hb Hr. unfold Outcome, merge_ref_targets, target, term.
    destruct (trivial_merge _ true [l; b; r]) as [res|] eqn:E1.
    { destruct (whole_trivial _ _ _ _ E1) as [H|[H|H]]; auto. }
    right. right. right.
    pose proof (flat_simplified_odd l b r Hl Hb Hr) as Ho.
    pose proof (fun v => flat_simplified_den l b r v Hl Hb Hr) as Hden.
    cbv zeta. set (m := flat_simplified eqb l b r) in *.
    dmatch E2.
    - left. match type of E2 with _ = Some ?v => exists v end. split; [reflexivity|].
      apply (trivial_merge_spec teqb teqb_spec) in E2; [|exact Ho].
      eapply (Resolves_ext teqb); [|exact E2]. intros u. unfold m, flat_simplified.
      apply (simplify_den teqb teqb_spec).
    - right. destruct (nt_den HT (length m) m Ho) as (ds & D & J & _). exists ds.
      split; [intros v; rewrite <- Hden; apply D|]. split; [exact J|]. split.
      + intros t Hpos. rewrite <- Hden in Hpos. apply nt_cover; auto.
        apply count_pos_in. pose proof (den_count m t) as DC.
        pose proof (count_nonneg t (removes m)) as CN. unfold target, term in *. lia.
      + apply nt_stuck; auto. lia.
  Qed.
End C12.
