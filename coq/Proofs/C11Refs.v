(** C11/C10: merge_ref_targets invents no ids, keeps adds among the adds, and keeps the arity odd. *)
From Verif Require Import Base.Prelude Base.DagV Model.Merge Model.RepoV
  Proofs.MergeDen Proofs.C01 Proofs.C01Simp Proofs.C02 Proofs.C10.
From Coq Require Import Lia Arith.

Lemma oeqb_spec (a b : option nat) : oeqb a b = true <-> a = b.
Proof.
  unfold oeqb, option_eqb. destruct a as [x|], b as [y|]; try (split; congruence).
  rewrite Nat.eqb_eq. split; congruence.
Qed.

Lemma target_eqb_spec (a b : target) : target_eqb a b = true <-> a = b.
Proof.
  unfold target_eqb. revert b. induction a as [|x t IH]; intros [|y u]; cbn [list_eqb]; try (split; congruence).
  rewrite andb_true_iff, oeqb_spec, IH. split; [intros [-> ->]; reflexivity|intros E; injection E; auto].
Qed.

(** * evens / odds *)
Section EO.
  Context {A : Type}.
  Lemma evens_cons (x : A) t : evens (x :: t) = x :: odds t.
  Proof. reflexivity. Qed.
  Lemma odds_cons (x : A) t : odds (x :: t) = evens t.
  Proof. reflexivity. Qed.
  Lemma evens_odds_app (l1 l2 : list A) :
    (evens (l1 ++ l2) = if Nat.even (length l1) then evens l1 ++ evens l2 else evens l1 ++ odds l2) /\
    (odds (l1 ++ l2) = if Nat.even (length l1) then odds l1 ++ odds l2 else odds l1 ++ evens l2).
  Proof.
    induction l1 as [|x t [IHe IHo]]; [split; reflexivity|].
    rewrite <- app_comm_cons, !evens_cons, !odds_cons. cbn [length].
    rewrite Nat.even_succ, <- Nat.negb_even.
    rewrite IHe, IHo. destruct (Nat.even (length t)); cbn [negb app]; split; reflexivity.
  Qed.

  Lemma length_evens_odds (l : list A) : length (evens l) + length (odds l) = length l.
  Proof.
    induction l as [|x t IH]; [reflexivity|]. rewrite evens_cons, odds_cons. cbn [length]. lia.
  Qed.
End EO.

(** * den > 0 only for values that occur as adds *)
Lemma den_pos_in_evens (l : list (option nat)) v : (0 < den oeqb l v)%Z -> In v (evens l).
Proof.
  assert (P : forall l, (~ In v (evens l) -> (den_s oeqb true l v <= 0)%Z) /\
                        (~ In v (odds l) -> (den_s oeqb false l v <= 0)%Z)).
  { clear l. induction l as [|x t [IHa IHb]]; [split; intros; cbn; lia|].
    rewrite evens_cons, odds_cons. cbn [den_s negb]. split; intros H.
    - assert (x <> v) by (intros ->; apply H; now left).
      assert (E : oeqb x v = false).
      { destruct (oeqb x v) eqn:E; [|reflexivity]. apply oeqb_spec in E. congruence. }
      rewrite E. assert (~ In v (odds t)) by (intros C; apply H; now right).
      specialize (IHb H1). lia.
    - specialize (IHa H). destruct (oeqb x v); lia. }
  intros H. destruct (in_dec (fun a b => eq_dec_of_eqb oeqb oeqb_spec a b) v (evens l)) as [I|I]; [assumption|].
  destruct (P l) as [PA _]. specialize (PA I). unfold den in H. lia.
Qed.

(** * Vec::swap_remove *)
Lemma vsr_facts {A} i (l : list A) : l <> [] ->
  length (vec_swap_remove i l) = length l - 1 /\
  forall j, nth_error (vec_swap_remove i l) j =
    if j <? length l - 1 then (if j =? i then nth_error l (length l - 1) else nth_error l j) else None.
Proof.
  intros N. destruct (exists_last N) as [l' [a ->]].
  unfold vec_swap_remove. rewrite rev_app_distr. cbn [rev app]. rewrite removelast_last.
  rewrite app_length. cbn [length]. replace (length l' + 1 - 1) with (length l') by lia.
  assert (La : nth_error (l' ++ [a]) (length l') = Some a).
  { rewrite nth_error_app2 by lia. now rewrite Nat.sub_diag. }
  destruct (i =? length l') eqn:E.
  - apply Nat.eqb_eq in E. subst i. split; [reflexivity|]. intros j.
    destruct (j <? length l') eqn:L.
    + apply Nat.ltb_lt in L. replace (j =? length l') with false by (symmetry; apply Nat.eqb_neq; lia).
      now rewrite nth_error_app1.
    + apply Nat.ltb_ge in L. now apply nth_error_None.
  - split; [apply length_set_nth|]. intros j. rewrite nth_error_set_nth.
    destruct (j <? length l') eqn:L.
    + apply Nat.ltb_lt in L. rewrite (Nat.eqb_sym j i). destruct (i =? j) eqn:E2.
      * rewrite La. destruct (nth_error l' j) eqn:F; [reflexivity|]. apply nth_error_None in F. lia.
      * now rewrite nth_error_app1.
    + apply Nat.ltb_ge in L. destruct (i =? j); [|now apply nth_error_None].
      destruct (nth_error l' j) eqn:F; [|reflexivity].
      assert (j < length l') by (apply nth_error_Some; congruence). lia.
Qed.

Lemma merge_swap_remove_evens {A} ri ai (l : list A) x :
  Nat.odd (length l) = true -> 3 <= length l ->
  In x (evens (merge_swap_remove ri ai l)) -> In x (evens l).
Proof.
  intros O L3 H. unfold merge_swap_remove in H.
  assert (N1 : l <> []) by (intros ->; cbn in L3; lia).
  destruct (vsr_facts (ai * 2) l N1) as [L1 F1].
  set (l1 := vec_swap_remove (ai * 2) l) in *.
  assert (N2 : l1 <> []) by (intros E; rewrite E in L1; cbn in L1; lia).
  destruct (vsr_facts (ri * 2 + 1) l1 N2) as [L2 F2].
  destruct (in_evens_odds (vec_swap_remove (ri * 2 + 1) l1)) as [IE _].
  apply IE in H. destruct H as [j [Ej Hj]].
  rewrite F2 in Hj. destruct (j <? length l1 - 1) eqn:B; [|discriminate].
  apply Nat.ltb_lt in B.
  assert (j =? ri * 2 + 1 = false).
  { apply Nat.eqb_neq. intros ->. rewrite Nat.add_1_r, Nat.even_succ, <- Nat.negb_even, Nat.even_mul in Ej.
    cbn in Ej. rewrite orb_true_r in Ej. discriminate. }
  rewrite H in Hj. rewrite F1 in Hj.
  destruct (j <? length l - 1) eqn:B2; [|discriminate].
  destruct (in_evens_odds l) as [IE0 _]. apply IE0.
  destruct (j =? ai * 2).
  - exists (length l - 1). split; [|assumption].
    replace (length l) with (S (length l - 1)) in O by lia. now rewrite Nat.odd_succ in O.
  - exists j. split; assumption.
Qed.

Lemma merge_swap_remove_length {A} ri ai (l : list A) : 3 <= length l ->
  length (merge_swap_remove ri ai l) = length l - 2.
Proof.
  intros L3. unfold merge_swap_remove.
  assert (N1 : l <> []) by (intros ->; cbn in L3; lia).
  destruct (vsr_facts (ai * 2) l N1) as [L1 _].
  assert (N2 : vec_swap_remove (ai * 2) l <> []) by (intros E; rewrite E in L1; cbn in L1; lia).
  destruct (vsr_facts (ri * 2 + 1) _ N2) as [L2 _]. lia.
Qed.

Lemma find_index_lt {A} (f : A -> bool) l : forall i r, find_index f l i = Some r -> r < i + length l.
Proof.
  induction l as [|x t IH]; intros i r H; cbn [find_index] in H; [discriminate|].
  destruct (f x); [injection H as <-; cbn; lia|]. apply IH in H. cbn [length]. lia.
Qed.

Lemma find_pair_has_remove g m ri ai : find_pair_to_remove g m = Some (ri, ai) -> odds m <> [].
Proof.
  unfold find_pair_to_remove. intros H E. rewrite E in H.
  assert (I : forall i1 a1 rest i2, find_pair_inner g [] i1 a1 rest i2 = None).
  { intros i1 a1 rest. induction rest as [|a2 t IH]; intros i2; cbn [find_pair_inner]; [reflexivity|].
    destruct (pair_choice g i1 a1 i2 a2) as [[? ?]|]; cbn [find_index]; apply IH. }
  assert (O : forall l i1, find_pair_outer g [] l i1 = None).
  { induction l as [|a1 t IH]; intros i1; cbn [find_pair_outer]; [reflexivity|]. rewrite I. apply IH. }
  rewrite O in H. discriminate.
Qed.

Lemma non_trivial_loop_facts g fuel : forall m,
  Nat.odd (length m) = true ->
  Nat.odd (length (non_trivial_loop fuel g m)) = true /\
  forall x, In x (evens (non_trivial_loop fuel g m)) -> In x (evens m).
Proof.
  induction fuel as [|f IH]; intros m O; cbn [non_trivial_loop]; [auto|].
  destruct (find_pair_to_remove g m) as [[ri ai]|] eqn:E; [|auto].
  assert (L3 : 3 <= length m).
  { apply find_pair_has_remove in E. pose proof (length_evens_odds m).
    destruct (odds m) eqn:Eo; [congruence|]. cbn [length] in H.
    destruct m as [|a [|b [|c t]]]; cbn in *; try lia; discriminate. }
  assert (O' : Nat.odd (length (merge_swap_remove ri ai m)) = true).
  { rewrite merge_swap_remove_length by assumption.
    replace (length m) with (S (S (length m - 2))) in O by lia.
    now rewrite Nat.odd_succ_succ in O. }
  destruct (IH _ O') as [A B]. split; [assumption|].
  intros x Hx. apply B in Hx. eapply merge_swap_remove_evens; eassumption.
Qed.

(** * simplify keeps adds among the adds *)
Lemma simplify_evens (m : list (option nat)) x : Nat.odd (length m) = true ->
  In x (evens (simplify oeqb m)) -> In x (evens m).
Proof.
  intros O H.
  destruct (simplified_mapping_sound oeqb oeqb_spec m O) as [_ [L S]].
  destruct (in_evens_odds (simplify oeqb m)) as [IE _]. apply IE in H. destruct H as [j [Ej Hj]].
  destruct (nth_error (simplified_mapping oeqb m) j) as [i|] eqn:Ei.
  - destruct (S j i Ei) as [_ [P E]]. destruct (in_evens_odds m) as [IE0 _]. apply IE0.
    exists i. split; [congruence|]. now rewrite <- E.
  - apply nth_error_None in Ei. rewrite L in Ei.
    assert (j < length (simplify oeqb m)) by (apply nth_error_Some; congruence). lia.
Qed.

Lemma odd_even_length {A} (l : list A) : Nat.odd (length l) = true <-> Nat.even (length l) = false.
Proof. rewrite <- Nat.negb_even. destruct (Nat.even (length l)); cbn; split; congruence. Qed.

(** * merge_ref_targets with a normal base *)
Theorem merge_ref_targets_facts g (left right : target) k :
  Nat.odd (length left) = true -> Nat.odd (length right) = true ->
  let t := merge_ref_targets g left [Some k] right in
  Nat.odd (length t) = true /\
  forall x, In x (evens t) -> In x (evens left) \/ In x (evens right).
Proof.
  intros OL OR. cbv zeta. unfold merge_ref_targets.
  match goal with |- context [match ?X with Some _ => _ | None => _ end] => destruct X as [t|] eqn:E1 end.
  - cbn [trivial_merge] in E1.
    destruct (target_eqb left right && true); [injection E1 as E1; subst t; split; [assumption|intros; now left]|].
    destruct (target_eqb left [Some k]); [injection E1 as E1; subst t; split; [assumption|intros; now right]|].
    destruct (target_eqb right [Some k]); [injection E1 as E1; subst t; split; [assumption|intros; now left]|discriminate].
  - set (fl := flatten [left; [Some k]; right]).
    assert (Efl : fl = left ++ [Some k] ++ right).
    { unfold fl, flatten, flatten_rest, neg_inner, rotate_left1. cbn [app swap_pairs]. now rewrite app_nil_r. }
    assert (Ofl : Nat.odd (length fl) = true).
    { rewrite Efl, !app_length. cbn [length]. rewrite Nat.add_succ_r, Nat.odd_succ.
      rewrite Nat.even_add. apply odd_even_length in OL. apply odd_even_length in OR.
      change (0 + length right) with (length right). now rewrite OL, OR. }
    assert (Afl : forall x, In x (evens fl) -> In x (evens left) \/ In x (evens right)).
    { intros x. rewrite Efl. destruct (evens_odds_app left ([Some k] ++ right)) as [Ee _]. rewrite Ee.
      apply odd_even_length in OL. rewrite OL. cbn [app odds]. intros H. apply in_app_or in H. tauto. }
    set (m := simplify oeqb fl).
    assert (Om : Nat.odd (length m) = true).
    { destruct (simplify_arity oeqb oeqb_spec fl) as [A _]. apply odd_even_length. unfold m. rewrite A.
      now apply odd_even_length. }
    assert (Am : forall x, In x (evens m) -> In x (evens left) \/ In x (evens right)).
    { intros x H. apply Afl. now apply simplify_evens. }
    match goal with |- context [match ?X with Some _ => _ | None => _ end] =>
      change X with (trivial_merge oeqb true m); destruct (trivial_merge oeqb true m) as [v|] eqn:E2 end.
    + split; [reflexivity|]. intros x [<-|[]]. apply Am.
      apply (trivial_merge_spec oeqb oeqb_spec true m v Om) in E2. destruct E2 as [P _].
      now apply den_pos_in_evens.
    + change (simplify oeqb (flatten [left; [Some k]; right])) with m.
      destruct (non_trivial_loop_facts g (length m) m Om) as [A B]. split; [assumption|].
      intros x H. apply Am. now apply B.
Qed.
