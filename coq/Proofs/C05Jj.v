(** C05, part 3: the printers of one conflict hunk ([build_hunk_sides], the git-style
    printer, [materialize_jj_style_conflict] with its loop) produce a start line, a body
    that the hunk parser inverts, and an end marker. *)
From Coq Require Import Lia.
From Verif Require Import Base.Prelude Gen.Tables Model.Merge Model.Conflicts.
From Verif Require Import Proofs.C05Lines Proofs.C05Hunk.
Local Open Scope N_scope.

(** The line diff oracle returns a line-aligned partition of its two inputs. *)
Definition pieces_ok (a b : bytes) (ds : list dhunk) : Prop :=
  concat (map d_left ds) = a /\ concat (map d_right ds) = b /\
  Forall (fun d => lc (d_left d) /\ lc (d_right d) /\
                   (d_matching d = true -> d_left d = d_right d)) ds.

(** Labels: no LF, and the last byte is not CR. *)
Definition lab_ok (l : bytes) : Prop := ~ In LF l /\ last_opt l <> Some CR.

Lemma dom_all_concat_inv L ls :
  Forall lc ls -> dom_all L (concat ls) -> Forall (dom_all L) ls.
Proof.
  induction 1 as [|x ls Hx _ IH]; intros H; [constructor|].
  cbn [concat] in H. apply dom_all_app_inv in H; [|exact Hx]. destruct H as [H1 H2].
  constructor; [exact H1|apply IH; exact H2].
Qed.

Lemma pieces_dhunk_ok L a b ds :
  pieces_ok a b ds -> dom_all L a -> dom_all L b ->
  Forall (dhunk_ok L) ds /\ concat (map dadd ds) = b.
Proof.
  intros [Ha [Hb Hds]] Da Db.
  assert (Hl : Forall lc (map d_left ds)).
  { apply Forall_map. eapply Forall_impl; [|exact Hds]. intros d [H _]. exact H. }
  assert (Hr : Forall lc (map d_right ds)).
  { apply Forall_map. eapply Forall_impl; [|exact Hds]. intros d [_ [H _]]. exact H. }
  rewrite <- Ha in Da. rewrite <- Hb in Db.
  pose proof (dom_all_concat_inv L _ Hl Da) as Dl.
  pose proof (dom_all_concat_inv L _ Hr Db) as Dr.
  rewrite Forall_map in Dl, Dr. split.
  - rewrite Forall_forall in *. intros d Hd. destruct (Hds d Hd) as [H1 [H2 _]].
    repeat split; auto.
  - rewrite <- Hb. f_equal. apply map_ext_in. intros d Hd. unfold dadd.
    rewrite Forall_forall in Hds. destruct (Hds d Hd) as [_ [_ H3]].
    destruct (d_matching d); [apply H3; reflexivity|reflexivity].
Qed.

(* ------------------------------------------------------------------ labels *)

Lemma dec_aux_nonempty fuel : forall n acc, acc <> [] -> dec_aux fuel n acc <> [].
Proof.
  induction fuel as [|f IH]; intros n acc H; cbn [dec_aux]; [exact H|].
  destruct (n <? 10); [discriminate|]. apply IH. discriminate.
Qed.

Lemma dec_nonempty n : dec n <> [].
Proof.
  unfold dec. cbn [dec_aux]. destruct (N.of_nat n <? 10); [discriminate|].
  apply dec_aux_nonempty. discriminate.
Qed.

Lemma lab_ok_app_dec p n : ~ In LF p -> lab_ok (p ++ dec n).
Proof.
  intros Hp. split.
  - intros H. apply in_app_or in H. destruct H as [H|H]; [auto|exact (dec_no_lf n H)].
  - rewrite last_opt_app by apply dec_nonempty.
    pose proof (dec_digits n) as Hd. pose proof (dec_nonempty n) as Hne.
    destruct (last_opt_snoc_inv (dec n) Hne) as [a' [x E]]. rewrite E in *.
    rewrite last_opt_app_single. apply Forall_app in Hd. destruct Hd as [_ Hx].
    inversion Hx; subst. intros Heq. injection Heq as ->. unfold CR in *. lia.
Qed.

Lemma label_base_ok : lab_ok LABEL_BASE.
Proof. split; vm_compute; [intuition discriminate|discriminate]. Qed.
Lemma label_side_n_no_lf : ~ In LF LABEL_SIDE_N.
Proof. vm_compute. intuition discriminate. Qed.
Lemma label_base_n_no_lf : ~ In LF LABEL_BASE_N.
Proof. vm_compute. intuition discriminate. Qed.
Lemma label_conflict_prefix_no_lf : ~ In LF LABEL_CONFLICT_PREFIX.
Proof. vm_compute. intuition discriminate. Qed.
Lemma label_conflict_of_no_lf : ~ In LF LABEL_CONFLICT_OF.
Proof. vm_compute. intuition discriminate. Qed.
Lemma label_conflict_ends_no_lf : ~ In LF LABEL_CONFLICT_ENDS.
Proof. vm_compute. intuition discriminate. Qed.
Lemma label_diff_from_no_lf : ~ In LF LABEL_DIFF_FROM.
Proof. vm_compute. intuition discriminate. Qed.
Lemma label_diff_to_no_lf : ~ In LF LABEL_DIFF_TO.
Proof. vm_compute. intuition discriminate. Qed.
Lemma no_eol_comment_ok : lab_ok ([SP] ++ NO_ENDING_EOL_COMMENT).
Proof. split; vm_compute; [intuition discriminate|discriminate]. Qed.

Lemma not_in_app (x : N) a b : ~ In x a -> ~ In x b -> ~ In x (a ++ b).
Proof. intros Ha Hb H. apply in_app_or in H. tauto. Qed.

Lemma lab_ok_app a b : ~ In LF a -> lab_ok b -> b <> [] -> lab_ok (a ++ b).
Proof.
  intros Ha [Hb1 Hb2] Hne. split; [apply not_in_app; assumption|].
  rewrite last_opt_app by exact Hne. exact Hb2.
Qed.

Lemma info_ok i n :
  lab_ok (LABEL_CONFLICT_PREFIX ++ dec i ++ LABEL_CONFLICT_OF ++ dec n).
Proof.
  rewrite !app_assoc. apply lab_ok_app_dec.
  repeat apply not_in_app; auto using label_conflict_prefix_no_lf, label_conflict_of_no_lf, dec_no_lf.
Qed.

Lemma get_label_ok labels pos l :
  Forall lab_ok labels -> get_label labels pos = Some l -> lab_ok l.
Proof.
  intros H. unfold get_label. destruct (nth_error labels pos) as [x|] eqn:E; [|discriminate].
  apply nth_error_In in E. rewrite Forall_forall in H. specialize (H x E).
  destruct x; [discriminate|]. intros Heq. injection Heq as <-. exact H.
Qed.

Lemma build_sides_from_spec labels nb : forall h pos,
  Forall lab_ok labels ->
  map fst (build_sides_from labels nb pos h) = h /\
  Forall (fun t => lab_ok (snd t)) (build_sides_from labels nb pos h).
Proof.
  induction h as [|c h IH]; intros pos Hl; [split; [reflexivity|constructor]|].
  cbn [build_sides_from]. destruct (IH (Datatypes.S pos) Hl) as [IH1 IH2].
  split; [cbn [map fst]; rewrite IH1; reflexivity|].
  constructor; [|exact IH2]. cbn [snd].
  assert (Hlab : lab_ok (match get_label labels pos with
                         | Some l => l
                         | None =>
                             if Nat.even pos then LABEL_SIDE_N ++ dec (Datatypes.S (Nat.div2 pos))
                             else if Nat.eqb nb 1 then LABEL_BASE
                                  else LABEL_BASE_N ++ dec (Datatypes.S (Nat.div2 pos))
                         end)).
  { destruct (get_label labels pos) as [l|] eqn:E; [exact (get_label_ok labels pos l Hl E)|].
    destruct (Nat.even pos); [apply lab_ok_app_dec, label_side_n_no_lf|].
    destruct (Nat.eqb nb 1); [exact label_base_ok|apply lab_ok_app_dec, label_base_n_no_lf]. }
  destruct (ends_ok c); [exact Hlab|].
  apply lab_ok_app; [exact (proj1 Hlab)|exact no_eol_comment_ok|discriminate].
Qed.

Lemma build_sides_spec h labels :
  Forall lab_ok labels ->
  map fst (build_sides h labels) = h /\ Forall (fun t => lab_ok (snd t)) (build_sides h labels).
Proof. intros H. apply build_sides_from_spec. exact H. Qed.

(* ------------------------------------------------------------------ evens / odds *)

Lemma interleave_evens_odds (l : list (list N)) :
  interleave (Merge.evens l) (Merge.odds l) = l.
Proof.
  assert (H : forall n (l : list (list N)), (length l <= n)%nat ->
              interleave (Merge.evens l) (Merge.odds l) = l).
  { induction n as [|n IH]; intros [|a [|r t]] Hlen; cbn in *; try reflexivity; try lia.
    rewrite IH by lia. reflexivity. }
  apply (H (length l)). lia.
Qed.

Lemma t_evens_odds_map (l : list term) :
  map fst (t_evens l) = Merge.evens (map fst l) /\ map fst (t_odds l) = Merge.odds (map fst l).
Proof.
  assert (H : forall n (l : list term), (length l <= n)%nat ->
              map fst (t_evens l) = Merge.evens (map fst l) /\
              map fst (t_odds l) = Merge.odds (map fst l)).
  { induction n as [|n IH]; intros [|a [|r t]] Hlen; cbn in *; try (split; reflexivity); try lia.
    destruct (IH t) as [E1 E2]; [lia|]. rewrite E1, E2. split; reflexivity. }
  apply (H (length l)). lia.
Qed.

Lemma t_evens_odds_length (l : list term) :
  Nat.odd (length l) = true -> length (t_evens l) = Datatypes.S (length (t_odds l)).
Proof.
  assert (H : forall n (l : list term), (length l <= n)%nat -> Nat.odd (length l) = true ->
              length (t_evens l) = Datatypes.S (length (t_odds l))).
  { induction n as [|n IH]; intros [|a [|r t]] Hlen Hodd; cbn in *; try reflexivity; try lia;
      try discriminate.
    rewrite IH; [reflexivity|lia|exact Hodd]. }
  apply (H (length l)). lia.
Qed.

Lemma t_evens_odds_forall (P : term -> Prop) (l : list term) :
  Forall P l -> Forall P (t_evens l) /\ Forall P (t_odds l).
Proof.
  assert (H : forall n (l : list term), (length l <= n)%nat -> Forall P l ->
              Forall P (t_evens l) /\ Forall P (t_odds l)).
  { induction n as [|n IH]; intros [|a [|r t]] Hlen Hf; cbn in *;
      try (split; constructor; fail); try lia.
    - inversion Hf; subst. split; [constructor; [assumption|constructor]|constructor].
    - inversion Hf as [|? ? Ha Hf']; subst. inversion Hf' as [|? ? Hr Ht]; subst.
      destruct (IH t) as [E1 E2]; [lia|exact Ht|]. split; constructor; assumption. }
  apply (H (length l)). lia.
Qed.

(* ------------------------------------------------------------------ the jj-style loop *)

Section Loop.
  Variable D : bytes -> bytes -> list dhunk.
  Variable L : nat.
  Hypothesis HL : (2 <= L)%nat.
  Variable eol : bytes.
  Hypothesis Heol : valid_eol eol.
  Hypothesis D_ok : forall a b, lc a -> lc b -> pieces_ok a b (D a b).

  Definition term_ok (t : term) : Prop := lc (fst t) /\ dom_all L (fst t) /\ lab_ok (snd t).

  Definition sdiff (lft right : term) : sec :=
    SDiff (LABEL_DIFF_FROM ++ snd lft) (LABEL_DIFF_TO ++ snd right) (D (fst lft) (fst right)).
  Definition sadd (t : term) : sec := SAdd (snd t) (fst t).
  Definition srem (t : term) : sec := SRem (snd t) (fst t).

  Lemma write_side_sec t : write_side eol L t = print_sec L eol (sadd t).
  Proof. unfold write_side, sadd, print_sec, mline. rewrite app_assoc. reflexivity. Qed.
  Lemma write_base_sec t : write_base eol L t = print_sec L eol (srem t).
  Proof. unfold write_base, srem, print_sec, mline. rewrite app_assoc. reflexivity. Qed.
  Lemma write_diff_sec lft right :
    write_diff eol L lft right (D (fst lft) (fst right)) = print_sec L eol (sdiff lft right).
  Proof.
    unfold write_diff, sdiff, print_sec, mline. rewrite <- !app_assoc. reflexivity.
  Qed.

  Lemma sadd_ok t : term_ok t -> sec_ok L (sadd t).
  Proof. intros [H1 [H2 [H3 _]]]. cbn. auto. Qed.
  Lemma srem_ok t : term_ok t -> sec_ok L (srem t).
  Proof. intros [H1 [H2 [H3 _]]]. cbn. auto. Qed.
  Lemma sdiff_spec lft right :
    term_ok lft -> term_ok right ->
    sec_ok L (sdiff lft right) /\ sec_rems (sdiff lft right) = [fst lft]
    /\ sec_adds (sdiff lft right) = [fst right].
  Proof.
    intros [Hl1 [Hl2 [Hl3 _]]] [Hr1 [Hr2 [Hr3 _]]].
    pose proof (D_ok _ _ Hl1 Hr1) as Hp.
    destruct (pieces_dhunk_ok L _ _ _ Hp Hl2 Hr2) as [Hd Ha].
    destruct Hp as [Hpa _]. cbn [sdiff sec_ok sec_rems sec_adds].
    rewrite Hpa, Ha. repeat split; auto.
    - apply not_in_app; [exact label_diff_from_no_lf|exact Hl3].
    - apply not_in_app; [exact label_diff_to_no_lf|exact Hr3].
  Qed.

  (** The loop as a walk over the not yet printed adds, producing sections. *)
  Fixpoint jj_secs (st : style) (rest removes : list term) (sw : bool)
    : list sec * bool * list term :=
    match removes with
    | [] => ([], sw, rest)
    | lft :: rs =>
        let right1 := hd dterm rest in
        if negb (allows_diff st) then
          let '(o, sw', r') := jj_secs st (tl rest) rs sw in
          (srem lft :: sadd right1 :: o, sw', r')
        else
          let right2 := hd dterm (tl rest) in
          if negb sw && Nat.ltb (diff_size (D (fst lft) (fst right2)))
                                (diff_size (D (fst lft) (fst right1))) then
            let '(o, sw', r') := jj_secs st (tl (tl rest)) rs true in
            (sadd right1 :: sdiff lft right2 :: o, sw', r')
          else
            let '(o, sw', r') := jj_secs st (tl rest) rs sw in
            (sdiff lft right1 :: o, sw', r')
    end.

  Lemma nth_hd_skipn {A} (d : A) : forall n l, nth n l d = hd d (skipn n l).
  Proof. induction n as [|n IH]; intros [|x l]; cbn; auto. Qed.
  Lemma skipn_S_tl {A} : forall n (l : list A), skipn (Datatypes.S n) l = tl (skipn n l).
  Proof. induction n as [|n IH]; intros [|x l]; cbn; auto. apply (IH l). Qed.

  Lemma jj_loop_secs st adds : forall removes bi sw,
    jj_loop D eol L st adds removes bi sw
    = (print_secs L eol (fst (fst (jj_secs st (skipn (if sw then Datatypes.S bi else bi) adds) removes sw))),
       snd (fst (jj_secs st (skipn (if sw then Datatypes.S bi else bi) adds) removes sw))).
  Proof.
    induction removes as [|lft rs IH]; intros bi sw; [reflexivity|].
    cbn [jj_loop jj_secs].
    set (ai := if sw then Datatypes.S bi else bi).
    rewrite !nth_hd_skipn, skipn_S_tl.
    destruct (negb (allows_diff st)).
    - rewrite (IH (Datatypes.S bi) sw).
      replace (skipn (if sw then Datatypes.S (Datatypes.S bi) else Datatypes.S bi) adds)
        with (tl (skipn ai adds)) by (subst ai; destruct sw; symmetry; apply skipn_S_tl).
      destruct (jj_secs st (tl (skipn ai adds)) rs sw) as [[o sw'] r'].
      cbn [fst snd]. unfold print_secs. cbn [map concat].
      rewrite write_base_sec, write_side_sec. reflexivity.
    - destruct (negb sw && Nat.ltb _ _) eqn:Ec.
      + apply andb_prop in Ec. destruct Ec as [Esw _]. destruct sw; [discriminate|].
        rewrite (IH (Datatypes.S bi) true). subst ai.
        rewrite !skipn_S_tl.
        destruct (jj_secs st (tl (tl (skipn bi adds))) rs true) as [[o sw'] r'].
        cbn [fst snd]. unfold print_secs. cbn [map concat].
        rewrite write_side_sec, write_diff_sec. reflexivity.
      + rewrite (IH (Datatypes.S bi) sw).
        replace (skipn (if sw then Datatypes.S (Datatypes.S bi) else Datatypes.S bi) adds)
          with (tl (skipn ai adds)) by (subst ai; destruct sw; symmetry; apply skipn_S_tl).
        destruct (jj_secs st (tl (skipn ai adds)) rs sw) as [[o sw'] r'].
        cbn [fst snd]. unfold print_secs. cbn [map concat].
        rewrite write_diff_sec. reflexivity.
  Qed.

  Lemma jj_secs_spec st : forall (removes rest : list term) (sw : bool),
    Forall term_ok rest -> Forall term_ok removes ->
    length rest = (length removes + (if sw then 0 else 1))%nat ->
    let '(secs, sw', r') := jj_secs st rest removes sw in
    Forall (sec_ok L) secs /\ flat_map sec_rems secs = map fst removes /\
    (exists consumed, rest = consumed ++ r' /\ flat_map sec_adds secs = map fst consumed) /\
    length r' = (if sw' then 0 else 1)%nat /\ (sw = true -> sw' = true).
  Proof.
    induction removes as [|lft rs IH]; intros rest sw Hrest Hrem Hlen.
    - cbn [jj_secs]. repeat split; [constructor| |cbn in Hlen; exact Hlen|auto].
      exists []. split; reflexivity.
    - inversion Hrem as [|? ? Hlft Hrs]; subst. cbn [jj_secs].
      destruct rest as [|right1 rest1]; [cbn in Hlen; lia|].
      inversion Hrest as [|? ? Hr1 Hrest1]; subst. cbn [hd tl].
      destruct (negb (allows_diff st)).
      + specialize (IH rest1 sw Hrest1 Hrs). cbn [length] in Hlen.
        destruct (jj_secs st rest1 rs sw) as [[o sw'] r'].
        destruct IH as [I1 [I2 [[cons [I3 I4]] [I5 I6]]]]; [lia|].
        split; [|split; [|split; [|split; [exact I5|exact I6]]]].
        * constructor; [apply srem_ok; exact Hlft|]. constructor; [apply sadd_ok; exact Hr1|exact I1].
        * cbn [flat_map srem sadd sec_rems app map]. rewrite I2. reflexivity.
        * exists (right1 :: cons). split; [rewrite I3; reflexivity|].
          cbn [flat_map srem sadd sec_adds app map]. rewrite I4. reflexivity.
      + destruct (negb sw && Nat.ltb _ _) eqn:Ec.
        * apply andb_prop in Ec. destruct Ec as [Esw _]. destruct sw; [discriminate|].
          cbn [length] in Hlen.
          destruct rest1 as [|right2 rest2]; [cbn in Hlen; lia|].
          inversion Hrest1 as [|? ? Hr2 Hrest2]; subst. cbn [hd tl].
          specialize (IH rest2 true Hrest2 Hrs). cbn [length] in Hlen.
          destruct (jj_secs st rest2 rs true) as [[o sw'] r'].
          destruct IH as [I1 [I2 [[cons [I3 I4]] [I5 I6]]]]; [lia|].
          destruct (sdiff_spec lft right2 Hlft Hr2) as [S1 [S2 S3]].
          split; [|split; [|split; [|split; [exact I5|discriminate]]]].
          -- constructor; [apply sadd_ok; exact Hr1|]. constructor; [exact S1|exact I1].
          -- cbn [flat_map sadd sec_rems app]. rewrite S2, I2. reflexivity.
          -- exists (right1 :: right2 :: cons). split; [rewrite I3; reflexivity|].
             cbn [flat_map sadd sec_adds app]. rewrite S3, I4. reflexivity.
        * specialize (IH rest1 sw Hrest1 Hrs). cbn [length] in Hlen.
          destruct (jj_secs st rest1 rs sw) as [[o sw'] r'].
          destruct IH as [I1 [I2 [[cons [I3 I4]] [I5 I6]]]]; [lia|].
          destruct (sdiff_spec lft right1 Hlft Hr1) as [S1 [S2 S3]].
          split; [|split; [|split; [|split; [exact I5|exact I6]]]].
          -- constructor; [exact S1|exact I1].
          -- cbn [flat_map app]. rewrite S2, I2. reflexivity.
          -- exists (right1 :: cons). split; [rewrite I3; reflexivity|].
             cbn [flat_map app]. rewrite S3, I4. reflexivity.
  Qed.

  (** [materialize_jj_style_conflict]: start line, sections, end marker; the sections carry
      exactly the adds and the removes of the hunk, in order. *)
  Lemma jj_conflict_shape st info sides :
    Nat.odd (length sides) = true -> Forall term_ok sides ->
    exists secs,
      jj_conflict D eol L st info sides
      = mline L eol KStart info ++ print_secs L eol secs
        ++ write_marker KEnd L (info ++ LABEL_CONFLICT_ENDS)
      /\ Forall (sec_ok L) secs
      /\ flat_map sec_adds secs = map fst (t_evens sides)
      /\ flat_map sec_rems secs = map fst (t_odds sides).
  Proof.
    intros Hodd Hok. unfold jj_conflict.
    pose proof (t_evens_odds_length sides Hodd) as Hlen.
    destruct (t_evens_odds_forall term_ok sides Hok) as [Hadds Hrems].
    set (adds := t_evens sides) in *. set (removes := t_odds sides) in *.
    set (fs := match st with StDiff => false | _ => true end).
    rewrite (jj_loop_secs st adds removes O fs).
    assert (Hsk : skipn (if fs then 1%nat else O) adds = if fs then tl adds else adds)
      by (destruct fs; destruct adds; reflexivity).
    rewrite Hsk.
    assert (Hrest_ok : Forall term_ok (if fs then tl adds else adds)).
    { destruct fs; [|exact Hadds]. destruct adds; [constructor|]. inversion Hadds; assumption. }
    assert (Hrest_len : length (if fs then tl adds else adds)
                        = (length removes + (if fs then 0 else 1))%nat).
    { destruct fs; [destruct adds; cbn in *; lia|lia]. }
    pose proof (jj_secs_spec st removes _ fs Hrest_ok Hrems Hrest_len) as Hspec.
    destruct (jj_secs st (if fs then tl adds else adds) removes fs) as [[secs sw'] r'].
    destruct Hspec as [I1 [I2 [[cons [I3 I4]] [I5 I6]]]]. cbn [fst snd].
    destruct adds as [|a0 adds']; [cbn in Hlen; lia|].
    destruct fs.
    - (* first side printed as a snapshot *)
      cbn [nth]. rewrite (I6 eq_refl) in *. destruct r'; [|cbn in I5; lia]. rewrite app_nil_r in I3.
      cbn [tl] in I3. subst cons.
      exists (sadd a0 :: secs). split; [|split; [|split]].
      + rewrite write_side_sec. unfold print_secs, mline. cbn [map concat].
        rewrite <- !app_assoc. reflexivity.
      + constructor; [apply sadd_ok; inversion Hadds; assumption|exact I1].
      + cbn [flat_map sadd sec_adds app map fst]. rewrite I4. reflexivity.
      + cbn [flat_map sadd sec_rems app]. exact I2.
    - destruct sw'.
      + destruct r'; [|cbn in I5; lia]. rewrite app_nil_r in I3. subst cons.
        exists secs. split; [|split; [|split]]; auto.
        unfold mline. rewrite <- !app_assoc. reflexivity.
      + destruct r' as [|t [|? ?]]; cbn in I5; try lia.
        assert (Hnth : nth (length (a0 :: adds') - 1) (a0 :: adds') dterm = t).
        { rewrite I3, app_length. cbn [length].
          replace (length cons + 1 - 1)%nat with (length cons) by lia.
          rewrite app_nth2 by lia. rewrite Nat.sub_diag. reflexivity. }
        rewrite Hnth.
        exists (secs ++ [sadd t]). split; [|split; [|split]].
        * rewrite write_side_sec. unfold print_secs, mline.
          rewrite map_app, concat_app. cbn [map concat].
          rewrite !app_nil_r, <- !app_assoc. reflexivity.
        * apply Forall_app. split; [exact I1|]. constructor; [|constructor].
          apply sadd_ok. rewrite I3 in Hadds. apply Forall_app in Hadds. destruct Hadds as [_ Ht].
          inversion Ht; assumption.
        * rewrite flat_map_app. cbn [flat_map sadd sec_adds app]. rewrite I4, I3, map_app.
          reflexivity.
        * rewrite flat_map_app. cbn [flat_map sadd sec_rems app]. rewrite app_nil_r. exact I2.
  Qed.
End Loop.
