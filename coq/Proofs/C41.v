(** C41 — proofs about the undo/redo stacks, restore and revert of Model/C41.v. *)
From Coq Require Import Lia.
From Verif Require Import Base.Prelude Model.Merge Gen.Tables Model.C41.
Local Open Scope string_scope.

(** * Strings *)
Lemma strip_prefix_app p s : strip_prefix p (p ++ s) = Some s.
Proof.
  induction p as [|a p IH]; cbn; [reflexivity|]. now rewrite Ascii.eqb_refl.
Qed.

Lemma parse_pos_str p : parse_pos (pos_str p) = Some p.
Proof. induction p as [q IH|q IH|]; cbn; [rewrite IH|rewrite IH|]; reflexivity. Qed.

Lemma parse_idstr n : parse_id (idstr n) = Some n.
Proof. destruct n as [|p]; cbn; [reflexivity|]. now rewrite parse_pos_str. Qed.

(** The four description prefixes scraped from the sources do not shadow each other. *)
Lemma undo_not_redo s : strip_prefix REDO_OP_DESC_PREFIX (UNDO_OP_DESC_PREFIX ++ s) = None.
Proof. reflexivity. Qed.
Lemma redo_not_undo s : strip_prefix UNDO_OP_DESC_PREFIX (REDO_OP_DESC_PREFIX ++ s) = None.
Proof. reflexivity. Qed.
Lemma restore_not_undo s : strip_prefix UNDO_OP_DESC_PREFIX (RESTORE_OP_DESC_PREFIX ++ s) = None.
Proof. reflexivity. Qed.
Lemma restore_not_redo s : strip_prefix REDO_OP_DESC_PREFIX (RESTORE_OP_DESC_PREFIX ++ s) = None.
Proof. reflexivity. Qed.
Lemma revert_not_undo s : strip_prefix UNDO_OP_DESC_PREFIX (REVERT_OP_DESC_PREFIX ++ s) = None.
Proof. reflexivity. Qed.
Lemma revert_not_redo s : strip_prefix REDO_OP_DESC_PREFIX (REVERT_OP_DESC_PREFIX ++ s) = None.
Proof. reflexivity. Qed.

(** * Views *)
(** Agreement on the five portions `undo`/`restore` are about. *)
Definition same5 (a b : view) : Prop :=
  v_heads a = v_heads b /\ v_bookmarks a = v_bookmarks b /\ v_tags a = v_tags b
  /\ v_wc a = v_wc b /\ v_remotes a = v_remotes b.

Lemma same5_refl a : same5 a a.
Proof. repeat split. Qed.

Lemma same5_trans a b c : same5 a b -> same5 b c -> same5 a c.
Proof. unfold same5. intuition congruence. Qed.

Lemma same5_sym a b : same5 a b -> same5 b a.
Proof. unfold same5. intuition congruence. Qed.

Lemma restore_full r cur : same5 (restore r cur true true) r.
Proof. repeat split. Qed.

Lemma restore_git r cur wr wm :
  v_git_refs (restore r cur wr wm) = v_git_refs cur
  /\ v_git_heads (restore r cur wr wm) = v_git_heads cur.
Proof. split; reflexivity. Qed.

Lemma list_eqb_spec {A} (eqb : A -> A -> bool) :
  (forall x y, eqb x y = true <-> x = y) -> forall l1 l2, list_eqb eqb l1 l2 = true <-> l1 = l2.
Proof.
  intros H. induction l1 as [|a l1 IH]; destruct l2 as [|b l2]; cbn; try (split; congruence).
  rewrite andb_true_iff, H, IH. split; [intros [-> ->]; reflexivity|intros E; inversion E; auto].
Qed.

Lemma listN_eqb_spec l1 l2 : listN_eqb l1 l2 = true <-> l1 = l2.
Proof. apply list_eqb_spec. apply N.eqb_eq. Qed.

Lemma pair_eqb_spec {A B} (ea : A -> A -> bool) (eb : B -> B -> bool) :
  (forall x y, ea x y = true <-> x = y) -> (forall x y, eb x y = true <-> x = y) ->
  forall p q, pair_eqb ea eb p q = true <-> p = q.
Proof.
  intros Ha Hb [a b] [c d]. unfold pair_eqb. cbn. rewrite andb_true_iff, Ha, Hb.
  split; [intros [-> ->]; reflexivity|intros E; inversion E; auto].
Qed.

Lemma refs_eqb_spec l1 l2 : refs_eqb l1 l2 = true <-> l1 = l2.
Proof. apply list_eqb_spec. apply pair_eqb_spec; [apply N.eqb_eq|apply listN_eqb_spec]. Qed.

Lemma wc_eqb_spec l1 l2 : wc_eqb l1 l2 = true <-> l1 = l2.
Proof. apply list_eqb_spec. apply pair_eqb_spec; apply N.eqb_eq. Qed.

Lemma veq5_spec a b : veq5 a b = true <-> same5 a b.
Proof.
  unfold veq5, same5.
  rewrite !andb_true_iff, !listN_eqb_spec, !refs_eqb_spec, wc_eqb_spec. tauto.
Qed.

Lemma view_eqb_spec a b : view_eqb a b = true <-> a = b.
Proof.
  unfold view_eqb. rewrite !andb_true_iff, veq5_spec, !listN_eqb_spec. split.
  - intros [[(H1 & H2 & H3 & H4 & H5) H6] H7]. destruct a, b; cbn in *. congruence.
  - intros ->. repeat split.
Qed.

(** * The log *)
Lemma get_app_l log ext i o : get log i = Some o -> get (log ++ ext) i = Some o.
Proof.
  unfold get. intros H. rewrite nth_error_app1; [assumption|].
  apply nth_error_Some. congruence.
Qed.

Lemma get_last log o : get (log ++ [o]) (N.of_nat (length log)) = Some o.
Proof.
  unfold get. rewrite Nat2N.id, nth_error_app2 by lia. now rewrite Nat.sub_diag.
Qed.

Lemma rev_app_last {A} (l : list A) x : rev (l ++ [x]) = x :: rev l.
Proof. now rewrite rev_app_distr. Qed.

Lemma stack_target_found prefix log o t x :
  stack_target prefix log o = Some (Some (t, x)) -> get log t = Some x.
Proof.
  unfold stack_target. destruct (strip_prefix prefix (o_desc o)); [|discriminate].
  destruct (parse_id s); [|discriminate]. destruct (get log n) eqn:E; [|discriminate].
  intros H. inversion H; subst. assumption.
Qed.

(** An operation pointing (by an undo or redo description) at operation [t] carries [t]'s
    five portions. *)
Definition points_ok (log : list op) (o : op) : Prop :=
  forall prefix rest,
    (prefix = UNDO_OP_DESC_PREFIX \/ prefix = REDO_OP_DESC_PREFIX) ->
    strip_prefix prefix (o_desc o) = Some rest ->
    exists t top, parse_id rest = Some t /\ get log t = Some top /\ same5 (o_view o) (o_view top).

Definition log_inv (log : list op) : Prop := forall i o, get log i = Some o -> points_ok log o.

Lemma points_ok_app log ext o : points_ok log o -> points_ok (log ++ ext) o.
Proof.
  intros H prefix rest Hp Hs. destruct (H prefix rest Hp Hs) as (t & top & H1 & H2 & H3).
  exists t, top. split; [assumption|]. split; [now apply get_app_l|assumption].
Qed.

Lemma log_inv_app log o : log_inv log -> points_ok (log ++ [o]) o -> log_inv (log ++ [o]).
Proof.
  intros Hi Ho i x Hx. unfold get in Hx.
  destruct (Nat.lt_ge_cases (N.to_nat i) (length log)) as [Hlt|Hge].
  - rewrite nth_error_app1 in Hx by assumption. apply points_ok_app. eapply Hi. exact Hx.
  - rewrite nth_error_app2 in Hx by assumption.
    destruct (N.to_nat i - length log)%nat as [|k]; cbn in Hx.
    + inversion Hx; subst. assumption.
    + destruct k; discriminate.
Qed.

(** What [cmd_undo] / [cmd_redo] return when they succeed. *)
Lemma cmd_undo_new log hid h ps d p e :
  cmd_undo log hid h = RNew ps d p e ->
  exists pid pop, get log pid = Some pop /\ ps = [hid]
    /\ d = UNDO_OP_DESC_PREFIX ++ idstr pid
    /\ p = total (restore (o_view pop) (o_view h) true true) /\ e = true.
Proof.
  unfold cmd_undo.
  destruct (match stack_target UNDO_OP_DESC_PREFIX log h with
            | Some r => option_map snd r | None => Some h end) as [target|]; [|discriminate].
  destruct (o_parents target) as [|p0 [|? ?]]; try discriminate.
  destruct (get log p0) as [pop0|] eqn:Eg; [|discriminate].
  destruct (stack_target UNDO_OP_DESC_PREFIX log pop0) as [[[t x]|]|] eqn:Est; try discriminate.
  - intros H; inversion H; subst. exists t, x. split; [|auto]. eapply stack_target_found; eauto.
  - intros H; inversion H; subst. exists p0, pop0. auto.
Qed.

Lemma cmd_redo_new log hid h ps d p e :
  cmd_redo log hid h = RNew ps d p e ->
  exists pid pop, get log pid = Some pop /\ ps = [hid]
    /\ d = REDO_OP_DESC_PREFIX ++ idstr pid
    /\ p = total (restore (o_view pop) (o_view h) true true) /\ e = true.
Proof.
  unfold cmd_redo.
  destruct (match stack_target REDO_OP_DESC_PREFIX log h with
            | Some r => option_map snd r | None => Some h end) as [target|]; [|discriminate].
  destruct (strip_prefix UNDO_OP_DESC_PREFIX (o_desc target)); [|discriminate].
  destruct (o_parents target) as [|p0 [|? ?]]; try discriminate.
  destruct (get log p0) as [pop0|] eqn:Eg; [|discriminate].
  destruct (stack_target REDO_OP_DESC_PREFIX log pop0) as [[[t x]|]|] eqn:Est; try discriminate.
  - intros H; inversion H; subst. exists t, x. split; [|auto]. eapply stack_target_found; eauto.
  - intros H; inversion H; subst. exists p0, pop0. auto.
Qed.

Lemma to_view_total v : to_view (total v) = Some v.
Proof. destruct v; reflexivity. Qed.

(** The invariant is kept by appending what undo / redo / restore produce, and by any
    operation whose description is neither an undo nor a redo description. *)
Lemma points_ok_stack log prefix pid pop v ps :
  (prefix = UNDO_OP_DESC_PREFIX \/ prefix = REDO_OP_DESC_PREFIX) ->
  get log pid = Some pop -> same5 v (o_view pop) ->
  points_ok (log ++ [mk_op ps (prefix ++ idstr pid) v]) (mk_op ps (prefix ++ idstr pid) v).
Proof.
  intros Hp Hg Hs prefix' rest Hp' Hstrip. cbn in Hstrip.
  assert (prefix' = prefix).
  { destruct Hp as [->| ->], Hp' as [->| ->]; try reflexivity.
    - now rewrite undo_not_redo in Hstrip.
    - now rewrite redo_not_undo in Hstrip. }
  subst prefix'. rewrite strip_prefix_app in Hstrip. inversion Hstrip; subst rest.
  exists pid, pop. split; [apply parse_idstr|]. split; [now apply get_app_l|assumption].
Qed.

Lemma points_ok_normal log o :
  strip_prefix UNDO_OP_DESC_PREFIX (o_desc o) = None ->
  strip_prefix REDO_OP_DESC_PREFIX (o_desc o) = None -> points_ok log o.
Proof. intros H1 H2 prefix rest [->| ->] H; congruence. Qed.

(** * Undo followed by redo *)
Lemma redo_after_undo l0 h ps d v :
  let log := (l0 ++ [h])%list in
  let hid := N.of_nat (length l0) in
  log_inv log ->
  cmd_undo log hid h = RNew ps d (total v) true ->
  exists d' v', cmd_redo (log ++ [mk_op ps d v]) (hid + 1) (mk_op ps d v)
                = RNew [(hid + 1)%N] d' (total v') true
                /\ same5 v' (o_view h).
Proof.
  intros log hid Hinv Hu.
  destruct (cmd_undo_new _ _ _ _ _ _ _ Hu) as (pid & pop & Hg & -> & -> & Hv & _).
  set (u := mk_op [hid] (UNDO_OP_DESC_PREFIX ++ idstr pid) v).
  assert (Hh : get log hid = Some h) by apply get_last.
  assert (Hgh : get (log ++ [u]) hid = Some h) by (now apply get_app_l).
  unfold cmd_redo.
  assert (stack_target REDO_OP_DESC_PREFIX (log ++ [u]) u = None) as ->.
  { unfold stack_target. cbn [o_desc u]. now rewrite undo_not_redo. }
  cbn [o_desc u o_parents u]. rewrite strip_prefix_app. rewrite Hgh.
  destruct (stack_target REDO_OP_DESC_PREFIX (log ++ [u]) h) as [[[t x]|]|] eqn:Est.
  - (* the undone operation was itself a redo: restore what it pointed at *)
    exists (REDO_OP_DESC_PREFIX ++ idstr t), (restore (o_view x) (o_view u) true true).
    split; [reflexivity|].
    unfold stack_target in Est.
    destruct (strip_prefix REDO_OP_DESC_PREFIX (o_desc h)) as [rest|] eqn:Es; [|discriminate].
    destruct (Hinv hid h Hh REDO_OP_DESC_PREFIX rest (or_intror eq_refl) Es)
      as (t' & top & Hp & Hgt & Hs5).
    rewrite Hp in Est. rewrite (get_app_l log [u] t' top Hgt) in Est. inversion Est; subst t x.
    eapply same5_trans; [apply restore_full|]. now apply same5_sym.
  - exfalso. (* a redo description always points at an existing operation *)
    unfold stack_target in Est.
    destruct (strip_prefix REDO_OP_DESC_PREFIX (o_desc h)) as [rest|] eqn:Es; [|discriminate].
    destruct (Hinv hid h Hh REDO_OP_DESC_PREFIX rest (or_intror eq_refl) Es)
      as (t' & top & Hp & Hgt & Hs5).
    rewrite Hp in Est. rewrite (get_app_l log [u] t' top Hgt) in Est. discriminate.
  - exists (REDO_OP_DESC_PREFIX ++ idstr hid), (restore (o_view h) (o_view u) true true).
    split; [reflexivity|apply restore_full].
Qed.

(** * Restore and revert *)
Lemma cmd_restore_spec log hid h t wr wm top :
  get log t = Some top ->
  cmd_restore log hid h t wr wm
  = RNew [hid] (RESTORE_OP_DESC_PREFIX ++ idstr t) (total (restore (o_view top) (o_view h) wr wm)) true.
Proof. unfold cmd_restore. now intros ->. Qed.

Lemma merge3_self_base {A} (eqb : A -> A -> bool) (s o : A) :
  eqb s s = true -> merge3 eqb s s o = Some o.
Proof. unfold merge3. now intros ->. Qed.

Lemma listN_eqb_refl l : listN_eqb l l = true.
Proof. now apply listN_eqb_spec. Qed.

(** * A linear history of ordinary operations *)
Lemma iter_snoc c : forall k log,
  iter (S k) c log = match iter k c log with Some l => exec l c | None => None end.
Proof.
  induction k as [|k IH]; intros log.
  - cbn. destruct (exec log c); reflexivity.
  - change (iter (S (S k)) c log) with (match exec log c with Some l => iter (S k) c l | None => None end).
    change (iter (S k) c log) with (match exec log c with Some l => iter k c l | None => None end).
    destruct (exec log c) as [l|]; [apply IH|reflexivity].
Qed.

Section Linear.
  Variable base : list op.
  Variable n : nat.
  Hypothesis Hlen : length base = S n.
  Hypothesis Hnormal : forall i o, nth_error base i = Some o ->
    strip_prefix UNDO_OP_DESC_PREFIX (o_desc o) = None
    /\ strip_prefix REDO_OP_DESC_PREFIX (o_desc o) = None.
  Hypothesis Hparents : forall i o, nth_error base i = Some o ->
    o_parents o = match i with O => [] | S j => [N.of_nat j] end.
  Hypothesis Hdistinct : forall i a b, nth_error base i = Some a -> nth_error base (S i) = Some b ->
    ~ same5 (o_view a) (o_view b).

  Definition dview : view := mk_view [] [] [] [] [] [] [].
  Definition bop (i : nat) : op := nth i base (mk_op [] EmptyString dview).
  Definition bview (i : nat) : view := o_view (bop i).
  Definition gitv : view := bview n.

  Lemma bop_nth i : (i <= n)%nat -> nth_error base i = Some (bop i).
  Proof. intros H. apply nth_error_nth'. lia. Qed.

  (** The i-th undo operation (i >= 1) and the j-th redo operation after k undos. *)
  Definition uop (i : nat) : op :=
    mk_op [N.of_nat (n + i - 1)] (UNDO_OP_DESC_PREFIX ++ idstr (N.of_nat (n - i)))
          (restore (bview (n - i)) gitv true true).
  Definition ulog (k : nat) : list op := (base ++ map uop (seq 1 k))%list.

  Definition rop (k j : nat) : op :=
    mk_op [N.of_nat (n + k + j - 1)] (REDO_OP_DESC_PREFIX ++ idstr (N.of_nat (n + k - j)))
          (restore (bview (n - k + j)) gitv true true).
  Definition rlog (k j : nat) : list op := (ulog k ++ map (rop k) (seq 1 j))%list.

  Lemma ulog_S k : ulog (S k) = (ulog k ++ [uop (S k)])%list.
  Proof. unfold ulog. rewrite seq_S, map_app, app_assoc. reflexivity. Qed.

  Lemma rlog_S k j : rlog k (S j) = (rlog k j ++ [rop k (S j)])%list.
  Proof. unfold rlog. rewrite seq_S, map_app, app_assoc. reflexivity. Qed.

  Lemma ulog_length k : length (ulog k) = (S n + k)%nat.
  Proof. unfold ulog. now rewrite app_length, map_length, seq_length, Hlen. Qed.

  Lemma rlog_length k j : length (rlog k j) = (S n + k + j)%nat.
  Proof. unfold rlog. now rewrite app_length, map_length, seq_length, ulog_length. Qed.

  Lemma get_base i ext : (i <= n)%nat -> get (base ++ ext) (N.of_nat i) = Some (bop i).
  Proof. intros H. apply get_app_l. unfold get. rewrite Nat2N.id. now apply bop_nth. Qed.

  Lemma get_u k i ext : (1 <= i <= k)%nat ->
    get (ulog k ++ ext) (N.of_nat (n + i)) = Some (uop i).
  Proof.
    intros H. apply get_app_l. unfold get, ulog. rewrite Nat2N.id.
    rewrite nth_error_app2 by lia. rewrite Hlen.
    replace (n + i - S n)%nat with (i - 1)%nat by lia.
    rewrite nth_error_map. rewrite nth_error_nth' with (d := O) by (rewrite seq_length; lia).
    rewrite seq_nth by lia. cbn. f_equal. f_equal. lia.
  Qed.

  (** The current operation of [ulog k]. *)
  Definition uhead (k : nat) : op := match k with O => bop n | S _ => uop k end.

  Lemma ulog_rev k : exists tl, rev (ulog k) = uhead k :: tl.
  Proof.
    destruct k as [|k].
    - unfold ulog. cbn [seq map]. rewrite app_nil_r. cbn [uhead].
      assert (base = firstn n base ++ [bop n])%list as ->.
      { rewrite <- (firstn_skipn n base) at 1. f_equal.
        assert (Hs : length (skipn n base) = 1%nat) by (rewrite skipn_length; lia).
        destruct (skipn n base) as [|x [|? ?]] eqn:E; try discriminate.
        f_equal. unfold bop. rewrite <- (firstn_skipn n base) at 1.
        rewrite app_nth2; rewrite firstn_length_le by lia; [|lia].
        rewrite Nat.sub_diag, E. reflexivity. }
      rewrite rev_app_distr. cbn. eauto.
    - rewrite ulog_S, rev_app_distr. cbn. eauto.
  Qed.

  Lemma uhead_view_git k : v_git_refs (o_view (uhead k)) = v_git_refs gitv
                           /\ v_git_heads (o_view (uhead k)) = v_git_heads gitv.
  Proof. destruct k; split; reflexivity. Qed.

  Lemma uhead_view5 k : (k <= n)%nat -> same5 (o_view (uhead k)) (bview (n - k)).
  Proof.
    destruct k; intros H; cbn [uhead].
    - rewrite Nat.sub_0_r. apply same5_refl.
    - apply restore_full.
  Qed.

  Lemma distinct_views i : (S i <= n)%nat -> ~ same5 (bview i) (bview (S i)).
  Proof. intros H. apply (Hdistinct i); apply bop_nth; lia. Qed.

  Lemma view_neq_of_5 v cur : ~ same5 v cur -> view_eqb v cur = false.
  Proof.
    intros H. destruct (view_eqb v cur) eqn:E; [|reflexivity].
    apply view_eqb_spec in E. subst. exfalso. apply H, same5_refl.
  Qed.

  (** One more undo on top of [k < n] undos. *)
  Lemma undo_step k : (k < n)%nat -> exec (ulog k) CUndo = Some (ulog (S k)).
  Proof.
    intros Hk. unfold exec, run_cmd. destruct (ulog_rev k) as (tl & Hrev). rewrite Hrev.
    rewrite ulog_length.
    replace (N.of_nat (S n + k - 1)) with (N.of_nat (n + k)) by (f_equal; lia).
    assert (Htarget : cmd_undo (ulog k) (N.of_nat (n + k)) (uhead k)
            = RNew [N.of_nat (n + k)] (UNDO_OP_DESC_PREFIX ++ idstr (N.of_nat (n - S k)))
                   (total (restore (bview (n - S k)) (o_view (uhead k)) true true)) true).
    { unfold cmd_undo.
      assert (Hpar : forall i, (1 <= i <= n)%nat -> o_parents (bop i) = [N.of_nat (i - 1)]).
      { intros i Hi. rewrite (Hparents i (bop i)) by (apply bop_nth; lia).
        destruct i; [lia|]. f_equal. f_equal. lia. }
      assert (Hst : forall i ext, (i <= n)%nat ->
                stack_target UNDO_OP_DESC_PREFIX (base ++ ext) (bop i) = None).
      { intros i ext Hi. unfold stack_target.
        now rewrite (proj1 (Hnormal i (bop i) (bop_nth i Hi))). }
      destruct k as [|k]; cbn [uhead].
      - unfold ulog at 1. rewrite Hst by lia. rewrite Hpar by lia.
        unfold ulog. rewrite get_base by lia. rewrite Hst by lia.
        reflexivity.
      - assert (stack_target UNDO_OP_DESC_PREFIX (ulog (S k)) (uop (S k))
                = Some (Some (N.of_nat (n - S k), bop (n - S k)))) as ->.
        { unfold stack_target. cbn [o_desc uop]. rewrite strip_prefix_app, parse_idstr.
          unfold ulog. now rewrite get_base by lia. }
        cbn [option_map snd]. rewrite Hpar by lia.
        unfold ulog. rewrite get_base by lia. rewrite Hst by lia.
        replace (n - S k - 1)%nat with (n - S (S k))%nat by lia. reflexivity. }
    rewrite Htarget, to_view_total.
    assert (Hne : view_eqb (restore (bview (n - S k)) (o_view (uhead k)) true true)
                           (o_view (uhead k)) = false).
    { apply view_neq_of_5. intros H.
      apply (distinct_views (n - S k)); [lia|].
      eapply same5_trans; [apply same5_sym, restore_full|].
      eapply same5_trans; [exact H|].
      replace (S (n - S k)) with (n - k)%nat by lia. apply uhead_view5. lia. }
    rewrite Hne. cbn [andb]. f_equal. rewrite ulog_S. f_equal. f_equal. unfold uop.
    f_equal.
    - f_equal. f_equal. lia.
    - destruct (uhead_view_git k) as [H1 H2]. unfold restore. cbn. now rewrite H1, H2.
  Qed.

  Theorem undo_n k : (k <= n)%nat -> iter k CUndo base = Some (ulog k).
  Proof.
    induction k as [|k IH]; intros Hk.
    - cbn. unfold ulog. cbn. now rewrite app_nil_r.
    - rewrite iter_snoc, IH by lia. apply undo_step. lia.
  Qed.

  Lemma undo_root_aux k : k = n -> run_cmd (ulog k) CUndo = Some (RErr 1).
  Proof.
    intros Hk. unfold run_cmd. destruct (ulog_rev k) as (tl & ->). f_equal. unfold cmd_undo.
    assert (H0 : o_parents (bop 0) = []) by (apply (Hparents 0); apply bop_nth; lia).
    destruct k as [|m]; cbn [uhead].
    - rewrite <- Hk. unfold stack_target.
      rewrite (proj1 (Hnormal 0 (bop 0) (bop_nth 0 ltac:(lia)))). now rewrite H0.
    - assert (stack_target UNDO_OP_DESC_PREFIX (ulog (S m)) (uop (S m))
              = Some (Some (N.of_nat 0, bop 0))) as ->.
      { unfold stack_target. cbn [o_desc uop]. rewrite strip_prefix_app.
        replace (n - S m)%nat with O by lia. rewrite parse_idstr.
        unfold ulog. now rewrite get_base by lia. }
      cbn [option_map snd]. now rewrite H0.
  Qed.

  (** One undo too many: the root operation cannot be undone. *)
  Theorem undo_root : run_cmd (ulog n) CUndo = Some (RErr 1).
  Proof. now apply undo_root_aux. Qed.

  (** ** Redo *)
  Lemma restore_ext a a' cur cur' :
    same5 a a' -> v_git_refs cur = v_git_refs cur' -> v_git_heads cur = v_git_heads cur' ->
    restore a cur true true = restore a' cur' true true.
  Proof. intros (H1 & H2 & H3 & H4 & H5) H6 H7. unfold restore. congruence. Qed.

  Lemma get_uhead k i ext : (i <= k)%nat ->
    get (ulog k ++ ext) (N.of_nat (n + i)) = Some (uhead i).
  Proof.
    intros H. destruct i as [|i]; cbn [uhead].
    - rewrite Nat.add_0_r. unfold ulog. rewrite <- app_assoc. apply get_base. lia.
    - apply get_u. lia.
  Qed.

  Lemma uhead_not_redo i log : (i <= n)%nat ->
    stack_target REDO_OP_DESC_PREFIX log (uhead i) = None.
  Proof.
    intros H. unfold stack_target. destruct i; cbn [uhead].
    - now rewrite (proj2 (Hnormal n (bop n) (bop_nth n ltac:(lia)))).
    - cbn [o_desc uop]. now rewrite undo_not_redo.
  Qed.

  Definition rhead (k j : nat) : op := match j with O => uhead k | S _ => rop k j end.

  Lemma rlog_rev k j : exists tl, rev (rlog k j) = rhead k j :: tl.
  Proof.
    destruct j as [|j].
    - unfold rlog. cbn [seq map]. rewrite app_nil_r. apply ulog_rev.
    - rewrite rlog_S, rev_app_distr. cbn. eauto.
  Qed.

  Lemma rhead_git k j : v_git_refs (o_view (rhead k j)) = v_git_refs gitv
                        /\ v_git_heads (o_view (rhead k j)) = v_git_heads gitv.
  Proof. destruct j; [apply uhead_view_git|split; reflexivity]. Qed.

  Lemma rhead_view5 k j : (k <= n)%nat -> same5 (o_view (rhead k j)) (bview (n - k + j)).
  Proof.
    intros H. destruct j; cbn [rhead].
    - rewrite Nat.add_0_r. now apply uhead_view5.
    - apply restore_full.
  Qed.

  (** The redo of the undo operation [uop t], issued while [rhead k j] is current. *)
  Lemma redo_of_uop k j t :
    (1 <= t <= k)%nat -> (k <= n)%nat ->
    (match j with O => t = k | S _ => t = (k - j)%nat end) ->
    cmd_redo (rlog k j) (N.of_nat (n + k + j)) (rhead k j)
    = RNew [N.of_nat (n + k + j)] (REDO_OP_DESC_PREFIX ++ idstr (N.of_nat (n + t - 1)))
           (total (restore (o_view (uhead (t - 1))) (o_view (rhead k j)) true true)) true.
  Proof.
    intros Ht Hk Hj. unfold cmd_redo.
    assert (Htarget : match stack_target REDO_OP_DESC_PREFIX (rlog k j) (rhead k j) with
                      | Some r => option_map snd r | None => Some (rhead k j) end = Some (uop t)).
    { destruct j as [|j]; cbn [rhead].
      - subst t. rewrite uhead_not_redo by lia. destruct k; [lia|reflexivity].
      - unfold stack_target. cbn [o_desc rop]. rewrite strip_prefix_app, parse_idstr.
        replace (n + k - S j)%nat with (n + t)%nat by lia.
        unfold rlog. rewrite get_u by lia. reflexivity. }
    rewrite Htarget. cbn [o_desc uop o_parents]. rewrite strip_prefix_app.
    replace (n + t - 1)%nat with (n + (t - 1))%nat by lia.
    unfold rlog at 1. rewrite get_uhead by lia.
    rewrite uhead_not_redo by lia. reflexivity.
  Qed.

  Lemma redo_step k j : (k <= n)%nat -> (j < k)%nat ->
    exec (rlog k j) CRedo = Some (rlog k (S j)).
  Proof.
    intros Hk Hj. unfold exec, run_cmd. destruct (rlog_rev k j) as (tl & Hrev). rewrite Hrev.
    rewrite rlog_length.
    replace (N.of_nat (S n + k + j - 1)) with (N.of_nat (n + k + j)) by (f_equal; lia).
    rewrite (redo_of_uop k j (k - j)) by (destruct j; lia).
    rewrite to_view_total.
    assert (H5 : same5 (o_view (uhead (k - j - 1))) (bview (n - k + S j))).
    { eapply same5_trans; [apply uhead_view5; lia|].
      replace (n - (k - j - 1))%nat with (n - k + S j)%nat by lia. apply same5_refl. }
    assert (Hne : view_eqb (restore (o_view (uhead (k - j - 1))) (o_view (rhead k j)) true true)
                           (o_view (rhead k j)) = false).
    { apply view_neq_of_5. intros H.
      apply (distinct_views (n - k + j)); [lia|].
      apply same5_sym. replace (S (n - k + j)) with (n - k + S j)%nat by lia.
      eapply same5_trans; [apply same5_sym; exact H5|].
      eapply same5_trans; [apply same5_sym, restore_full|].
      eapply same5_trans; [exact H|]. now apply rhead_view5. }
    rewrite Hne. cbn [andb]. f_equal. rewrite rlog_S. f_equal. f_equal. unfold rop.
    f_equal.
    - f_equal. f_equal. lia.
    - f_equal. f_equal. f_equal. lia.
    - destruct (rhead_git k j) as [H1 H2]. now apply restore_ext.
  Qed.

  Theorem redo_n k j : (k <= n)%nat -> (j <= k)%nat -> iter j CRedo (ulog k) = Some (rlog k j).
  Proof.
    intros Hk. induction j as [|j IH]; intros Hj.
    - cbn. unfold rlog. cbn. now rewrite app_nil_r.
    - rewrite iter_snoc, IH by lia. apply redo_step; lia.
  Qed.

  (** Nothing is left to redo once every undo has been redone (or none was done). *)
  Theorem redo_exhausted k : (k <= n)%nat -> run_cmd (rlog k k) CRedo = Some (RErr 3).
  Proof.
    intros Hk. unfold run_cmd. destruct (rlog_rev k k) as (tl & ->). f_equal. unfold cmd_redo.
    assert (Hn : strip_prefix UNDO_OP_DESC_PREFIX (o_desc (bop n)) = None)
      by (apply (Hnormal n), bop_nth; lia).
    destruct k as [|k]; cbn [rhead uhead].
    - unfold stack_target. rewrite (proj2 (Hnormal n (bop n) (bop_nth n ltac:(lia)))).
      now rewrite Hn.
    - unfold stack_target. cbn [o_desc rop]. rewrite strip_prefix_app, parse_idstr.
      replace (n + S k - S k)%nat with (n + 0)%nat by lia.
      unfold rlog. rewrite (get_uhead (S k) 0) by lia. cbn [option_map snd uhead].
      now rewrite Hn.
  Qed.

  (** The views reached. *)
  Theorem undo_n_view k : (k <= n)%nat ->
    exists log v, iter k CUndo base = Some log /\ head_view log = Some v /\ same5 v (bview (n - k)).
  Proof.
    intros Hk. exists (ulog k), (o_view (uhead k)). split; [now apply undo_n|].
    split; [|now apply uhead_view5].
    unfold head_view. destruct (ulog_rev k) as (tl & ->). reflexivity.
  Qed.

  Theorem redo_n_view k j : (k <= n)%nat -> (j <= k)%nat ->
    exists log v, iter j CRedo (ulog k) = Some log /\ head_view log = Some v
                  /\ same5 v (bview (n - k + j)).
  Proof.
    intros Hk Hj. exists (rlog k j), (o_view (rhead k j)). split; [now apply redo_n|].
    split; [|now apply rhead_view5].
    unfold head_view. destruct (rlog_rev k j) as (tl & ->). reflexivity.
  Qed.
End Linear.

(** * The invariant is preserved *)
Lemma total_inj v v' : total v = total v' -> v = v'.
Proof.
  intros H. assert (to_view (total v) = to_view (total v')) by (now rewrite H).
  rewrite !to_view_total in H0. now inversion H0.
Qed.

Lemma inv_undo log hid h ps d v e :
  log_inv log -> cmd_undo log hid h = RNew ps d (total v) e ->
  log_inv (log ++ [mk_op ps d v]).
Proof.
  intros Hi Hu. destruct (cmd_undo_new _ _ _ _ _ _ _ Hu) as (pid & pop & Hg & -> & -> & Hv & _).
  apply total_inj in Hv. subst v. apply log_inv_app; [assumption|].
  apply points_ok_stack with (pop := pop); [now left|assumption|apply restore_full].
Qed.

Lemma inv_redo log hid h ps d v e :
  log_inv log -> cmd_redo log hid h = RNew ps d (total v) e ->
  log_inv (log ++ [mk_op ps d v]).
Proof.
  intros Hi Hu. destruct (cmd_redo_new _ _ _ _ _ _ _ Hu) as (pid & pop & Hg & -> & -> & Hv & _).
  apply total_inj in Hv. subst v. apply log_inv_app; [assumption|].
  apply points_ok_stack with (pop := pop); [now right|assumption|apply restore_full].
Qed.

Lemma inv_normal log o :
  log_inv log ->
  strip_prefix UNDO_OP_DESC_PREFIX (o_desc o) = None ->
  strip_prefix REDO_OP_DESC_PREFIX (o_desc o) = None ->
  log_inv (log ++ [o]).
Proof. intros Hi H1 H2. apply log_inv_app; [assumption|]. now apply points_ok_normal. Qed.

Lemma inv_restore log hid h t wr wm ps d v e :
  log_inv log -> cmd_restore log hid h t wr wm = RNew ps d (total v) e ->
  log_inv (log ++ [mk_op ps d v]).
Proof.
  intros Hi Hr. unfold cmd_restore in Hr. destruct (get log t); [|discriminate].
  inversion Hr; subst. apply inv_normal; [assumption| |]; cbn [o_desc].
  - apply restore_not_undo.
  - apply restore_not_redo.
Qed.

Lemma log_inv_nil : log_inv [].
Proof. intros i o H. unfold get in H. destruct (N.to_nat i); discriminate. Qed.

(** * The single undo *)
Lemma undo_single l0 h p pop :
  let log := (l0 ++ [h])%list in
  strip_prefix UNDO_OP_DESC_PREFIX (o_desc h) = None ->
  o_parents h = [p] -> get log p = Some pop ->
  strip_prefix UNDO_OP_DESC_PREFIX (o_desc pop) = None ->
  cmd_undo log (N.of_nat (length l0)) h
  = RNew [N.of_nat (length l0)] (UNDO_OP_DESC_PREFIX ++ idstr p)
         (total (restore (o_view pop) (o_view h) true true)) true.
Proof.
  intros log H1 H2 H3 H4. unfold cmd_undo, stack_target. rewrite H1, H2, H3, H4. reflexivity.
Qed.

(** * Meaning of the property checker's tests *)
Lemma prop_event_restore log t x :
  prop_event log (CRestore t true true) (ONew x false) = true ->
  exists top, get log t = Some top /\ same5 (o_view x) (o_view top).
Proof.
  cbn. destruct (get log t) as [top|]; [|discriminate]. intros H. apply veq5_spec in H. eauto.
Qed.

Lemma prop_event_undo l0 h x :
  prop_event (l0 ++ [h]) CUndo (ONew x false) = true ->
  is_undo_desc (o_desc h) = false ->
  exists p pop, o_parents h = [p] /\ get (l0 ++ [h]) p = Some pop
                /\ (is_undo_desc (o_desc pop) = false -> same5 (o_view x) (o_view pop)).
Proof.
  cbn [prop_event]. rewrite rev_app_distr. cbn [rev app]. intros H Hn. rewrite Hn in H.
  destruct (o_parents h) as [|p [|? ?]]; try discriminate.
  destruct (get (l0 ++ [h]) p) as [pop|] eqn:Eg; [|discriminate].
  exists p, pop. split; [reflexivity|]. split; [exact Eg|].
  intros Hp. rewrite Hp in H. cbn in H. now apply veq5_spec.
Qed.

Lemma relax_immutable_keeps v0 v :
  pview_match (relax_immutable (total v0)) v = true ->
  v_bookmarks v = v_bookmarks v0 /\ v_tags v = v_tags v0 /\ v_remotes v = v_remotes v0
  /\ v_git_refs v = v_git_refs v0 /\ v_git_heads v = v_git_heads v0.
Proof.
  unfold pview_match, relax_immutable, total. cbn.
  rewrite !andb_true_iff, !refs_eqb_spec, !listN_eqb_spec. intuition congruence.
Qed.

(** * Reverting the current operation *)
Lemma lookup_insert_sorted {V} k (v : V) l k' :
  lookup_ref (insert_sorted k v l) k' = if N.eqb k k' then Some v else lookup_ref l k'.
Proof.
  induction l as [|[k1 v1] t IH]; cbn; [reflexivity|].
  destruct (N.leb k k1) eqn:E; cbn; [reflexivity|].
  rewrite IH. destruct (N.eqb k1 k') eqn:E1; [|reflexivity].
  destruct (N.eqb k k') eqn:E2; [|reflexivity].
  apply N.eqb_eq in E1, E2. subst. rewrite N.leb_refl in E. discriminate.
Qed.

Lemma lookup_fold_insert {V} (f : N -> option V) names k :
  lookup_ref (fold_right (fun name m => match f name with Some c => insert_sorted name c m | None => m end)
                         [] names) k
  = if existsb (N.eqb k) names then f k else None.
Proof.
  induction names as [|n rest IH]; cbn [fold_right existsb]; [reflexivity|].
  destruct (f n) as [c|] eqn:Ef.
  - rewrite lookup_insert_sorted, IH. rewrite (N.eqb_sym k n).
    destruct (N.eqb n k) eqn:E; cbn [orb]; [|reflexivity].
    apply N.eqb_eq in E. subst. now rewrite Ef.
  - rewrite IH. destruct (N.eqb k n) eqn:E; cbn [orb]; [|reflexivity].
    apply N.eqb_eq in E. subst. rewrite Ef. now destruct (existsb (N.eqb n) rest).
Qed.

Lemma union_keys_cons x a b :
  b <> [] ->
  union_keys (x :: a) b = if existsb (N.eqb x) b then union_keys a b else x :: union_keys a b.
Proof. destruct b; [congruence|reflexivity]. Qed.

Lemma union_keys_nil_r a : union_keys a [] = a.
Proof. destruct a; reflexivity. Qed.

Lemma in_union_keys a b k :
  existsb (N.eqb k) (union_keys a b) = existsb (N.eqb k) a || existsb (N.eqb k) b.
Proof.
  destruct b as [|y b'].
  - rewrite union_keys_nil_r. cbn. now rewrite orb_false_r.
  - remember (y :: b') as bb eqn:Eb. assert (Hne : bb <> []) by (subst; discriminate).
    clear Eb. induction a as [|x a IH]; [reflexivity|].
    rewrite union_keys_cons by assumption.
    destruct (existsb (N.eqb x) bb) eqn:Ex.
    + rewrite IH. cbn. destruct (N.eqb k x) eqn:E; [|reflexivity].
      apply N.eqb_eq in E. subst. rewrite Ex. now rewrite orb_true_r.
    + cbn. rewrite IH. now rewrite orb_assoc.
Qed.

Lemma lookup_ref_notin {V} (l : list (N * V)) k :
  existsb (N.eqb k) (map fst l) = false -> lookup_ref l k = None.
Proof.
  induction l as [|[k1 v1] t IH]; cbn; [reflexivity|].
  intros H. apply orb_false_iff in H. destruct H as [H1 H2].
  rewrite N.eqb_sym, H1. auto.
Qed.

Lemma merge_wc1_self_base (b o : option N) : merge_wc1 b b o = o.
Proof.
  unfold merge_wc1, trivial_merge. rewrite andb_true_r.
  assert (R : forall x : option N, option_eqb N.eqb x x = true).
  { intros [x|]; cbn; [apply N.eqb_refl|reflexivity]. }
  destruct (option_eqb N.eqb b o) eqn:E.
  - destruct b, o; cbn in E; try discriminate; [apply N.eqb_eq in E; now subst|reflexivity].
  - now rewrite R.
Qed.

(** Reverting with [self = base]: every workspace gets the parent operation's pointer. *)
Lemma merge_wc_self_base b o name :
  lookup_ref (merge_wc b b o) name = lookup_ref o name.
Proof.
  unfold merge_wc. rewrite lookup_fold_insert.
  assert (Hr : (if option_eqb N.eqb (lookup_ref b name) (lookup_ref o name)
                then lookup_ref b name
                else merge_wc1 (lookup_ref b name) (lookup_ref b name) (lookup_ref o name))
               = lookup_ref o name).
  { destruct (option_eqb N.eqb (lookup_ref b name) (lookup_ref o name)) eqn:E.
    - destruct (lookup_ref b name), (lookup_ref o name); cbn in E; try discriminate;
        [apply N.eqb_eq in E; now subst|reflexivity].
    - apply merge_wc1_self_base. }
  rewrite Hr. rewrite !in_union_keys.
  destruct (existsb (N.eqb name) (map fst o)) eqn:Eo.
  - now rewrite !orb_true_r.
  - rewrite (lookup_ref_notin o name Eo). now destruct (_ || _).
Qed.

Lemma merge_refs_self_base b o :
  exists m, merge_refs b b o = Some m
            /\ forall name, target_of (lookup_ref m name) = target_of (lookup_ref o name).
Proof.
  set (f := fun name : N => match target_of (lookup_ref o name) with [] => None | t => Some t end).
  set (names := union_keys (map fst b) (union_keys (map fst b) (map fst o))).
  exists (fold_right (fun name m => match f name with Some c => insert_sorted name c m | None => m end)
                     [] names).
  split.
  - unfold merge_refs. fold names. induction names as [|n rest IH]; [reflexivity|].
    cbn [fold_right]. rewrite IH. unfold merge3. rewrite listN_eqb_refl. unfold f.
    destruct (target_of (lookup_ref o n)); reflexivity.
  - intros name. rewrite lookup_fold_insert. unfold names. rewrite !in_union_keys.
    destruct (existsb (N.eqb name) (map fst o)) eqn:Eo.
    + rewrite !orb_true_r. unfold f. destruct (target_of (lookup_ref o name)); reflexivity.
    + rewrite (lookup_ref_notin o name Eo).
      destruct (_ || _); [|reflexivity]. unfold f. rewrite (lookup_ref_notin o name Eo). reflexivity.
Qed.

Lemma veq5_refl v : veq5 v v = true.
Proof. apply veq5_spec, same5_refl. Qed.

(** `jj op revert` of the CURRENT operation: the model determines every portion, and each
    equals the parent operation's (maps compared by lookup). *)
Lemma revert_current l0 h p pop :
  let log := (l0 ++ [h])%list in
  let hid := N.of_nat (length l0) in
  o_parents h = [p] -> get log p = Some pop ->
  exists bm tg w,
    cmd_revert log hid h hid true true
    = RNew [hid] (REVERT_OP_DESC_PREFIX ++ idstr hid)
           (mk_pview (Some (v_heads (o_view pop))) (Some bm) (Some tg) (Some w)
                     (Some (v_remotes (o_view pop)))
                     (Some (v_git_refs (o_view h))) (Some (v_git_heads (o_view h)))) false
    /\ (forall name, target_of (lookup_ref bm name) = target_of (lookup_ref (v_bookmarks (o_view pop)) name))
    /\ (forall name, target_of (lookup_ref tg name) = target_of (lookup_ref (v_tags (o_view pop)) name))
    /\ (forall name, lookup_ref w name = lookup_ref (v_wc (o_view pop)) name).
Proof.
  intros log hid Hp Hg.
  destruct (merge_refs_self_base (v_bookmarks (o_view h)) (v_bookmarks (o_view pop))) as (bm & Hbm & Hbm').
  destruct (merge_refs_self_base (v_tags (o_view h)) (v_tags (o_view pop))) as (tg & Htg & Htg').
  exists bm, tg, (merge_wc (v_wc (o_view h)) (v_wc (o_view h)) (v_wc (o_view pop))).
  split; [|split; [assumption|split; [assumption|intros; apply merge_wc_self_base]]].
  unfold cmd_revert. unfold log, hid. rewrite get_last, Hp. fold log. rewrite Hg.
  rewrite veq5_refl, orb_true_r. cbn [andb].
  rewrite Hbm, Htg. unfold merge3. rewrite !listN_eqb_refl. reflexivity.
Qed.
