(** Proofs for C32 (workspace path conversion). *)
From Verif Require Import Base.Prelude Model.C32 Proofs.BytesF.
From Coq Require Import Lia.
Local Open Scope N_scope.

(** ** Small facts *)
Lemma is_slash_true b : is_slash b = true <-> b = SLASH.
Proof. apply N.eqb_eq. Qed.

Lemma is_nil_true {A} (l : list A) : is_nil l = true <-> l = [].
Proof. destruct l; cbn; split; congruence. Qed.
Lemma is_nil_false {A} (l : list A) : is_nil l = false <-> l <> [].
Proof. destruct l; cbn; split; congruence. Qed.

Lemma comp_eqb_eq a b : comp_eqb a b = true <-> a = b.
Proof.
  destruct a, b; cbn; try (split; congruence).
  rewrite bytes_eqb_eq. split; congruence.
Qed.
Lemma comp_eqb_refl a : comp_eqb a a = true.
Proof. apply comp_eqb_eq; reflexivity. Qed.
Lemma comps_eqb_eq a b : comps_eqb a b = true <-> a = b.
Proof. apply list_eqb_eq, comp_eqb_eq. Qed.

Definition no_slash (n : bytes) : Prop := existsb is_slash n = false.

(** ** [split_slash] *)
Lemma split_slash_nonempty s : split_slash s <> [].
Proof.
  destruct s as [|b t]; cbn; [discriminate|].
  destruct (is_slash b); [discriminate|]. destruct (split_slash t); discriminate.
Qed.

Lemma split_slash_app a b :
  split_slash (a ++ SLASH :: b) = split_slash a ++ split_slash b.
Proof.
  induction a as [|c a IH]; cbn.
  - reflexivity.
  - destruct (is_slash c).
    + rewrite IH. reflexivity.
    + rewrite IH. destruct (split_slash a) as [|h r] eqn:E.
      * exfalso. eapply split_slash_nonempty; eauto.
      * reflexivity.
Qed.

Lemma split_slash_no_slash n : no_slash n -> split_slash n = [n].
Proof.
  unfold no_slash. induction n as [|c n IH]; cbn; auto.
  intros H. apply orb_false_iff in H as [H1 H2]. rewrite H1, IH; auto.
Qed.

Lemma split_slash_pieces s : Forall no_slash (split_slash s).
Proof.
  unfold no_slash. induction s as [|c s IH]; cbn.
  - repeat constructor.
  - destruct (is_slash c) eqn:E.
    + constructor; auto.
    + destruct (split_slash s) as [|h r]; [repeat constructor; cbn; rewrite E; auto|].
      inversion IH; subst. constructor; auto. cbn. rewrite E. auto.
Qed.

(** ** Names *)
Lemma good_name_iff n :
  good_name n = true <-> n <> [] /\ no_slash n /\ n <> [DOT] /\ n <> [DOT; DOT].
Proof.
  unfold good_name, no_slash, is_dot, is_dotdot.
  rewrite !andb_true_iff, !negb_true_iff, is_nil_false, !bytes_eqb_neq. tauto.
Qed.

Lemma classify_good n : good_name n = true -> classify n = [Normal n].
Proof.
  intros H. apply good_name_iff in H as (H1 & _ & H3 & H4). unfold classify, is_dot, is_dotdot.
  apply is_nil_false in H1. apply bytes_eqb_neq in H3, H4. rewrite H1, H3, H4. reflexivity.
Qed.

Lemma classify_normal p n : no_slash p -> In (Normal n) (classify p) -> n = p /\ good_name n = true.
Proof.
  unfold classify. intros Hs.
  destruct (is_nil p) eqn:E1; cbn [orb]; [intros []|].
  destruct (is_dot p) eqn:E2; [intros []|].
  destruct (is_dotdot p) eqn:E3; cbn; [intros [H|[]]; discriminate|].
  intros [H|[]]. inversion H; subst. split; auto.
  unfold good_name. rewrite E1, E2, E3. unfold no_slash in Hs. rewrite Hs. reflexivity.
Qed.

Lemma classify_no_root p : ~ In Root (classify p) /\ ~ In CurDir (classify p).
Proof.
  unfold classify. destruct (is_nil p || is_dot p); [cbn; tauto|].
  destruct (is_dotdot p); cbn; split; intros [H|[]]; discriminate.
Qed.

Lemma tail_comps_good n : good_name n = true -> tail_comps n = [Normal n].
Proof.
  intros H. unfold tail_comps. pose proof H as G. apply good_name_iff in G as (_ & Hs & _).
  rewrite split_slash_no_slash by auto. cbn. rewrite classify_good by auto. reflexivity.
Qed.

Lemma tail_comps_dotdot : tail_comps [DOT; DOT] = [ParentDir].
Proof. reflexivity. Qed.
Lemma tail_comps_nil : tail_comps [] = [].
Proof. reflexivity. Qed.

Lemma tail_comps_props s :
  Forall (fun c => c <> Root /\ c <> CurDir /\
                   match c with Normal n => good_name n = true | _ => True end) (tail_comps s).
Proof.
  unfold tail_comps. pose proof (split_slash_pieces s) as P.
  induction P as [|p l Hp _ IH]; cbn; [constructor|].
  apply Forall_app. split; auto.
  apply Forall_forall. intros c Hc. destruct (classify_no_root p) as [A B].
  repeat split; try (intros ->; contradiction).
  destruct c; auto. eapply classify_normal; eauto.
Qed.

(** ** [components] *)
Lemma components_cons_slash b : components (SLASH :: b) = Root :: tail_comps b.
Proof. reflexivity. Qed.

Lemma has_root_app a b : a <> [] -> has_root (a ++ b) = has_root a.
Proof. destruct a; [congruence|reflexivity]. Qed.

Lemma components_app_slash a b :
  a <> [] -> components (a ++ SLASH :: b) = components a ++ tail_comps b.
Proof.
  intros Ha. unfold components. rewrite has_root_app by auto. rewrite split_slash_app.
  destruct (split_slash a) as [|f r] eqn:E; [exfalso; eapply split_slash_nonempty; eauto|].
  cbn [app]. rewrite flat_map_app. unfold tail_comps. rewrite <- !app_assoc. reflexivity.
Qed.

Lemma components_good n : good_name n = true -> components n = [Normal n].
Proof.
  intros H. pose proof H as G. apply good_name_iff in G as (Hn & Hs & Hd & _).
  unfold components. rewrite split_slash_no_slash by auto.
  assert (R : has_root n = false).
  { destruct n as [|c n]; [reflexivity|]. cbn. unfold no_slash in Hs. cbn in Hs.
    apply orb_false_iff in Hs as [Hs _]. exact Hs. }
  rewrite R. cbn. unfold head_piece, is_dot. apply bytes_eqb_neq in Hd. rewrite Hd.
  rewrite classify_good by auto. reflexivity.
Qed.

Lemma components_dotdot : components [DOT; DOT] = [ParentDir].
Proof. reflexivity. Qed.

Lemma ends_with_slash_iff s : ends_with_slash s = true <-> exists a, s = a ++ [SLASH].
Proof.
  unfold ends_with_slash. split.
  - destruct (rev s) as [|b r] eqn:E; [discriminate|]. intros H. apply is_slash_true in H; subst b.
    exists (rev r). rewrite <- (rev_involutive s), E. reflexivity.
  - intros [a ->]. rewrite rev_app_distr. reflexivity.
Qed.

(** Pushing a relative path onto a non-empty buffer appends its (non-leading) components. *)
Lemma components_push_rel buf p :
  has_root p = false -> buf <> [] ->
  components (push buf p) = components buf ++ tail_comps p.
Proof.
  intros Hp Hb. unfold push. rewrite Hp. apply is_nil_false in Hb. rewrite Hb. cbn [orb].
  apply is_nil_false in Hb.
  destruct (ends_with_slash buf) eqn:E.
  - apply ends_with_slash_iff in E as [a ->]. rewrite <- app_assoc. cbn [app].
    destruct a as [|c a].
    + cbn [app]. rewrite !components_cons_slash. reflexivity.
    + rewrite !components_app_slash by discriminate. rewrite tail_comps_nil, app_nil_r. reflexivity.
  - apply components_app_slash; auto.
Qed.

Lemma push_nil p : push [] p = p.
Proof. unfold push. destruct (has_root p); reflexivity. Qed.

Lemma push_abs buf p : has_root p = true -> push buf p = p.
Proof. unfold push. intros ->. reflexivity. Qed.

Lemma good_name_no_root n : good_name n = true -> has_root n = false.
Proof.
  intros H. apply good_name_iff in H as (_ & Hs & _). destruct n as [|c n]; auto.
  unfold no_slash in Hs. cbn in *. apply orb_false_iff in Hs as [Hs _]. exact Hs.
Qed.

Lemma components_push_good buf n :
  good_name n = true -> components (push buf n) = components buf ++ [Normal n].
Proof.
  intros H. destruct buf as [|b buf].
  - rewrite push_nil, components_good by auto. reflexivity.
  - rewrite components_push_rel by (auto using good_name_no_root || discriminate).
    rewrite tail_comps_good by auto. reflexivity.
Qed.

Lemma components_push_dotdot buf :
  components (push buf [DOT; DOT]) = components buf ++ [ParentDir].
Proof.
  destruct buf as [|b buf].
  - reflexivity.
  - rewrite components_push_rel by (reflexivity || discriminate). reflexivity.
Qed.

(** Shape of any component sequence produced by [components]. *)
Definition comp_ok (c : comp) : Prop :=
  match c with Normal n => good_name n = true | _ => True end.

Lemma head_piece_props p :
  no_slash p -> Forall (fun c => c <> Root /\ comp_ok c) (head_piece p).
Proof.
  intros Hs. unfold head_piece. destruct (is_dot p).
  - repeat constructor; discriminate.
  - apply Forall_forall. intros c Hc. destruct (classify_no_root p) as [A _].
    split; [intros ->; contradiction|]. destruct c; cbn; auto. eapply classify_normal; eauto.
Qed.

Lemma components_shape s :
  exists rest, components s = (if has_root s then [Root] else []) ++ rest
               /\ Forall (fun c => c <> Root /\ comp_ok c) rest.
Proof.
  unfold components. eexists; split; [reflexivity|].
  pose proof (split_slash_pieces s) as P.
  destruct (split_slash s) as [|f r]; [constructor|]. inversion P; subst.
  apply Forall_app; split; [apply head_piece_props; auto|].
  pose proof (tail_comps_props (join_slash r)) as _.
  clear - H2. induction H2 as [|p l Hp _ IH]; cbn; [constructor|].
  apply Forall_app; split; auto.
  apply Forall_forall. intros c Hc. destruct (classify_no_root p) as [A _].
  split; [intros ->; contradiction|]. destruct c; cbn; auto. eapply classify_normal; eauto.
Qed.

Lemma components_ok s : Forall comp_ok (components s).
Proof.
  destruct (components_shape s) as (rest & -> & H). apply Forall_app; split.
  - destruct (has_root s); repeat constructor.
  - eapply Forall_impl; [|exact H]. cbn. tauto.
Qed.

Lemma components_names_good s n : In (Normal n) (components s) -> good_name n = true.
Proof.
  intros H. pose proof (components_ok s) as P. rewrite Forall_forall in P. exact (P _ H).
Qed.

Lemma components_has_root s :
  has_root s = true <-> exists t, components s = Root :: t.
Proof.
  destruct (components_shape s) as (rest & E & H). rewrite E. split.
  - intros ->. eexists; reflexivity.
  - intros [t Ht]. destruct (has_root s); auto. cbn in Ht. subst rest.
    inversion H; subst. destruct H2 as [A _]. congruence.
Qed.

(** ** [render] and canonical sequences *)
Lemma render_snoc l c : render (l ++ [c]) = push (render l) (comp_bytes c).
Proof. unfold render. rewrite map_app, fold_left_app. reflexivity. Qed.

(** Stacks (last component first) that [normalize_path] can hold. *)
Inductive stk_ok : list comp -> Prop :=
| so_nil : stk_ok []
| so_root : stk_ok [Root]
| so_parent s : stk_ok s -> stk_ok (ParentDir :: s)
| so_normal n s : good_name n = true -> stk_ok s -> stk_ok (Normal n :: s).

Lemma components_render s : stk_ok s -> components (render (rev s)) = rev s.
Proof.
  induction 1 as [| |s H IH|n s Hn H IH]; cbn [rev].
  - reflexivity.
  - reflexivity.
  - rewrite render_snoc. cbn [comp_bytes]. rewrite components_push_dotdot, IH. reflexivity.
  - rewrite render_snoc. cbn [comp_bytes]. rewrite components_push_good, IH by auto. reflexivity.
Qed.

Lemma stk_ok_no_curdir s : stk_ok s -> ~ In CurDir s.
Proof. induction 1; cbn; intuition discriminate. Qed.

(** ** [normalize_path] *)
Lemma norm_step_ok stk c : stk_ok stk -> comp_ok c -> stk_ok (norm_step stk c).
Proof.
  intros H Hc. destruct c; cbn.
  - constructor.
  - exact H.
  - destruct stk as [|[| | |n] t]; try (constructor; exact H). inversion H; auto.
  - constructor; auto.
Qed.

Lemma norm_fold_ok l stk : stk_ok stk -> Forall comp_ok l -> stk_ok (fold_left norm_step l stk).
Proof.
  revert stk; induction l as [|c l IH]; intros stk H Hl; cbn; auto.
  inversion Hl; subst. apply IH; auto. apply norm_step_ok; auto.
Qed.

Lemma norm_fold_normals l stk :
  fold_left norm_step (map Normal l) stk = rev (map Normal l) ++ stk.
Proof.
  revert stk; induction l as [|n l IH]; intros stk; cbn; auto.
  rewrite IH. rewrite <- app_assoc. reflexivity.
Qed.

Lemma components_normalize_path s :
  components (normalize_path s) = normalize_comps (components s).
Proof.
  unfold normalize_path, normalize_comps.
  pose proof (norm_fold_ok (components s) [] so_nil (components_ok s)) as H.
  destruct (rev (fold_left norm_step (components s) [])) as [|c r] eqn:E.
  - reflexivity.
  - rewrite <- E. apply components_render. exact H.
Qed.

Lemma normalize_comps_no_curdir l :
  Forall comp_ok l -> normalize_comps l = [CurDir] \/ ~ In CurDir (normalize_comps l).
Proof.
  intros Hl. unfold normalize_comps.
  pose proof (norm_fold_ok l [] so_nil Hl) as H.
  destruct (rev (fold_left norm_step l [])) as [|c r] eqn:E; [left; reflexivity|right].
  rewrite <- E. intros Hin. apply in_rev in Hin. eapply stk_ok_no_curdir; eauto.
Qed.

Lemma normalize_comps_ok l : Forall comp_ok l -> Forall comp_ok (normalize_comps l).
Proof.
  intros Hl. unfold normalize_comps.
  pose proof (norm_fold_ok l [] so_nil Hl) as H.
  destruct (rev (fold_left norm_step l [])) as [|c r] eqn:E; [repeat constructor|].
  rewrite <- E. apply Forall_rev. clear E. induction H; repeat constructor; auto.
Qed.

(** Appending normal components to a sequence that normalization leaves alone. *)
Lemma normalize_comps_app_normals cb l :
  cb <> [] -> cb <> [CurDir] -> normalize_comps cb = cb ->
  normalize_comps (cb ++ map Normal l) = cb ++ map Normal l.
Proof.
  unfold normalize_comps. intros Hne Hcd H. rewrite fold_left_app, norm_fold_normals.
  rewrite rev_app_distr, rev_involutive.
  destruct (rev (fold_left norm_step cb [])) as [|c r] eqn:E.
  - congruence.
  - rewrite H. destruct cb; [congruence|]. reflexivity.
Qed.

(** In general: normalization commutes with appending normal components (the stack only
    grows), so a produced path stays below whatever the base denotes. *)
Lemma normalize_stack_app_normals cb l :
  rev (fold_left norm_step (cb ++ map Normal l) []) =
  rev (fold_left norm_step cb []) ++ map Normal l.
Proof. rewrite fold_left_app, norm_fold_normals, rev_app_distr, rev_involutive. reflexivity. Qed.

(** ** [relative_path] *)
Lemma strip_common_spec l1 l2 s1 s2 :
  strip_common l1 l2 = (s1, s2) -> exists pre, l1 = pre ++ s1 /\ l2 = pre ++ s2.
Proof.
  revert l2; induction l1 as [|c1 t1 IH]; intros l2 H; cbn in H.
  - inversion H; subst. exists []. auto.
  - destruct l2 as [|c2 t2]; [inversion H; subst; exists []; auto|].
    destruct (comp_eqb c1 c2) eqn:E.
    + apply comp_eqb_eq in E; subst c2. destruct (IH _ H) as (pre & -> & ->).
      exists (c1 :: pre). auto.
    + inversion H; subst. exists []. auto.
Qed.

Lemma strip_common_prefix l t : strip_common l (l ++ t) = ([], t).
Proof.
  induction l as [|c l IH]; cbn.
  - destruct t; reflexivity.
  - rewrite comp_eqb_refl. exact IH.
Qed.

Lemma relative_comps_prefix cb t :
  cb <> [] ->
  relative_comps cb (cb ++ t) = match t with [] => [CurDir] | _ => t end.
Proof.
  destruct cb as [|c cb]; [congruence|]. intros _. cbn.
  rewrite comp_eqb_refl, strip_common_prefix. reflexivity.
Qed.

(** ** [from_relative_path] *)
Lemma names_of_Ok l ns :
  names_of l = Ok ns <-> l = map Normal ns /\ Forall (fun n => utf8_valid n = true) ns.
Proof.
  revert ns; induction l as [|c l IH]; intros ns; cbn.
  - split.
    + intros H; inversion H; subst. split; [reflexivity|constructor].
    + intros [H _]. destruct ns; [reflexivity|discriminate].
  - destruct c; try (split; [discriminate | intros [H _]; destruct ns; discriminate]).
    destruct (utf8_valid name) eqn:U.
    + destruct (names_of l) as [r|e] eqn:E.
      * split.
        -- intros H; inversion H; subst. destruct (proj1 (IH r) eq_refl) as [-> F].
           split; [reflexivity|constructor; auto].
        -- intros [H F]. destruct ns as [|n ns]; [discriminate|]. inversion H; subst.
           inversion F; subst. f_equal. f_equal.
           assert (X : Ok r = Ok ns) by (apply IH; auto). congruence.
      * split; [discriminate|]. intros [H F]. destruct ns as [|n ns]; [discriminate|].
        inversion H; subst. inversion F; subst.
        assert (X : @Err (list bytes) e = Ok ns) by (apply IH; auto). discriminate.
    + split; [discriminate|]. intros [H F]. destruct ns as [|n ns]; [discriminate|].
      inversion H; subst. inversion F; subst. congruence.
Qed.

Lemma from_relative_normals ns :
  Forall (fun n => utf8_valid n = true) ns ->
  from_relative_comps (map Normal ns) = Ok (join_slash ns).
Proof.
  intros F. unfold from_relative_comps.
  assert (E : list_eqb comp_eqb (map Normal ns) [CurDir] = false).
  { destruct ns as [|n [|m ns]]; reflexivity. }
  rewrite E. assert (X : names_of (map Normal ns) = Ok ns) by (apply names_of_Ok; auto).
  rewrite X. reflexivity.
Qed.

Lemma from_relative_Ok l p :
  from_relative_comps l = Ok p ->
  (l = [CurDir] /\ p = []) \/
  exists ns, l = map Normal ns /\ Forall (fun n => utf8_valid n = true) ns /\ p = join_slash ns.
Proof.
  unfold from_relative_comps. destruct (list_eqb comp_eqb l [CurDir]) eqn:E.
  - apply (list_eqb_eq _ comp_eqb_eq) in E. intros H; inversion H; subst. left; auto.
  - destruct (names_of l) as [ns|e] eqn:N; [|discriminate].
    apply names_of_Ok in N as [-> F]. intros H; inversion H; subst. right; eauto.
Qed.

(** ** [parse_fs_path], characterised *)
Lemma parse_fs_path_unfold cwd base input :
  parse_fs_path cwd base input =
  from_relative_comps (relative_comps (components base)
                                      (normalize_comps (components (push cwd input)))).
Proof. unfold parse_fs_path. rewrite components_normalize_path. reflexivity. Qed.

Lemma map_Normal_inj a b : map Normal a = map Normal b -> a = b.
Proof.
  revert b; induction a as [|x a IH]; intros [|y b] H; try discriminate; auto.
  inversion H; subst. f_equal; auto.
Qed.

Lemma normalize_root_head t : exists r, normalize_comps (Root :: t) = Root :: r.
Proof.
  unfold normalize_comps. cbn [fold_left norm_step].
  assert (G : forall l stk, (exists s, rev stk = Root :: s) ->
                            exists s, rev (fold_left norm_step l stk) = Root :: s).
  { induction l as [|c l IH]; intros stk Hs; cbn; auto.
    apply IH. destruct Hs as [s Hs]. destruct c as [| | |n0]; cbn.
    - exists []. reflexivity.
    - eauto.
    - destruct stk as [|x stk']; [discriminate|]. cbn [rev] in Hs.
      destruct x as [| | |n]; try (cbn [rev]; rewrite Hs; cbn; eauto; fail).
      destruct (rev stk') as [|y r] eqn:E; cbn in Hs; [discriminate|].
      inversion Hs; subst. eauto.
    - rewrite Hs. cbn. eauto. }
  destruct (G t [Root]) as [s Hs]; [exists []; reflexivity|]. rewrite Hs. eauto.
Qed.

(** The central characterisation: with an absolute base and an absolute joined input,
    parsing succeeds exactly when the normalized input is the base's component sequence
    followed by normal components only, and returns exactly those components. *)
Lemma parse_fs_path_spec cwd base input p :
  has_root base = true -> has_root (push cwd input) = true ->
  (parse_fs_path cwd base input = Ok p <->
   exists l, normalize_comps (components (push cwd input)) = components base ++ map Normal l
             /\ Forall (fun n => utf8_valid n = true) l /\ p = join_slash l).
Proof.
  intros Hb Ha. rewrite parse_fs_path_unfold.
  set (abs := normalize_comps (components (push cwd input))).
  apply components_has_root in Hb as [cb' Hcb].
  apply components_has_root in Ha as [ca' Hca].
  assert (Habs : exists abs', abs = Root :: abs').
  { unfold abs. rewrite Hca. apply normalize_root_head. }
  destruct Habs as [abs' Habs].
  assert (Hnc : ~ In CurDir abs).
  { destruct (normalize_comps_no_curdir _ (components_ok (push cwd input))) as [E|E]; auto.
    fold abs in E. rewrite E in Habs. discriminate. }
  split.
  - intros H. rewrite Hcb, Habs in H. cbn [relative_comps] in H. cbn in H.
    destruct (strip_common cb' abs') as [s1 s2] eqn:S.
    apply strip_common_spec in S as (pre & -> & ->).
    apply from_relative_Ok in H as [[H1 H2] | (ns & H1 & F & H2)].
    + (* result is exactly "." : both suffixes empty *)
      destruct s1 as [|x s1]; cbn in H1.
      * destruct s2 as [|y s2].
        -- exists []. rewrite Habs, Hcb. cbn. rewrite !app_nil_r. auto.
        -- exfalso. apply Hnc. rewrite Habs, H1. right.
           apply in_or_app. right. left. reflexivity.
      * inversion H1.
    + destruct s1 as [|x s1]; cbn in H1.
      * destruct s2 as [|y s2]; [destruct ns; discriminate|].
        exists ns. rewrite Habs, Hcb, H1, app_nil_r. auto.
      * destruct ns; discriminate.
  - intros (l & E & F & ->). rewrite E. rewrite relative_comps_prefix by (rewrite Hcb; discriminate).
    destruct l as [|n l].
    + reflexivity.
    + change (n :: l) with (n :: l) in *. cbn [map].
      change (Normal n :: map Normal l) with (map Normal (n :: l)).
      apply from_relative_normals; auto.
Qed.

(** ** Repository paths *)
Definition comp_wf (n : bytes) : Prop := n <> [] /\ no_slash n.

Lemma join_slash_cons x y t : join_slash (x :: y :: t) = x ++ SLASH :: join_slash (y :: t).
Proof. reflexivity. Qed.

Lemma join_slash_nonempty x t : x <> [] -> join_slash (x :: t) <> [].
Proof.
  destruct t; cbn; auto. intros Hx H. apply app_eq_nil in H as [H _]. contradiction.
Qed.

Lemma rc_go_no_slash acc n : no_slash n -> rc_go acc n = [rev acc ++ n].
Proof.
  unfold no_slash. revert acc; induction n as [|c n IH]; intros acc H; cbn.
  - rewrite app_nil_r. reflexivity.
  - cbn in H. apply orb_false_iff in H as [H1 H2]. rewrite H1, IH by auto.
    cbn. rewrite <- app_assoc. reflexivity.
Qed.

Lemma rc_go_app acc n t :
  no_slash n ->
  rc_go acc (n ++ SLASH :: t) = (rev acc ++ n) :: match t with [] => [] | _ => rc_go [] t end.
Proof.
  unfold no_slash. revert acc; induction n as [|c n IH]; intros acc H; cbn.
  - rewrite app_nil_r. reflexivity.
  - cbn in H. apply orb_false_iff in H as [H1 H2]. rewrite H1, IH by auto.
    cbn. rewrite <- app_assoc. reflexivity.
Qed.

Lemma repo_components_join l : Forall comp_wf l -> repo_components (join_slash l) = l.
Proof.
  intros F. destruct l as [|x l]; [reflexivity|].
  assert (G : forall l x, Forall comp_wf (x :: l) -> rc_go [] (join_slash (x :: l)) = x :: l).
  { clear. induction l as [|y l IH]; intros x F; inversion F as [|? ? [Hx Hs] F']; subst.
    - cbn. rewrite rc_go_no_slash by auto. reflexivity.
    - rewrite join_slash_cons, rc_go_app by auto. cbn [rev app]. f_equal.
      inversion F' as [|? ? [Hy _] _]; subst.
      destruct (join_slash (y :: l)) eqn:E; [exfalso; eapply join_slash_nonempty; eauto|].
      rewrite <- E. apply IH; auto. }
  unfold repo_components. inversion F as [|? ? [Hx _] _]; subst.
  destruct (join_slash (x :: l)) eqn:E; [exfalso; eapply join_slash_nonempty; eauto|].
  rewrite <- E. apply G; auto.
Qed.

Lemma join_split_slash p : join_slash (split_slash p) = p.
Proof.
  induction p as [|b t IH]; [reflexivity|]. cbn.
  destruct (is_slash b) eqn:E.
  - apply is_slash_true in E; subst b.
    destruct (split_slash t) as [|h r] eqn:S; [exfalso; eapply split_slash_nonempty; eauto|].
    rewrite join_slash_cons. cbn [app]. rewrite IH. reflexivity.
  - destruct (split_slash t) as [|h r] eqn:S; [exfalso; eapply split_slash_nonempty; eauto|].
    destruct r as [|h2 r].
    + cbn in *. congruence.
    + rewrite join_slash_cons in *. cbn [app]. rewrite IH. reflexivity.
Qed.

Lemma ends_with_slash_cons c s : s <> [] -> ends_with_slash (c :: s) = ends_with_slash s.
Proof.
  intros Hs. unfold ends_with_slash. cbn [rev].
  destruct (rev s) as [|b r] eqn:E.
  - exfalso. apply Hs. rewrite <- (rev_involutive s), E. reflexivity.
  - reflexivity.
Qed.

Lemma valid_pieces_aux : forall n p, (length p <= n)%nat -> p <> [] -> has_root p = false ->
                          ends_with_slash p = false -> has_double_slash p = false ->
                          Forall comp_wf (split_slash p).
Proof.
  induction n as [|n IH]; intros p Hlen Hp Hr He Hd.
    - destruct p; [congruence|cbn in Hlen; lia].
    - destruct p as [|b t]; [congruence|]. cbn in Hr.
      pose proof (split_slash_pieces (b :: t)) as P. cbn [split_slash] in *. rewrite Hr in *.
      destruct t as [|c t'].
      + cbn. repeat constructor; [discriminate|]. unfold no_slash. cbn. rewrite Hr. reflexivity.
      + assert (Hlen' : (length (c :: t') <= n)%nat) by (cbn in *; lia).
        rewrite ends_with_slash_cons in He by discriminate.
        assert (Hd' : has_double_slash (c :: t') = false).
        { cbn [has_double_slash] in Hd. apply orb_false_iff in Hd as [_ Hd]. exact Hd. }
        destruct (is_slash c) eqn:Ec.
        * (* [b] alone is a piece; continue behind the separator *)
          cbn [split_slash]. rewrite Ec.
          assert (Ht' : t' <> []).
          { intros ->. unfold ends_with_slash in He. cbn in He. congruence. }
          assert (Hr' : has_root t' = false).
          { destruct t' as [|d t'']; [congruence|]. cbn. cbn [has_double_slash] in Hd'.
            rewrite Ec in Hd'. cbn in Hd'. apply orb_false_iff in Hd' as [Hd' _]. exact Hd'. }
          assert (He' : ends_with_slash t' = false)
            by (rewrite ends_with_slash_cons in He by auto; exact He).
          assert (Hd'' : has_double_slash t' = false).
          { destruct t' as [|d t'']; [reflexivity|]. cbn [has_double_slash] in Hd'.
            apply orb_false_iff in Hd' as [_ Hd']. exact Hd'. }
          constructor.
          -- split; [discriminate|]. unfold no_slash. cbn. rewrite Hr. reflexivity.
          -- apply (IH t'); auto. cbn in Hlen'. lia.
        * assert (Hrc : has_root (c :: t') = false) by (cbn; exact Ec).
          specialize (IH (c :: t') Hlen' ltac:(discriminate) Hrc He Hd').
          destruct (split_slash (c :: t')) as [|h r] eqn:S; [exfalso; eapply split_slash_nonempty; eauto|].
          inversion IH as [|? ? [Hh Hs] IH']; subst. constructor; auto.
          split; [discriminate|]. unfold no_slash in *. cbn. rewrite Hr. exact Hs.
Qed.

(** A valid repository path string is the '/'-join of non-empty slash-free components. *)
Lemma valid_repo_path_pieces p :
  p <> [] -> is_valid_repo_path_str p = true -> Forall comp_wf (split_slash p).
Proof.
  unfold is_valid_repo_path_str.
  intros Hp H. apply andb_true_iff in H as [H Hd]. apply andb_true_iff in H as [Hr He].
  apply negb_true_iff in Hr, He, Hd. eapply valid_pieces_aux; eauto.
Qed.

Lemma valid_repo_path_join p :
  is_valid_repo_path_str p = true -> exists l, Forall comp_wf l /\ p = join_slash l.
Proof.
  intros H. destruct p as [|b t] eqn:E.
  - exists []. split; [constructor|reflexivity].
  - rewrite <- E in *. exists (split_slash p). split.
    + apply valid_repo_path_pieces; auto. subst; discriminate.
    + symmetry. apply join_split_slash.
Qed.

(** ** [to_fs_name] and [to_fs_path] *)
Lemma to_fs_name_iff n : to_fs_name n = true <-> good_name n = true.
Proof.
  unfold to_fs_name. split.
  - destruct (components n) as [|[| | |name] [|c r]] eqn:E; try discriminate.
    intros H. apply bytes_eqb_eq in H; subst name.
    apply (components_names_good n). rewrite E. left; reflexivity.
  - intros H. rewrite components_good by auto. apply bytes_eqb_refl.
Qed.

Lemma push_names_Ok buf l q :
  push_names buf l = Ok q <-> Forall (fun n => good_name n = true) l /\ q = fold_left push l buf.
Proof.
  revert buf; induction l as [|c l IH]; intros buf; cbn.
  - split; [intros H; inversion H; auto | intros [_ ->]; reflexivity].
  - destruct (to_fs_name c) eqn:E.
    + apply to_fs_name_iff in E. rewrite IH. split.
      * intros [F ->]. split; auto.
      * intros [F ->]. inversion F; auto.
    + split; [discriminate|]. intros [F _]. inversion F; subst.
      apply to_fs_name_iff in H1. congruence.
Qed.

Lemma push_names_Err buf l :
  (exists e, push_names buf l = Err e) <-> Exists (fun n => good_name n = false) l.
Proof.
  revert buf; induction l as [|c l IH]; intros buf; cbn.
  - split; [intros [e H]; discriminate | intros H; inversion H].
  - destruct (to_fs_name c) eqn:E.
    + rewrite IH. apply to_fs_name_iff in E. split; [intros H; right; auto|].
      intros H; inversion H; subst; [congruence|auto].
    + split; [|intros _; eauto]. intros _. left.
      destruct (good_name c) eqn:G; auto. apply to_fs_name_iff in G. congruence.
Qed.

Lemma fold_push_components l buf :
  Forall (fun n => good_name n = true) l ->
  components (fold_left push l buf) = components buf ++ map Normal l.
Proof.
  revert buf; induction l as [|n l IH]; intros buf F; cbn.
  - rewrite app_nil_r. reflexivity.
  - inversion F; subst. rewrite IH, components_push_good by auto.
    rewrite <- app_assoc. reflexivity.
Qed.

Lemma push_rel_prefix buf p : has_root p = false -> exists x, push buf p = buf ++ x.
Proof.
  intros H. unfold push. rewrite H.
  destruct (is_nil buf || ends_with_slash buf); eexists; reflexivity.
Qed.

Lemma fold_push_prefix l buf :
  Forall (fun n => good_name n = true) l -> exists x, fold_left push l buf = buf ++ x.
Proof.
  revert buf; induction l as [|n l IH]; intros buf F; cbn.
  - exists []. rewrite app_nil_r. reflexivity.
  - inversion F; subst. destruct (push_rel_prefix buf n (good_name_no_root _ H1)) as [x Hx].
    destruct (IH (push buf n) H2) as [y Hy]. rewrite Hy, Hx, <- app_assoc. eauto.
Qed.

Lemma fold_push_nil_iff l buf :
  Forall (fun n => good_name n = true) l -> (fold_left push l buf = [] <-> buf = [] /\ l = []).
Proof.
  intros F. split.
  - intros H. destruct l as [|n l]; [cbn in H; auto|]. exfalso.
    assert (C : components (fold_left push (n :: l) buf) = []) by (rewrite H; reflexivity).
    rewrite fold_push_components in C by auto. apply app_eq_nil in C as [_ C]. discriminate.
  - intros [-> ->]. reflexivity.
Qed.

(** [to_fs_path] on the '/'-join of well-formed components, exactly. *)
Lemma to_fs_path_join_Ok base l q :
  Forall comp_wf l ->
  (to_fs_path base (join_slash l) = Ok q <->
   Forall (fun n => good_name n = true) l /\
   q = if is_nil (fold_left push l base) then [DOT] else fold_left push l base).
Proof.
  intros W. unfold to_fs_path. rewrite repo_components_join, push_nil by auto.
  destruct (push_names base l) as [q0|e] eqn:E.
  - apply push_names_Ok in E as [F ->]. split.
    + intros H; inversion H; subst. split; auto.
      destruct (is_nil (fold_left push l base)) eqn:N; auto.
      apply is_nil_true in N. rewrite N. reflexivity.
    + intros [_ ->]. f_equal. destruct (is_nil (fold_left push l base)) eqn:N; auto.
      apply is_nil_true in N. rewrite N. reflexivity.
  - split; [discriminate|]. intros [F _].
    assert (X : push_names base l = Ok (fold_left push l base)) by (apply push_names_Ok; auto).
    congruence.
Qed.

Lemma to_fs_path_join_Err base l :
  Forall comp_wf l ->
  ((exists e, to_fs_path base (join_slash l) = Err e) <->
   Exists (fun n => n = [DOT] \/ n = [DOT; DOT]) l).
Proof.
  intros W. unfold to_fs_path. rewrite repo_components_join, push_nil by auto.
  assert (X : (exists e, push_names base l = Err e) <->
              Exists (fun n => n = [DOT] \/ n = [DOT; DOT]) l).
  { rewrite push_names_Err. rewrite !Exists_exists. split.
    - intros (n & Hin & G). exists n. split; auto.
      rewrite Forall_forall in W. destruct (W _ Hin) as [Hn Hs].
      destruct (bytes_eq_dec n [DOT]) as [|N1]; auto.
      destruct (bytes_eq_dec n [DOT; DOT]) as [|N2]; auto.
      exfalso. assert (good_name n = true) by (apply good_name_iff; auto). congruence.
    - intros (n & Hin & [-> | ->]); eexists; split; eauto. }
  rewrite <- X. destruct (push_names base l) as [q0|e]; split.
  - intros [e H]; discriminate.
  - intros [e H]; discriminate.
  - eauto.
  - eauto.
Qed.

(** ** The theorems *)

(** Confinement: a produced path is the base's components followed by the repository
    path's components as normal components (or "." for the empty path on an empty base). *)
Lemma to_fs_path_confined base l q :
  Forall comp_wf l -> to_fs_path base (join_slash l) = Ok q ->
  Forall (fun n => good_name n = true) l /\
  ((base = [] /\ l = [] /\ q = [DOT]) \/
   (components q = components base ++ map Normal l /\ exists x, q = base ++ x)).
Proof.
  intros W H. apply to_fs_path_join_Ok in H as [F ->]; auto. split; auto.
  destruct (is_nil (fold_left push l base)) eqn:N.
  - apply is_nil_true in N. apply fold_push_nil_iff in N as [-> ->]; auto.
  - right. split; [apply fold_push_components; auto | apply fold_push_prefix; auto].
Qed.

Lemma to_fs_path_confined_normalized base l q :
  Forall comp_wf l -> to_fs_path base (join_slash l) = Ok q ->
  rev (fold_left norm_step (components q) []) =
  rev (fold_left norm_step (components base) []) ++ map Normal l.
Proof.
  intros W H. destruct (to_fs_path_confined _ _ _ W H) as [F [(-> & -> & ->) | [E _]]].
  - reflexivity.
  - rewrite E. apply normalize_stack_app_normals.
Qed.

Definition base_normalized (base : bytes) : Prop :=
  has_root base = true /\ normalize_comps (components base) = components base.

(** Round trip repository path -> file-system path -> repository path. *)
Lemma roundtrip cwd base l q :
  base_normalized base ->
  Forall comp_wf l -> Forall (fun n => utf8_valid n = true) l ->
  to_fs_path base (join_slash l) = Ok q ->
  parse_fs_path cwd base q = Ok (join_slash l).
Proof.
  intros [Hr Hn] W U H.
  destruct (to_fs_path_confined _ _ _ W H) as [F [(-> & _) | [E [x Hx]]]]; [discriminate|].
  assert (Hq : has_root q = true).
  { rewrite Hx. destruct base; [discriminate|]. exact Hr. }
  assert (Hp : push cwd q = q) by (apply push_abs; auto).
  apply parse_fs_path_spec; auto; [rewrite Hp; auto|].
  exists l. rewrite Hp, E. split; auto.
  apply components_has_root in Hr as [t Ht].
  apply normalize_comps_app_normals; auto; rewrite Ht; discriminate.
Qed.

(** The same for the relative spelling produced from an empty base, parsed from [cwd = base]. *)
Lemma roundtrip_relative base l q :
  base_normalized base ->
  Forall comp_wf l -> Forall (fun n => utf8_valid n = true) l ->
  to_fs_path [] (join_slash l) = Ok q ->
  parse_fs_path base base q = Ok (join_slash l).
Proof.
  intros [Hr Hn] W U H.
  pose proof Hr as Hr'. apply components_has_root in Hr' as [t Ht].
  assert (Hb : base <> []) by (destruct base; [discriminate|discriminate]).
  destruct (to_fs_path_confined _ _ _ W H) as [F [(_ & -> & ->) | [E [x Hx]]]].
  - (* the root: "." *)
    assert (Hp : has_root (push base [DOT]) = true).
    { destruct (push_rel_prefix base [DOT] eq_refl) as [x ->]. destruct base; [congruence|exact Hr]. }
    apply parse_fs_path_spec; auto. exists []. cbn [map join_slash]. rewrite app_nil_r.
    split; [|split; [constructor|reflexivity]].
    rewrite components_push_rel by auto.
    change (tail_comps [DOT]) with (@nil comp). rewrite app_nil_r. exact Hn.
  - destruct l as [|n l'].
    + (* cannot happen: an empty path on an empty base renders as "." *)
      apply to_fs_path_join_Ok in H as [_ ->]; auto. cbn in E. discriminate.
    + assert (Hq : has_root q = false).
      { apply to_fs_path_join_Ok in H as [_ ->]; auto. cbn [fold_left]. rewrite push_nil.
        inversion F; subst.
        destruct (fold_push_prefix l' n H2) as [y Hy]. rewrite Hy.
        assert (Hn0 : n <> []) by (apply good_name_iff in H1; tauto).
        destruct (is_nil (n ++ y)) eqn:Z; [reflexivity|].
        rewrite has_root_app by auto. apply good_name_no_root; auto. }
      assert (Hp : has_root (push base q) = true).
      { destruct (push_rel_prefix base q Hq) as [y ->]. destruct base; [congruence|exact Hr]. }
      apply parse_fs_path_spec; auto. exists (n :: l'). split; auto.
      rewrite components_push_rel by auto.
      assert (T : tail_comps q = map Normal (n :: l')).
      { (* components q = [] ++ map Normal l, and q has no root and does not start with "." *)
        cbn [components app] in E. unfold components in E. rewrite Hq in E. cbn [app] in E.
        unfold tail_comps.
        destruct (split_slash q) as [|f r] eqn:S; [exfalso; eapply split_slash_nonempty; eauto|].
        cbn [flat_map]. unfold head_piece in E. destruct (is_dot f) eqn:D.
        - cbn in E. discriminate.
        - exact E. }
      rewrite T. apply normalize_comps_app_normals; auto; rewrite Ht; discriminate.
Qed.

(** A parsed repository path has only good components (whatever cwd and base are). *)
Lemma relative_comps_normals from to :
  forall n, In (Normal n) (relative_comps from to) -> In (Normal n) to.
Proof.
  intros n. unfold relative_comps.
  destruct from as [|c1 t1]; auto. destruct to as [|c2 t2]; auto.
  destruct (comp_eqb c1 c2); auto.
  destruct (strip_common t1 t2) as [s1 s2] eqn:S.
  apply strip_common_spec in S as (pre & -> & ->).
  intros H. apply in_app_or in H as [H|H].
  - exfalso. clear - H. induction (length s1); cbn in H; [auto|]. destruct H; [discriminate|auto].
  - right. apply in_or_app. right. destruct s2; [|exact H].
    destruct s1; cbn in H; intuition discriminate.
Qed.

Lemma parse_no_bad_components cwd base input p :
  parse_fs_path cwd base input = Ok p ->
  exists l, p = join_slash l /\ Forall (fun n => good_name n = true) l
            /\ Forall (fun n => utf8_valid n = true) l.
Proof.
  rewrite parse_fs_path_unfold. intros H.
  apply from_relative_Ok in H as [[_ ->] | (ns & E & U & ->)].
  - exists []. repeat split; constructor.
  - exists ns. repeat split; auto. apply Forall_forall. intros n Hn.
    assert (Hin : In (Normal n) (relative_comps (components base)
                    (normalize_comps (components (push cwd input)))))
      by (rewrite E; apply in_map; auto).
    apply relative_comps_normals in Hin.
    pose proof (normalize_comps_ok _ (components_ok (push cwd input))) as P.
    rewrite Forall_forall in P. exact (P _ Hin).
Qed.

Lemma good_name_wf n : good_name n = true -> comp_wf n.
Proof. intros H. apply good_name_iff in H. unfold comp_wf. tauto. Qed.

Lemma has_root_join l : Forall comp_wf l -> has_root (join_slash l) = false.
Proof.
  intros W. destruct l as [|x l]; [reflexivity|]. inversion W as [|? ? [Hx Hs] _]; subst.
  assert (R : has_root x = false).
  { destruct x as [|c x]; [congruence|]. unfold no_slash in Hs. cbn in *.
    apply orb_false_iff in Hs as [Hs _]. exact Hs. }
  destruct l; cbn [join_slash]; auto. rewrite has_root_app by auto. exact R.
Qed.

Lemma ends_with_slash_app a b : b <> [] -> ends_with_slash (a ++ b) = ends_with_slash b.
Proof.
  intros Hb. unfold ends_with_slash. rewrite rev_app_distr.
  destruct (rev b) as [|c r] eqn:E; [|reflexivity].
  exfalso. apply Hb. rewrite <- (rev_involutive b), E. reflexivity.
Qed.

Lemma no_slash_not_ends x : x <> [] -> no_slash x -> ends_with_slash x = false.
Proof.
  intros Hx Hs. destruct (ends_with_slash x) eqn:E; auto.
  apply ends_with_slash_iff in E as [a ->]. unfold no_slash in Hs.
  rewrite existsb_app in Hs. cbn in Hs. rewrite orb_true_r in Hs. discriminate.
Qed.

Lemma ends_with_slash_join l : Forall comp_wf l -> ends_with_slash (join_slash l) = false.
Proof.
  induction l as [|x l IH]; intros W; [reflexivity|]. inversion W as [|? ? [Hx Hs] W']; subst.
  destruct l as [|y l].
  - cbn. apply no_slash_not_ends; auto.
  - rewrite join_slash_cons.
    change (x ++ SLASH :: join_slash (y :: l)) with (x ++ [SLASH] ++ join_slash (y :: l)).
    rewrite app_assoc, ends_with_slash_app; auto.
    inversion W' as [|? ? [Hy _] _]; subst. apply join_slash_nonempty; auto.
Qed.

Lemma hds_cons2 c d r :
  has_double_slash (c :: d :: r) = (is_slash c && is_slash d) || has_double_slash (d :: r).
Proof. reflexivity. Qed.

Lemma has_double_slash_app_no_slash x t :
  no_slash x -> has_double_slash (x ++ t) = match x with
                                           | [] => has_double_slash t
                                           | _ => has_double_slash (last x 0 :: t)
                                           end.
Proof.
  unfold no_slash. induction x as [|c x IH]; intros H; [reflexivity|].
  cbn [existsb] in H. apply orb_false_iff in H as [H1 H2].
  destruct x as [|d x].
  - reflexivity.
  - specialize (IH H2).
    change ((c :: d :: x) ++ t) with (c :: d :: (x ++ t)).
    rewrite hds_cons2, H1. cbn [andb orb].
    change (d :: x ++ t) with ((d :: x) ++ t). rewrite IH. reflexivity.
Qed.

Lemma has_double_slash_join l : Forall comp_wf l -> has_double_slash (join_slash l) = false.
Proof.
  induction l as [|x l IH]; intros W; [reflexivity|]. inversion W as [|? ? [Hx Hs] W']; subst.
  destruct l as [|y l].
  - cbn. rewrite <- (app_nil_r x), has_double_slash_app_no_slash by auto.
    destruct x; [congruence|]. reflexivity.
  - rewrite join_slash_cons, has_double_slash_app_no_slash by auto.
    destruct x as [|c x]; [congruence|].
    assert (L : is_slash (last (c :: x) 0) = false).
    { unfold no_slash in Hs. clear - Hs. revert c Hs. induction x as [|d x IH]; intros c Hs.
      - cbn in *. apply orb_false_iff in Hs as [Hs _]. exact Hs.
      - cbn [last]. apply IH. cbn in Hs. apply orb_false_iff in Hs as [_ Hs]. exact Hs. }
    rewrite hds_cons2, L. cbn [andb orb].
    specialize (IH W'). inversion W' as [|? ? [Hy Hsy] _]; subst.
    assert (R : has_root (join_slash (y :: l)) = false) by (apply has_root_join; auto).
    destruct (join_slash (y :: l)) as [|d t] eqn:E; [reflexivity|].
    rewrite hds_cons2. cbn [has_root] in R. rewrite R, andb_false_r. cbn [orb]. exact IH.
Qed.

Lemma join_valid l : Forall comp_wf l -> is_valid_repo_path_str (join_slash l) = true.
Proof.
  intros W. unfold is_valid_repo_path_str.
  rewrite has_root_join, ends_with_slash_join, has_double_slash_join by auto. reflexivity.
Qed.

(** Round trip file-system path -> repository path -> file-system path: the same location. *)
Lemma roundtrip_fs cwd base input p :
  has_root base = true -> has_root (push cwd input) = true ->
  parse_fs_path cwd base input = Ok p ->
  is_valid_repo_path_str p = true /\
  exists q, to_fs_path base p = Ok q /\
            components q = normalize_comps (components (push cwd input)).
Proof.
  intros Hb Ha H.
  apply parse_fs_path_spec in H as (l & E & U & ->); auto.
  assert (G : Forall (fun n => good_name n = true) l).
  { apply Forall_forall. intros n Hn.
    pose proof (normalize_comps_ok _ (components_ok (push cwd input))) as P.
    rewrite Forall_forall in P. apply (P (Normal n)). rewrite E.
    apply in_or_app. right. apply in_map. exact Hn. }
  assert (W : Forall comp_wf l) by (eapply Forall_impl; [|exact G]; apply good_name_wf).
  split; [apply join_valid; auto|].
  exists (fold_left push l base). split.
  - apply to_fs_path_join_Ok; auto. split; auto.
    destruct (is_nil (fold_left push l base)) eqn:N; auto.
    apply is_nil_true in N. apply fold_push_nil_iff in N as [-> _]; auto. discriminate.
  - rewrite fold_push_components, E by auto. reflexivity.
Qed.

(** ** Meaning of the checker run on the implementation's answers *)
Lemma res_eqb_eq a b : res_eqb a b = true <-> a = b.
Proof.
  destruct a, b; cbn; try (split; congruence).
  - rewrite bytes_eqb_eq. split; congruence.
  - rewrite N.eqb_eq. split; congruence.
Qed.

Lemma forallb_Forall {A} (f : A -> bool) l : forallb f l = true <-> Forall (fun x => f x = true) l.
Proof. rewrite forallb_forall, Forall_forall. tauto. Qed.

Definition obs_prop (all : list obs) (o : obs) : Prop :=
  match o with
  | OToFs base p (Ok q) =>
      let names := repo_components p in
      Forall (fun n => good_name n = true) names /\
      (components q = components base ++ map Normal names
       \/ (base = [] /\ names = [] /\ q = [DOT])) /\
      (forall cwd r, In (OParse cwd base q r) all -> base_ok base = true ->
                     Forall (fun n => utf8_valid n = true) names -> r = Ok p)
  | OParse cwd base input (Ok p) =>
      Forall (fun n => good_name n = true) (repo_components p) /\
      is_valid_repo_path_str p = true /\
      (has_root base = true -> has_root (push cwd input) = true ->
       exists q, lookup_tofs all base p = Some (Ok q) /\
                 components q = normalize_comps (components (push cwd input)))
  | _ => True
  end.

Lemma obs_okb_spec all o : obs_okb all o = true <-> obs_prop all o.
Proof.
  destruct o as [s r|a b r|s r|s r|f t r|s r|cwd base input [p|e]|base p [q|e]];
    cbn [obs_okb obs_prop]; try (split; auto; fail).
  - (* OParse Ok *)
    rewrite !andb_true_iff, forallb_Forall, orb_true_iff, negb_true_iff. split.
    + intros [[F V] H]. repeat split; auto. intros Hb Ha.
      destruct H as [H|H]; [rewrite Hb, Ha in H; discriminate|].
      destruct (lookup_tofs all base p) as [[q|e]|]; try discriminate.
      exists q. split; auto. apply comps_eqb_eq; auto.
    + intros (F & V & H). repeat split; auto.
      destruct (has_root base && has_root (push cwd input)) eqn:E; [right|left; reflexivity].
      apply andb_true_iff in E as [Hb Ha]. destruct (H Hb Ha) as (q & -> & Hq).
      apply comps_eqb_eq; auto.
  - (* OToFs Ok *)
    rewrite !andb_true_iff, forallb_Forall, orb_true_iff, !andb_true_iff, comps_eqb_eq,
      !is_nil_true, bytes_eqb_eq, forallb_forall.
    split.
    + intros [[F C] H]. repeat split; auto.
      * destruct C as [C|[[A B] D]]; auto.
      * intros cwd r Hin Hbase U. specialize (H _ Hin). cbn in H.
        rewrite !bytes_eqb_refl, Hbase in H. cbn [andb] in H.
        apply forallb_Forall in U. rewrite U in H. cbn in H. apply res_eqb_eq in H. exact H.
    + intros (F & C & H). repeat split; auto.
      * destruct C as [C|(A & B & D)]; auto.
      * intros o' Hin. destruct o' as [| | | | | |cwd b i r|]; auto.
        destruct (bytes_eqb b base && bytes_eqb i q && base_ok base
                  && forallb utf8_valid (repo_components p)) eqn:E; [|reflexivity].
        cbn [negb orb]. apply andb_true_iff in E as [E U]. apply andb_true_iff in E as [E Hb].
        apply andb_true_iff in E as [E1 E2]. apply bytes_eqb_eq in E1, E2. subst b i.
        apply res_eqb_eq. apply (H cwd); auto. apply forallb_Forall; auto.
Qed.

Definition case_prop (c : case) : Prop :=
  c_panicked c = false /\ forall o, In o (c_obs c) -> obs_prop (c_obs c) o.

Lemma okb_spec c : okb c = true <-> case_prop c.
Proof.
  unfold okb, case_prop. rewrite andb_true_iff, negb_true_iff, forallb_forall.
  split; intros [A B]; split; auto; intros o Hin; apply obs_okb_spec; auto.
Qed.

Lemma base_ok_iff base : base_ok base = true <-> base_normalized base.
Proof. unfold base_ok, base_normalized. rewrite andb_true_iff, comps_eqb_eq. tauto. Qed.

(** ** The same statements for arbitrary valid repository path strings *)
Lemma valid_repo_path_iff p :
  is_valid_repo_path_str p = true <-> exists l, Forall comp_wf l /\ p = join_slash l.
Proof. split; [apply valid_repo_path_join | intros (l & W & ->); apply join_valid; auto]. Qed.

Lemma roundtrip_valid cwd base p q :
  has_root base = true -> normalize_comps (components base) = components base ->
  is_valid_repo_path_str p = true ->
  Forall (fun n => utf8_valid n = true) (repo_components p) ->
  to_fs_path base p = Ok q -> parse_fs_path cwd base q = Ok p.
Proof.
  intros Hr Hn V U H. apply valid_repo_path_join in V as (l & W & ->).
  rewrite repo_components_join in U by auto. eapply roundtrip; eauto. split; auto.
Qed.

Lemma roundtrip_relative_valid base p q :
  has_root base = true -> normalize_comps (components base) = components base ->
  is_valid_repo_path_str p = true ->
  Forall (fun n => utf8_valid n = true) (repo_components p) ->
  to_fs_path [] p = Ok q -> parse_fs_path base base q = Ok p.
Proof.
  intros Hr Hn V U H. apply valid_repo_path_join in V as (l & W & ->).
  rewrite repo_components_join in U by auto. eapply roundtrip_relative; eauto. split; auto.
Qed.

Lemma confined_valid base p q :
  is_valid_repo_path_str p = true -> to_fs_path base p = Ok q ->
  Forall (fun n => good_name n = true) (repo_components p) /\
  ((base = [] /\ p = [] /\ q = [DOT]) \/
   (components q = components base ++ map Normal (repo_components p) /\ exists x, q = base ++ x)).
Proof.
  intros V H. apply valid_repo_path_join in V as (l & W & ->).
  rewrite repo_components_join by auto.
  destruct (to_fs_path_confined _ _ _ W H) as [F [(-> & -> & ->) | C]]; split; auto.
Qed.

Lemma confined_normalized_valid base p q :
  is_valid_repo_path_str p = true -> to_fs_path base p = Ok q ->
  rev (fold_left norm_step (components q) []) =
  rev (fold_left norm_step (components base) []) ++ map Normal (repo_components p).
Proof.
  intros V H. apply valid_repo_path_join in V as (l & W & ->).
  rewrite repo_components_join by auto. apply to_fs_path_confined_normalized; auto.
Qed.

Lemma rejects_valid base p :
  is_valid_repo_path_str p = true ->
  ((exists e, to_fs_path base p = Err e) <->
   Exists (fun n => n = [DOT] \/ n = [DOT; DOT]) (repo_components p)).
Proof.
  intros V. apply valid_repo_path_join in V as (l & W & ->).
  rewrite repo_components_join by auto. apply to_fs_path_join_Err; auto.
Qed.

Lemma parse_no_bad_components_valid cwd base input p :
  parse_fs_path cwd base input = Ok p ->
  is_valid_repo_path_str p = true /\
  Forall (fun n => good_name n = true) (repo_components p) /\
  Forall (fun n => utf8_valid n = true) (repo_components p).
Proof.
  intros H. destruct (parse_no_bad_components _ _ _ _ H) as (l & -> & G & U).
  assert (W : Forall comp_wf l) by (eapply Forall_impl; [|exact G]; apply good_name_wf).
  rewrite repo_components_join by auto. split; auto using join_valid.
Qed.

(** ** [normalize_path] is idempotent (so "normalized base" = "an output of normalize_path") *)
Inductive stk2 : list comp -> Prop :=
| s2_nil : stk2 []
| s2_root : stk2 [Root]
| s2_parent s : stk2 s -> match s with Normal _ :: _ => False | _ => True end ->
                stk2 (ParentDir :: s)
| s2_normal n s : stk2 s -> stk2 (Normal n :: s).

Lemma norm_step_stk2 stk c : stk2 stk -> stk2 (norm_step stk c).
Proof.
  intros H. destruct c; cbn.
  - constructor.
  - exact H.
  - destruct stk as [|[| | |n] t]; try (constructor; [exact H|exact I]). inversion H; auto.
  - constructor; auto.
Qed.

Lemma norm_fold_stk2 l stk : stk2 stk -> stk2 (fold_left norm_step l stk).
Proof.
  revert stk; induction l as [|c l IH]; intros stk H; cbn; auto. apply IH, norm_step_stk2, H.
Qed.

Lemma renormalize_stack s : stk2 s -> fold_left norm_step (rev s) [] = s.
Proof.
  induction 1 as [| |s H IH Hc|n s H IH]; cbn [rev].
  - reflexivity.
  - reflexivity.
  - rewrite fold_left_app, IH. cbn. destruct s as [|[| | |n] t]; try reflexivity. contradiction.
  - rewrite fold_left_app, IH. reflexivity.
Qed.

Lemma normalize_comps_idem l : normalize_comps (normalize_comps l) = normalize_comps l.
Proof.
  unfold normalize_comps at 2 3.
  pose proof (norm_fold_stk2 l [] s2_nil) as H.
  destruct (rev (fold_left norm_step l [])) as [|c r] eqn:E; [reflexivity|].
  unfold normalize_comps. rewrite <- E, renormalize_stack by exact H. rewrite E. reflexivity.
Qed.

Lemma normalize_path_idem s : normalize_path (normalize_path s) = normalize_path s.
Proof.
  unfold normalize_path at 1. rewrite components_normalize_path, normalize_comps_idem. reflexivity.
Qed.
