(** Layer A, part 3: [diff_regions], [refine] and [run_steps] produce, for every valid
    matching function, a compacted chain of regions spanning every input, whose inner
    regions are non-empty. *)
From Coq Require Import Lia Arith Sorted.
From Verif Require Import Base.Prelude Model.Diff Proofs.DiffBase Proofs.DiffA Proofs.DiffA2.

(** * A sufficient condition for "only the first and last compacted regions may be empty" *)
Fixpoint G (prev : region) (l : list region) : Prop :=
  match l with
  | [] => True
  | x :: t =>
      match t with
      | [] => True
      | y :: t' => (ne x \/ adjb prev x = true \/ (adjb x y = true /\ (ne y \/ t' = []))) /\ G x t
      end
  end.

Lemma G_tail p x t : G p (x :: t) -> G x t.
Proof. destruct t; cbn; tauto. Qed.

Lemma chain_from_merge prev cur t :
  rle prev cur -> chain_from cur t -> chain_from (merge_region prev cur) t.
Proof.
  intros H1 H3. pose proof (rle_length _ _ H1) as L.
  destruct t as [|x t']; [exact I|]. destruct H3 as (A & B & C). repeat split; auto.
  unfold rle. now rewrite merge_ends.
Qed.

Lemma groups_ok_G : forall l fe acc x0,
  ends acc = ends x0 -> rwf acc -> chain_from acc l -> G x0 l ->
  (fe = true \/ ne acc \/
   match l with y :: t' => adjb acc y = true /\ (ne y \/ t' = []) | [] => True end) ->
  groups_ok fe acc l.
Proof.
  induction l as [|y t IH]; intros fe acc x0 He Hw Hc Hg Hi; cbn [groups_ok]; [exact I|].
  destruct Hc as (H1 & H2 & H3). pose proof (rle_length _ _ H1) as L.
  destruct (adjb acc y) eqn:E.
  - apply (IH fe _ y).
    + now apply merge_ends.
    + now apply merge_rwf.
    + now apply chain_from_merge.
    + eapply G_tail; eauto.
    + destruct Hi as [Hi|[Hi|(_ & [Hi|Hi])]].
      * now left.
      * right; left. now apply ne_merge_l.
      * right; left. now apply ne_merge_r.
      * subst t. right; right. exact I.
  - split.
    + destruct Hi as [Hi|[Hi|(Hi & _)]]; auto. congruence.
    + apply (IH false y y); auto.
      * eapply G_tail; eauto.
      * destruct t as [|z t']; [right; right; exact I|].
        cbn [G] in Hg. destruct Hg as ([Hg|[Hg|Hg]] & _).
        -- right; now left.
        -- rewrite (adjb_ends_ext acc x0 y He) in E. congruence.
        -- right; right. exact Hg.
Qed.

Lemma mid_ok_tail fe x t : mid_ok fe (x :: t) -> mid_ok false t.
Proof. destruct t; cbn; tauto. Qed.

Lemma G_of_mid_ok : forall l prev, mid_ok false l -> G prev l.
Proof.
  induction l as [|x t IH]; intros prev H; [exact I|]. cbn [G]. destruct t as [|y t']; [exact I|].
  cbn [mid_ok] in H. destruct H as ([H|H] & H'); [discriminate|]. split; [now left|now apply IH].
Qed.

Lemma G_block u B : forall A fe p,
  match A with [] => True | a :: A' => ne a \/ adjb p a = true \/ A' = [] end ->
  mid_ok fe A -> adjb (last A p) u = true -> (ne u \/ B = []) -> G u B ->
  G p (A ++ u :: B).
Proof.
  induction A as [|a A' IH]; intros fe p Hc Hm Ha Hu Hg; cbn [app].
  - cbn [G]. destruct B as [|y t']; [exact I|]. split; [|exact Hg].
    destruct Hu as [Hu|Hu]; [now left|discriminate].
  - rewrite last_cons_last in Ha.
    assert (Hrest : G a (A' ++ u :: B)).
    { apply (IH false); auto.
      - destruct A' as [|a' A'']; [exact I|]. cbn [mid_ok] in Hm. destruct Hm as (_ & Hm).
        destruct A'' as [|a'' A''']; [now right; right|].
        cbn [mid_ok] in Hm. destruct Hm as ([Hm|Hm] & _); [discriminate|now left].
      - destruct A' as [|a' A'']; [exact I|]. cbn [mid_ok] in Hm. tauto. }
    destruct A' as [|a' A''].
    + cbn [app] in *. cbn [G]. split; [|exact Hrest]. right; right. cbn [last] in Ha. auto.
    + cbn [app] in *. cbn [G]. split; [|exact Hrest].
      destruct Hc as [Hc|[Hc|Hc]]; [now left|right; now left|discriminate].
Qed.

(** * Shifting a region list by the ends of a region *)
Lemma shift_length u r : length r = length u -> length (shift_region u r) = length u.
Proof. intros H. unfold shift_region. rewrite map2_length. lia. Qed.

Lemma shift_rwf u r : length r = length u -> rwf r -> rwf (shift_region u r).
Proof.
  unfold rwf, starts, ends, shift_region, vle. revert r; induction u as [|p u IH]; intros [|a r] H W;
    cbn in *; try discriminate; [constructor|].
  inversion W; subst. constructor; [lia|]. apply IH; auto.
Qed.

Lemma shift_rle u r1 r2 :
  length r1 = length u -> length r2 = length u -> rle r1 r2 ->
  rle (shift_region u r1) (shift_region u r2).
Proof.
  unfold rle, starts, ends, shift_region, vle. revert r1 r2; induction u as [|p u IH];
    intros [|a r1] [|b r2] H1 H2 W; cbn in *; try discriminate; [constructor|].
  inversion W; subst. constructor; [lia|]. apply IH; auto.
Qed.

Lemma shift_adjb u r1 r2 :
  length r1 = length u -> length r2 = length u ->
  adjb (shift_region u r1) (shift_region u r2) = adjb r1 r2.
Proof.
  unfold adjb, shift_region. revert r1 r2; induction u as [|p u IH];
    intros [|a r1] [|b r2] H1 H2; cbn in *; try discriminate; [reflexivity|].
  rewrite IH by lia. f_equal. destruct (snd a =? fst b) eqn:E.
  - apply Nat.eqb_eq in E. apply Nat.eqb_eq. lia.
  - apply Nat.eqb_neq in E. apply Nat.eqb_neq. lia.
Qed.

Lemma shift_all_emptyb u r : length r = length u -> all_emptyb (shift_region u r) = all_emptyb r.
Proof.
  unfold all_emptyb, shift_region. revert r; induction u as [|p u IH]; intros [|a r] H;
    cbn in *; try discriminate; [reflexivity|].
  rewrite IH by lia. f_equal. destruct (fst a =? snd a) eqn:E.
  - apply Nat.eqb_eq in E. apply Nat.eqb_eq. lia.
  - apply Nat.eqb_neq in E. apply Nat.eqb_neq. lia.
Qed.

Lemma shift_starts_zero {X} u r (l : list X) :
  length r = length u -> starts r = map (fun _ => 0) l -> starts (shift_region u r) = ends u.
Proof.
  unfold starts, ends, shift_region. revert r l; induction u as [|p u IH]; intros [|a r] [|x l] H Z;
    cbn in *; try discriminate; [reflexivity|].
  injection Z as Z1 Z2. rewrite Z1. f_equal. eapply IH; eauto.
Qed.

(** When [r] ends at the lengths of the slices between [u] and [c], its shift ends at the
    starts of [c]. *)
Lemma shift_ends_len u c r :
  length r = length u -> length c = length u -> rle u c ->
  ends r = map2 (fun p q => fst q - snd p) u c -> ends (shift_region u r) = starts c.
Proof.
  unfold rle, vle, starts, ends, shift_region. revert r c; induction u as [|p u IH];
    intros [|a r] [|q c] H1 H2 W Z; cbn in *; try discriminate; [reflexivity|].
  inversion W; subst. injection Z as Z1 Z2. f_equal; [lia|]. apply IH; auto.
Qed.

Lemma shift_chain u : forall l p,
  length p = length u -> chain_from p l ->
  chain_from (shift_region u p) (map (shift_region u) l).
Proof.
  induction l as [|x l IH]; intros p Hp Hc; cbn [map chain_from]; [exact I|].
  destruct Hc as (H1 & H2 & H3). pose proof (rle_length _ _ H1) as L.
  repeat split.
  - apply shift_rle; auto; lia.
  - apply shift_rwf; auto; lia.
  - apply IH; auto; lia.
Qed.

Lemma shift_nonadj u : forall l p,
  length p = length u -> chain_from p l -> nonadj_from p l ->
  nonadj_from (shift_region u p) (map (shift_region u) l).
Proof.
  induction l as [|x l IH]; intros p Hp Hc Hn; cbn [map nonadj_from]; [exact I|].
  destruct Hc as (H1 & H2 & H3). pose proof (rle_length _ _ H1) as L. destruct Hn as (N1 & N2).
  split; [rewrite shift_adjb; auto; lia|apply IH; auto; lia].
Qed.

Lemma shift_mid_ok u : forall l fe,
  Forall (fun r => length r = length u) l -> mid_ok fe l -> mid_ok fe (map (shift_region u) l).
Proof.
  induction l as [|x l IH]; intros fe Hl Hm; cbn [map]; [exact I|].
  inversion Hl; subst. destruct l as [|y l']; [exact I|].
  cbn [mid_ok map] in *. destruct Hm as (A & B). split.
  - destruct A as [A|A]; [now left|right]. unfold ne in *. now rewrite shift_all_emptyb.
  - now apply IH.
Qed.

Lemma last_in {A} (l : list A) d : In (last l d) (d :: l).
Proof.
  revert d; induction l as [|x l IH]; intros d; [now left|].
  rewrite last_cons_last. right. apply IH.
Qed.

Lemma last_map {A B} (f : A -> B) l d : last (map f l) (f d) = f (last l d).
Proof.
  revert d; induction l as [|x l IH]; intros d; [reflexivity|].
  cbn [map]. rewrite !last_cons_last. apply IH.
Qed.

(** * The assembly, for every valid matching function *)
Definition zeros_of (inputs : list bytes) : list nat := map (fun _ => 0) inputs.
Definition lens_of (inputs : list bytes) : list nat := map (@length N) inputs.

(** Compacted chain spanning the inputs whose inner regions are non-empty. *)
Definition good (inputs : list bytes) (l : list region) : Prop :=
  span (zeros_of inputs) (lens_of inputs) l
  /\ match l with [] => False | u0 :: rest => nonadj_from u0 rest end
  /\ mid_ok true l.

Lemma words_length c x rs : length (words c x rs) = length rs.
Proof. apply map_length. Qed.

Lemma span_lengths lo hi l : span lo hi l -> Forall (fun r => length r = length lo) l.
Proof.
  destruct l as [|u0 rest]; [intros []|]. intros (W & C & S & E).
  assert (length u0 = length lo) by (rewrite <- S; symmetry; apply starts_length).
  constructor; [assumption|]. rewrite <- H. now apply chain_from_length.
Qed.

Section LayerA.
  Variable M : list bytes -> list bytes -> list (nat * nat).
  Hypothesis M_valid : forall a b, valid_matching (length a) (length b) (M a b).

  Lemma compact_good inputs l :
    span (zeros_of inputs) (lens_of inputs) l ->
    match l with [] => False | u0 :: rest => G u0 rest end ->
    good inputs (compact l).
  Proof.
    intros Hs Hg. destruct (compact_span _ _ _ Hs) as (S & N). repeat split; auto.
    destruct l as [|u0 rest]; [destruct Hs|]. cbn [compact].
    destruct Hs as (W & C & _). apply mid_ok_compact_go.
    apply (groups_ok_G rest true u0 u0); auto.
  Qed.

  Lemma diff_regions_good tok cmp inputs :
    inputs <> [] -> good inputs (diff_regions M tok cmp inputs).
  Proof.
    destruct inputs as [|base others]; [congruence|]. intros _.
    unfold diff_regions.
    set (any_empty := existsb is_nil (base :: others)).
    set (ranges_of := fun x : bytes => if any_empty then [] else tokenize tok x).
    assert (RW : forall x, ranges_from 0 (ranges_of x) (length x)).
    { intros x. unfold ranges_of. destruct any_empty; [cbn; lia|apply tokenize_wf]. }
    destruct others as [|first tail].
    - apply compact_good; [|exact I]. cbn. repeat split; auto.
      unfold rwf, starts, ends, vle. cbn. constructor; [lia|constructor].
    - set (others := first :: tail) in *.
      set (bw := words cmp base (ranges_of base)).
      set (m_of := fun o => M bw (words cmp o (ranges_of o))).
      set (entries := fold_left _ tail _).
      set (nb := length (ranges_of base)).
      assert (Hm : forall o, valid_matching nb (length (ranges_of o)) (m_of o)).
      { intros o. unfold m_of, nb. rewrite <- (words_length cmp base), <- (words_length cmp o (ranges_of o)).
        apply M_valid. }
      assert (He : entries_ok nb (map (@length _) (map ranges_of others)) entries).
      { unfold entries, others.
        assert (Gn : forall tl done es,
                   entries_ok nb (map (@length _) (map ranges_of done)) es ->
                   entries_ok nb (map (@length _) (map ranges_of (done ++ tl)))
                              (fold_left (fun cur o => intersect cur (m_of o)) tl es)).
        { induction tl as [|o tl IH]; intros done es H; cbn [fold_left].
          - now rewrite app_nil_r.
          - replace (done ++ o :: tl) with ((done ++ [o]) ++ tl) by now rewrite <- app_assoc.
            apply IH. rewrite !map_app. cbn [map]. apply intersect_ok; auto. }
        apply (Gn tail [first]). cbn [map]. apply entries_ok_init. apply Hm. }
      destruct He as (He1 & He2).
      pose proof (regions_span (ranges_of base) (map ranges_of others) (length base)
                               (map (@length N) others) (RW base)) as RS.
      assert (OW : Forall2 (fun rs len => ranges_from 0 rs len) (map ranges_of others)
                           (map (@length N) others)).
      { generalize others. intros l. induction l; cbn; constructor; auto. }
      specialize (RS OW entries He1 He2). destruct RS as (RS & RM).
      unfold rof, zeros, lens in RS, RM. rewrite !map_map in RS, RM.
      cbn [map]. apply compact_good.
      + unfold zeros_of, lens_of. cbn [map app] in *.
        replace (0 :: map (fun _ => 0) others) with
            (starts ((0, 0) :: map (fun _ : list N => (0, 0)) others))
          by (unfold starts; cbn [map fst]; now rewrite map_map).
        replace (length base :: map (@length N) others) with
            (ends ((length base, length base) :: map (fun x : list N => (length x, length x)) others))
          by (unfold ends; cbn [map snd]; now rewrite map_map).
        exact RS.
      + cbn [app] in *. apply G_of_mid_ok. eapply mid_ok_tail. exact RM.
  Qed.

  Lemma contents_length inputs r : length r = length inputs -> length (contents inputs r) = length inputs.
  Proof. intros H. unfold contents. rewrite map2_length. unfold bytes in *. lia. Qed.

  Lemma contents_between_lens : forall inputs u c,
    length u = length inputs -> length c = length inputs -> rle u c ->
    vle (starts c) (lens_of inputs) ->
    lens_of (contents inputs (between u c)) = map2 (fun p q => fst q - snd p) u c.
  Proof.
    unfold lens_of, contents, between, rle, vle, starts, ends.
    induction inputs as [|x inputs IH]; intros [|p u] [|q c] H1 H2 W B; cbn in *; try discriminate;
      [reflexivity|].
    inversion W; subst. inversion B; subst. f_equal; [apply slice_length; assumption|].
    apply IH; auto.
  Qed.

  Lemma refine_go_facts tok cmp inputs : inputs <> [] -> forall rest u,
    length u = length inputs -> rwf u -> chain_from u rest ->
    vle (ends (last rest u)) (lens_of inputs) -> nonadj_from u rest -> mid_ok false rest ->
    chain_from u (refine_go M tok cmp inputs u rest)
    /\ last (refine_go M tok cmp inputs u rest) u = last rest u
    /\ G u (refine_go M tok cmp inputs u rest).
  Proof.
    intros Hne. induction rest as [|cur rest' IH]; intros u Lu Wu Hc Hb Hn Hm; cbn [refine_go].
    - repeat split.
    - destruct Hc as (H1 & H2 & H3). destruct Hn as (N1 & N2). pose proof (rle_length _ _ H1) as L.
      rewrite last_cons_last in Hb.
      assert (Bc : vle (starts cur) (lens_of inputs)).
      { destruct (chain_from_bounds cur rest' H2 H3) as (_ & B).
        eapply vle_trans; [exact H2|]. eapply vle_trans; [exact B|exact Hb]. }
      set (ii := contents inputs (between u cur)).
      assert (Lii : length ii = length inputs).
      { unfold ii. apply contents_length. rewrite between_length; auto. }
      assert (Hii : ii <> []) by (destruct ii; [destruct inputs; [congruence|discriminate]|discriminate]).
      destruct (diff_regions_good tok cmp ii Hii) as (S & NA & MO).
      pose proof (span_lengths _ _ _ S) as SL.
      destruct (diff_regions M tok cmp ii) as [|a0 arest]; [destruct S|].
      destruct S as (Wa & Ca & Sa & Ea).
      assert (La : forall r, In r (a0 :: arest) -> length r = length u).
      { intros r Hr. rewrite Forall_forall in SL. rewrite (SL r Hr). unfold zeros_of.
        rewrite map_length. lia. }
      assert (La0 : length a0 = length u) by (apply La; now left).
      assert (Lal : length (last arest a0) = length u).
      { apply La. apply last_in. }
      assert (St : starts (shift_region u a0) = ends u).
      { eapply shift_starts_zero; eauto. }
      assert (En : ends (shift_region u (last arest a0)) = starts cur).
      { apply shift_ends_len; auto; try lia. rewrite Ea. unfold ii.
        apply contents_between_lens; auto; lia. }
      destruct (IH cur) as (IHc & IHl & IHg); auto; try lia.
      { eapply mid_ok_tail; eauto. }
      cbn [map].
      assert (LastA : last (map (shift_region u) arest) (shift_region u a0)
                      = shift_region u (last arest a0)) by apply last_map.
      split; [|split].
      + change (chain_from u ((shift_region u a0 :: map (shift_region u) arest) ++
                              cur :: refine_go M tok cmp inputs cur rest')).
        apply chain_from_app; auto.
        * cbn [chain_from]. repeat split.
          -- unfold rle. rewrite St. apply vle_refl.
          -- now apply shift_rwf.
          -- now apply shift_chain.
        * rewrite last_cons_last, LastA. unfold rle. rewrite En. apply vle_refl.
      + change (last ((shift_region u a0 :: map (shift_region u) arest) ++
                      cur :: refine_go M tok cmp inputs cur rest') u = last (cur :: rest') u).
        rewrite last_app_cons, last_cons_last. exact IHl.
      + change (G u ((shift_region u a0 :: map (shift_region u) arest) ++
                     cur :: refine_go M tok cmp inputs cur rest')).
        apply (G_block cur _ _ true); auto.
        * right; left. apply adjb_true_iff; [rewrite shift_length; auto|now rewrite St].
        * change (mid_ok true (map (shift_region u) (a0 :: arest))). apply shift_mid_ok; auto.
          apply Forall_forall. exact La.
        * rewrite last_cons_last, LastA. apply adjb_true_iff; [rewrite shift_length; auto; lia|exact En].
        * destruct rest' as [|c2 r2]; [now right|left].
          cbn [mid_ok] in Hm. destruct Hm as ([Hm|Hm] & _); [discriminate|exact Hm].
  Qed.

  Lemma refine_good tok cmp inputs l :
    inputs <> [] -> good inputs l -> good inputs (refine M tok cmp inputs l).
  Proof.
    intros Hne (S & NA & MO). destruct l as [|u0 rest]; [destruct S|]. unfold refine.
    destruct S as (W & C & Sx & E).
    assert (Lu : length u0 = length inputs).
    { rewrite <- (starts_length u0), Sx. unfold zeros_of. now rewrite map_length. }
    destruct (refine_go_facts tok cmp inputs Hne rest u0) as (RC & RL & RG); auto.
    - rewrite E. apply vle_refl.
    - eapply mid_ok_tail; eauto.
    - apply compact_good; [|exact RG]. cbn [span]. repeat split; auto. now rewrite RL.
  Qed.

  Lemma run_steps_good s inputs :
    inputs <> [] -> s <> [] -> good inputs (run_steps M s inputs).
  Proof.
    intros Hne Hs. destruct s as [|[t c] rest]; [congruence|]. unfold run_steps.
    assert (H0 : good inputs (diff_regions M t c inputs)) by now apply diff_regions_good.
    revert H0. generalize (diff_regions M t c inputs). clear Hs. induction rest as [|[t' c'] rest IH];
      intros l Hl; cbn [fold_left fst snd]; [exact Hl|].
    apply IH. apply refine_good; assumption.
  Qed.
End LayerA.
