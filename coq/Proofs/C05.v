(** C05, part 5: the statement-level hypotheses, the marker-length chooser, soundness of the
    boolean hypothesis checkers evaluated on every correspondence case, checker spec. *)
From Coq Require Import Lia.
From Verif Require Import Base.Prelude Gen.Tables Model.Merge Model.Conflicts Model.C05.
From Verif Require Import Proofs.C05Lines Proofs.C05Hunk Proofs.C05Jj Proofs.C05Top.
Local Open Scope N_scope.

(* ------------------------------------------------------------------ declarative hypotheses *)

(** The line-diff oracle partitions its inputs at line boundaries, and matching pieces are
    equal (what C03 proves of [ContentDiff::by_line] for two inputs). *)
Definition DiffOk (D : bytes -> bytes -> list dhunk) : Prop :=
  forall a b, lc a -> lc b -> pieces_ok a b (D a b).

Definition EolOk (eol : bytes) : Prop := eol = [LF] \/ eol = [CR; LF].

(** Labels contain no LF and do not end in CR. *)
Definition LabelsOk (labels : list bytes) : Prop := Forall lab_ok labels.

(** No line of any term is a marker of length [>= L - 1], and [L >= 2]. *)
Definition Dominated (L : nat) (hs : list (list (list N))) : Prop :=
  (2 <= L)%nat /\
  forall h t l k m, In h hs -> In t h -> In l (lines t) ->
                    marker_any_len l = Some (k, m) -> (Datatypes.S m < L)%nat.

(** The shape of a [files::merge_hunks] conflict result: every hunk is resolved or a merge
    of [n] sides, at least one is a conflict, resolved hunks are non-empty and coalesced,
    and an unterminated term can only occur in the last hunk. *)
Definition WfHunks (n : nat) (hs : list (list (list N))) : Prop :=
  (forall h, In h hs ->
     is_resolved h = true \/ (Nat.odd (length h) = true /\ num_sides h = n)) /\
  (exists h, In h hs /\ is_resolved h = false) /\
  resolved_ok false hs /\ nonlast_lc hs.

Theorem roundtrip_main D L n eol st_ labels hs :
  DiffOk D -> EolOk eol -> LabelsOk labels -> WfHunks n hs -> Dominated L hs ->
  parse_conflict (materialize_conflict_hunks D eol L hs st_ labels) n L = Some hs.
Proof.
  intros HD He Hl [Hshape [Hex [Hres Hnl]]] [HL Hdom].
  apply (roundtrip D L HL eol He HD n st_ labels Hl hs); try assumption.
  rewrite Forall_forall. intros h Hh. split; [|apply Hshape; exact Hh].
  rewrite Forall_forall. intros t Ht. unfold dom_all. rewrite Forall_forall. intros l Hlin k m E.
  exact (Hdom h t l k m Hh Ht Hlin E).
Qed.

(* ------------------------------------------------------------------ the chooser *)

Lemma fold_max_ge (l : list nat) : forall a x : nat,
  ((x <= a)%nat \/ In x l) -> (x <= fold_left Nat.max l a)%nat.
Proof.
  induction l as [|y l IH]; intros a x H; cbn [fold_left].
  - destruct H as [H|[]]. exact H.
  - apply IH. destruct H as [H|[H|H]]; [left; lia|left; subst; lia|right; exact H].
Qed.

Lemma max_marker_len_ge files f l k m :
  In f files -> In l (lines f) -> marker_any_len l = Some (k, m) ->
  (m <= max_marker_len files)%nat.
Proof.
  intros Hf Hl E. unfold max_marker_len. apply fold_max_ge. right.
  apply in_flat_map. exists f. split; [exact Hf|].
  apply in_flat_map. exists l. split; [exact Hl|]. rewrite E. left. reflexivity.
Qed.

Lemma increment_ge_2 : (2 <= N.to_nat CONFLICT_MARKER_LEN_INCREMENT)%nat.
Proof. vm_compute. repeat constructor. Qed.
Lemma min_len_ge_2 : (2 <= N.to_nat MIN_CONFLICT_MARKER_LEN)%nat.
Proof. vm_compute. repeat constructor. Qed.

(** [t] is a part of [f] that starts at a line boundary and ends at a line boundary or at
    the end of [f]. *)
Definition AlignedSlice (t f : bytes) : Prop :=
  exists p q, f = p ++ t ++ q /\ lc p /\ (lc t \/ q = []).

Lemma aligned_slice_lines t f l : AlignedSlice t f -> In l (lines t) -> In l (lines f).
Proof.
  intros [p [q [-> [Hp Hq]]]] Hl. rewrite lines_app by exact Hp. apply in_or_app. right.
  destruct Hq as [Ht| ->].
  - rewrite lines_app by exact Ht. apply in_or_app. left. exact Hl.
  - rewrite app_nil_r. exact Hl.
Qed.

(** Every line of every hunk term is a line of some input. True of line-level merges
    (C03/C04 partition): conflict terms are line-aligned slices of the inputs, resolved hunks
    are concatenations of line-aligned slices, possibly of different inputs. *)
Definition LinesOf (files : list bytes) (hs : list (list (list N))) : Prop :=
  forall h t l, In h hs -> In t h -> In l (lines t) -> exists f, In f files /\ In l (lines f).

Theorem chooser_dominates files hs :
  LinesOf files hs -> Dominated (choose_marker_len files) hs.
Proof.
  intros Hs. unfold choose_marker_len. split.
  - pose proof min_len_ge_2. lia.
  - intros h t l k m Hh Ht Hl E. destruct (Hs h t l Hh Ht Hl) as [f [Hf Hlf]].
    pose proof (max_marker_len_ge files f l k m Hf Hlf E).
    pose proof increment_ge_2. lia.
Qed.

(** A term assembled from line-aligned slices of inputs consists of lines of inputs. *)
Lemma concat_slices_lines files pieces l :
  Forall (fun p => exists f, In f files /\ AlignedSlice p f) pieces ->
  Forall lc (removelast pieces) ->
  In l (lines (concat pieces)) -> exists f, In f files /\ In l (lines f).
Proof.
  induction pieces as [|p ps IH]; intros Hp Hlc Hl; [destruct Hl|].
  inversion Hp as [|? ? [f [Hf Ha]] Hps]; subst. cbn [concat] in Hl.
  destruct ps as [|p2 ps'].
  - cbn [concat] in Hl. rewrite app_nil_r in Hl. exists f. split; [exact Hf|].
    exact (aligned_slice_lines p f l Ha Hl).
  - cbn [removelast] in Hlc. inversion Hlc as [|? ? Hlcp Hlcr]; subst.
    rewrite lines_app in Hl by exact Hlcp. apply in_app_or in Hl. destruct Hl as [Hl|Hl].
    + exists f. split; [exact Hf|exact (aligned_slice_lines p f l Ha Hl)].
    + apply IH; assumption.
Qed.

(* ------------------------------------------------------------------ boolean reflection *)

Lemma list_eqb_eq {A} (eqb : A -> A -> bool) :
  (forall x y, eqb x y = true <-> x = y) ->
  forall l1 l2, list_eqb eqb l1 l2 = true <-> l1 = l2.
Proof.
  intros H. induction l1 as [|x l1 IH]; intros [|y l2]; cbn; split; intros E;
    try reflexivity; try discriminate.
  - apply andb_prop in E. destruct E as [E1 E2]. apply H in E1. apply IH in E2. congruence.
  - injection E as -> ->. apply andb_true_intro. split; [apply H; reflexivity|apply IH; reflexivity].
Qed.

Lemma bytes_eqb_eq (a b : bytes) : bytes_eqb a b = true <-> a = b.
Proof. apply list_eqb_eq. intros x y. apply N.eqb_eq. Qed.
Lemma hunk_eqb_eq (a b : list (list N)) : hunk_eqb a b = true <-> a = b.
Proof. apply list_eqb_eq. exact bytes_eqb_eq. Qed.
Lemma hunks_eqb_eq (a b : list (list (list N))) : hunks_eqb a b = true <-> a = b.
Proof. apply list_eqb_eq. exact hunk_eqb_eq. Qed.

Lemma option_hunks_eqb_eq (a b : option (list (list (list N)))) :
  option_eqb hunks_eqb a b = true <-> a = b.
Proof.
  destruct a, b; cbn; split; intros E; try reflexivity; try discriminate.
  - apply hunks_eqb_eq in E. congruence.
  - injection E as ->. apply hunks_eqb_eq. reflexivity.
Qed.

Lemma line_dominatedb_sound L l : line_dominatedb L l = true -> dom L l.
Proof.
  unfold line_dominatedb. intros H k m E. rewrite E in H. apply Nat.ltb_lt in H. exact H.
Qed.

Lemma hunks_dominatedb_sound L hs : hunks_dominatedb L hs = true -> Dominated L hs.
Proof.
  unfold hunks_dominatedb. intros H. apply andb_prop in H. destruct H as [H1 H2].
  apply Nat.leb_le in H1. split; [exact H1|].
  intros h t l k m Hh Ht Hl E. rewrite forallb_forall in H2. specialize (H2 h Hh).
  rewrite forallb_forall in H2. specialize (H2 t Ht). unfold dominatedb in H2.
  rewrite forallb_forall in H2. exact (line_dominatedb_sound L l (H2 l Hl) k m E).
Qed.

Lemma label_okb_sound l : label_okb l = true -> lab_ok l.
Proof.
  unfold label_okb. intros H. apply andb_prop in H. destruct H as [H1 H2]. split.
  - intros Hin. apply negb_true_iff in H1. unfold mem in H1.
    assert (existsb (N.eqb LF) l = true); [|congruence].
    apply existsb_exists. exists LF. split; [exact Hin|apply N.eqb_refl].
  - destruct (last_opt l) as [b|]; [|discriminate]. intros E. injection E as ->.
    rewrite N.eqb_refl in H2. discriminate.
Qed.

Lemma labels_okb_sound labels : forallb label_okb labels = true -> LabelsOk labels.
Proof.
  intros H. unfold LabelsOk. rewrite Forall_forall. intros l Hl.
  rewrite forallb_forall in H. apply label_okb_sound, H, Hl.
Qed.

Lemma nonlast_ends_okb_sound hs : nonlast_ends_okb hs = true -> nonlast_lc hs.
Proof.
  induction hs as [|h t IH]; [intros; exact I|].
  destruct t as [|h2 t']; [intros; exact I|].
  intros H. change (forallb ends_ok h && nonlast_ends_okb (h2 :: t') = true) in H.
  apply andb_prop in H. destruct H as [H1 H2].
  change (Forall lc h /\ nonlast_lc (h2 :: t')). split; [|apply IH; exact H2].
  rewrite Forall_forall. rewrite forallb_forall in H1. exact H1.
Qed.

Lemma resolved_okb_sound hs : forall prev,
  resolved_okb prev hs = true -> resolved_ok prev hs.
Proof.
  induction hs as [|h t IH]; intros prev H; [exact I|].
  destruct h as [|c [|c2 r]]; cbn [resolved_okb resolved_ok] in *.
  - apply IH. exact H.
  - apply andb_prop in H. destruct H as [H H3]. apply andb_prop in H. destruct H as [H1 H2].
    split; [destruct prev; [discriminate|reflexivity]|]. split; [|apply IH; exact H3].
    intros ->. discriminate.
  - apply IH. exact H.
Qed.

Lemma wf_hunksb_sound n hs : wf_hunksb n hs = true -> WfHunks n hs.
Proof.
  unfold wf_hunksb. intros H.
  apply andb_prop in H. destruct H as [H H5]. apply andb_prop in H. destruct H as [H H4].
  apply andb_prop in H. destruct H as [H H3]. apply andb_prop in H. destruct H as [_ H2].
  split; [|split; [|split]].
  - intros h Hh. rewrite forallb_forall in H2. specialize (H2 h Hh).
    apply orb_prop in H2. destruct H2 as [H2|H2]; [left; exact H2|right].
    apply andb_prop in H2. destruct H2 as [Ho Hn]. apply Nat.eqb_eq in Hn. auto.
  - apply existsb_exists in H3. destruct H3 as [h [Hh Hr]]. exists h. split; [exact Hh|].
    apply negb_true_iff in Hr. exact Hr.
  - apply resolved_okb_sound. exact H4.
  - apply nonlast_ends_okb_sound. exact H5.
Qed.

Lemma pieces_okb_sound a b ds : pieces_okb a b ds = true -> pieces_ok a b ds.
Proof.
  unfold pieces_okb. intros H. apply andb_prop in H. destruct H as [H H3].
  apply andb_prop in H. destruct H as [H1 H2].
  apply bytes_eqb_eq in H1. apply bytes_eqb_eq in H2. split; [exact H1|]. split; [exact H2|].
  rewrite Forall_forall. rewrite forallb_forall in H3. intros d Hd. specialize (H3 d Hd).
  apply andb_prop in H3. destruct H3 as [H3 H6]. apply andb_prop in H3. destruct H3 as [H4 H5].
  split; [exact H4|]. split; [exact H5|]. intros Hm. rewrite Hm in H6. cbn in H6.
  apply bytes_eqb_eq. exact H6.
Qed.

Lemma lookup_diff_ok tbl : diffs_okb tbl = true -> DiffOk (lookup_diff tbl).
Proof.
  intros H a b Ha Hb. induction tbl as [|[[x y] d] tbl IH]; cbn [lookup_diff].
  - split; [cbn; apply app_nil_r|]. split; [cbn; apply app_nil_r|].
    constructor; [|constructor]. cbn. repeat split; auto. discriminate.
  - unfold diffs_okb in H. cbn [forallb fst snd] in H. apply andb_prop in H.
    destruct H as [H1 H2]. destruct (bytes_eqb x a && bytes_eqb y b) eqn:E.
    + apply andb_prop in E. destruct E as [E1 E2]. apply bytes_eqb_eq in E1, E2. subst.
      apply pieces_okb_sound. exact H1.
    + apply IH. exact H2.
Qed.

Lemma detect_eol_ok files : EolOk (detect_eol files).
Proof.
  unfold detect_eol, EolOk.
  destruct (flat_map _ files); [left; reflexivity|].
  destruct (forallb _ _); [right|left]; reflexivity.
Qed.

(** The hypotheses evaluated on every correspondence case imply the theorem's. *)
Theorem case_sound (c : case) hs :
  c_merged c = inr hs ->
  hyps_b (files_sides c) (case_len c) c hs = true ->
  parse_conflict (model_out c) (files_sides c) (case_len c) = Some hs.
Proof.
  intros Em H. unfold model_out. rewrite Em. unfold hyps_b in H.
  apply andb_prop in H. destruct H as [H H4]. apply andb_prop in H. destruct H as [H H3].
  apply andb_prop in H. destruct H as [H1 H2].
  apply roundtrip_main.
  - apply lookup_diff_ok. exact H4.
  - apply detect_eol_ok.
  - apply labels_okb_sound. exact H3.
  - apply wf_hunksb_sound. exact H1.
  - apply hunks_dominatedb_sound. exact H2.
Qed.

(* ------------------------------------------------------------------ lines of the inputs, boolean *)

Lemma lines_ofb_sound files t l :
  lines_ofb files t = true -> In l (lines t) -> exists f, In f files /\ In l (lines f).
Proof.
  unfold lines_ofb. intros H Hl. rewrite forallb_forall in H. specialize (H l Hl).
  unfold mem in H. apply existsb_exists in H. destruct H as [x [Hx E]].
  apply bytes_eqb_eq in E. subst x. apply in_flat_map in Hx. exact Hx.
Qed.

Lemma lines_of_b_sound files hs :
  forallb (forallb (lines_ofb files)) hs = true -> LinesOf files hs.
Proof.
  intros H h t l Hh Ht Hl. rewrite forallb_forall in H. specialize (H h Hh).
  rewrite forallb_forall in H. exact (lines_ofb_sound files t l (H t Ht) Hl).
Qed.

(* ------------------------------------------------------------------ checker spec *)

Definition Required (c : case) (hs : list (list (list N))) : Prop :=
  c_len c = None \/ hyps_b (files_sides c) (case_len c) c hs = true.

Theorem okb_spec (c : case) :
  okb c = true <->
  c_panicked c = false /\
  match c_merged c with
  | inl content => c_out c = content
  | inr hs => Required c hs -> c_parsed c = Some hs
  end.
Proof.
  unfold okb, Required. destruct (c_panicked c); cbn [negb andb].
  - split; [discriminate|intros [H _]; discriminate].
  - destruct (c_merged c) as [content|hs].
    + rewrite bytes_eqb_eq. tauto.
    + destruct (c_len c) as [l|] eqn:El.
      * destruct (hyps_b _ _ c hs) eqn:Eh; cbn [negb orb].
        -- rewrite option_hunks_eqb_eq. split; [intros H; split; [reflexivity|intros _; exact H]|].
           intros [_ H]. apply H. right. reflexivity.
        -- split; [intros _; split; [reflexivity|]|reflexivity].
           intros [H|H]; discriminate.
      * cbn [negb orb]. rewrite option_hunks_eqb_eq.
        split; [intros H; split; [reflexivity|intros _; exact H]|].
        intros [_ H]. apply H. left. reflexivity.
Qed.
