(** Layer B: the matching does not depend on the iteration order of the hash table (hence
    not on the per-diff random hash seed): positions are unique keys, so sorting erases the
    enumeration order. *)
From Coq Require Import Lia Arith Sorted Permutation.
From Verif Require Import Base.Prelude Model.Diff
     Proofs.DiffBase Proofs.DiffA2 Proofs.DiffB1 Proofs.DiffB2 Proofs.DiffB3.

Lemma sorted_lt_unique : forall l1 l2,
  StronglySorted lt l1 -> StronglySorted lt l2 -> (forall x, In x l1 <-> In x l2) -> l1 = l2.
Proof.
  induction l1 as [|a l1 IH]; intros l2 S1 S2 H.
  - destruct l2 as [|b l2]; [reflexivity|]. exfalso. apply (H b). now left.
  - destruct l2 as [|b l2]; [exfalso; apply (H a); now left|].
    inversion S1 as [|? ? S1' F1]; subst. inversion S2 as [|? ? S2' F2]; subst.
    rewrite Forall_forall in F1, F2.
    assert (a = b).
    { assert (Ha : In a (b :: l2)) by (apply H; now left). assert (Hb : In b (a :: l1)) by (apply H; now left).
      destruct Ha as [->|Ha]; [reflexivity|]. destruct Hb as [->|Hb]; [reflexivity|].
      specialize (F1 _ Hb). specialize (F2 _ Ha). lia. }
    subst b. f_equal. apply IH; auto. intros x. split; intros Hx.
    + assert (Hx' : In x (a :: l2)) by (apply H; now right). destruct Hx' as [<-|Hx']; [|assumption].
      specialize (F1 _ Hx). lia.
    + assert (Hx' : In x (a :: l1)) by (apply H; now right). destruct Hx' as [<-|Hx']; [|assumption].
      specialize (F2 _ Hx). lia.
Qed.

Lemma list_min_spec d l : l <> [] -> In (list_min d l) l /\ Forall (fun x => list_min d l <= x) l.
Proof.
  revert d; induction l as [|x t IH]; intros d H; [congruence|]. cbn [list_min].
  destruct t as [|y t'].
  - cbn [list_min]. rewrite Nat.min_id. split; [now left|repeat constructor].
  - destruct (IH x) as (A & B); [discriminate|]. split.
    + destruct (Nat.min_spec x (list_min x (y :: t'))) as [(_ & ->)|(_ & ->)]; [now left|now right].
    + constructor; [lia|]. eapply Forall_impl; [|exact B]. cbn. intros; lia.
Qed.

Lemma list_min_perm d l1 l2 : Permutation l1 l2 -> list_min d l1 = list_min d l2.
Proof.
  intros P. destruct l1 as [|a l1].
  - apply Permutation_nil in P. now subst.
  - assert (N2 : l2 <> []) by (intros ->; apply Permutation_sym, Permutation_nil in P; discriminate).
    destruct (list_min_spec d (a :: l1)) as (A1 & B1); [discriminate|].
    destruct (list_min_spec d l2 N2) as (A2 & B2). rewrite Forall_forall in B1, B2.
    apply (Permutation_in _ P) in A1. apply (Permutation_in _ (Permutation_sym P)) in A2.
    specialize (B1 _ A2). specialize (B2 _ A1). lia.
Qed.

Lemma filter_perm {A} (f : A -> bool) l1 l2 : Permutation l1 l2 -> Permutation (filter f l1) (filter f l2).
Proof.
  induction 1 as [|x l l' P IH|x y l|l l' l'' P1 IH1 P2 IH2]; cbn [filter].
  - reflexivity.
  - destruct (f x); [now constructor|assumption].
  - destruct (f x), (f y); try reflexivity. apply perm_swap.
  - etransitivity; eauto.
Qed.

(** What the sorted position lists and the index vector are, for a set of pairs with distinct
    coordinates. *)
Section Sorted.
  Variable pairs : list (nat * nat).
  Hypothesis Nf : NoDup (map fst pairs).
  Hypothesis Ns : NoDup (map snd pairs).
  Let E := enumerate 0 pairs.
  Let LP := sort_by_pos (map (fun sp : nat * (nat * nat) => (fst (snd sp), fst sp)) E).
  Let RP := sort_by_pos (map (fun sp : nat * (nat * nat) => (snd (snd sp), fst sp)) E).
  Let libri := map (fun ps : nat * nat => index_of (snd ps) (map snd LP)) RP.

  Lemma sorted_facts :
    (StronglySorted lt (map fst LP) /\ forall x, In x (map fst LP) <-> In x (map fst pairs))
    /\ (StronglySorted lt (map fst RP) /\ forall x, In x (map fst RP) <-> In x (map snd pairs))
    /\ length libri = length pairs
    /\ forall ri li, nth_error libri ri = Some li ->
         exists lpos rpos s, nth_error LP li = Some (lpos, s) /\ nth_error RP ri = Some (rpos, s)
                             /\ nth_error pairs s = Some (lpos, rpos).
  Proof.
    set (L0 := map (fun sp : nat * (nat * nat) => (fst (snd sp), fst sp)) E) in *.
    set (R0 := map (fun sp : nat * (nat * nat) => (snd (snd sp), fst sp)) E) in *.
    assert (PL : Permutation LP L0) by apply sort_by_pos_perm.
    assert (PR : Permutation RP R0) by apply sort_by_pos_perm.
    assert (L0f : map fst L0 = map fst pairs).
    { unfold L0. rewrite map_map. cbn [fst]. rewrite <- (map_map snd fst E). unfold E. now rewrite enumerate_snd. }
    assert (R0f : map fst R0 = map snd pairs).
    { unfold R0. rewrite map_map. cbn [fst]. rewrite <- (map_map snd snd E). unfold E. now rewrite enumerate_snd. }
    assert (L0s : map snd L0 = seq 0 (length pairs)).
    { unfold L0. rewrite map_map. cbn [snd]. apply enumerate_fst. }
    assert (SL : StronglySorted lt_fst LP).
    { apply sorted_le_lt; [apply sort_by_pos_sorted|].
      eapply Permutation_NoDup; [apply Permutation_map; symmetry; exact PL|]. now rewrite L0f. }
    assert (SR : StronglySorted lt_fst RP).
    { apply sorted_le_lt; [apply sort_by_pos_sorted|].
      eapply Permutation_NoDup; [apply Permutation_map; symmetry; exact PR|]. now rewrite R0f. }
    assert (InL : forall lpos s, In (lpos, s) LP -> exists r, nth_error pairs s = Some (lpos, r)).
    { intros lpos s H. apply (Permutation_in _ PL) in H. unfold L0 in H. apply in_map_iff in H.
      destruct H as ([s' [l r]] & Eq & Hin). cbn [fst snd] in Eq. injection Eq as <- <-.
      apply enumerate_in in Hin. rewrite Nat.sub_0_r in Hin. exists r. tauto. }
    assert (InR : forall rpos s, In (rpos, s) RP -> exists l, nth_error pairs s = Some (l, rpos)).
    { intros rpos s H. apply (Permutation_in _ PR) in H. unfold R0 in H. apply in_map_iff in H.
      destruct H as ([s' [l r]] & Eq & Hin). cbn [fst snd] in Eq. injection Eq as <- <-.
      apply enumerate_in in Hin. rewrite Nat.sub_0_r in Hin. exists l. tauto. }
    assert (SerL : forall s, s < length pairs -> In s (map snd LP)).
    { intros s Hs. apply (Permutation_in _ (Permutation_map snd (Permutation_sym PL))).
      rewrite L0s. apply in_seq. lia. }
    split; [|split; [|split]].
    - split.
      + apply (StronglySorted_map lt_fst lt fst LP SL). intros a b _ _ H. exact H.
      + intros x. rewrite <- L0f. split; apply Permutation_in; apply Permutation_map; [exact PL|symmetry; exact PL].
    - split.
      + apply (StronglySorted_map lt_fst lt fst RP SR). intros a b _ _ H. exact H.
      + intros x. rewrite <- R0f. split; apply Permutation_in; apply Permutation_map; [exact PR|symmetry; exact PR].
    - unfold libri. rewrite map_length, (Permutation_length PR). unfold R0, E.
      rewrite map_length. rewrite <- (map_length fst), enumerate_fst. apply seq_length.
    - intros ri li Sn. unfold libri in Sn. rewrite nth_error_map in Sn.
      destruct (nth_error RP ri) as [[rpos s]|] eqn:ER; [|discriminate]. cbn in Sn. injection Sn as Sn.
      destruct (InR rpos s (nth_error_In _ _ ER)) as (l0 & Hp).
      assert (Hs : s < length pairs) by (apply nth_error_Some; congruence).
      destruct (index_of_spec s (map snd LP) (SerL s Hs)) as (Hlt & Hnth). rewrite Sn in *.
      rewrite nth_error_map in Hnth. destruct (nth_error LP li) as [[lpos s']|] eqn:EL; [|discriminate].
      cbn in Hnth. injection Hnth as ->.
      destruct (InL lpos s (nth_error_In _ _ EL)) as (r0 & Hp'). rewrite Hp in Hp'. injection Hp' as -> ->.
      exists lpos, r0, s. auto.
  Qed.

  Definition lcs_of_pairs : list (nat * nat) :=
    map (fun lr => (fst (nth (fst lr) LP (0, 0)), fst (nth (snd lr) RP (0, 0)))) (find_lcs libri).
  Definition sl_of_pairs := map fst LP.
  Definition sr_of_pairs := map fst RP.
  Definition libri_of_pairs := libri.
End Sorted.

Lemma lcs_of_pairs_perm pairs1 pairs2 :
  Permutation pairs1 pairs2 -> NoDup (map fst pairs1) -> NoDup (map snd pairs1) ->
  lcs_of_pairs pairs1 = lcs_of_pairs pairs2.
Proof.
  intros P Nf1 Ns1.
  assert (Nf2 : NoDup (map fst pairs2)) by (eapply Permutation_NoDup; [apply Permutation_map; exact P|assumption]).
  assert (Ns2 : NoDup (map snd pairs2)) by (eapply Permutation_NoDup; [apply Permutation_map; exact P|assumption]).
  destruct (sorted_facts pairs1 Nf1 Ns1) as ((SL1 & IL1) & (SR1 & IR1) & Len1 & Ch1).
  destruct (sorted_facts pairs2 Nf2 Ns2) as ((SL2 & IL2) & (SR2 & IR2) & Len2 & Ch2).
  fold (sl_of_pairs pairs1) in SL1, IL1. fold (sl_of_pairs pairs2) in SL2, IL2.
  fold (sr_of_pairs pairs1) in SR1, IR1. fold (sr_of_pairs pairs2) in SR2, IR2.
  fold (libri_of_pairs pairs1) in Len1, Ch1. fold (libri_of_pairs pairs2) in Len2, Ch2.
  assert (ESL : sl_of_pairs pairs1 = sl_of_pairs pairs2).
  { apply sorted_lt_unique; auto. intros x. rewrite IL1, IL2.
    split; apply Permutation_in; apply Permutation_map; [exact P|symmetry; exact P]. }
  assert (ESR : sr_of_pairs pairs1 = sr_of_pairs pairs2).
  { apply sorted_lt_unique; auto. intros x. rewrite IR1, IR2.
    split; apply Permutation_in; apply Permutation_map; [exact P|symmetry; exact P]. }
  assert (ELI : libri_of_pairs pairs1 = libri_of_pairs pairs2).
  { apply (nth_ext _ _ 0 0); [rewrite Len1, Len2; now apply Permutation_length|].
    intros ri Hri.
    destruct (nth_error (libri_of_pairs pairs1) ri) as [li1|] eqn:E1; [|apply nth_error_None in E1; lia].
    assert (Hri2 : ri < length (libri_of_pairs pairs2)) by (rewrite Len2, <- (Permutation_length P), <- Len1; exact Hri).
    destruct (nth_error (libri_of_pairs pairs2) ri) as [li2|] eqn:E2; [|apply nth_error_None in E2; lia].
    rewrite (nth_error_nth _ _ _ E1), (nth_error_nth _ _ _ E2).
    destruct (Ch1 _ _ E1) as (lp1 & rp1 & s1 & A1 & B1 & C1).
    destruct (Ch2 _ _ E2) as (lp2 & rp2 & s2 & A2 & B2 & C2).
    (* same right position *)
    assert (Hr : rp1 = rp2).
    { assert (Q1 : nth_error (sr_of_pairs pairs1) ri = Some rp1) by (unfold sr_of_pairs; now rewrite nth_error_map, B1).
      assert (Q2 : nth_error (sr_of_pairs pairs2) ri = Some rp2) by (unfold sr_of_pairs; now rewrite nth_error_map, B2).
      rewrite ESR in Q1. congruence. }
    subst rp2.
    (* hence the same partner *)
    assert (Hl : lp1 = lp2).
    { apply nth_error_In in C1, C2. apply (Permutation_in _ (Permutation_sym P)) in C2.
      clear - C1 C2 Ns1. induction pairs1 as [|[a b] t IH]; [destruct C1|].
      cbn [map snd] in Ns1. inversion Ns1 as [|? ? Nb Nt]; subst.
      destruct C1 as [C1|C1], C2 as [C2|C2].
      - congruence.
      - injection C1 as -> ->. exfalso. apply Nb. apply (in_map snd) in C2. exact C2.
      - injection C2 as -> ->. exfalso. apply Nb. apply (in_map snd) in C1. exact C1.
      - now apply IH. }
    subst lp2.
    (* hence the same index in the sorted left positions *)
    assert (Q1 : nth_error (sl_of_pairs pairs1) li1 = Some lp1) by (unfold sl_of_pairs; now rewrite nth_error_map, A1).
    assert (Q2 : nth_error (sl_of_pairs pairs2) li2 = Some lp1) by (unfold sl_of_pairs; now rewrite nth_error_map, A2).
    rewrite <- ESL in Q2. apply sorted_lt_nodup in SL1.
    destruct (Nat.eq_dec li1 li2) as [->|Nq]; [reflexivity|exfalso].
    rewrite NoDup_nth_error in SL1. apply Nq. apply SL1; [apply nth_error_Some; congruence|congruence]. }
  unfold lcs_of_pairs. fold (libri_of_pairs pairs1). fold (libri_of_pairs pairs2). rewrite ELI.
  apply map_ext. intros [li ri]. cbn [fst snd].
  change (fst (nth li (sort_by_pos (map (fun sp : nat * (nat * nat) => (fst (snd sp), fst sp)) (enumerate 0 pairs1))) (0, 0)))
    with (fst (nth li (sort_by_pos (map (fun sp : nat * (nat * nat) => (fst (snd sp), fst sp)) (enumerate 0 pairs1))) (0, 0))).
  rewrite <- !(map_nth fst). fold (sl_of_pairs pairs1) (sl_of_pairs pairs2) (sr_of_pairs pairs1) (sr_of_pairs pairs2).
  now rewrite ESL, ESR.
Qed.

Section Deterministic.
  Context {T : Type} (eqb : T -> T -> bool).
  Hypothesis eqb_spec : forall x y, eqb x y = true <-> x = y.
  Variables order1 order2 : list (T * list nat) -> list (T * list nat).
  Hypothesis perm1 : forall h, Permutation (order1 h) h.
  Hypothesis perm2 : forall h, Permutation (order2 h) h.
  Variable max_occ : nat.

  Lemma uncommon_shared_perm lh rh :
    Permutation (uncommon_shared eqb order1 lh rh) (uncommon_shared eqb order2 lh rh).
  Proof.
    unfold uncommon_shared.
    assert (P : Permutation (shared_candidates eqb order1 lh rh) (shared_candidates eqb order2 lh rh)).
    { unfold shared_candidates. apply Permutation_flat_map.
      etransitivity; [apply perm1|symmetry; apply perm2]. }
    rewrite (list_min_perm 0 _ _ (Permutation_map (fun p => length (fst p)) P)).
    now apply filter_perm.
  Qed.

  Lemma lcs_positions_det left right :
    lcs_positions eqb order1 max_occ left right = lcs_positions eqb order2 max_occ left right.
  Proof.
    unfold lcs_positions. destruct (max_occ <? _); [reflexivity|].
    pose proof (uncommon_shared_perm (histogram eqb max_occ left) (histogram eqb max_occ right)) as P.
    set (both1 := uncommon_shared eqb order1 _ _) in *. set (both2 := uncommon_shared eqb order2 _ _) in *.
    assert (K1 : keyed left right both1).
    { unfold both1, uncommon_shared. apply keyed_filter. now apply shared_candidates_keyed. }
    destruct both1 as [|b1 t1] eqn:E1.
    - apply Permutation_nil in P. now rewrite P.
    - destruct both2 as [|b2 t2] eqn:E2; [apply Permutation_sym, Permutation_nil in P; discriminate|].
      rewrite <- E1, <- E2 in *. clear E1 E2 b1 t1 b2 t2.
      destruct (pairs_facts left right both1 K1) as (_ & P2 & P3).
      apply (lcs_of_pairs_perm _ _ (Permutation_flat_map _ P) P2 P3).
  Qed.

  Theorem cuw_det : forall fuel left right loff roff,
    cuw eqb order1 max_occ fuel left right loff roff = cuw eqb order2 max_occ fuel left right loff roff.
  Proof.
    induction fuel as [|f IH]; intros left right loff roff; [reflexivity|]. cbn [cuw].
    destruct (is_nil left || is_nil right); [reflexivity|].
    rewrite lcs_positions_det.
    set (lcs := lcs_positions eqb order2 max_occ left right).
    set (go1 := fix go (prevl prevr : nat) (lcs : list (nat * nat)) : list (nat * nat) :=
                  match lcs with
                  | [] => cuw eqb order1 max_occ f (slice left prevl (length left)) (slice right prevr (length right))
                              (loff + prevl) (roff + prevr)
                  | (lp, rp) :: t =>
                      cuw eqb order1 max_occ f (slice left prevl lp) (slice right prevr rp)
                          (loff + prevl) (roff + prevr)
                      ++ (loff + lp, roff + rp) :: go (S lp) (S rp) t
                  end).
    set (go2 := fix go (prevl prevr : nat) (lcs : list (nat * nat)) : list (nat * nat) :=
                  match lcs with
                  | [] => cuw eqb order2 max_occ f (slice left prevl (length left)) (slice right prevr (length right))
                              (loff + prevl) (roff + prevr)
                  | (lp, rp) :: t =>
                      cuw eqb order2 max_occ f (slice left prevl lp) (slice right prevr rp)
                          (loff + prevl) (roff + prevr)
                      ++ (loff + lp, roff + rp) :: go (S lp) (S rp) t
                  end).
    assert (G : forall l p q, go1 p q l = go2 p q l).
    { induction l as [|[lp rp] t IHl]; intros p q; cbn [go1 go2]; [apply IH|]. now rewrite IH, IHl. }
    destruct lcs as [|q0 t]; [reflexivity|]. now rewrite G.
  Qed.

  Theorem collect_unchanged_words_det left right :
    collect_unchanged_words eqb order1 max_occ left right
    = collect_unchanged_words eqb order2 max_occ left right.
  Proof. apply cuw_det. Qed.
End Deterministic.
