(** C21 — proofs about the stacked-table model (Model/C21.v). *)
From Verif Require Import Base.Prelude Base.SchedS Proofs.SchedS Gen.Tables Model.C21.
From Coq Require Import Arith Lia Sorted.

(* ------------------------------------------------------------------ equality tests *)
Lemma list_eqb_spec {A} (eqb : A -> A -> bool) :
  (forall x y, eqb x y = true <-> x = y) -> forall l1 l2, list_eqb eqb l1 l2 = true <-> l1 = l2.
Proof.
  intros He. induction l1 as [|x l1 IH]; destruct l2 as [|y l2]; simpl; split; try congruence.
  - intros H. apply Bool.andb_true_iff in H. destruct H as [H1 H2]. apply He in H1. apply IH in H2.
    congruence.
  - intros H. inversion H; subst. apply Bool.andb_true_iff. split; [apply He|apply IH]; reflexivity.
Qed.

Lemma pair_eqb_spec : forall p q : N * N, pair_eqb N.eqb N.eqb p q = true <-> p = q.
Proof.
  intros [a b] [c d]. unfold pair_eqb; simpl. rewrite Bool.andb_true_iff, !N.eqb_eq. split.
  - intros [-> ->]. reflexivity.
  - intros H. inversion H. auto.
Qed.

Lemma ents_eqb_spec : forall a b, ents_eqb a b = true <-> a = b.
Proof. apply list_eqb_spec. apply pair_eqb_spec. Qed.

Lemma table_eqb_spec : forall a b, table_eqb a b = true <-> a = b.
Proof. apply list_eqb_spec. apply ents_eqb_spec. Qed.

Lemma table_eqb_refl : forall a, table_eqb a a = true.
Proof. intros a. apply table_eqb_spec. reflexivity. Qed.

Lemma table_eqb_neq : forall a b, table_eqb a b = false <-> a <> b.
Proof.
  intros a b. split.
  - intros H E. apply table_eqb_spec in E. congruence.
  - intros H. destruct (table_eqb a b) eqn:E; [|reflexivity]. apply table_eqb_spec in E. contradiction.
Qed.

Lemma memt_spec : forall t l, memt t l = true <-> In t l.
Proof.
  intros t l. unfold memt. rewrite existsb_exists. split.
  - intros [x [Hx He]]. apply table_eqb_spec in He. subst. exact Hx.
  - intros H. exists t. split; [exact H|apply table_eqb_refl].
Qed.

Lemma In_add_head : forall t H x, In x (add_head t H) <-> x = t \/ In x H.
Proof.
  intros t H x. unfold add_head. destruct (memt t H) eqn:E.
  - apply memt_spec in E. split; [auto|]. intros [->|Hx]; assumption.
  - rewrite in_app_iff. simpl. intuition.
Qed.

Lemma In_remove_head : forall t H x, In x (remove_head t H) <-> In x H /\ x <> t.
Proof.
  intros t H x. unfold remove_head. rewrite filter_In, Bool.negb_true_iff, table_eqb_neq. reflexivity.
Qed.

Lemma In_others_than : forall n l x, In x (others_than n l) <-> In x l /\ x <> n.
Proof.
  intros n l x. unfold others_than. rewrite filter_In, Bool.negb_true_iff, table_eqb_neq. reflexivity.
Qed.

(* ------------------------------------------------------------------ keys of entry maps *)
Definition keys (e : ents) : list N := map fst e.

Lemma find_some_in : forall k e v, find k e = Some v -> In k (keys e).
Proof.
  intros k e v. induction e as [|[k' v'] r IH]; simpl; [discriminate|].
  destruct (k =? k')%N eqn:E; [apply N.eqb_eq in E; auto|auto].
Qed.

Lemma find_none_iff : forall k e, find k e = None <-> ~ In k (keys e).
Proof.
  intros k e. induction e as [|[k' v'] r IH]; simpl; [tauto|].
  destruct (k =? k')%N eqn:E.
  - apply N.eqb_eq in E. subst. split; [discriminate|]. intros H. exfalso. apply H. auto.
  - apply N.eqb_neq in E. rewrite IH. split; [intros H [H1|H1]; [congruence|contradiction]|tauto].
Qed.

Lemma find_in_iff : forall k e, find k e <> None <-> In k (keys e).
Proof.
  intros k e. destruct (find k e) eqn:E.
  - split; [intros _; eapply find_some_in; exact E|discriminate].
  - apply find_none_iff in E. tauto.
Qed.

Lemma find_add_entry : forall k k' v e,
  find k (add_entry k' v e) = if (k =? k')%N then Some v else find k e.
Proof.
  intros k k' v e. induction e as [|[k1 v1] r IH]; simpl.
  - destruct (k =? k')%N; reflexivity.
  - destruct (k' <? k1)%N eqn:E1; simpl.
    + destruct (k =? k')%N; reflexivity.
    + destruct (k' =? k1)%N eqn:E2; simpl.
      * apply N.eqb_eq in E2. subst k1. destruct (k =? k')%N; reflexivity.
      * rewrite IH. destruct (k =? k1)%N eqn:E3; [|reflexivity].
        apply N.eqb_eq in E3. subst k1. destruct (k =? k')%N eqn:E4; [|reflexivity].
        apply N.eqb_eq in E4. subst. rewrite N.eqb_refl in E2. discriminate.
Qed.

Lemma find_app : forall k a b,
  find k (a ++ b) = match find k a with Some v => Some v | None => find k b end.
Proof.
  intros k a b. induction a as [|[k' v'] r IH]; simpl; [reflexivity|].
  destruct (k =? k')%N; [reflexivity|exact IH].
Qed.

(** The last entry of [src] for a key wins, then [acc]. *)
Lemma find_add_entries_from : forall k src acc,
  find k (add_entries_from src acc) =
  match find k (rev src) with Some v => Some v | None => find k acc end.
Proof.
  intros k src. unfold add_entries_from.
  induction src as [|[k1 v1] r IH]; intros acc; simpl; [reflexivity|].
  rewrite IH, find_app, find_add_entry. simpl.
  destruct (find k (rev r)); [reflexivity|]. destruct (k =? k1)%N; reflexivity.
Qed.

Lemma keys_rev : forall k e, In k (keys (rev e)) <-> In k (keys e).
Proof. intros k e. unfold keys. rewrite map_rev, <- in_rev. reflexivity. Qed.

Lemma keys_add_entries_from : forall k src acc,
  In k (keys (add_entries_from src acc)) <-> In k (keys src) \/ In k (keys acc).
Proof.
  intros k src acc. rewrite <- (keys_rev k src). rewrite <- !find_in_iff, find_add_entries_from.
  destruct (find k (rev src)) eqn:E.
  - split; [intros _; left|]; discriminate.
  - tauto.
Qed.

Lemma keys_fold_files : forall k fs acc,
  In k (keys (fold_left (fun a f => add_entries_from f a) fs acc)) <->
  (exists f, In f fs /\ In k (keys f)) \/ In k (keys acc).
Proof.
  intros k fs. induction fs as [|f r IH]; intros acc; simpl.
  - split; [auto|]. intros [[f [[] _]]|H]; exact H.
  - rewrite IH, keys_add_entries_from. split.
    + intros [[g [Hg Hk]]|[H|H]]; [left; exists g; auto|left; exists f; auto|auto].
    + intros [[g [[<-|Hg] Hk]]|H]; [auto|left; exists g; auto|auto].
Qed.

(* ------------------------------------------------------------------ keys of tables *)
Definition has (t : table) (k : N) : Prop := lookup t k <> None.
Definition hasm (m : mtable) (k : N) : Prop := lookup_mt m k <> None.

Lemma has_cons : forall e t k, has (e :: t) k <-> In k (keys e) \/ has t k.
Proof.
  intros e t k. unfold has; simpl. destruct (find k e) eqn:E.
  - split; [intros _; left; eapply find_some_in; exact E|discriminate].
  - apply find_none_iff in E. tauto.
Qed.

Lemma has_nil : forall k, ~ has [] k.
Proof. intros k H. apply H. reflexivity. Qed.

Lemma has_app : forall a b k, has (a ++ b) k <-> has a k \/ has b k.
Proof.
  intros a b k. induction a as [|e r IH]; simpl.
  - split; [auto|]. intros [H|H]; [destruct (has_nil _ H)|exact H].
  - rewrite !has_cons, IH. tauto.
Qed.

Lemma has_files : forall fs k, has fs k <-> exists f, In f fs /\ In k (keys f).
Proof.
  induction fs as [|e r IH]; intros k.
  - split; [intros H; destruct (has_nil _ H)|intros [f [[] _]]].
  - rewrite has_cons, IH. simpl. split.
    + intros [H|[f [Hf Hk]]]; [exists e; auto|exists f; auto].
    + intros [f [[<-|Hf] Hk]]; [auto|right; exists f; auto].
Qed.

Lemma hasm_iff : forall m k, hasm m k <-> In k (keys (m_ents m)) \/ has (m_parent m) k.
Proof.
  intros m k. unfold hasm, lookup_mt, has. destruct (find k (m_ents m)) eqn:E.
  - split; [intros _; left; eapply find_some_in; exact E|discriminate].
  - apply find_none_iff in E. tauto.
Qed.

Lemma lookup_app : forall a b k,
  lookup (a ++ b) k = match lookup a k with Some v => Some v | None => lookup b k end.
Proof.
  intros a b k. induction a as [|e r IH]; simpl; [reflexivity|].
  destruct (find k e); [reflexivity|exact IH].
Qed.

(* ------------------------------------------------------------------ merge_in *)
Lemma walk_eq : forall own oth,
  walk own oth =
  match oth with
  | [] => []
  | oe :: oth' =>
    match own with
    | [] => oe :: walk [] oth'
    | _ :: own' =>
      if table_eqb own oth then []
      else if num_entries own <? num_entries oth then oe :: walk own oth'
      else walk own' oth
    end
  end.
Proof. intros own oth. destruct own; destruct oth; reflexivity. Qed.

(** The segments collected are a prefix of [oth]'s chain ... *)
Lemma walk_prefix : forall own oth, exists rest, oth = walk own oth ++ rest.
Proof.
  induction own as [|we own' IHown]; induction oth as [|oe oth' IHoth]; rewrite walk_eq.
  - exists []. reflexivity.
  - destruct IHoth as [rest Hr]. exists rest. simpl. f_equal. exact Hr.
  - exists []. reflexivity.
  - destruct (table_eqb (we :: own') (oe :: oth')); [exists (oe :: oth'); reflexivity|].
    destruct (num_entries (we :: own') <? num_entries (oe :: oth')).
    + destruct IHoth as [rest Hr]. exists rest. simpl. f_equal. exact Hr.
    + apply IHown.
Qed.

(** ... and what is not collected is already below [own]. *)
Lemma walk_covers : forall own oth k,
  has oth k -> has (walk own oth) k \/ has own k.
Proof.
  induction own as [|we own' IHown]; induction oth as [|oe oth' IHoth]; intros k Hk; rewrite walk_eq.
  - destruct (has_nil _ Hk).
  - apply has_cons in Hk. destruct Hk as [Hk|Hk]; [left; apply has_cons; auto|].
    destruct (IHoth k Hk) as [H|H]; [left; apply has_cons; auto|destruct (has_nil _ H)].
  - destruct (has_nil _ Hk).
  - destruct (table_eqb (we :: own') (oe :: oth')) eqn:E.
    + apply table_eqb_spec in E. rewrite E. auto.
    + destruct (num_entries (we :: own') <? num_entries (oe :: oth')).
      * apply has_cons in Hk. destruct Hk as [Hk|Hk]; [left; apply has_cons; auto|].
        destruct (IHoth k Hk) as [H|H]; [left; apply has_cons; auto|auto].
      * destruct (IHown (oe :: oth') k Hk) as [H|H]; [auto|right; apply has_cons; auto].
Qed.

Lemma merge_in_parent : forall m o, m_parent (merge_in m o) = m_parent m.
Proof. reflexivity. Qed.

Lemma keys_merge_in : forall m o k,
  In k (keys (m_ents (merge_in m o))) <->
  has (walk (m_parent m) o) k \/ In k (keys (m_ents m)).
Proof.
  intros m o k. unfold merge_in; simpl. rewrite keys_fold_files, has_files.
  split; intros [[f [Hf Hk]]|H]; auto; left; exists f; split; auto;
    [apply in_rev; exact Hf|apply in_rev in Hf; exact Hf].
Qed.

Lemma merge_in_keeps : forall m o k, hasm m k \/ has o k -> hasm (merge_in m o) k.
Proof.
  intros m o k H. apply hasm_iff. rewrite keys_merge_in, merge_in_parent.
  destruct H as [H|H].
  - apply hasm_iff in H. tauto.
  - destruct (walk_covers (m_parent m) o k H); tauto.
Qed.

Lemma merge_in_only : forall m o k, hasm (merge_in m o) k -> hasm m k \/ has o k.
Proof.
  intros m o k H. apply hasm_iff in H. rewrite keys_merge_in, merge_in_parent in H.
  destruct H as [[H|H]|H].
  - right. destruct (walk_prefix (m_parent m) o) as [rest Hr]. rewrite Hr. apply has_app. auto.
  - left. apply hasm_iff. auto.
  - left. apply hasm_iff. auto.
Qed.

(* ------------------------------------------------------------------ squash, save *)
Lemma squash_scan_split : forall p n fs rest, squash_scan n p = (fs, rest) -> p = fs ++ rest.
Proof.
  induction p as [|pe p' IH]; intros n fs rest H; cbn [squash_scan] in H.
  - inversion H. reflexivity.
  - destruct (C21_SQUASH_FACTOR * n <? length pe); [inversion H; reflexivity|].
    destruct (squash_scan (n + length pe) p') as [fs' rest'] eqn:E. inversion H; subst.
    simpl. f_equal. eapply IH. exact E.
Qed.

Lemma maybe_squash_keys : forall m k, hasm (maybe_squash m) k <-> hasm m k.
Proof.
  intros m k. unfold maybe_squash.
  destruct (squash_scan (length (m_ents m)) (m_parent m)) as [fs rest] eqn:E.
  pose proof (squash_scan_split _ _ _ _ E) as Hs.
  destruct fs as [|f0 fr]; [reflexivity|].
  rewrite !hasm_iff. cbn [m_ents m_parent].
  rewrite keys_add_entries_from, keys_fold_files, Hs, has_app, (has_files (f0 :: fr)).
  split.
  - intros [[H|[[f [Hf Hk]]|[]]]|H]; auto. right. left. exists f. split; [apply in_rev; exact Hf|exact Hk].
  - intros [H|[[f [Hf Hk]]|H]]; auto. left. right. left. exists f.
    split; [apply in_rev in Hf; exact Hf|exact Hk].
Qed.

Lemma save_in_keys : forall m k, has (save_in m) k <-> hasm m k.
Proof.
  intros m k. unfold save_in.
  destruct (m_ents m) as [|e0 er] eqn:Ee; destruct (m_parent m) as [|p0 pr] eqn:Ep.
  - rewrite has_cons, <- maybe_squash_keys, hasm_iff. reflexivity.
  - rewrite hasm_iff, Ee, Ep. simpl. tauto.
  - rewrite has_cons, <- maybe_squash_keys, hasm_iff. reflexivity.
  - rewrite has_cons, <- maybe_squash_keys, hasm_iff. reflexivity.
Qed.

Lemma keys_of_list : forall es k, In k (keys (of_list es)) <-> In k (keys es).
Proof. intros es k. unfold of_list. rewrite keys_add_entries_from. simpl. tauto. Qed.

(** A save on top of [n] keeps every key of [n] and holds every key written. *)
Lemma save_keys : forall n es k,
  has (save_in (mk_mt n (of_list es))) k <-> In k (keys es) \/ has n k.
Proof. intros n es k. rewrite save_in_keys, hasm_iff. simpl. rewrite keys_of_list. reflexivity. Qed.

Lemma fold_merge_keeps : forall others m k,
  hasm m k \/ (exists o, In o others /\ has o k) -> hasm (fold_left merge_in others m) k.
Proof.
  induction others as [|o r IH]; intros m k H; simpl.
  - destruct H as [H|[o [[] _]]]. exact H.
  - apply IH. destruct H as [H|[o' [[<-|Ho] Hk]]].
    + left. apply merge_in_keeps. auto.
    + left. apply merge_in_keeps. auto.
    + right. exists o'. auto.
Qed.

Lemma fold_merge_only : forall others m k,
  hasm (fold_left merge_in others m) k -> hasm m k \/ (exists o, In o others /\ has o k).
Proof.
  induction others as [|o r IH]; intros m k H; simpl in H; [auto|].
  destruct (IH _ _ H) as [H1|[o' [Ho Hk]]].
  - destruct (merge_in_only _ _ _ H1) as [H2|H2]; [auto|right; exists o; simpl; auto].
  - right. exists o'. simpl. auto.
Qed.

(** Reconciliation keeps every key of every head it read, and invents none. *)
Lemma reconcile_keys : forall t0 others k,
  has (reconcile t0 others) k <-> has t0 k \/ (exists o, In o others /\ has o k).
Proof.
  intros t0 others k. unfold reconcile. rewrite save_in_keys. split.
  - intros H. apply fold_merge_only in H. destruct H as [H|H]; [|auto].
    apply hasm_iff in H. simpl in H. tauto.
  - intros H. apply fold_merge_keeps. destruct H as [H|H]; [|auto]. left. apply hasm_iff. simpl. auto.
Qed.

(* ------------------------------------------------------------------ the heads protocol *)
(** Keys reachable from the heads directory. *)
Definition KCov (H : list table) (k : N) : Prop := exists h, In h H /\ has h k.

(** A pending removal list is justified by the table [n] just recorded: every table to be
    removed has another name and no key that [n] lacks. *)
Definition just (n : table) (todo : list table) : Prop :=
  forall x, In x todo -> x <> n /\ forall k, has x k -> has n k.

Definition pc_ok (H : list table) (c : pc) : Prop :=
  match c with
  | PAdd n todo _ _ => just n todo
  | PRem n todo _ _ => just n todo /\ In n H
  | _ => True
  end.

Definition Inv (s : state) : Prop := Forall (fun p => pc_ok (s_heads s) (p_pc p)) (s_procs s).

(** A process is active while it still has heads to remove. *)
Definition active (p : proc) : bool :=
  match p_pc p with
  | PRem _ _ _ _ => true
  | PAdd _ (_ :: _) _ _ => true
  | _ => false
  end.

(** At most one process is active. *)
Definition excl (s : state) : Prop :=
  forall i j p q, nth_error (s_procs s) i = Some p -> nth_error (s_procs s) j = Some q ->
                  active p = true -> active q = true -> i = j.

Definition kcov_le (s s' : state) : Prop := forall k, KCov (s_heads s) k -> KCov (s_heads s') k.

Lemma kcov_le_refl : forall s, kcov_le s s.
Proof. intros s k H. exact H. Qed.

Lemma kcov_le_trans : forall a b c, kcov_le a b -> kcov_le b c -> kcov_le a c.
Proof. intros a b c H1 H2 k H. apply H2, H1, H. Qed.

Lemma just_nil : forall n, just n [].
Proof. intros n x []. Qed.

Lemma just_tail : forall n x todo, just n (x :: todo) -> just n todo.
Proof. intros n x todo H y Hy. apply H. right. exact Hy. Qed.

Lemma after_head_ok : forall H p n w locked, pc_ok H (p_pc (after_head p n w locked)).
Proof.
  intros H p n w locked. unfold after_head. destruct w as [es|]; cbn [p_pc pc_ok].
  - destruct n as [|n0 nr]; [apply just_nil|].
    intros x Hx. apply In_others_than in Hx. destruct Hx as [[<-|[]] Hne]. split; [exact Hne|].
    intros k Hk. apply save_keys. right. exact Hk.
  - destruct locked; exact I.
Qed.

Lemma after_todo_ok : forall H p n todo w locked,
  just n todo -> In n H -> pc_ok H (p_pc (after_todo p n todo w locked)).
Proof.
  intros H p n todo w locked Hj Hn. unfold after_todo. destruct todo as [|x r].
  - apply after_head_ok.
  - simpl. split; assumption.
Qed.

Lemma pc_ok_sup : forall H H' c, (forall h, In h H -> In h H') -> pc_ok H c -> pc_ok H' c.
Proof. intros H H' c Hs Hc. destruct c; simpl in *; auto. destruct Hc. split; auto. Qed.

Lemma Forall_set_nth_idx {A} (P : A -> Prop) : forall (l : list A) n x,
  (forall j y, j <> n -> nth_error l j = Some y -> P y) -> P x -> Forall P (set_nth n x l).
Proof.
  induction l as [|h t IH]; intros n x Hl Hx; [destruct n; constructor|].
  destruct n; simpl; constructor; auto.
  - apply Forall_forall. intros y Hy. apply In_nth_error in Hy. destruct Hy as [j Hj].
    apply (Hl (S j) y); [discriminate|exact Hj].
  - apply (Hl 0 h); [discriminate|reflexivity].
  - apply IH; [|exact Hx]. intros j y Hj Hn. apply (Hl (S j) y); [congruence|exact Hn].
Qed.

Lemma Inv_nth : forall s j r, Inv s -> nth_error (s_procs s) j = Some r -> pc_ok (s_heads s) (p_pc r).
Proof.
  intros s j r HI Hn. unfold Inv in HI. rewrite Forall_forall in HI.
  apply (HI r). eapply nth_error_In. exact Hn.
Qed.

(** Update of the moving process when the directory only grows. *)
Lemma Inv_upd_sup : forall s pid q H' lk,
  Inv s -> (forall h, In h (s_heads s) -> In h H') -> pc_ok H' (p_pc q) ->
  Inv (mk_state H' lk (set_nth pid q (s_procs s))).
Proof.
  intros s pid q H' lk HI Hs Hq. unfold Inv; simpl. apply Forall_set_nth_idx; [|exact Hq].
  intros j y _ Hn. eapply pc_ok_sup; [exact Hs|]. eapply Inv_nth; eassumption.
Qed.

(** With the guard of the current code ([fixed] = true), every atomic step from a state in
    which at most one process is removing heads keeps the invariant and loses no key. *)
Lemma step_ok : forall lw s e,
  Inv s -> excl s -> Inv (step true lw s e) /\ kcov_le s (step true lw s e).
Proof.
  intros lw s e HI Hex. unfold step, step_lbl.
  destruct (nth_error (s_procs s) (e_pid e)) as [p|] eqn:Hnth; [|split; [exact HI|apply kcov_le_refl]].
  pose proof (Inv_nth _ _ _ HI Hnth) as Hpc.
  assert (Hsame : Inv s /\ kcov_le s s) by (split; [exact HI|apply kcov_le_refl]).
  assert (Hstay : forall q lk, pc_ok (s_heads s) (p_pc q) ->
            Inv (mk_state (s_heads s) lk (set_nth (e_pid e) q (s_procs s)))
            /\ kcov_le s (mk_state (s_heads s) lk (set_nth (e_pid e) q (s_procs s)))).
  { intros q lk Hq. split; [apply Inv_upd_sup; auto|intros k Hk; exact Hk]. }
  destruct (p_pc p) as [| |w|w|n todo w locked|n todo w locked|] eqn:Epc.
  - (* PIdle *)
    destruct (p_prog p) as [|c r]; [exact Hsame|]. destruct c as [|es|es]; cbn [fst].
    + apply Hstay. exact I.
    + apply Hstay. exact I.
    + apply Hstay. apply after_head_ok.
  - (* PRead1 *)
    destruct (read s e) as [|t [|t1 tr]]; cbn [fst]; apply Hstay; simpl; auto. apply just_nil.
  - (* PLock *)
    destruct (lock_free lw s); [|exact Hsame]. cbn [fst]. apply Hstay. exact I.
  - (* PRead2 *)
    destruct (read s e) as [|t0 [|t1 tr]]; cbn [fst]; apply Hstay.
    + simpl. apply just_nil.
    + apply after_head_ok.
    + cbn [p_pc pc_ok]. intros x Hx. apply in_app_or in Hx.
      destruct Hx as [Hx|Hx]; apply In_others_than in Hx; destruct Hx as [Hx Hne]; (split; [exact Hne|]);
        intros k Hk; apply reconcile_keys.
      * destruct Hx as [<-|[]]. left. exact Hk.
      * right. exists x. split; assumption.
  - (* PAdd *)
    cbn [fst]. simpl in Hpc. split.
    + apply Inv_upd_sup; [exact HI|intros h Hh; apply In_add_head; right; exact Hh|].
      apply after_todo_ok; [exact Hpc|apply In_add_head; left; reflexivity].
    + intros k [h [Hh Hk]]. exists h. split; [apply In_add_head; right; exact Hh|exact Hk].
  - (* PRem *)
    simpl in Hpc. destruct Hpc as [Hj Hn].
    destruct todo as [|x todo']; cbn [fst].
    + apply Hstay. apply after_head_ok.
    + destruct (Hj x (or_introl eq_refl)) as [Hne Hkeys].
      assert (Hn' : In n (remove_head x (s_heads s))) by (apply In_remove_head; split; auto).
      split.
      * unfold Inv; simpl. apply Forall_set_nth_idx.
        -- intros j r Hjne Hr. pose proof (Inv_nth _ _ _ HI Hr) as Hr_ok.
           destruct (p_pc r) eqn:Er; simpl in *; auto.
           exfalso. apply Hjne. apply (Hex j (e_pid e) r p Hr Hnth).
           ++ unfold active. rewrite Er. reflexivity.
           ++ unfold active. rewrite Epc. reflexivity.
        -- apply after_todo_ok; [eapply just_tail; exact Hj|exact Hn'].
      * intros k [h [Hh Hk]]. simpl. destruct (table_eqb h x) eqn:E.
        -- apply table_eqb_spec in E. subst h. exists n. split; [exact Hn'|apply Hkeys; exact Hk].
        -- apply table_eqb_neq in E. exists h. split; [apply In_remove_head; auto|exact Hk].
  - (* PUnlock *)
    cbn [fst]. apply Hstay. exact I.
Qed.

Lemma run_ok : forall lw sched s,
  Inv s -> Forall excl (states (step true lw) sched s) ->
  Inv (run (step true lw) sched s) /\ kcov_le s (run (step true lw) sched s).
Proof.
  intros lw sched. induction sched as [|e r IH]; intros s HI Hex; simpl in Hex.
  - split; [exact HI|apply kcov_le_refl].
  - inversion Hex as [|? ? Hs Hr]; subst. destruct (step_ok lw s e HI Hs) as [HI' Hle].
    destruct (IH _ HI' Hr) as [HI'' Hle']. rewrite run_cons. split; [exact HI''|].
    eapply kcov_le_trans; eassumption.
Qed.

Lemma states_app_excl : forall lw fixed a b s,
  Forall excl (states (step fixed lw) (a ++ b) s) ->
  Forall excl (states (step fixed lw) a s) /\ Forall excl (states (step fixed lw) b (run (step fixed lw) a s)).
Proof.
  intros lw fixed a. induction a as [|e r IH]; intros b s H; simpl in *.
  - split; [|exact H]. constructor; [|constructor]. destruct b; inversion H; assumption.
  - inversion H as [|? ? Hs Hr]; subst. destruct (IH _ _ Hr) as [H1 H2]. split; [constructor; assumption|].
    exact H2.
Qed.

Lemma init_Inv : forall H ps, Inv (init_state H ps).
Proof.
  intros H ps. unfold Inv, init_state; simpl. apply Forall_forall. intros p Hp.
  apply in_map_iff in Hp. destruct Hp as [cp [<- _]]. exact I.
Qed.

(** Keys covered at any moment of an exclusive run stay covered. *)
Lemma protocol_exclusive : forall lw H ps sched1 sched2 k,
  Forall excl (states (step true lw) (sched1 ++ sched2) (init_state H ps)) ->
  KCov (s_heads (run (step true lw) sched1 (init_state H ps))) k ->
  KCov (s_heads (run (step true lw) (sched1 ++ sched2) (init_state H ps))) k.
Proof.
  intros lw H ps sched1 sched2 k Hex Hk.
  destruct (states_app_excl lw true _ _ _ Hex) as [H1 H2].
  destruct (run_ok lw sched1 _ (init_Inv H ps) H1) as [HI1 _].
  destruct (run_ok lw sched2 _ HI1 H2) as [_ Hle]. rewrite run_app. apply Hle. exact Hk.
Qed.

(** The step labelled [LAdd t] puts [t] in the directory. *)
Lemma add_label_in_heads : forall fixed lw s e t,
  snd (step_lbl fixed lw s e) = LAdd t -> In t (s_heads (step fixed lw s e)).
Proof.
  intros fixed lw s e t. unfold step, step_lbl.
  destruct (nth_error (s_procs s) (e_pid e)) as [p|]; [|discriminate].
  destruct (p_pc p) as [| |w|w|n todo w locked|n todo w locked|]; cbn [fst snd].
  - destruct (p_prog p) as [|[|es|es] r]; cbn [snd]; discriminate.
  - destruct (read s e) as [|t0 [|t1 tr]]; cbn [snd]; discriminate.
  - destruct (lock_free lw s); cbn [snd]; discriminate.
  - destruct (read s e) as [|t0 [|t1 tr]]; cbn [snd]; discriminate.
  - intros E. inversion E; subst. simpl. apply In_add_head. left. reflexivity.
  - destruct todo; cbn [snd]; discriminate.
  - discriminate.
Qed.

(** The lemma that needs the guard (DESIGN §6 C21): after the whole removal loop of
    get_head_locked the merged table is still a head. *)
Lemma reconcile_keeps_merged_head : forall t0 others H,
  let m := reconcile t0 others in
  let todo := others_than m [t0] ++ others_than m others in
  In m (fold_left (fun H x => remove_head x H) todo (add_head m H)).
Proof.
  intros t0 others H m todo.
  assert (Hne : forall x, In x todo -> x <> m).
  { intros x Hx. unfold todo in Hx. apply in_app_or in Hx.
    destruct Hx as [Hx|Hx]; apply In_others_than in Hx; tauto. }
  assert (Hgen : forall l H0, (forall x, In x l -> x <> m) -> In m H0 ->
                              In m (fold_left (fun H x => remove_head x H) l H0)).
  { induction l as [|x r IH]; intros H0 Hl Hin; simpl; [exact Hin|].
    apply IH; [intros y Hy; apply Hl; right; exact Hy|].
    apply In_remove_head. split; [exact Hin|]. intros E. apply (Hl x (or_introl eq_refl)). auto. }
  apply Hgen; [exact Hne|]. apply In_add_head. left. reflexivity.
Qed.

(* ------------------------------------------------------------------ lock discipline *)
(** With a working lock and every writer going through get_head_locked (no [CStale]),
    whoever removes heads holds the lock, so ALL schedules are exclusive. *)
Definition holds (p : proc) : bool :=
  match p_pc p with
  | PRead2 _ | PUnlock => true
  | PAdd _ _ _ l | PRem _ _ _ l => l
  | _ => false
  end.

Definition no_stale_cmd (c : cmd) : bool := match c with CStale _ => false | _ => true end.

Definition unlocked_ok (p : proc) : Prop :=
  forallb no_stale_cmd (p_prog p) = true /\
  match p_pc p with
  | PAdd _ todo w false => todo = [] /\ w = None
  | PRem _ _ _ false => False
  | _ => True
  end.

Definition LInv (s : state) : Prop :=
  (forall i p, nth_error (s_procs s) i = Some p -> holds p = true -> s_lock s = Some i)
  /\ Forall unlocked_ok (s_procs s).

Lemma nth_error_set_nth_eq {A} : forall (l : list A) n x,
  n < length l -> nth_error (set_nth n x l) n = Some x.
Proof.
  induction l as [|h t IH]; intros n x Hn; simpl in *; [lia|].
  destruct n; simpl; [reflexivity|]. apply IH. lia.
Qed.

Lemma nth_error_set_nth_neq {A} : forall (l : list A) n m x,
  n <> m -> nth_error (set_nth n x l) m = nth_error l m.
Proof.
  induction l as [|h t IH]; intros n m x Hne; [destruct n; reflexivity|].
  destruct n; destruct m; simpl; try reflexivity; [congruence|]. apply IH. congruence.
Qed.

Lemma nth_error_set_nth_some {A} : forall (l : list A) n m x y,
  nth_error (set_nth n x l) m = Some y -> (m = n /\ y = x) \/ (m <> n /\ nth_error l m = Some y).
Proof.
  intros l n m x y H. destruct (Nat.eq_dec m n) as [->|Hne].
  - left. split; [reflexivity|].
    assert (Hlt : n < length l).
    { apply nth_error_Some. intros E.
      assert (length (set_nth n x l) = length l).
      { clear. revert n. induction l as [|h t IH]; intros n; [destruct n; reflexivity|].
        destruct n; simpl; [reflexivity|]. f_equal. apply IH. }
      assert (n < length (set_nth n x l)) by (apply nth_error_Some; congruence).
      apply nth_error_None in E. lia. }
    rewrite nth_error_set_nth_eq in H by exact Hlt. congruence.
  - right. split; [exact Hne|]. rewrite nth_error_set_nth_neq in H by congruence. exact H.
Qed.

Lemma LInv_excl : forall s, LInv s -> excl s.
Proof.
  intros s [L1 L2] i j p q Hp Hq Ap Aq.
  assert (Hh : forall r, In r (s_procs s) -> active r = true -> holds r = true).
  { intros r Hr Ar. rewrite Forall_forall in L2. destruct (L2 r Hr) as [_ Hu].
    unfold active in Ar. unfold holds. destruct (p_pc r) as [| | | |n todo w l|n todo w l|]; try discriminate.
    - destruct l; [reflexivity|]. destruct Hu as [-> _]. discriminate.
    - destruct l; [reflexivity|destruct Hu]. }
  pose proof (L1 i p Hp (Hh p (nth_error_In _ _ Hp) Ap)) as E1.
  pose proof (L1 j q Hq (Hh q (nth_error_In _ _ Hq) Aq)) as E2.
  congruence.
Qed.

Lemma holds_after_head : forall p n w locked, holds (after_head p n w locked) = locked.
Proof. intros p n w locked. unfold after_head, holds. destruct w; simpl; [reflexivity|destruct locked; reflexivity]. Qed.

Lemma holds_after_todo : forall p n todo w locked, holds (after_todo p n todo w locked) = locked.
Proof.
  intros p n todo w locked. unfold after_todo. destruct todo; [apply holds_after_head|reflexivity].
Qed.

Lemma prog_after_head : forall p n w locked, p_prog (after_head p n w locked) = p_prog p.
Proof. intros p n w locked. unfold after_head. destruct w; reflexivity. Qed.

Lemma prog_after_todo : forall p n todo w locked, p_prog (after_todo p n todo w locked) = p_prog p.
Proof. intros p n todo w locked. unfold after_todo. destruct todo; [apply prog_after_head|reflexivity]. Qed.

Lemma unlocked_after_head_true : forall p n w,
  forallb no_stale_cmd (p_prog p) = true -> unlocked_ok (after_head p n w true).
Proof.
  intros p n w Hp. split; [rewrite prog_after_head; exact Hp|].
  unfold after_head. destruct w; simpl; exact I.
Qed.

Lemma unlocked_after_todo_true : forall p n todo w,
  forallb no_stale_cmd (p_prog p) = true -> unlocked_ok (after_todo p n todo w true).
Proof.
  intros p n todo w Hp. unfold after_todo. destruct todo; [apply unlocked_after_head_true; exact Hp|].
  split; [exact Hp|exact I].
Qed.

Lemma LInv_step : forall s e, LInv s -> LInv (step true true s e).
Proof.
  intros s e HL. pose proof HL as [L1 L2]. unfold step, step_lbl.
  destruct (nth_error (s_procs s) (e_pid e)) as [p|] eqn:Hnth; [|exact HL].
  assert (Hu : unlocked_ok p).
  { rewrite Forall_forall in L2. apply L2. eapply nth_error_In. exact Hnth. }
  destruct Hu as [Hprog Hun].
  (* generic re-establishment: the moving process becomes [q], the lock becomes [lk] *)
  assert (Hupd : forall q lk H',
            unlocked_ok q ->
            (holds q = true -> lk = Some (e_pid e)) ->
            (forall i r, i <> e_pid e -> nth_error (s_procs s) i = Some r -> holds r = true -> lk = Some i) ->
            LInv (mk_state H' lk (set_nth (e_pid e) q (s_procs s)))).
  { intros q lk H' Hq Hl Ho. split; simpl.
    - intros i r Hr Hh. apply nth_error_set_nth_some in Hr. destruct Hr as [[-> ->]|[Hne Hr]].
      + apply Hl. exact Hh.
      + eapply Ho; eassumption.
    - apply Forall_set_nth_idx; [|exact Hq]. intros j y _ Hy. rewrite Forall_forall in L2.
      apply L2. eapply nth_error_In. exact Hy. }
  assert (Hkeep : forall i r, i <> e_pid e -> nth_error (s_procs s) i = Some r -> holds r = true ->
                              s_lock s = Some i) by (intros i r _ Hr Hh; eapply L1; eassumption).
  destruct (p_pc p) as [| |w|w|n todo w locked|n todo w locked|] eqn:Epc.
  - (* PIdle *)
    destruct (p_prog p) as [|c r] eqn:Eprog; [exact HL|].
    simpl in Hprog. apply Bool.andb_true_iff in Hprog. destruct Hprog as [Hc Hr].
    destruct c as [|es|es]; cbn [fst]; [| |discriminate]; apply Hupd; auto;
      try (split; [exact Hr|exact I]); discriminate.
  - (* PRead1 *)
    destruct (read s e) as [|t [|t1 tr]]; cbn [fst]; apply Hupd; auto; try discriminate;
      split; simpl; auto.
  - (* PLock *)
    unfold lock_free, take_lock. simpl negb. rewrite Bool.orb_false_l.
    destruct (s_lock s) as [holder|] eqn:El; cbn [fst]; [exact HL|].
    apply Hupd; [split; [exact Hprog|exact I]|reflexivity|].
    intros i r _ Hr Hh. pose proof (L1 i r Hr Hh). congruence.
  - (* PRead2 *)
    assert (Hlock : s_lock s = Some (e_pid e)) by (apply (L1 _ p Hnth); unfold holds; rewrite Epc; reflexivity).
    destruct (read s e) as [|t0 [|t1 tr]]; cbn [fst]; apply Hupd; auto.
    + split; [exact Hprog|exact I].
    + apply unlocked_after_head_true. exact Hprog.
    + split; [exact Hprog|exact I].
  - (* PAdd *)
    cbn [fst]. destruct locked.
    + assert (Hlock : s_lock s = Some (e_pid e)) by (apply (L1 _ p Hnth); unfold holds; rewrite Epc; reflexivity).
      apply Hupd; auto. apply unlocked_after_todo_true. exact Hprog.
    + destruct Hun as [-> ->]. cbn [after_todo after_head].
      apply Hupd; auto; [split; [exact Hprog|exact I]|discriminate].
  - (* PRem *)
    destruct locked; [|destruct Hun].
    assert (Hlock : s_lock s = Some (e_pid e)) by (apply (L1 _ p Hnth); unfold holds; rewrite Epc; reflexivity).
    destruct todo as [|x todo']; cbn [fst]; apply Hupd; auto.
    + apply unlocked_after_head_true. exact Hprog.
    + apply unlocked_after_todo_true. exact Hprog.
  - (* PUnlock *)
    assert (Hlock : s_lock s = Some (e_pid e)) by (apply (L1 _ p Hnth); unfold holds; rewrite Epc; reflexivity).
    cbn [fst]. apply Hupd.
    + split; [exact Hprog|exact I].
    + discriminate.
    + intros i r Hne Hr Hh. pose proof (L1 i r Hr Hh). congruence.
Qed.

Definition no_stale (ps : list (table * list cmd)) : Prop :=
  forall cp, In cp ps -> forallb no_stale_cmd (snd cp) = true.

Lemma init_LInv : forall H ps, no_stale ps -> LInv (init_state H ps).
Proof.
  intros H ps Hns. split; simpl.
  - intros i p Hp Hh. apply nth_error_In in Hp. apply in_map_iff in Hp.
    destruct Hp as [cp [<- _]]. discriminate.
  - apply Forall_forall. intros p Hp. apply in_map_iff in Hp. destruct Hp as [cp [<- Hcp]].
    split; [apply Hns; exact Hcp|exact I].
Qed.

Lemma locked_all_excl : forall sched s, LInv s -> Forall excl (states (step true true) sched s).
Proof.
  induction sched as [|e r IH]; intros s HL; simpl.
  - constructor; [apply LInv_excl; exact HL|constructor].
  - constructor; [apply LInv_excl; exact HL|]. apply IH. apply LInv_step. exact HL.
Qed.

(** ALL interleavings, working lock, writers through get_head_locked: no key is ever lost. *)
Lemma protocol_locked : forall H ps sched1 sched2 k,
  no_stale ps ->
  KCov (s_heads (run (step true true) sched1 (init_state H ps))) k ->
  KCov (s_heads (run (step true true) (sched1 ++ sched2) (init_state H ps))) k.
Proof.
  intros H ps sched1 sched2 k Hns. apply protocol_exclusive.
  apply locked_all_excl. apply init_LInv. exact Hns.
Qed.

(* ------------------------------------------------------------------ values: sorted entry maps *)
Inductive sorted : ents -> Prop :=
| sorted_nil : sorted []
| sorted_cons : forall k v r, (forall k', In k' (keys r) -> (k < k')%N) -> sorted r -> sorted ((k, v) :: r).

Definition wf_table (t : table) : Prop := Forall sorted t.
Definition wf_mt (m : mtable) : Prop := sorted (m_ents m) /\ wf_table (m_parent m).

Lemma keys_add_entry : forall k v e k', In k' (keys (add_entry k v e)) <-> k' = k \/ In k' (keys e).
Proof.
  intros k v e k'. rewrite <- !find_in_iff, find_add_entry.
  destruct (k' =? k)%N eqn:E.
  - apply N.eqb_eq in E. split; [auto|discriminate].
  - apply N.eqb_neq in E. tauto.
Qed.

Lemma add_entry_sorted : forall k v e, sorted e -> sorted (add_entry k v e).
Proof.
  intros k v e H. induction H as [|k1 v1 r Hlt Hs IH]; simpl.
  - constructor; [intros k' []|constructor].
  - destruct (k <? k1)%N eqn:E1.
    + apply N.ltb_lt in E1. constructor; [|constructor; assumption].
      intros k' [<-|Hk']; [exact E1|]. specialize (Hlt _ Hk'). lia.
    + apply N.ltb_ge in E1. destruct (k =? k1)%N eqn:E2.
      * apply N.eqb_eq in E2. subst. constructor; assumption.
      * apply N.eqb_neq in E2. constructor; [|exact IH].
        intros k' Hk'. apply keys_add_entry in Hk'. destruct Hk' as [->|Hk']; [lia|auto].
Qed.

Lemma add_entries_from_sorted : forall src acc, sorted acc -> sorted (add_entries_from src acc).
Proof.
  unfold add_entries_from. induction src as [|[k v] r IH]; intros acc H; simpl; [exact H|].
  apply IH. apply add_entry_sorted. exact H.
Qed.

Lemma of_list_sorted : forall es, sorted (of_list es).
Proof. intros es. apply add_entries_from_sorted. constructor. Qed.

Lemma sorted_nodup : forall e, sorted e -> NoDup (keys e).
Proof.
  intros e H. induction H as [|k v r Hlt Hs IH]; simpl; constructor; [|exact IH].
  intros Hin. specialize (Hlt _ Hin). lia.
Qed.

Lemma find_rev_nodup : forall e k, NoDup (keys e) -> find k (rev e) = find k e.
Proof.
  induction e as [|[k1 v1] r IH]; intros k Hnd; simpl; [reflexivity|].
  inversion Hnd as [|? ? Hn Hr]; subst. rewrite find_app, IH by exact Hr. simpl.
  destruct (k =? k1)%N eqn:E.
  - apply N.eqb_eq in E. subst. apply find_none_iff in Hn. rewrite Hn. reflexivity.
  - destruct (find k r); reflexivity.
Qed.

Lemma find_add_entries_sorted : forall k src acc, sorted src ->
  find k (add_entries_from src acc) = match find k src with Some v => Some v | None => find k acc end.
Proof.
  intros k src acc H. rewrite find_add_entries_from, find_rev_nodup; [reflexivity|].
  apply sorted_nodup. exact H.
Qed.

Lemma fold_left_rev {A B} (g : A -> B -> A) : forall l a,
  fold_left g (rev l) a = fold_right (fun x acc => g acc x) a l.
Proof.
  induction l as [|x r IH]; intros a; simpl; [reflexivity|].
  rewrite fold_left_app. simpl. rewrite IH. reflexivity.
Qed.

Lemma find_fold_files : forall k fs acc, wf_table fs ->
  find k (fold_left (fun a f => add_entries_from f a) (rev fs) acc) =
  match lookup fs k with Some v => Some v | None => find k acc end.
Proof.
  intros k fs acc Hwf. rewrite fold_left_rev.
  induction Hwf as [|f r Hf Hr IH]; simpl; [reflexivity|].
  rewrite find_add_entries_sorted by exact Hf. destruct (find k f); [reflexivity|exact IH].
Qed.

Lemma fold_files_sorted : forall fs acc, sorted acc ->
  sorted (fold_left (fun a f => add_entries_from f a) fs acc).
Proof.
  induction fs as [|f r IH]; intros acc H; simpl; [exact H|]. apply IH.
  apply add_entries_from_sorted. exact H.
Qed.

Lemma wf_table_app : forall a b, wf_table (a ++ b) <-> wf_table a /\ wf_table b.
Proof. intros a b. unfold wf_table. apply Forall_app. Qed.

(** Squashing segments never changes a lookup. *)
Lemma squash_same_lookup : forall m k, wf_mt m -> lookup_mt (maybe_squash m) k = lookup_mt m k.
Proof.
  intros m k [He Hp]. unfold maybe_squash.
  destruct (squash_scan (length (m_ents m)) (m_parent m)) as [fs rest] eqn:E.
  pose proof (squash_scan_split _ _ _ _ E) as Hs.
  destruct fs as [|f0 fr]; [reflexivity|].
  rewrite Hs in Hp. apply wf_table_app in Hp. destruct Hp as [Hfs Hrest].
  unfold lookup_mt. cbn [m_ents m_parent].
  rewrite find_add_entries_sorted by exact He. rewrite find_fold_files by exact Hfs.
  rewrite Hs, lookup_app. simpl find at 2.
  destruct (find k (m_ents m)); [reflexivity|].
  destruct (lookup (f0 :: fr) k); reflexivity.
Qed.

Lemma maybe_squash_wf : forall m, wf_mt m -> wf_mt (maybe_squash m).
Proof.
  intros m [He Hp]. unfold maybe_squash.
  destruct (squash_scan (length (m_ents m)) (m_parent m)) as [fs rest] eqn:E.
  pose proof (squash_scan_split _ _ _ _ E) as Hs.
  destruct fs as [|f0 fr]; [split; assumption|].
  rewrite Hs in Hp. apply wf_table_app in Hp. destruct Hp as [_ Hrest].
  split; cbn [m_ents m_parent]; [|exact Hrest].
  apply add_entries_from_sorted. apply fold_files_sorted. constructor.
Qed.

(** Saving (including the squash it may do) never changes a lookup. *)
Lemma save_in_lookup : forall m k, wf_mt m -> lookup (save_in m) k = lookup_mt m k.
Proof.
  intros m k Hwf. unfold save_in.
  destruct (m_ents m) as [|e0 er] eqn:Ee; destruct (m_parent m) as [|p0 pr] eqn:Ep;
    try (change (lookup (m_ents (maybe_squash m) :: m_parent (maybe_squash m)) k)
           with (lookup_mt (maybe_squash m) k); apply squash_same_lookup; exact Hwf).
  unfold lookup_mt. rewrite Ee, Ep. reflexivity.
Qed.

Lemma save_in_wf : forall m, wf_mt m -> wf_table (save_in m).
Proof.
  intros m Hwf. pose proof (maybe_squash_wf m Hwf) as [H1 H2]. unfold save_in.
  destruct (m_ents m) as [|e0 er]; destruct (m_parent m) as [|p0 pr] eqn:Ep;
    try (constructor; assumption).
  destruct Hwf as [_ Hp]. rewrite Ep in Hp. exact Hp.
Qed.

Lemma walk_wf : forall own oth, wf_table oth -> wf_table (walk own oth).
Proof.
  intros own oth H. destruct (walk_prefix own oth) as [rest Hr]. rewrite Hr in H.
  apply wf_table_app in H. tauto.
Qed.

(** Exact result of merging [o] into [m]: the segments of [o] that are not shared with
    [m]'s ancestors shadow [m]. *)
Lemma merge_in_lookup : forall m o k, wf_table o ->
  lookup_mt (merge_in m o) k =
  match lookup (walk (m_parent m) o) k with Some v => Some v | None => lookup_mt m k end.
Proof.
  intros m o k Hwf. unfold lookup_mt, merge_in. cbn [m_ents m_parent].
  rewrite find_fold_files by (apply walk_wf; exact Hwf).
  destruct (lookup (walk (m_parent m) o) k); reflexivity.
Qed.

Lemma merge_in_wf : forall m o, wf_mt m -> wf_table o -> wf_mt (merge_in m o).
Proof.
  intros m o [He Hp] Ho. split; cbn [merge_in m_ents m_parent]; [|exact Hp].
  apply fold_files_sorted. exact He.
Qed.

(** Every value found after a merge is the value one of the two sides had. *)
Lemma merge_in_value : forall m o k v, wf_table o ->
  lookup_mt (merge_in m o) k = Some v -> lookup_mt m k = Some v \/ lookup o k = Some v.
Proof.
  intros m o k v Hwf H. rewrite merge_in_lookup in H by exact Hwf.
  destruct (walk_prefix (m_parent m) o) as [rest Hr].
  destruct (lookup (walk (m_parent m) o) k) as [v'|] eqn:E; [|auto].
  right. rewrite Hr, lookup_app, E. exact H.
Qed.

(** A save on top of a table: the values written win, everything else is kept. *)
Lemma save_lookup : forall n es k, wf_table n ->
  lookup (save_in (mk_mt n (of_list es))) k =
  match find k (of_list es) with Some v => Some v | None => lookup n k end.
Proof.
  intros n es k Hn. rewrite save_in_lookup; [reflexivity|]. split; [apply of_list_sorted|exact Hn].
Qed.

Definition seq_saves (n : table) (ess : list ents) : table :=
  fold_left (fun t es => save_in (mk_mt t (of_list es))) ess n.

Lemma seq_saves_wf : forall ess n, wf_table n -> wf_table (seq_saves n ess).
Proof.
  induction ess as [|es r IH]; intros n Hn; simpl; [exact Hn|]. apply IH.
  apply save_in_wf. split; [apply of_list_sorted|exact Hn].
Qed.

(** In a sequential history the last save of a key wins. *)
Lemma sequential_wins : forall ess n k, wf_table n ->
  lookup (seq_saves n ess) k =
  fold_left (fun acc es => match find k (of_list es) with Some v => Some v | None => acc end)
            ess (lookup n k).
Proof.
  induction ess as [|es r IH]; intros n k Hn; simpl; [reflexivity|].
  rewrite IH by (apply save_in_wf; split; [apply of_list_sorted|exact Hn]).
  rewrite save_lookup by exact Hn. reflexivity.
Qed.

(* ------------------------------------------------------------------ strict sequential-wins *)
Lemma lookup_none_files : forall fs k, (forall f, In f fs -> ~ In k (keys f)) -> lookup fs k = None.
Proof.
  intros fs k H. destruct (lookup fs k) eqn:E; [|reflexivity]. exfalso.
  assert (Hh : has fs k) by (unfold has; congruence).
  apply has_files in Hh. destruct Hh as [f [Hf Hk]]. exact (H f Hf Hk).
Qed.

Lemma lookup_some_in : forall fs k v, lookup fs k = Some v -> exists f, In f fs /\ find k f = Some v.
Proof.
  induction fs as [|e r IH]; intros k v H; simpl in H; [discriminate|].
  destruct (find k e) eqn:E.
  - inversion H; subst. exists e. split; [left; reflexivity|exact E].
  - destruct (IH _ _ H) as [f [Hf Hk]]. exists f. split; [right; exact Hf|exact Hk].
Qed.

(** The other side's value for [k] can displace [m]'s only if it physically sits in a segment
    of [o] that the walk did not recognise as shared with [m]'s chain ... *)
Lemma merge_other_only_unshared : forall m o k v, wf_table o ->
  lookup_mt (merge_in m o) k = Some v ->
  lookup_mt m k = Some v \/ exists f, In f (walk (m_parent m) o) /\ find k f = Some v.
Proof.
  intros m o k v Hwf H. rewrite merge_in_lookup in H by exact Hwf.
  destruct (lookup (walk (m_parent m) o) k) as [v'|] eqn:E; [|left; exact H].
  inversion H; subst. right. apply lookup_some_in. exact E.
Qed.

(** ... so when no unshared segment of [o] holds [k] (the other side neither wrote [k] since
    the fork nor had it re-recorded there by a squash), [m]'s value is kept. *)
Lemma merge_own_value_wins : forall m o k, wf_table o ->
  (forall f, In f (walk (m_parent m) o) -> ~ In k (keys f)) ->
  lookup_mt (merge_in m o) k = lookup_mt m k.
Proof.
  intros m o k Hwf H. rewrite merge_in_lookup by exact Hwf.
  rewrite (lookup_none_files _ _ H). reflexivity.
Qed.

Lemma fold_merge_parent : forall others m, m_parent (fold_left merge_in others m) = m_parent m.
Proof. induction others as [|o r IH]; intros m; simpl; [reflexivity|]. rewrite IH. reflexivity. Qed.

Lemma fold_merge_wf : forall others m, wf_mt m -> Forall wf_table others -> wf_mt (fold_left merge_in others m).
Proof.
  induction others as [|o r IH]; intros m Hm Ho; simpl; [exact Hm|].
  inversion Ho; subst. apply IH; [apply merge_in_wf; assumption|assumption].
Qed.

(** Reconciliation: the value of the first head (whatever its own history made of [k]:
    by [sequential_wins] its causally last save) survives unless another head physically
    holds [k] in a segment not shared with it. *)
Lemma reconcile_own_value_wins : forall t0 others k,
  wf_table t0 -> Forall wf_table others ->
  (forall o f, In o others -> In f (walk t0 o) -> ~ In k (keys f)) ->
  lookup (reconcile t0 others) k = lookup t0 k.
Proof.
  intros t0 others k H0 Ho Hk. unfold reconcile.
  assert (Hwf0 : wf_mt (mk_mt t0 [])) by (split; [constructor|exact H0]).
  rewrite save_in_lookup by (apply fold_merge_wf; assumption).
  assert (Hgen : forall l m, wf_mt m -> m_parent m = t0 -> Forall wf_table l ->
            (forall o f, In o l -> In f (walk t0 o) -> ~ In k (keys f)) ->
            lookup_mt (fold_left merge_in l m) k = lookup_mt m k).
  { induction l as [|o r IH]; intros m Hm Hp Hl Hkk; simpl; [reflexivity|].
    apply Forall_cons_iff in Hl. destruct Hl as [Ho1 Hr1].
    rewrite (IH (merge_in m o)).
    - apply merge_own_value_wins; [exact Ho1|]. intros f Hf. apply (Hkk o f); [left; reflexivity|].
      rewrite <- Hp. exact Hf.
    - apply merge_in_wf; assumption.
    - exact Hp.
    - exact Hr1.
    - intros o' f Ho' Hf. apply (Hkk o' f); [right; exact Ho'|exact Hf]. }
  rewrite Hgen; auto.
Qed.
