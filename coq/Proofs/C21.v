(** C21 — proofs about the stacked-table model (Model/C21.v). *)
From Verif Require Import Base.Prelude Base.SchedS Proofs.SchedS Gen.Tables Model.C21.
From Coq Require Import Arith Lia Sorted.

(* ------------------------------------------------------------------ equality tests *)
Lemma list_eqb_spec {A} (eqb : A -> A -> bool) :
  (forall x y, eqb x y = true <-> x = y) -> forall l1 l2, list_eqb eqb l1 l2 = true <-> l1 = l2.
Proof.
  intros He. induction l1 as [|x l1 IH]; destruct l2 as [|y l2]; simpl; split; try congruence.
  - intros H. apply Bool.andb_true_iff in H. destruct H as [H1 H2]. apply He in H1. apply IH in H2.
    congruence.
  - intros H. inversion H; subst. apply Bool.andb_true_iff. split; [apply He|apply IH]; reflexivity.
Qed.

Lemma pair_eqb_spec : forall p q : N * N, pair_eqb N.eqb N.eqb p q = true <-> p = q.
Proof.
  intros [a b] [c d]. unfold pair_eqb; simpl. rewrite Bool.andb_true_iff, !N.eqb_eq. split.
  - intros [-> ->]. reflexivity.
  - intros H. inversion H. auto.
Qed.

Lemma ents_eqb_spec : forall a b, ents_eqb a b = true <-> a = b.
Proof. apply list_eqb_spec. apply pair_eqb_spec. Qed.

Lemma table_eqb_spec : forall a b, table_eqb a b = true <-> a = b.
Proof. apply list_eqb_spec. apply ents_eqb_spec. Qed.

Lemma table_eqb_refl : forall a, table_eqb a a = true.
Proof. intros a. apply table_eqb_spec. reflexivity. Qed.

Lemma table_eqb_neq : forall a b, table_eqb a b = false <-> a <> b.
Proof.
  intros a b. split.
  - intros H E. apply table_eqb_spec in E. congruence.
  - intros H. destruct (table_eqb a b) eqn:E; [|reflexivity]. apply table_eqb_spec in E. contradiction.
Qed.

Lemma memt_spec : forall t l, memt t l = true <-> In t l.
Proof.
  intros t l. unfold memt. rewrite existsb_exists. split.
  - intros [x [Hx He]]. apply table_eqb_spec in He. subst. exact Hx.
  - intros H. exists t. split; [exact H|apply table_eqb_refl].
Qed.

Lemma In_add_head : forall t H x, In x (add_head t H) <-> x = t \/ In x H.
Proof.
  intros t H x. unfold add_head. destruct (memt t H) eqn:E.
  - apply memt_spec in E. split; [auto|]. intros [->|Hx]; assumption.
  - rewrite in_app_iff. simpl. intuition.
Qed.

Lemma In_remove_head : forall t H x, In x (remove_head t H) <-> In x H /\ x <> t.
Proof.
  intros t H x. unfold remove_head. rewrite filter_In, Bool.negb_true_iff, table_eqb_neq. reflexivity.
Qed.

Lemma In_others_than : forall n l x, In x (others_than n l) <-> In x l /\ x <> n.
Proof.
  intros n l x. unfold others_than. rewrite filter_In, Bool.negb_true_iff, table_eqb_neq. reflexivity.
Qed.

(* ------------------------------------------------------------------ keys of entry maps *)
Definition keys (e : ents) : list N := map fst e.

Lemma find_some_in : forall k e v, find k e = Some v -> In k (keys e).
Proof.
  intros k e v. induction e as [|[k' v'] r IH]; simpl; [discriminate|].
  destruct (k =? k')%N eqn:E; [apply N.eqb_eq in E; auto|auto].
Qed.

Lemma find_none_iff : forall k e, find k e = None <-> ~ In k (keys e).
Proof.
  intros k e. induction e as [|[k' v'] r IH]; simpl; [tauto|].
  destruct (k =? k')%N eqn:E.
  - apply N.eqb_eq in E. subst. split; [discriminate|]. intros H. exfalso. apply H. auto.
  - apply N.eqb_neq in E. rewrite IH. split; [intros H [H1|H1]; [congruence|contradiction]|tauto].
Qed.

Lemma find_in_iff : forall k e, find k e <> None <-> In k (keys e).
Proof.
  intros k e. destruct (find k e) eqn:E.
  - split; [intros _; eapply find_some_in; exact E|discriminate].
  - apply find_none_iff in E. tauto.
Qed.

Lemma find_add_entry : forall k k' v e,
  find k (add_entry k' v e) = if (k =? k')%N then Some v else find k e.
Proof.
  intros k k' v e. induction e as [|[k1 v1] r IH]; simpl.
  - destruct (k =? k')%N; reflexivity.
  - destruct (k' <? k1)%N eqn:E1; simpl.
    + destruct (k =? k')%N; reflexivity.
    + destruct (k' =? k1)%N eqn:E2; simpl.
      * apply N.eqb_eq in E2. subst k1. destruct (k =? k')%N; reflexivity.
      * rewrite IH. destruct (k =? k1)%N eqn:E3; [|reflexivity].
        apply N.eqb_eq in E3. subst k1. destruct (k =? k')%N eqn:E4; [|reflexivity].
        apply N.eqb_eq in E4. subst. rewrite N.eqb_refl in E2. discriminate.
Qed.

Lemma find_app : forall k a b,
  find k (a ++ b) = match find k a with Some v => Some v | None => find k b end.
Proof.
  intros k a b. induction a as [|[k' v'] r IH]; simpl; [reflexivity|].
  destruct (k =? k')%N; [reflexivity|exact IH].
Qed.

(** The last entry of [src] for a key wins, then [acc]. *)
Lemma find_add_entries_from : forall k src acc,
  find k (add_entries_from src acc) =
  match find k (rev src) with Some v => Some v | None => find k acc end.
Proof.
  intros k src. unfold add_entries_from.
  induction src as [|[k1 v1] r IH]; intros acc; simpl; [reflexivity|].
  rewrite IH, find_app, find_add_entry. simpl.
  destruct (find k (rev r)); [reflexivity|]. destruct (k =? k1)%N; reflexivity.
Qed.

Lemma keys_rev : forall k e, In k (keys (rev e)) <-> In k (keys e).
Proof. intros k e. unfold keys. rewrite map_rev, <- in_rev. reflexivity. Qed.

Lemma keys_add_entries_from : forall k src acc,
  In k (keys (add_entries_from src acc)) <-> In k (keys src) \/ In k (keys acc).
Proof.
  intros k src acc. rewrite <- (keys_rev k src). rewrite <- !find_in_iff, find_add_entries_from.
  destruct (find k (rev src)) eqn:E.
  - split; [intros _; left|]; discriminate.
  - tauto.
Qed.

Lemma keys_fold_files : forall k fs acc,
  In k (keys (fold_left (fun a f => add_entries_from f a) fs acc)) <->
  (exists f, In f fs /\ In k (keys f)) \/ In k (keys acc).
Proof.
  intros k fs. induction fs as [|f r IH]; intros acc; simpl.
  - split; [auto|]. intros [[f [[] _]]|H]; exact H.
  - rewrite IH, keys_add_entries_from. split.
    + intros [[g [Hg Hk]]|[H|H]]; [left; exists g; auto|left; exists f; auto|auto].
    + intros [[g [[<-|Hg] Hk]]|H]; [auto|left; exists g; auto|auto].
Qed.

(* ------------------------------------------------------------------ keys of tables *)
Definition has (t : table) (k : N) : Prop := lookup t k <> None.
Definition hasm (m : mtable) (k : N) : Prop := lookup_mt m k <> None.

Lemma has_cons : forall e t k, has (e :: t) k <-> In k (keys e) \/ has t k.
Proof.
  intros e t k. unfold has; simpl. destruct (find k e) eqn:E.
  - split; [intros _; left; eapply find_some_in; exact E|discriminate].
  - apply find_none_iff in E. tauto.
Qed.

Lemma has_nil : forall k, ~ has [] k.
Proof. intros k H. apply H. reflexivity. Qed.

Lemma has_app : forall a b k, has (a ++ b) k <-> has a k \/ has b k.
Proof.
  intros a b k. induction a as [|e r IH]; simpl.
  - split; [auto|]. intros [H|H]; [destruct (has_nil _ H)|exact H].
  - rewrite !has_cons, IH. tauto.
Qed.

Lemma has_files : forall fs k, has fs k <-> exists f, In f fs /\ In k (keys f).
Proof.
  induction fs as [|e r IH]; intros k.
  - split; [intros H; destruct (has_nil _ H)|intros [f [[] _]]].
  - rewrite has_cons, IH. simpl. split.
    + intros [H|[f [Hf Hk]]]; [exists e; auto|exists f; auto].
    + intros [f [[<-|Hf] Hk]]; [auto|right; exists f; auto].
Qed.

Lemma hasm_iff : forall m k, hasm m k <-> In k (keys (m_ents m)) \/ has (m_parent m) k.
Proof.
  intros m k. unfold hasm, lookup_mt, has. destruct (find k (m_ents m)) eqn:E.
  - split; [intros _; left; eapply find_some_in; exact E|discriminate].
  - apply find_none_iff in E. tauto.
Qed.

Lemma lookup_app : forall a b k,
  lookup (a ++ b) k = match lookup a k with Some v => Some v | None => lookup b k end.
Proof.
  intros a b k. induction a as [|e r IH]; simpl; [reflexivity|].
  destruct (find k e); [reflexivity|exact IH].
Qed.

(* ------------------------------------------------------------------ merge_in *)
Lemma walk_eq : forall own oth,
  walk own oth =
  match oth with
  | [] => []
  | oe :: oth' =>
    match own with
    | [] => oe :: walk [] oth'
    | _ :: own' =>
      if table_eqb own oth then []
      else if num_entries own <? num_entries oth then oe :: walk own oth'
      else walk own' oth
    end
  end.
Proof. intros own oth. destruct own; destruct oth; reflexivity. Qed.

(** The segments collected are a prefix of [oth]'s chain ... *)
Lemma walk_prefix : forall own oth, exists rest, oth = walk own oth ++ rest.
Proof.
  induction own as [|we own' IHown]; induction oth as [|oe oth' IHoth]; rewrite walk_eq.
  - exists []. reflexivity.
  - destruct IHoth as [rest Hr]. exists rest. simpl. f_equal. exact Hr.
  - exists []. reflexivity.
  - destruct (table_eqb (we :: own') (oe :: oth')); [exists (oe :: oth'); reflexivity|].
    destruct (num_entries (we :: own') <? num_entries (oe :: oth')).
    + destruct IHoth as [rest Hr]. exists rest. simpl. f_equal. exact Hr.
    + apply IHown.
Qed.

(** ... and what is not collected is already below [own]. *)
Lemma walk_covers : forall own oth k,
  has oth k -> has (walk own oth) k \/ has own k.
Proof.
  induction own as [|we own' IHown]; induction oth as [|oe oth' IHoth]; intros k Hk; rewrite walk_eq.
  - destruct (has_nil _ Hk).
  - apply has_cons in Hk. destruct Hk as [Hk|Hk]; [left; apply has_cons; auto|].
    destruct (IHoth k Hk) as [H|H]; [left; apply has_cons; auto|destruct (has_nil _ H)].
  - destruct (has_nil _ Hk).
  - destruct (table_eqb (we :: own') (oe :: oth')) eqn:E.
    + apply table_eqb_spec in E. rewrite E. auto.
    + destruct (num_entries (we :: own') <? num_entries (oe :: oth')).
      * apply has_cons in Hk. destruct Hk as [Hk|Hk]; [left; apply has_cons; auto|].
        destruct (IHoth k Hk) as [H|H]; [left; apply has_cons; auto|auto].
      * destruct (IHown (oe :: oth') k Hk) as [H|H]; [auto|right; apply has_cons; auto].
Qed.

Lemma merge_in_parent : forall m o, m_parent (merge_in m o) = m_parent m.
Proof. reflexivity. Qed.

Lemma keys_merge_in : forall m o k,
  In k (keys (m_ents (merge_in m o))) <->
  has (walk (m_parent m) o) k \/ In k (keys (m_ents m)).
Proof.
  intros m o k. unfold merge_in; simpl. rewrite keys_fold_files, has_files.
  split; intros [[f [Hf Hk]]|H]; auto; left; exists f; split; auto;
    [apply in_rev; exact Hf|apply in_rev in Hf; exact Hf].
Qed.

Lemma merge_in_keeps : forall m o k, hasm m k \/ has o k -> hasm (merge_in m o) k.
Proof.
  intros m o k H. apply hasm_iff. rewrite keys_merge_in, merge_in_parent.
  destruct H as [H|H].
  - apply hasm_iff in H. tauto.
  - destruct (walk_covers (m_parent m) o k H); tauto.
Qed.

Lemma merge_in_only : forall m o k, hasm (merge_in m o) k -> hasm m k \/ has o k.
Proof.
  intros m o k H. apply hasm_iff in H. rewrite keys_merge_in, merge_in_parent in H.
  destruct H as [[H|H]|H].
  - right. destruct (walk_prefix (m_parent m) o) as [rest Hr]. rewrite Hr. apply has_app. auto.
  - left. apply hasm_iff. auto.
  - left. apply hasm_iff. auto.
Qed.

(* ------------------------------------------------------------------ squash, save *)
Lemma squash_scan_split : forall p n fs rest, squash_scan n p = (fs, rest) -> p = fs ++ rest.
Proof.
  induction p as [|pe p' IH]; intros n fs rest H; cbn [squash_scan] in H.
  - inversion H. reflexivity.
  - destruct (C21_SQUASH_FACTOR * n <? length pe); [inversion H; reflexivity|].
    destruct (squash_scan (n + length pe) p') as [fs' rest'] eqn:E. inversion H; subst.
    simpl. f_equal. eapply IH. exact E.
Qed.

Lemma maybe_squash_keys : forall m k, hasm (maybe_squash m) k <-> hasm m k.
Proof.
  intros m k. unfold maybe_squash.
  destruct (squash_scan (length (m_ents m)) (m_parent m)) as [fs rest] eqn:E.
  pose proof (squash_scan_split _ _ _ _ E) as Hs.
  destruct fs as [|f0 fr]; [reflexivity|].
  rewrite !hasm_iff. simpl m_ents. simpl m_parent.
  rewrite keys_add_entries_from, keys_fold_files, Hs, has_app, has_files. simpl keys at 3.
  split.
  - intros [[H|[[f [Hf Hk]]|[]]]|H]; auto. right. left. exists f. split; [apply in_rev; exact Hf|exact Hk].
  - intros [H|[[f [Hf Hk]]|H]]; auto. left. right. left. exists f. split; [apply in_rev in Hf; exact Hf|exact Hk].
Qed.

Lemma save_in_keys : forall m k, has (save_in m) k <-> hasm m k.
Proof.
  intros m k. unfold save_in.
  destruct (m_ents m) as [|e0 er] eqn:Ee; destruct (m_parent m) as [|p0 pr] eqn:Ep.
  - rewrite has_cons, <- maybe_squash_keys, hasm_iff. reflexivity.
  - rewrite hasm_iff, Ee, Ep. simpl. tauto.
  - rewrite has_cons, <- maybe_squash_keys, hasm_iff. reflexivity.
  - rewrite has_cons, <- maybe_squash_keys, hasm_iff. reflexivity.
Qed.

Lemma keys_of_list : forall es k, In k (keys (of_list es)) <-> In k (keys es).
Proof. intros es k. unfold of_list. rewrite keys_add_entries_from. simpl. tauto. Qed.

(** A save on top of [n] keeps every key of [n] and holds every key written. *)
Lemma save_keys : forall n es k,
  has (save_in (mk_mt n (of_list es))) k <-> In k (keys es) \/ has n k.
Proof. intros n es k. rewrite save_in_keys, hasm_iff. simpl. rewrite keys_of_list. reflexivity. Qed.

Lemma fold_merge_keeps : forall others m k,
  hasm m k \/ (exists o, In o others /\ has o k) -> hasm (fold_left merge_in others m) k.
Proof.
  induction others as [|o r IH]; intros m k H; simpl.
  - destruct H as [H|[o [[] _]]]. exact H.
  - apply IH. destruct H as [H|[o' [[<-|Ho] Hk]]].
    + left. apply merge_in_keeps. auto.
    + left. apply merge_in_keeps. auto.
    + right. exists o'. auto.
Qed.

Lemma fold_merge_only : forall others m k,
  hasm (fold_left merge_in others m) k -> hasm m k \/ (exists o, In o others /\ has o k).
Proof.
  induction others as [|o r IH]; intros m k H; simpl in H; [auto|].
  destruct (IH _ _ H) as [H1|[o' [Ho Hk]]].
  - destruct (merge_in_only _ _ _ H1) as [H2|H2]; [auto|right; exists o; simpl; auto].
  - right. exists o'. simpl. auto.
Qed.

(** Reconciliation keeps every key of every head it read, and invents none. *)
Lemma reconcile_keys : forall t0 others k,
  has (reconcile t0 others) k <-> has t0 k \/ (exists o, In o others /\ has o k).
Proof.
  intros t0 others k. unfold reconcile. rewrite save_in_keys. split.
  - intros H. apply fold_merge_only in H. destruct H as [H|H]; [|auto].
    apply hasm_iff in H. simpl in H. tauto.
  - intros H. apply fold_merge_keeps. destruct H as [H|H]; [|auto]. left. apply hasm_iff. simpl. auto.
Qed.
