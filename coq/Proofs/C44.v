(** Proofs for C44 (cli/src/text_util.rs). *)
From Verif Require Import Base.Prelude Model.C44.
From Coq Require Import Lia PeanoNat.

Section TextWidth.
  Context {A : Type} (cw : A -> nat).
  Notation swidth := (swidth cw).

  Lemma swidth_app : forall a b, swidth (a ++ b) = (swidth a + swidth b)%nat.
  Proof. induction a as [|c a IH]; intros b; cbn [app C44.swidth]; [reflexivity|]. rewrite IH. lia. Qed.

  Lemma swidth_rev : forall l, swidth (rev l) = swidth l.
  Proof.
    induction l as [|c l IH]; [reflexivity|]. cbn [rev C44.swidth]. rewrite swidth_app, IH.
    cbn [C44.swidth]. lia.
  Qed.

  Lemma swidth_trim : forall l, swidth (trim_start_zero cw l) = swidth l.
  Proof.
    induction l as [|c l IH]; [reflexivity|]. cbn [trim_start_zero].
    destruct (Nat.eqb_spec (cw c) 0) as [E|E]; [|reflexivity]. rewrite IH. cbn [C44.swidth]. lia.
  Qed.

  Lemma trim_suffix : forall l, exists p, l = p ++ trim_start_zero cw l /\ swidth p = 0%nat.
  Proof.
    induction l as [|c l IH]; [exists []; split; reflexivity|]. cbn [trim_start_zero].
    destruct (Nat.eqb_spec (cw c) 0) as [E|E].
    - destruct IH as (p & Hp & Hw). exists (c :: p). split; [cbn [app]; congruence|].
      cbn [C44.swidth]. lia.
    - exists []. split; reflexivity.
  Qed.

  (* ---------------------------------------------------------------- truncate *)

  Lemma trunc_fwd_spec : forall l max acc k d w,
    trunc_fwd cw l max acc = (k, d, w) ->
    l = k ++ d /\ w = (acc + swidth k)%nat /\ ((acc <= max)%nat -> (w <= max)%nat)
    /\ match d with [] => True | c :: _ => (max < w + cw c)%nat end.
  Proof.
    induction l as [|c r IH]; intros max acc k d w H; cbn [trunc_fwd] in H.
    - injection H as <- <- <-. cbn. repeat split; auto; lia.
    - destruct (Nat.ltb_spec max (acc + cw c)) as [Hlt|Hle].
      + injection H as <- <- <-. cbn [app C44.swidth]. repeat split; auto; lia.
      + destruct (trunc_fwd cw r max (acc + cw c)) as [[k' d'] w'] eqn:Hr.
        injection H as <- <- <-. apply IH in Hr. destruct Hr as (-> & -> & Hb & Hd).
        cbn [app C44.swidth]. repeat split; auto; try lia; try (intros _; apply Hb; exact Hle).
  Qed.

  Lemma trunc_fwd_fits : forall l max acc,
    (acc + swidth l <= max)%nat -> trunc_fwd cw l max acc = (l, [], (acc + swidth l)%nat).
  Proof.
    induction l as [|c r IH]; intros max acc H; cbn [trunc_fwd C44.swidth] in *.
    - f_equal. lia.
    - destruct (Nat.ltb_spec max (acc + cw c)) as [Hlt|Hle]; [lia|].
      rewrite IH by lia. f_equal. lia.
  Qed.

  Lemma truncate_end_spec : forall text max k d w,
    truncate_end cw text max = (k, d, w) ->
    text = k ++ d /\ w = swidth k /\ (w <= max)%nat
    /\ (d = [] <-> (swidth text <= max)%nat).
  Proof.
    intros text max k d w H. unfold truncate_end in H.
    pose proof (trunc_fwd_spec _ _ _ _ _ _ H) as (-> & -> & Hb & Hd).
    cbn [Nat.add]. repeat split; try (apply Hb; lia).
    - intros ->. rewrite app_nil_r. apply Hb. lia.
    - intros Hfit. rewrite (trunc_fwd_fits (k ++ d) max 0 Hfit) in H. congruence.
  Qed.

  Lemma truncate_start_spec : forall text max k d w,
    truncate_start cw text max = (k, d, w) ->
    text = d ++ k /\ w = swidth k /\ (w <= max)%nat
    /\ (d = [] <-> (swidth text <= max)%nat).
  Proof.
    intros text max k d w H. unfold truncate_start in H.
    destruct (trunc_fwd cw (rev text) max 0) as [[k' d'] w'] eqn:Hr.
    injection H as <- <- <-.
    change (truncate_end cw (rev text) max = (k', d', w')) in Hr.
    apply truncate_end_spec in Hr. destruct Hr as (Hsplit & -> & Hle & Hiff).
    rewrite swidth_rev in *. split.
    - rewrite <- rev_app_distr, <- Hsplit, rev_involutive. reflexivity.
    - split; [reflexivity|]. split; [exact Hle|].
      destruct Hiff as [H1 H2]. split.
      + intros E. apply H1. destruct d'; [reflexivity|]. cbn [rev] in E.
        destruct (rev d'); discriminate.
      + intros E. rewrite (H2 E). reflexivity.
  Qed.

  (* ---------------------------------------------------------------- skip *)

  Lemma skip_fwd_spec : forall l width acc r s,
    skip_fwd cw l width acc = (r, s) ->
    exists p, l = p ++ r /\ s = (acc + swidth p)%nat /\ ((width <= s)%nat \/ r = []).
  Proof.
    induction l as [|c l IH]; intros width acc r s H; cbn [skip_fwd] in H.
    - injection H as <- <-. exists []. cbn. repeat split; auto; lia.
    - destruct (Nat.leb_spec width acc) as [Hle|Hlt].
      + injection H as <- <-. exists []. cbn. repeat split; auto; try lia; left; lia.
      + apply IH in H. destruct H as (p & -> & -> & Hor). exists (c :: p).
        cbn [app C44.swidth]. repeat split; auto; lia.
  Qed.

  Lemma skip_start_spec : forall text width r s,
    skip_start cw text width = (r, s) ->
    exists p, text = p ++ r /\ s = swidth p /\ ((width <= s)%nat \/ r = []).
  Proof. intros text width r s H. apply skip_fwd_spec in H. exact H. Qed.

  Lemma skip_end_spec : forall text width r s,
    skip_end cw text width = (r, s) ->
    exists p, text = r ++ p /\ s = swidth p /\ ((width <= s)%nat \/ r = []).
  Proof.
    intros text width r s H. unfold skip_end in H.
    destruct (skip_fwd cw (rev text) width 0) as [r' s'] eqn:Hr. injection H as <- <-.
    apply skip_fwd_spec in Hr. destruct Hr as (p & Hsplit & -> & Hor).
    exists (rev p). rewrite swidth_rev. split.
    - rewrite <- rev_app_distr, <- Hsplit, rev_involutive. reflexivity.
    - split; [reflexivity|]. destruct Hor as [Hor| ->]; [left; exact Hor | right; reflexivity].
  Qed.

  (* ---------------------------------------------------------------- elide *)

  (** Everything the property says about elide_start, in one statement. *)
  Lemma elide_start_spec : forall text ell max,
    exists out w,
      elide_start cw text ell max = EOut out w
      /\ w = swidth out /\ (swidth out <= max)%nat
      /\ ((swidth text <= max)%nat -> out = text)
      /\ ((max < swidth text)%nat -> (swidth ell <= max)%nat ->
          exists t p, out = ell ++ t /\ text = p ++ t)
      /\ ((max < swidth text)%nat -> (max < swidth ell)%nat ->
          exists p, ell = p ++ out).
  Proof.
    intros text ell max. unfold elide_start.
    destruct (truncate_start cw text max) as [[tk td] tw] eqn:Ht.
    apply truncate_start_spec in Ht. destruct Ht as (Htext & Htw & Htle & Htiff).
    destruct td as [|c0 td'].
    - exists text, tw. cbn [app] in Htext. subst tk.
      repeat split; auto; try lia; intros Hgt; exfalso;
        (assert (swidth text <= max)%nat by (apply Htiff; reflexivity); lia).
    - assert (Hgt : (max < swidth text)%nat).
      { destruct (Nat.ltb_spec max (swidth text)); [assumption|].
        assert (c0 :: td' = []) by (apply Htiff; assumption). discriminate. }
      destruct (truncate_start cw ell max) as [[ek ed] ew] eqn:He.
      apply truncate_start_spec in He. destruct He as (Hell & Hew & Hele & Heiff).
      destruct ed as [|c1 ed'].
      + cbn [app] in Hell. subst ek.
        destruct (skip_start cw tk (tw - (max - ew))) as [rem skipped] eqn:Hs.
        apply skip_start_spec in Hs. destruct Hs as (p & Htk & Hsk & Hor).
        assert (Hrem : (tw = skipped + swidth rem)%nat).
        { rewrite Htw, Htk, swidth_app. lia. }
        destruct (Nat.ltb_spec tw skipped) as [Hbad|_]; [lia|].
        assert (Hcw : (ew + (tw - skipped) <= max)%nat).
        { destruct Hor as [Hor| ->]; [lia|]. cbn [C44.swidth] in Hrem. lia. }
        destruct (Nat.leb_spec (ew + (tw - skipped)) max) as [_|Hbad]; [|lia].
        exists (ell ++ trim_start_zero cw rem), (ew + (tw - skipped))%nat.
        split; [reflexivity|]. rewrite swidth_app, swidth_trim.
        split; [lia|]. split; [lia|]. split; [intros; lia|]. split.
        * intros _ _. destruct (trim_suffix rem) as (z & Hz & _).
          exists (trim_start_zero cw rem), ((c0 :: td') ++ p ++ z).
          split; [reflexivity|]. rewrite Htext, Htk. rewrite <- !app_assoc. f_equal. f_equal.
          exact Hz.
        * intros _ Hbig. lia.
      + assert (Hegt : (max < swidth ell)%nat).
        { destruct (Nat.ltb_spec max (swidth ell)); [assumption|].
          assert (c1 :: ed' = []) by (apply Heiff; assumption). discriminate. }
        exists (trim_start_zero cw ek), ew. split; [reflexivity|]. rewrite swidth_trim.
        split; [assumption|]. split; [lia|]. split; [intros; lia|]. split; [intros; lia|].
        intros _ _. destruct (trim_suffix ek) as (z & Hz & _).
        exists ((c1 :: ed') ++ z). rewrite Hell. rewrite <- app_assoc. f_equal. exact Hz.
  Qed.

  Lemma elide_end_spec : forall text ell max,
    exists out w,
      elide_end cw text ell max = EOut out w
      /\ w = swidth out /\ (swidth out <= max)%nat
      /\ ((swidth text <= max)%nat -> out = text)
      /\ ((max < swidth text)%nat -> (swidth ell <= max)%nat ->
          exists t p, out = t ++ ell /\ text = t ++ p)
      /\ ((max < swidth text)%nat -> (max < swidth ell)%nat ->
          exists p, ell = out ++ p).
  Proof.
    intros text ell max. unfold elide_end.
    destruct (truncate_end cw text max) as [[tk td] tw] eqn:Ht.
    apply truncate_end_spec in Ht. destruct Ht as (Htext & Htw & Htle & Htiff).
    destruct td as [|c0 td'].
    - exists text, tw. rewrite app_nil_r in Htext. subst tk.
      repeat split; auto; try lia; intros Hgt; exfalso;
        (assert (swidth text <= max)%nat by (apply Htiff; reflexivity); lia).
    - assert (Hgt : (max < swidth text)%nat).
      { destruct (Nat.ltb_spec max (swidth text)); [assumption|].
        assert (c0 :: td' = []) by (apply Htiff; assumption). discriminate. }
      destruct (truncate_end cw ell max) as [[ek ed] ew] eqn:He.
      apply truncate_end_spec in He. destruct He as (Hell & Hew & Hele & Heiff).
      destruct ed as [|c1 ed'].
      + rewrite app_nil_r in Hell. subst ek.
        destruct (skip_end cw tk (tw - (max - ew))) as [rem skipped] eqn:Hs.
        apply skip_end_spec in Hs. destruct Hs as (p & Htk & Hsk & Hor).
        assert (Hrem : (tw = swidth rem + skipped)%nat).
        { rewrite Htw, Htk, swidth_app. lia. }
        destruct (Nat.ltb_spec tw skipped) as [Hbad|_]; [lia|].
        assert (Hcw : (tw - skipped + ew <= max)%nat).
        { destruct Hor as [Hor| ->]; [lia|]. cbn [C44.swidth] in Hrem. lia. }
        destruct (Nat.leb_spec (tw - skipped + ew) max) as [_|Hbad]; [|lia].
        exists (rem ++ ell), (tw - skipped + ew)%nat.
        split; [reflexivity|]. rewrite swidth_app.
        split; [lia|]. split; [lia|]. split; [intros; lia|]. split.
        * intros _ _. exists rem, (p ++ c0 :: td'). split; [reflexivity|].
          rewrite Htext, Htk. rewrite <- app_assoc. reflexivity.
        * intros _ Hbig. lia.
      + assert (Hegt : (max < swidth ell)%nat).
        { destruct (Nat.ltb_spec max (swidth ell)); [assumption|].
          assert (c1 :: ed' = []) by (apply Heiff; assumption). discriminate. }
        exists ek, ew. split; [reflexivity|].
        split; [assumption|]. split; [lia|]. split; [intros; lia|]. split; [intros; lia|].
        intros _ _. exists (c1 :: ed'). exact Hell.
  Qed.

  Lemma elide_width_bound : forall text ell max out w,
    elide_start cw text ell max = EOut out w \/ elide_end cw text ell max = EOut out w ->
    (swidth out <= max)%nat.
  Proof.
    intros text ell max out w [H|H].
    - destruct (elide_start_spec text ell max) as (o & n & E & _ & Hb & _).
      rewrite E in H. injection H as <- <-. exact Hb.
    - destruct (elide_end_spec text ell max) as (o & n & E & _ & Hb & _).
      rewrite E in H. injection H as <- <-. exact Hb.
  Qed.

  Lemma elide_reported_width : forall text ell max out w,
    elide_start cw text ell max = EOut out w \/ elide_end cw text ell max = EOut out w ->
    w = swidth out.
  Proof.
    intros text ell max out w [H|H].
    - destruct (elide_start_spec text ell max) as (o & n & E & Hw & _).
      rewrite E in H. injection H as <- <-. exact Hw.
    - destruct (elide_end_spec text ell max) as (o & n & E & Hw & _).
      rewrite E in H. injection H as <- <-. exact Hw.
  Qed.

  Lemma elide_fits_unchanged : forall text ell max,
    (swidth text <= max)%nat ->
    elide_start cw text ell max = EOut text (swidth text)
    /\ elide_end cw text ell max = EOut text (swidth text).
  Proof.
    intros text ell max Hfit. split.
    - destruct (elide_start_spec text ell max) as (o & n & E & Hw & _ & Hf & _).
      rewrite E, Hw, (Hf Hfit). reflexivity.
    - destruct (elide_end_spec text ell max) as (o & n & E & Hw & _ & Hf & _).
      rewrite E, Hw, (Hf Hfit). reflexivity.
  Qed.

  (* Eliding is idempotent: what elide_* returns already fits, so eliding it again with the same
     ellipsis and limit returns it unchanged, with the same reported width. *)
  Lemma elide_idempotent : forall text ell max out w,
    (elide_start cw text ell max = EOut out w -> elide_start cw out ell max = EOut out w)
    /\ (elide_end cw text ell max = EOut out w -> elide_end cw out ell max = EOut out w).
  Proof.
    intros text ell max out w. split; intros E.
    - assert (Hb : (swidth out <= max)%nat)
        by (apply (elide_width_bound text ell max out w); left; exact E).
      assert (Hw : w = swidth out)
        by (apply (elide_reported_width text ell max out w); left; exact E).
      rewrite Hw. exact (proj1 (elide_fits_unchanged out ell max Hb)).
    - assert (Hb : (swidth out <= max)%nat)
        by (apply (elide_width_bound text ell max out w); right; exact E).
      assert (Hw : w = swidth out)
        by (apply (elide_reported_width text ell max out w); right; exact E).
      rewrite Hw. exact (proj2 (elide_fits_unchanged out ell max Hb)).
  Qed.

  (* ---------------------------------------------------------------- write_truncated_* *)

  Section Measures.
    Context (sw : list A -> nat).

    Lemma write_truncated_end_spec : forall data ell max out w,
      write_truncated_end cw sw data ell max = (out, w) ->
      sw data = swidth data -> sw ell = swidth ell ->
      w = swidth out /\ (swidth out <= max)%nat
      /\ ((swidth data <= max)%nat -> out = data)
      /\ ((max < swidth data)%nat ->
          exists t e p q, out = t ++ e /\ data = t ++ p /\ ell = e ++ q
                          /\ ((swidth ell <= max)%nat -> e = ell)).
    Proof.
      intros data ell max out w H Hd He. unfold write_truncated_end in H. rewrite Hd, He in H.
      destruct (Nat.ltb_spec max (swidth data)) as [Hgt|Hle].
      - destruct (truncate_end cw data (max - swidth ell)) as [[k d] kw] eqn:Hk.
        destruct (truncate_end cw ell max) as [[ek ed] ew2] eqn:Hek.
        injection H as <- <-.
        apply truncate_end_spec in Hk. destruct Hk as (Hdata & -> & Hkle & _).
        apply truncate_end_spec in Hek. destruct Hek as (Hell & -> & Hele & Heiff).
        rewrite swidth_app. split; [reflexivity|].
        assert (Hek : (swidth ek <= swidth ell)%nat) by (rewrite Hell, swidth_app; lia).
        split; [|split; [intros; lia|]].
        + destruct (Nat.leb_spec (swidth ell) max) as [Hfit|Hbig].
          * assert (ed = []) by (apply Heiff; exact Hfit). subst ed.
            rewrite app_nil_r in Hell. subst ek. lia.
          * lia.
        + intros _. exists k, ek, d, ed. repeat split; auto.
          intros Hfit. assert (ed = []) by (apply Heiff; exact Hfit). subst ed.
          rewrite app_nil_r in Hell. congruence.
      - injection H as <- <-. split; [reflexivity|]. split; [exact Hle|].
        split; [reflexivity|]. intros; lia.
    Qed.

    Lemma write_truncated_start_spec : forall data ell max out w,
      write_truncated_start cw sw data ell max = (out, w) ->
      sw data = swidth data -> sw ell = swidth ell ->
      w = swidth out /\ (swidth out <= max)%nat
      /\ ((swidth data <= max)%nat -> out = data)
      /\ ((max < swidth data)%nat ->
          exists t e p q, out = e ++ t /\ data = p ++ t /\ ell = q ++ e).
    Proof.
      intros data ell max out w H Hd He. unfold write_truncated_start in H. rewrite Hd, He in H.
      destruct (Nat.ltb_spec max (swidth data)) as [Hgt|Hle].
      - destruct (truncate_start cw data (max - swidth ell)) as [[k d] kw] eqn:Hk.
        destruct (truncate_start cw ell max) as [[ek ed] ew2] eqn:Hek.
        injection H as <- <-.
        apply truncate_start_spec in Hk. destruct Hk as (Hdata & -> & Hkle & _).
        apply truncate_start_spec in Hek. destruct Hek as (Hell & -> & Hele & Heiff).
        rewrite swidth_app, !swidth_trim. split; [lia|].
        assert (Hek : (swidth ek <= swidth ell)%nat) by (rewrite Hell, swidth_app; lia).
        split; [|split; [intros; lia|]].
        + destruct (Nat.leb_spec (swidth ell) max) as [Hfit|Hbig].
          * assert (ed = []) by (apply Heiff; exact Hfit). subst ed.
            cbn [app] in Hell. subst ek. lia.
          * lia.
        + intros _. destruct (trim_suffix k) as (zk & Hzk & _).
          destruct (trim_suffix ek) as (ze & Hze & _).
          exists (trim_start_zero cw k), (trim_start_zero cw ek), (d ++ zk), (ed ++ ze).
          split; [reflexivity|]. split.
          * rewrite Hdata, <- app_assoc. f_equal. exact Hzk.
          * rewrite Hell, <- app_assoc. f_equal. exact Hze.
      - injection H as <- <-. split; [reflexivity|]. split; [exact Hle|].
        split; [reflexivity|]. intros; lia.
    Qed.

    (* -------------------------------------------------------------- padding *)

    Lemma swidth_repeat_fill : forall fill n,
      swidth (repeat_fill fill n) = (n * swidth fill)%nat.
    Proof.
      intros fill n. induction n as [|n IH]; [reflexivity|]. cbn [repeat_fill].
      rewrite swidth_app, IH. lia.
    Qed.

    Lemma padded_spec : forall data fill min,
      sw data = swidth data -> swidth fill = 1%nat ->
      let outs := [write_padded_start sw data fill min; write_padded_end sw data fill min;
                   write_padded_centered sw data fill min] in
      Forall (fun out => swidth out = Nat.max min (swidth data)
                         /\ ((min <= swidth data)%nat -> out = data)) outs
      /\ (exists k, write_padded_start sw data fill min = repeat_fill fill k ++ data)
      /\ (exists k, write_padded_end sw data fill min = data ++ repeat_fill fill k)
      /\ (exists k1 k2, write_padded_centered sw data fill min
                        = repeat_fill fill k1 ++ data ++ repeat_fill fill k2
                        /\ (k1 <= k2 <= k1 + 1)%nat).
    Proof.
      intros data fill min Hd Hf. cbv zeta.
      unfold write_padded_start, write_padded_end, write_padded_centered. rewrite Hd.
      split; [|split; [eexists; reflexivity | split; [eexists; reflexivity|]]].
      - repeat constructor; rewrite ?swidth_app, ?swidth_repeat_fill, ?Hf; try lia.
        + intros Hle. replace (min - swidth data)%nat with 0%nat by lia. reflexivity.
        + intros Hle. replace (min - swidth data)%nat with 0%nat by lia. cbn [repeat_fill].
          apply app_nil_r.
        + pose proof (Nat.div_mod (min - swidth data) 2 ltac:(lia)) as Hdm.
          pose proof (Nat.mod_upper_bound (min - swidth data) 2 ltac:(lia)). lia.
        + intros Hle. replace (min - swidth data)%nat with 0%nat by lia.
          cbn [Nat.div Nat.divmod fst Nat.sub repeat_fill app]. apply app_nil_r.
      - do 2 eexists. split; [reflexivity|].
        pose proof (Nat.div_mod (min - swidth data) 2 ltac:(lia)) as Hdm.
        pose proof (Nat.mod_upper_bound (min - swidth data) 2 ltac:(lia)). lia.
    Qed.
  End Measures.
End TextWidth.

(* ------------------------------------------------------------------ refutations (model level) *)

(** The unconditional per-character bound fails for write_truncated_end when the whole-string
    width of the ellipsis is smaller than the sum of its character widths (real witness: the
    ellipsis is an emoji ZWJ sequence; replayed on the implementation by the harness). *)
Lemma truncated_end_bound_refuted :
  exists (cw : bool -> nat) (sw : list bool -> nat) data ell max,
    sw data = swidth cw data /\
    let (out, w) := write_truncated_end cw sw data ell max in
    (max < swidth cw out)%nat /\ (max < w)%nat.
Proof.
  exists (fun _ => 2%nat),
         (fun l => if Nat.eqb (length l) 3 then 2%nat else (2 * length l)%nat),
         (repeat true 8), (repeat false 3), 12%nat.
  vm_compute. repeat split; lia.
Qed.

(** Before /repo commit a58816e write_truncated_start dropped leading zero-width characters of
    content that fits (the repaired finding; the current function is covered by
    write_truncated_start_spec). *)
Lemma truncated_start_old_fits_refuted :
  exists (cw : bool -> nat) data max,
    (swidth cw data <= max)%nat /\
    fst (write_truncated_start_old cw (swidth cw) data [] max) <> data
    /\ fst (write_truncated_start cw (swidth cw) data [] max) = data.
Proof.
  exists (fun b : bool => if b then 1%nat else 0%nat), (false :: true :: nil), 5%nat.
  vm_compute. split; [lia|]. split; [discriminate | reflexivity].
Qed.

(* ------------------------------------------------------------------ maximality: nothing is
   dropped that would still have fitted *)

Section Maximal.
  Context {A : Type} (cw : A -> nat).
  Notation swidth := (swidth cw).

  (** skip_fwd stops as early as it may: without the last skipped character the skipped width is
      still below the requested one. *)
  Lemma skip_fwd_minimal : forall l width acc r s,
    skip_fwd cw l width acc = (r, s) ->
    exists p, l = p ++ r /\ s = (acc + swidth p)%nat
              /\ (p = [] \/ exists p' c, p = p' ++ [c] /\ (acc + swidth p' < width)%nat).
  Proof.
    induction l as [|c l IH]; intros width acc r s H; cbn [skip_fwd] in H.
    - injection H as <- <-. exists []. cbn. repeat split; auto.
    - destruct (Nat.leb_spec width acc) as [Hle|Hlt].
      + injection H as <- <-. exists []. cbn. repeat split; auto.
      + apply IH in H. destruct H as (p & -> & -> & Hor). exists (c :: p).
        cbn [app C44.swidth]. split; [reflexivity|]. split; [lia|]. right.
        destruct Hor as [->|(p' & c' & -> & Hlt')].
        * exists [], c. cbn. split; [reflexivity | lia].
        * exists (c :: p'), c'. cbn [app C44.swidth]. split; [reflexivity | lia].
  Qed.

  (** elide_end keeps a maximal prefix: the first character it leaves out would not have fitted
      in front of the ellipsis. *)
  Lemma elide_end_maximal : forall text ell max out w,
    elide_end cw text ell max = EOut out w ->
    (max < swidth text)%nat -> (swidth ell <= max)%nat ->
    exists t c p, out = t ++ ell /\ text = t ++ c :: p
                  /\ (max < swidth t + cw c + swidth ell)%nat.
  Proof.
    intros text ell max out w H Hgt Hefit. unfold elide_end in H.
    destruct (truncate_end cw text max) as [[tk td] tw] eqn:Ht.
    pose proof Ht as Ht0. unfold truncate_end in Ht0.
    apply trunc_fwd_spec in Ht0. destruct Ht0 as (_ & _ & _ & Hnext).
    apply truncate_end_spec in Ht. destruct Ht as (Htext & Htw & Htle & Htiff).
    destruct td as [|c0 td'].
    { assert (swidth text <= max)%nat by (apply Htiff; reflexivity). lia. }
    destruct (truncate_end cw ell max) as [[ek ed] ew] eqn:He.
    apply truncate_end_spec in He. destruct He as (Hell & Hew & Hele & Heiff).
    assert (ed = []) by (apply Heiff; exact Hefit). subst ed. rewrite app_nil_r in Hell. subst ek.
    unfold skip_end in H.
    destruct (skip_fwd cw (rev tk) (tw - (max - ew)) 0) as [r' s'] eqn:Hs.
    apply skip_fwd_minimal in Hs. destruct Hs as (p & Hrev & Hsk & Hmin). cbn [Nat.add] in *.
    assert (Htk : tk = rev r' ++ rev p).
    { rewrite <- rev_app_distr, <- Hrev, rev_involutive. reflexivity. }
    assert (Htwsum : (tw = swidth (rev r') + s')%nat).
    { rewrite Htw, Htk, swidth_app, swidth_rev, (swidth_rev cw p). lia. }
    destruct (Nat.ltb_spec tw s') as [Hbad|_]; [lia|].
    destruct (Nat.leb_spec (tw - s' + ew) max) as [_|Hbad]; [|discriminate].
    injection H as <- <-.
    destruct Hmin as [->|(p' & c & -> & Hlt)].
    - (* nothing skipped: the first character dropped by the truncation is the witness *)
      cbn [rev app] in Htk. rewrite app_nil_r in Htk.
      exists (rev r'), c0, td'. split; [reflexivity|]. split; [rewrite Htext, Htk; reflexivity|].
      cbn [C44.swidth] in Hsk. subst s'. rewrite <- Htk, <- Htw. lia.
    - rewrite rev_app_distr in Htk. cbn [rev app] in Htk.
      exists (rev r'), c, (rev p' ++ c0 :: td'). split; [reflexivity|]. split.
      + rewrite Htext, Htk. rewrite <- app_assoc. reflexivity.
      + rewrite swidth_app in Hsk. cbn [C44.swidth] in Hsk. lia.
  Qed.

  (** elide_start likewise keeps a maximal suffix (up to leading zero-width characters, which it
      trims): the character just before what it keeps would not have fitted after the ellipsis. *)
  Lemma elide_start_maximal : forall text ell max out w,
    elide_start cw text ell max = EOut out w ->
    (max < swidth text)%nat -> (swidth ell <= max)%nat ->
    exists t c p, out = ell ++ t /\ (exists z, text = p ++ c :: z ++ t /\ swidth z = 0%nat)
                  /\ (max < swidth ell + cw c + swidth t)%nat.
  Proof.
    intros text ell max out w H Hgt Hefit. unfold elide_start in H.
    destruct (truncate_start cw text max) as [[tk td] tw] eqn:Ht.
    pose proof Ht as Ht0. unfold truncate_start in Ht0.
    destruct (trunc_fwd cw (rev text) max 0) as [[k0 d0] w0] eqn:Hr0.
    injection Ht0 as Hk0 Hd0 Hw0.
    apply trunc_fwd_spec in Hr0. destruct Hr0 as (_ & _ & _ & Hnext).
    apply truncate_start_spec in Ht. destruct Ht as (Htext & Htw & Htle & Htiff).
    destruct td as [|c0 td'] eqn:Etd.
    { assert (swidth text <= max)%nat by (apply Htiff; reflexivity). lia. }
    destruct (truncate_start cw ell max) as [[ek ed] ew] eqn:He.
    apply truncate_start_spec in He. destruct He as (Hell & Hew & Hele & Heiff).
    assert (ed = []) by (apply Heiff; exact Hefit). subst ed. cbn [app] in Hell. subst ek.
    destruct (skip_start cw tk (tw - (max - ew))) as [rem skipped] eqn:Hs.
    unfold skip_start in Hs. apply skip_fwd_minimal in Hs.
    destruct Hs as (p & Htk & Hsk & Hmin). cbn [Nat.add] in *.
    assert (Htwsum : (tw = skipped + swidth rem)%nat).
    { rewrite Htw, Htk, swidth_app. lia. }
    destruct (Nat.ltb_spec tw skipped) as [Hbad|_]; [lia|].
    destruct (Nat.leb_spec (ew + (tw - skipped)) max) as [_|Hbad]; [|discriminate].
    injection H as <- <-.
    destruct (trim_suffix cw rem) as (z & Hz & Hzw).
    assert (Hremw : swidth (trim_start_zero cw rem) = swidth rem) by apply swidth_trim.
    destruct Hmin as [->|(p' & c & -> & Hlt)].
    - (* nothing skipped: the last character dropped by the truncation is the witness *)
      cbn [app] in Htk. subst rem. cbn [C44.swidth] in Hsk. subst skipped.
      (* the dropped prefix is rev d0, whose last character is the head of d0 *)
      destruct d0 as [|cd d0'].
      { cbn [rev] in Hd0. discriminate. }
      cbn [rev] in Hd0.
      exists (trim_start_zero cw tk), cd, (rev d0'). split; [reflexivity|]. split.
      + exists z. split; [|exact Hzw]. rewrite Htext, <- Hd0, <- app_assoc. cbn [app].
        f_equal. f_equal. exact Hz.
      + rewrite Hremw. subst w0. rewrite <- Hk0 in Htw. rewrite swidth_rev in Htw. lia.
    - exists (trim_start_zero cw rem), c, ((c0 :: td') ++ p'). split; [reflexivity|]. split.
      + exists z. split; [|exact Hzw]. rewrite Htext, Htk. rewrite <- !app_assoc. cbn [app].
        f_equal. f_equal. f_equal. f_equal. exact Hz.
      + rewrite Hremw. rewrite swidth_app in Hsk. cbn [C44.swidth] in Hsk. lia.
  Qed.
End Maximal.
