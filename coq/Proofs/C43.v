(** Proofs for C43. *)
From Verif Require Import Base.Prelude Base.C16Lib Gen.Tables Model.C43 Proofs.C16Lib.
From Coq Require Import Lia.
Local Open Scope N_scope.

(** * Association lists *)
Section Assoc.
  Context {K V : Type} (eqb : K -> K -> bool).
  Hypothesis eqb_spec : forall x y, eqb x y = true <-> x = y.

  Lemma eqb_refl' k : eqb k k = true.
  Proof. apply eqb_spec; reflexivity. Qed.

  Lemma assoc_set_same k (v : V) l : assoc eqb k (assoc_set eqb k v l) = Some v.
  Proof.
    induction l as [|[k' v'] l IH]; cbn.
    - rewrite eqb_refl'. reflexivity.
    - destruct (eqb k k') eqn:E; cbn.
      + rewrite eqb_refl'. reflexivity.
      + rewrite E. exact IH.
  Qed.

  Lemma assoc_set_other k k' (v : V) l : k' <> k -> assoc eqb k' (assoc_set eqb k v l) = assoc eqb k' l.
  Proof.
    intro N. assert (Nb : eqb k' k = false).
    { destruct (eqb k' k) eqn:E; [apply eqb_spec in E; congruence | reflexivity]. }
    induction l as [|[k0 v0] l IH]; cbn.
    - rewrite Nb. reflexivity.
    - destruct (eqb k k0) eqn:E; cbn.
      + apply eqb_spec in E. subst k0. rewrite Nb. reflexivity.
      + destruct (eqb k' k0); [reflexivity | exact IH].
  Qed.
End Assoc.

Lemma path_eqb_spec a b : path_eqb a b = true <-> a = b.
Proof. apply list_eqb_spec, bytes_eqb_spec. Qed.

(** * Ids *)
Lemma is_hexdigit_hex_digit d : d < 16 -> is_hexdigit (hex_digit d) = true.
Proof.
  intro H. unfold is_hexdigit, hex_digit. destruct (N.ltb_spec d 10).
  - replace ((48 <=? 48 + d) && (48 + d <=? 57)) with true; [reflexivity|].
    symmetry. apply andb_true_iff. split; apply N.leb_le; lia.
  - replace ((97 <=? 87 + d) && (87 + d <=? 102)) with true; [rewrite orb_true_r; reflexivity|].
    symmetry. apply andb_true_iff. split; apply N.leb_le; lia.
Qed.

Lemma encode_hex_digits l :
  forallb byteb l = true -> forallb is_hexdigit (encode_hex l) = true.
Proof.
  induction l as [|b l IH]; intro H; [reflexivity|].
  cbn [forallb] in H. apply andb_true_iff in H as [Hb H]. unfold byteb in Hb. apply N.ltb_lt in Hb.
  cbn [encode_hex forallb]. rewrite !is_hexdigit_hex_digit, (IH H).
  - reflexivity.
  - apply N.mod_lt. lia.
  - apply N.div_lt_upper_bound; lia.
Qed.

Lemma encode_hex_length l : length (encode_hex l) = (2 * length l)%nat.
Proof. induction l as [|b l IH]; cbn [encode_hex length]; lia. Qed.

Lemma next_id_ok g : rng_okb g = true -> id_okb (fst (next_id g)) = true /\ rng_okb (snd (next_id g)) = true.
Proof.
  destruct g as [|b g]; intro H.
  - split; [vm_compute; reflexivity | reflexivity].
  - cbn [rng_okb forallb] in H. apply andb_true_iff in H as [Hb H].
    apply andb_true_iff in Hb as [Hl Hb]. apply Nat.eqb_eq in Hl.
    cbn [next_id fst snd]. split; [|exact H].
    unfold id_okb. rewrite encode_hex_length, Hl, (encode_hex_digits _ Hb).
    unfold config_id_len. rewrite andb_true_r. apply Nat.eqb_eq.
    rewrite N2Nat.inj_mul. reflexivity.
Qed.

Lemma hexdigit_facts b : is_hexdigit b = true -> b <> 47 /\ b <> 0 /\ b <> 46.
Proof.
  unfold is_hexdigit. rewrite !orb_true_iff, !andb_true_iff, !N.leb_le. lia.
Qed.

(** A well-formed id is one normal path component. *)
Lemma id_ok_component s : id_okb s = true -> component_okb s = true.
Proof.
  unfold id_okb, component_okb. intro H. apply andb_true_iff in H as [L D].
  apply Nat.eqb_eq in L. rewrite forallb_forall in D.
  assert (No : forall c, (c = 47 \/ c = 0 \/ c = 46) -> existsb (N.eqb c) s = false).
  { intros c Hc. destruct (existsb (N.eqb c) s) eqn:E; [|reflexivity].
    apply existsb_exists in E as [x [Hx Ex]]. apply N.eqb_eq in Ex. subst x.
    destruct (hexdigit_facts c (D c Hx)) as [? [? ?]]. lia. }
  rewrite (No 47), (No 0) by auto.
  assert (Len : length s = config_id_len) by exact L.
  destruct s as [|a [|b [|c s]]]; try (vm_compute in Len; discriminate).
  unfold bytes_eqb. cbn [list_eqb negb andb]. rewrite !andb_false_r. reflexivity.
Qed.

(** * Confinement *)
Lemma generate_config_path w root o id content md p w' :
  generate_config w root o id content md = (Some p, w') -> p = cfg_path root id.
Proof.
  unfold generate_config. destruct o as [[ob r]|]; [|discriminate].
  destruct (r_writable r); [|discriminate]. intros [= <- _]. reflexivity.
Qed.

Lemma handle_confined w g root p o id md :
  id_okb id = true -> rng_okb g = true ->
  confined root (fst (fst (handle_metadata_path w g root p o id md)))
  /\ rng_okb (snd (handle_metadata_path w g root p o id md)) = true.
Proof.
  intros Hid G. unfold handle_metadata_path.
  assert (Keep : forall mdp, confined root (LOk (mk_loaded (Some (cfg_path root id)) mdp WNone))).
  { intros. cbn. exists id. auto. }
  destruct (option_eqb path_eqb md (Some p)); [split; [apply Keep | exact G]|].
  destruct md as [d|]; [|split; [apply Keep | exact G]].
  destruct (dir_obj w d) as [od|]; [|split; [apply Keep | exact G]].
  destruct (r_writable (snd o) && negb (od =? fst o)); [|split; [apply Keep | exact G]].
  destruct (next_id_ok g G) as [In Gn]. destruct (next_id g) as [newid g'] eqn:Nx.
  cbn [fst snd] in In, Gn.
  destruct (generate_config w root (Some o) newid (cd_toml (cfg_at w id)) (Some p)) as [[q|] w'] eqn:Gen.
  - apply generate_config_path in Gen. subst q. split; [|exact Gn]. cbn. exists newid. auto.
  - split; [exact Logic.I | exact Gn].
Qed.

Lemma migrate_confined w g root p o :
  rng_okb g = true ->
  confined root (fst (fst (maybe_migrate_legacy w g root p o)))
  /\ rng_okb (snd (maybe_migrate_legacy w g root p o)) = true.
Proof.
  intro G. unfold maybe_migrate_legacy. destruct o as [[ob r]|]; [|split; [exact Logic.I | exact G]].
  destruct (r_legacy r) as [content|]; [|split; [exact Logic.I | exact G]].
  destruct (next_id_ok g G) as [In Gn]. destruct (next_id g) as [newid g'] eqn:Nx.
  cbn [fst snd] in In, Gn.
  destruct (generate_config w root (Some (ob, r)) newid (Some content) (Some p)) as [[q|] w'] eqn:Gen.
  - apply generate_config_path in Gen. subst q. split; [|exact Gn]. cbn. exists newid. auto.
  - split; [exact Logic.I | exact Gn].
Qed.

Theorem maybe_load_confined w g root p :
  rng_okb g = true ->
  confined root (fst (fst (maybe_load_config w g root p)))
  /\ rng_okb (snd (maybe_load_config w g root p)) = true.
Proof.
  intro G. unfold maybe_load_config.
  destruct (match repo_at w p with Some (_, r) => r_id_file r | None => IdMissing end) as [|s|] eqn:F.
  - apply migrate_confined, G.
  - destruct (id_okb s) eqn:Hid; cbn [negb]; [|split; [exact Logic.I | exact G]].
    destruct (cd_md (cfg_at w s)) as [| |md].
    + destruct (generate_config w root (repo_at w p) s None (Some p)) as [[q|] w'] eqn:Gen.
      * apply generate_config_path in Gen. subst q. split; [|exact G]. cbn. exists s. auto.
      * split; [exact Logic.I | exact G].
    + split; [exact Logic.I | exact G].
    + destruct (repo_at w p) as [ob|]; [|split; [exact Logic.I | exact G]].
      apply handle_confined; assumption.
  - split; [exact Logic.I | exact G].
Qed.

Theorem load_confined w g root p :
  rng_okb g = true -> confined root (fst (fst (load_config w g root p))).
Proof.
  intro G. unfold load_config.
  destruct (maybe_load_confined w g root p G) as [C Gn].
  destruct (maybe_load_config w g root p) as [[r w1] g1]. cbn [fst snd] in C, Gn.
  destruct r as [l|e]; [|exact Logic.I].
  destruct (l_file l) as [q|] eqn:Lf; [cbn; rewrite Lf; cbn in C; rewrite Lf in C; exact C|].
  destruct (next_id_ok g1 Gn) as [In _]. destruct (next_id g1) as [newid g2].
  cbn [fst] in In.
  destruct (generate_config w1 root (repo_at w1 p) newid None (Some p)) as [[q|] w2] eqn:Gen; [|exact Logic.I].
  apply generate_config_path in Gen. subst q. cbn. exists newid. auto.
Qed.

(** * A malformed id is rejected and nothing is touched *)
Theorem bad_id_rejected w g root p o r s :
  repo_at w p = Some (o, r) -> r_id_file r = IdContent s -> id_okb s = false ->
  maybe_load_config w g root p = (LErr EBadConfigId, w, g)
  /\ load_config w g root p = (LErr EBadConfigId, w, g).
Proof.
  intros R F I. unfold load_config, maybe_load_config. rewrite R, F, I. cbn [negb]. split; reflexivity.
Qed.

(** * Copy, move, alias, read-only *)
Lemma cfg_at_set_same w id c : cfg_at (set_cfg w id c) id = c.
Proof.
  unfold cfg_at, set_cfg. cbn [w_cfg]. rewrite (assoc_set_same bytes_eqb bytes_eqb_spec). reflexivity.
Qed.

Lemma cfg_at_set_other w id id' c : id' <> id -> cfg_at (set_cfg w id c) id' = cfg_at w id'.
Proof.
  intro N. unfold cfg_at, set_cfg. cbn [w_cfg].
  rewrite (assoc_set_other bytes_eqb bytes_eqb_spec) by exact N. reflexivity.
Qed.

Lemma cfg_at_set_repo w o r id : cfg_at (set_repo w o r) id = cfg_at w id.
Proof. reflexivity. Qed.

Lemma repo_at_set_repo_other w o r q oq :
  dir_obj w q = Some oq -> oq <> o -> repo_at (set_repo w o r) q = repo_at w q.
Proof.
  intros D N. unfold repo_at, dir_obj, set_repo in *. cbn [w_dirs w_repos]. rewrite D.
  rewrite (assoc_set_other N.eqb N.eqb_eq) by exact N. reflexivity.
Qed.

Lemma repo_at_set_repo_same w o r q :
  dir_obj w q = Some o -> repo_at (set_repo w o r) q = Some (o, r).
Proof.
  intros D. unfold repo_at, dir_obj, set_repo in *. cbn [w_dirs w_repos]. rewrite D.
  rewrite (assoc_set_same N.eqb N.eqb_eq). reflexivity.
Qed.

Lemma repo_at_dir w p o r : repo_at w p = Some (o, r) -> dir_obj w p = Some o.
Proof.
  unfold repo_at. destruct (dir_obj w p) as [o'|]; [|discriminate].
  destruct (assoc N.eqb o' (w_repos w)); intros [= -> _]; reflexivity.
Qed.

(** A writable copy whose original still exists: a fresh id, the configuration copied, the
    copy's id file rewritten; the original's configuration directory, its metadata and the
    original repo are untouched (when the fresh id differs from the old one). *)
Theorem copy_gets_own w b g root p o r s orig oo :
  repo_at w p = Some (o, r) -> r_id_file r = IdContent s -> id_okb s = true ->
  cd_md (cfg_at w s) = MdOk (Some orig) -> orig <> p ->
  dir_obj w orig = Some oo -> oo <> o -> r_writable r = true ->
  let newid := encode_hex b in
  exists w',
    maybe_load_config w (b :: g) root p
      = (LOk (mk_loaded (Some (cfg_path root newid)) (Some p) WCopied), w', g)
    /\ cd_md (cfg_at w' newid) = MdOk (Some p)
    /\ (cd_toml (cfg_at w s) <> None -> cd_toml (cfg_at w' newid) = cd_toml (cfg_at w s))
    /\ repo_at w' p = Some (o, mk_repo true (IdContent newid) (r_legacy r))
    /\ repo_at w' orig = repo_at w orig
    /\ (newid <> s -> cfg_at w' s = cfg_at w s /\ cfg_path root newid <> cfg_path root s).
Proof.
  intros R F I M Ne D No Wr newid.
  unfold maybe_load_config. rewrite R, F, I, M. cbn [negb].
  unfold handle_metadata_path.
  replace (option_eqb path_eqb (Some orig) (Some p)) with false.
  2:{ symmetry. cbn. destruct (path_eqb orig p) eqn:E; [apply path_eqb_spec in E; congruence | reflexivity]. }
  rewrite D. cbn [fst snd]. rewrite Wr.
  replace (oo =? o) with false by (symmetry; apply N.eqb_neq; exact No). cbn [negb andb next_id].
  fold newid. unfold generate_config. rewrite Wr.
  eexists. split; [reflexivity|].
  pose proof (repo_at_dir _ _ _ _ R) as Dp.
  repeat split.
  - rewrite cfg_at_set_repo, cfg_at_set_same. reflexivity.
  - intro Nn. rewrite cfg_at_set_repo, cfg_at_set_same. cbn [cd_toml].
    destruct (cd_toml (cfg_at w s)); [reflexivity | congruence].
  - apply repo_at_set_repo_same. exact Dp.
  - exact (repo_at_set_repo_other (set_cfg w newid _) o _ orig oo D No).
  - rewrite cfg_at_set_repo. apply cfg_at_set_other. congruence.
  - unfold cfg_path. intro E. apply app_inv_head in E. congruence.
Qed.

(** A moved repository (the recorded path is no longer a directory) keeps its configuration:
    same file, only the recorded path is updated. *)
Theorem move_keeps w g root p o r s orig :
  repo_at w p = Some (o, r) -> r_id_file r = IdContent s -> id_okb s = true ->
  cd_md (cfg_at w s) = MdOk (Some orig) -> orig <> p -> dir_obj w orig = None ->
  exists w',
    maybe_load_config w g root p = (LOk (mk_loaded (Some (cfg_path root s)) (Some p) WNone), w', g)
    /\ cfg_at w' s = mk_cfg (MdOk (Some p)) (cd_toml (cfg_at w s))
    /\ repo_at w' p = repo_at w p.
Proof.
  intros R F I M Ne D.
  unfold maybe_load_config. rewrite R, F, I, M. cbn [negb].
  unfold handle_metadata_path.
  replace (option_eqb path_eqb (Some orig) (Some p)) with false.
  2:{ symmetry. cbn. destruct (path_eqb orig p) eqn:E; [apply path_eqb_spec in E; congruence | reflexivity]. }
  rewrite D. eexists. split; [reflexivity|]. split; [apply cfg_at_set_same | exact R].
Qed.

(** An alias of the original (same directory object) or a read-only copy shares the
    original's file and changes nothing. *)
Theorem alias_or_readonly_shares w g root p o r s orig oo :
  repo_at w p = Some (o, r) -> r_id_file r = IdContent s -> id_okb s = true ->
  cd_md (cfg_at w s) = MdOk (Some orig) -> dir_obj w orig = Some oo ->
  (oo = o \/ r_writable r = false) ->
  maybe_load_config w g root p
  = (LOk (mk_loaded (Some (cfg_path root s)) (Some orig) WNone), w, g).
Proof.
  intros R F I M D Hyp.
  unfold maybe_load_config. rewrite R, F, I, M. cbn [negb].
  unfold handle_metadata_path.
  destruct (option_eqb path_eqb (Some orig) (Some p)); [reflexivity|].
  rewrite D. cbn [fst snd].
  replace (r_writable r && negb (oo =? o)) with false; [reflexivity|].
  symmetry. destruct Hyp as [E|E]; [subst oo; rewrite N.eqb_refl; apply andb_false_r | rewrite E; reflexivity].
Qed.

(** The unchanged case: the recorded path is the repo's own path. *)
Theorem own_path_keeps w g root p o r s :
  repo_at w p = Some (o, r) -> r_id_file r = IdContent s -> id_okb s = true ->
  cd_md (cfg_at w s) = MdOk (Some p) ->
  maybe_load_config w g root p = (LOk (mk_loaded (Some (cfg_path root s)) (Some p) WNone), w, g).
Proof.
  intros R F I M. unfold maybe_load_config. rewrite R, F, I, M. cbn [negb].
  unfold handle_metadata_path. cbn [option_eqb].
  replace (path_eqb p p) with true by (symmetry; apply path_eqb_spec; reflexivity). reflexivity.
Qed.

(** * What the checker means *)
Lemma lerr_eqb_spec a b : lerr_eqb a b = true <-> a = b.
Proof. destruct a, b; cbn; split; intro H; try discriminate; reflexivity. Qed.

Lemma rev_eq_cons2 {A} (f : list A) name id rroot :
  rev f = name :: id :: rroot -> f = rev rroot ++ [id; name].
Proof.
  intro H. rewrite <- (rev_involutive f), H. cbn [rev]. rewrite <- app_assoc. reflexivity.
Qed.

Theorem load_okb_spec root o : load_okb root o = true <-> load_ok root o.
Proof.
  destruct o; cbn [load_okb load_ok]; try tauto; [|split; [discriminate | intros []]].
  rewrite andb_true_iff.
  assert (U : (match unexpected with [] => true | _ => false end) = true <-> unexpected = []).
  { destruct unexpected; split; intro H; try discriminate; reflexivity. }
  rewrite U. apply and_iff_compat_l.
  destruct result as [l|e].
  - rewrite andb_true_iff. split.
    + intros [Hf Hs]. split.
      * intros f Ef. rewrite Ef in Hf. destruct (rev f) as [|name [|id rroot]] eqn:R; try discriminate.
        apply andb_true_iff in Hf as [Hf Hc]. apply andb_true_iff in Hf as [Hn Hr].
        apply bytes_eqb_spec in Hn. apply path_eqb_spec in Hr. subst.
        exists id. split; [|exact Hc]. unfold cfg_path. apply rev_eq_cons2, R.
      * intros s ->. exact Hs.
    + intros [Hf Hs]. split.
      * destruct (l_file l) as [f|]; [|reflexivity].
        destruct (Hf f eq_refl) as [id [-> Hc]]. unfold cfg_path.
        rewrite rev_app_distr. cbn [rev app]. rewrite bytes_eqb_refl, rev_involutive.
        replace (path_eqb root root) with true by (symmetry; apply path_eqb_spec; reflexivity).
        exact Hc.
      * destruct seen as [|s|]; try reflexivity. apply Hs. reflexivity.
  - destruct seen as [|s|]; try (split; [intros _ s' [=] | reflexivity]).
    rewrite orb_true_iff, lerr_eqb_spec. split.
    + intros [H|H] s' [= <-] N; [congruence | exact H].
    + intro H. destruct (id_okb s) eqn:I; [left; reflexivity | right; apply (H s); auto].
Qed.

Theorem okb_spec c : okb c = true <-> forall o, In o (k_ops c) -> load_ok (k_root c) o.
Proof.
  unfold okb. rewrite forallb_forall. split; intros H o Ho; apply load_okb_spec, H, Ho.
Qed.

Lemma confined_both w g root p :
  rng_okb g = true ->
  confined root (fst (fst (maybe_load_config w g root p)))
  /\ confined root (fst (fst (load_config w g root p))).
Proof.
  intro G. split; [apply (maybe_load_confined w g root p G) | apply load_confined, G].
Qed.

(** * Writes are confined too *)
Lemma frame_refl w p : frame w w p.
Proof. repeat split; reflexivity. Qed.

Lemma frame_trans w1 w2 w3 p : frame w1 w2 p -> frame w2 w3 p -> frame w1 w3 p.
Proof.
  intros [D1 [C1 R1]] [D2 [C2 R2]]. split; [congruence|]. split.
  - intros id H. rewrite C2, C1 by exact H. reflexivity.
  - intros q oq Dq Np.
    assert (Dq2 : dir_obj w2 q = Some oq) by (unfold dir_obj in *; rewrite D1; exact Dq).
    assert (Np2 : dir_obj w2 p <> Some oq) by (unfold dir_obj in *; rewrite D1; exact Np).
    rewrite (R2 q oq Dq2 Np2). apply (R1 q oq Dq Np).
Qed.

Lemma frame_set_cfg w p id c : id_okb id = true -> frame w (set_cfg w id c) p.
Proof.
  intro I. split; [reflexivity|]. split; [|reflexivity].
  intros id' H. apply cfg_at_set_other. intros ->. congruence.
Qed.

Lemma frame_set_repo w p o r : dir_obj w p = Some o -> frame w (set_repo w o r) p.
Proof.
  intro D. split; [reflexivity|]. split; [reflexivity|].
  intros q oq Dq Np. apply repo_at_set_repo_other with (oq := oq); [exact Dq|]. congruence.
Qed.

Lemma frame_generate w root p id content md res w' :
  id_okb id = true ->
  generate_config w root (repo_at w p) id content md = (res, w') -> frame w w' p.
Proof.
  intros I. unfold generate_config.
  destruct (repo_at w p) as [[ob r]|] eqn:R.
  - destruct (r_writable r); intros [= _ <-].
    + eapply frame_trans; [apply frame_set_cfg, I|]. apply frame_set_repo.
      apply repo_at_dir in R. exact R.
    + apply frame_set_cfg, I.
  - intros [= _ <-]. apply frame_set_cfg, I.
Qed.

Lemma frame_handle w g root p o id md r w' g' :
  repo_at w p = Some o -> id_okb id = true -> rng_okb g = true ->
  handle_metadata_path w g root p o id md = (r, w', g') -> frame w w' p.
Proof.
  intros R I G. unfold handle_metadata_path.
  destruct (option_eqb path_eqb md (Some p)); [intros [= _ <- _]; apply frame_refl|].
  destruct md as [d|]; [|intros [= _ <- _]; apply frame_set_cfg, I].
  destruct (dir_obj w d) as [od|]; [|intros [= _ <- _]; apply frame_set_cfg, I].
  destruct (r_writable (snd o) && negb (od =? fst o)); [|intros [= _ <- _]; apply frame_refl].
  destruct (next_id_ok g G) as [In _]. destruct (next_id g) as [newid g2]. cbn [fst] in In.
  rewrite <- R.
  destruct (generate_config w root (repo_at w p) newid (cd_toml (cfg_at w id)) (Some p)) as [[q|] w2] eqn:Gen;
    intros [= _ <- _]; eapply frame_generate; eassumption.
Qed.

Theorem maybe_load_frame w g root p r w' g' :
  rng_okb g = true -> maybe_load_config w g root p = (r, w', g') -> frame w w' p.
Proof.
  intro G. unfold maybe_load_config.
  destruct (repo_at w p) as [[ob rp]|] eqn:R.
  - destruct (r_id_file rp) as [|s|].
    + unfold maybe_migrate_legacy. destruct (r_legacy rp) as [content|]; [|intros [= _ <- _]; apply frame_refl].
      destruct (next_id_ok g G) as [In _]. destruct (next_id g) as [newid g2]. cbn [fst] in In.
      rewrite <- R.
      destruct (generate_config w root (repo_at w p) newid (Some content) (Some p)) as [[q|] w2] eqn:Gen;
        intros [= _ <- _]; eapply frame_generate; eassumption.
    + destruct (id_okb s) eqn:I; cbn [negb]; [|intros [= _ <- _]; apply frame_refl].
      destruct (cd_md (cfg_at w s)) as [| |md].
      * rewrite <- R.
        destruct (generate_config w root (repo_at w p) s None (Some p)) as [[q|] w2] eqn:Gen;
          intros [= _ <- _]; eapply frame_generate; eassumption.
      * intros [= _ <- _]; apply frame_refl.
      * intro H. eapply frame_handle; eassumption.
    + intros [= _ <- _]; apply frame_refl.
  - cbn. intros [= _ <- _]; apply frame_refl.
Qed.

Theorem load_frame w g root p r w' g' :
  rng_okb g = true -> load_config w g root p = (r, w', g') -> frame w w' p.
Proof.
  intro G. unfold load_config.
  destruct (maybe_load_config w g root p) as [[r1 w1] g1] eqn:M.
  pose proof (maybe_load_frame w g root p r1 w1 g1 G M) as F1.
  pose proof (proj2 (maybe_load_confined w g root p G)) as G1. rewrite M in G1. cbn [snd] in G1.
  destruct r1 as [l|e]; [|intros [= _ <- _]; exact F1].
  destruct (l_file l); [intros [= _ <- _]; exact F1|].
  destruct (next_id_ok g1 G1) as [In _]. destruct (next_id g1) as [newid g2]. cbn [fst] in In.
  destruct (generate_config w1 root (repo_at w1 p) newid None (Some p)) as [[q|] w2] eqn:Gen;
    intros [= _ <- _]; (eapply frame_trans; [exact F1 | eapply frame_generate; eassumption]).
Qed.

Lemma writes_confined w g root p r w' g' :
  rng_okb g = true ->
  (maybe_load_config w g root p = (r, w', g') \/ load_config w g root p = (r, w', g')) ->
  frame w w' p.
Proof.
  intros G [H|H]; [eapply maybe_load_frame | eapply load_frame]; eassumption.
Qed.
