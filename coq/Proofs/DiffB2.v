(** Layer B, part 2: the histogram and [lcs_positions]: the pairs it returns are strictly
    increasing in both coordinates and carry equal tokens. *)
From Coq Require Import Lia Arith Sorted Permutation.
From Verif Require Import Base.Prelude Model.Diff Proofs.DiffBase Proofs.DiffA2 Proofs.DiffB1.

(** * Generic list facts *)
Lemma map_fst_combine {A B} (la : list A) (lb : list B) :
  length la = length lb -> map fst (combine la lb) = la.
Proof. revert lb; induction la; intros [|b lb] H; cbn in *; try discriminate; auto. f_equal; auto. Qed.
Lemma map_snd_combine {A B} (la : list A) (lb : list B) :
  length la = length lb -> map snd (combine la lb) = lb.
Proof. revert lb; induction la; intros [|b lb] H; cbn in *; try discriminate; auto. f_equal; auto. Qed.

Lemma sorted_lt_nodup l : StronglySorted lt l -> NoDup l.
Proof.
  induction 1 as [|x l S IH F]; constructor; [|assumption].
  intros H. rewrite Forall_forall in F. specialize (F x H). lia.
Qed.

Lemma nodup_app {A} (l1 l2 : list A) :
  NoDup l1 /\ NoDup l2 /\ (forall x, In x l1 -> In x l2 -> False) -> NoDup (l1 ++ l2).
Proof.
  intros (N1 & N2 & D). induction N1 as [|x l1 Hx N1 IH]; cbn [app]; [assumption|].
  constructor.
  - intros H. apply in_app_or in H. destruct H as [H|H]; [contradiction|]. apply (D x); [now left|assumption].
  - apply IH. intros y Hy. apply D. now right.
Qed.

Lemma StronglySorted_map {A B} (R : A -> A -> Prop) (R' : B -> B -> Prop) (f : A -> B) l :
  StronglySorted R l ->
  (forall a b, In a l -> In b l -> R a b -> R' (f a) (f b)) ->
  StronglySorted R' (map f l).
Proof.
  induction 1 as [|x l S IH F]; intros H; cbn [map]; constructor.
  - apply IH. intros a b Ha Hb. apply H; now right.
  - apply Forall_map. rewrite Forall_forall in *. intros b Hb. apply H; [now left|now right|now apply F].
Qed.

Lemma StronglySorted_nth {A} (R : A -> A -> Prop) l i j a b :
  StronglySorted R l -> i < j -> nth_error l i = Some a -> nth_error l j = Some b -> R a b.
Proof.
  intros S; revert i j; induction S as [|x l S IH F]; intros i j Hij Ha Hb; [destruct i; discriminate|].
  destruct j as [|j]; [lia|]. cbn in Hb. destruct i as [|i]; cbn in Ha.
  - injection Ha as <-. rewrite Forall_forall in F. apply F. eapply nth_error_In; eauto.
  - apply (IH i j); auto; lia.
Qed.

Lemma sorted_app_mid {A} (R : A -> A -> Prop) l1 x l2 :
  StronglySorted R l1 -> StronglySorted R l2 ->
  Forall (fun a => R a x) l1 -> Forall (fun b => R x b) l2 ->
  (forall a b, In a l1 -> In b l2 -> R a b) ->
  StronglySorted R (l1 ++ x :: l2).
Proof.
  intros S1 S2 F1 F2 H. induction S1 as [|a l1 S1 IH Fa]; cbn [app].
  - constructor; assumption.
  - inversion F1; subst. constructor.
    + apply IH; auto. intros a' b Ha' Hb. apply H; [now right|assumption].
    + apply Forall_app. split; [assumption|]. constructor; [assumption|].
      apply Forall_forall. intros b Hb. apply H; [now left|assumption].
Qed.

Lemma index_of_spec x l : In x l -> index_of x l < length l /\ nth_error l (index_of x l) = Some x.
Proof.
  induction l as [|y t IH]; intros H; [destruct H|]. cbn [index_of].
  destruct (x =? y) eqn:E.
  - apply Nat.eqb_eq in E. subst. cbn. split; [lia|reflexivity].
  - apply Nat.eqb_neq in E. destruct H as [H|H]; [congruence|].
    destruct (IH H). cbn [length nth_error]. split; [lia|assumption].
Qed.

(** [enumerate] *)
Lemma enumerate_fst {A} (l : list A) i : map fst (enumerate i l) = seq i (length l).
Proof. revert i; induction l; intros i; cbn; [reflexivity|]. now rewrite IHl. Qed.
Lemma enumerate_snd {A} (l : list A) i : map snd (enumerate i l) = l.
Proof. revert i; induction l; intros i; cbn; [reflexivity|]. now rewrite IHl. Qed.
Lemma enumerate_in {A} (l : list A) i s x :
  In (s, x) (enumerate i l) <-> i <= s /\ nth_error l (s - i) = Some x.
Proof.
  revert i; induction l as [|y t IH]; intros i; cbn [enumerate In].
  - split; [intros []|]. intros (_ & H). destruct (s - i); discriminate.
  - rewrite IH. split.
    + intros [H|(H1 & H2)].
      * injection H as <- <-. rewrite Nat.sub_diag. split; [lia|reflexivity].
      * split; [lia|]. replace (s - i) with (S (s - S i)) by lia. exact H2.
    + intros (H1 & H2). destruct (Nat.eq_dec s i) as [->|N].
      * rewrite Nat.sub_diag in H2. cbn in H2. left. congruence.
      * right. split; [lia|]. replace (s - i) with (S (s - S i)) in H2 by lia. exact H2.
Qed.

(** * Insertion sort by position *)
Definition le_fst (a b : nat * nat) : Prop := fst a <= fst b.
Definition lt_fst (a b : nat * nat) : Prop := fst a < fst b.

Lemma insert_by_pos_perm x l : Permutation (insert_by_pos x l) (x :: l).
Proof.
  induction l as [|y t IH]; cbn [insert_by_pos]; [reflexivity|].
  destruct (fst x <=? fst y); [reflexivity|]. rewrite IH. apply perm_swap.
Qed.

Lemma sort_by_pos_perm l : Permutation (sort_by_pos l) l.
Proof.
  induction l as [|x t IH]; cbn [sort_by_pos fold_right]; [reflexivity|].
  fold (sort_by_pos t). rewrite insert_by_pos_perm. now constructor.
Qed.

Lemma insert_by_pos_sorted x l : StronglySorted le_fst l -> StronglySorted le_fst (insert_by_pos x l).
Proof.
  induction 1 as [|y t S IH F]; cbn [insert_by_pos]; [repeat constructor|].
  destruct (fst x <=? fst y) eqn:E.
  - apply Nat.leb_le in E. constructor; [now constructor|]. constructor; [exact E|].
    eapply Forall_impl; [|exact F]. unfold le_fst. intros; lia.
  - apply Nat.leb_gt in E. constructor; [assumption|].
    rewrite (Forall_forall). intros z Hz. apply (Permutation_in _ (insert_by_pos_perm x t)) in Hz.
    destruct Hz as [<-|Hz]; [unfold le_fst; lia|]. rewrite Forall_forall in F. now apply F.
Qed.

Lemma sort_by_pos_sorted l : StronglySorted le_fst (sort_by_pos l).
Proof.
  induction l as [|x t IH]; cbn [sort_by_pos fold_right]; [constructor|].
  fold (sort_by_pos t). now apply insert_by_pos_sorted.
Qed.

Lemma sorted_le_lt l : StronglySorted le_fst l -> NoDup (map fst l) -> StronglySorted lt_fst l.
Proof.
  induction 1 as [|x t S IH F]; intros N; [constructor|]. cbn [map] in N. inversion N as [|? ? Nx Nt]; subst.
  constructor; [now apply IH|]. rewrite Forall_forall in *. intros y Hy. specialize (F y Hy).
  unfold le_fst, lt_fst in *. assert (fst x <> fst y); [|lia].
  intros E. apply Nx. rewrite E. now apply in_map.
Qed.

Section LayerB.
  Context {T : Type} (eqb : T -> T -> bool).
  Hypothesis eqb_spec : forall x y, eqb x y = true <-> x = y.
  Variable order : list (T * list nat) -> list (T * list nat).
  Hypothesis order_perm : forall h, Permutation (order h) h.
  Variable max_occ : nat.

  Notation hist_add := (hist_add eqb max_occ).
  Notation hist_go := (hist_go eqb max_occ).
  Notation histogram := (histogram eqb max_occ).
  Notation hist_find := (hist_find eqb).

  (** * The histogram *)
  Definition hentry_ok (ws : list T) (i : nat) (e : T * list nat) : Prop :=
    StronglySorted lt (snd e) /\ Forall (fun p => p < i /\ nth_error ws p = Some (fst e)) (snd e).
  Definition hist_ok (ws : list T) (i : nat) (h : list (T * list nat)) : Prop :=
    NoDup (map fst h) /\ Forall (hentry_ok ws i) h.

  Lemma hentry_ok_weaken ws i e : hentry_ok ws i e -> hentry_ok ws (S i) e.
  Proof.
    intros (A & B). split; [assumption|]. eapply Forall_impl; [|exact B]. cbn. intros p (C & D). split; [lia|assumption].
  Qed.

  Lemma hist_add_keys w i h k : In k (map fst (hist_add w i h)) -> k = w \/ In k (map fst h).
  Proof.
    induction h as [|[w' ps] t IH]; cbn [Diff.hist_add map fst In]; [intuition congruence|].
    destruct (eqb w' w); cbn [map fst In]; [tauto|]. intros [H|H]; [tauto|]. apply IH in H. tauto.
  Qed.

  Lemma hist_add_ok ws i h w :
    hist_ok ws i h -> nth_error ws i = Some w -> hist_ok ws (S i) (hist_add w i h).
  Proof.
    intros (N & F) Hw. induction h as [|[w' ps] t IH]; cbn [Diff.hist_add].
    - split; [repeat constructor; intros []|]. constructor; [|constructor].
      split; cbn [fst snd]; [repeat constructor|]. constructor; [|constructor]. split; [lia|assumption].
    - cbn [map fst] in N. inversion N as [|? ? Nx Nt]; subst. inversion F as [|? ? Fe Ft]; subst.
      destruct (eqb w' w) eqn:E.
      + apply eqb_spec in E. subst w'. split; [exact N|]. constructor.
        * destruct Fe as (Sps & B). cbn [fst snd] in *.
          destruct (length ps <=? max_occ); [|now apply hentry_ok_weaken].
          split; cbn [fst snd].
          -- clear -Sps B. induction Sps as [|p ps Sps IH Fp]; cbn [app]; [repeat constructor|].
             inversion B as [|? ? (Bp & _) Bt]; subst. constructor; [now apply IH|].
             apply Forall_app. split; [assumption|]. repeat constructor. exact Bp.
          -- apply Forall_app. split.
             ++ eapply Forall_impl; [|exact B]. cbn. intros p (C & D). split; [lia|assumption].
             ++ constructor; [|constructor]. split; [lia|assumption].
        * eapply Forall_impl; [|exact Ft]. apply hentry_ok_weaken.
      + destruct (IH Nt Ft) as (N' & F'). split.
        * cbn [map fst]. constructor; [|assumption]. intros H. apply hist_add_keys in H.
          destruct H as [->|H]; [|contradiction].
          rewrite (proj2 (eqb_spec w w) eq_refl) in E. discriminate.
        * constructor; [now apply hentry_ok_weaken|assumption].
  Qed.

  Lemma hist_go_ok ws : forall ws' i h,
    hist_ok ws i h -> (forall k, nth_error ws' k = nth_error ws (i + k)) ->
    hist_ok ws (i + length ws') (hist_go ws' i h).
  Proof.
    induction ws' as [|w t IH]; intros i h Hh Hn; cbn [Diff.hist_go length].
    - now rewrite Nat.add_0_r.
    - replace (i + S (length t)) with (S i + length t) by lia. apply IH.
      + apply hist_add_ok; [assumption|]. rewrite <- (Nat.add_0_r i). rewrite <- Hn. reflexivity.
      + intros k. replace (S i + k) with (i + S k) by lia. rewrite <- Hn. reflexivity.
  Qed.

  Lemma histogram_ok ws : hist_ok ws (length ws) (histogram ws).
  Proof.
    unfold Diff.histogram. apply (hist_go_ok ws ws 0 []).
    - split; constructor.
    - intros k. reflexivity.
  Qed.

  Lemma hist_find_in w h ps : hist_find w h = Some ps -> In (w, ps) h.
  Proof.
    induction h as [|[w' ps'] t IH]; cbn [Diff.hist_find]; [discriminate|].
    destruct (eqb w' w) eqn:E.
    - apply eqb_spec in E. subst. intros H. injection H as <-. now left.
    - intros H. right. now apply IH.
  Qed.

  (** * The uncommon shared words *)
  Definition pair_ok (left right : list T) (k : T) (p : list nat * list nat) : Prop :=
    StronglySorted lt (fst p) /\ StronglySorted lt (snd p) /\ length (fst p) = length (snd p)
    /\ Forall (fun x => nth_error left x = Some k) (fst p)
    /\ Forall (fun x => nth_error right x = Some k) (snd p).
  Definition keyed (left right : list T) (both : list (list nat * list nat)) : Prop :=
    exists ks, NoDup ks /\ Forall2 (pair_ok left right) ks both.

  Lemma keyed_filter left right f both : keyed left right both -> keyed left right (filter f both).
  Proof.
    intros (ks & N & F).
    assert (G : exists ks', incl ks' ks /\ NoDup ks' /\ Forall2 (pair_ok left right) ks' (filter f both)).
    { revert N. induction F as [|k p ks both Hp F IH]; intros N.
      - exists []. repeat split; [intros x []|constructor|constructor].
      - inversion N as [|? ? Nk Nt]; subst. destruct (IH Nt) as (ks' & I' & N' & F').
        cbn [filter]. destruct (f p).
        + exists (k :: ks'). repeat split.
          * intros x [<-|Hx]; [now left|right; now apply I'].
          * constructor; [|assumption]. intros H. apply Nk. now apply I'.
          * constructor; assumption.
        + exists ks'. repeat split; auto. intros x Hx. right. now apply I'. }
    destruct G as (ks' & _ & N' & F'). exists ks'. split; assumption.
  Qed.

  Lemma shared_candidates_keyed left right :
    keyed left right (shared_candidates eqb order (histogram left) (histogram right)).
  Proof.
    unfold shared_candidates.
    destruct (histogram_ok left) as (Nl & Fl). destruct (histogram_ok right) as (Nr & Fr).
    assert (No : NoDup (map fst (order (histogram left)))).
    { eapply Permutation_NoDup; [|exact Nl]. apply Permutation_map. symmetry. apply order_perm. }
    assert (Fo : Forall (hentry_ok left (length left)) (order (histogram left))).
    { eapply Permutation_Forall; [|exact Fl]. symmetry. apply order_perm. }
    revert No Fo. generalize (order (histogram left)). intros es.
    assert (G : NoDup (map fst es) -> Forall (hentry_ok left (length left)) es ->
                exists ks, incl ks (map fst es) /\ NoDup ks
                  /\ Forall2 (pair_ok left right) ks
                       (flat_map (fun e => match hist_find (fst e) (histogram right) with
                                           | Some rps => if length (snd e) =? length rps
                                                         then [(snd e, rps)] else []
                                           | None => []
                                           end) es)).
    { induction es as [|[w lps] es IH]; intros No Fo; cbn [flat_map].
      - exists []. repeat split; [intros x []|constructor|constructor].
      - cbn [map fst] in No. inversion No as [|? ? Nw Nt]; subst. inversion Fo as [|? ? Fe Ft]; subst.
        destruct (IH Nt Ft) as (ks & I & N & F).
        cbn [fst snd]. destruct (hist_find w (histogram right)) as [rps|] eqn:E;
          [destruct (length lps =? length rps) eqn:L|]; cbn [app].
        + exists (w :: ks). repeat split.
          * intros x [<-|Hx]; [now left|right; now apply I].
          * constructor; [|assumption]. intros H. apply Nw. now apply I.
          * constructor; [|assumption].
            apply hist_find_in in E. rewrite Forall_forall in Fr. destruct (Fr _ E) as (Sr & Br).
            destruct Fe as (Sl & Bl). cbn [fst snd] in *. apply Nat.eqb_eq in L.
            repeat split; cbn [fst snd]; auto.
            -- eapply Forall_impl; [|exact Bl]. cbn. tauto.
            -- eapply Forall_impl; [|exact Br]. cbn. tauto.
        + exists ks. repeat split; auto. intros x Hx. right. now apply I.
        + exists ks. repeat split; auto. intros x Hx. right. now apply I. }
    intros No Fo. destruct (G No Fo) as (ks & _ & N & F). exists ks. split; assumption.
  Qed.

  (** The flattened pairs. *)
  Lemma pairs_facts left right both :
    keyed left right both ->
    let pairs := flat_map (fun p => combine (fst p) (snd p)) both in
    (forall q, In q pairs -> exists k, nth_error left (fst q) = Some k /\ nth_error right (snd q) = Some k)
    /\ NoDup (map fst pairs) /\ NoDup (map snd pairs).
  Proof.
    intros (ks & N & F). cbv zeta.
    assert (G : (forall q, In q (flat_map (fun p => combine (fst p) (snd p)) both) ->
                           exists k, In k ks /\ nth_error left (fst q) = Some k
                                     /\ nth_error right (snd q) = Some k)
                /\ NoDup (map fst (flat_map (fun p => combine (fst p) (snd p)) both))
                /\ NoDup (map snd (flat_map (fun p => combine (fst p) (snd p)) both))).
    { revert N. induction F as [|k p ks both Hp F IH]; intros N; cbn [flat_map].
      - repeat split; [intros q []|constructor|constructor].
      - inversion N as [|? ? Nk Nt]; subst. destruct (IH Nt) as (I1 & I2 & I3).
        destruct Hp as (Sl & Sr & L & Bl & Br).
        assert (Here : forall q, In q (combine (fst p) (snd p)) ->
                                 nth_error left (fst q) = Some k /\ nth_error right (snd q) = Some k).
        { intros [a b] Hq. rewrite Forall_forall in Bl, Br. split; cbn [fst snd].
          - apply Bl. eapply in_combine_l; eauto.
          - apply Br. eapply in_combine_r; eauto. }
        repeat split.
        + intros q Hq. apply in_app_or in Hq. destruct Hq as [Hq|Hq].
          * exists k. split; [now left|]. now apply Here.
          * destruct (I1 q Hq) as (k' & A & B). exists k'. split; [now right|assumption].
        + rewrite map_app, map_fst_combine by assumption. apply nodup_app.
          split; [now apply sorted_lt_nodup|]. split; [assumption|].
          intros x Hx Hx'. apply in_map_iff in Hx'. destruct Hx' as (q & <- & Hq).
          destruct (I1 q Hq) as (k' & A & B & _). rewrite Forall_forall in Bl.
          rewrite (Bl _ Hx) in B. injection B as ->. contradiction.
        + rewrite map_app, map_snd_combine by assumption. apply nodup_app.
          split; [now apply sorted_lt_nodup|]. split; [assumption|].
          intros x Hx Hx'. apply in_map_iff in Hx'. destruct Hx' as (q & <- & Hq).
          destruct (I1 q Hq) as (k' & A & _ & B). rewrite Forall_forall in Br.
          rewrite (Br _ Hx) in B. injection B as ->. contradiction. }
    destruct G as (G1 & G2 & G3). repeat split; auto.
    intros q Hq. destruct (G1 q Hq) as (k & _ & A). eauto.
  Qed.
End LayerB.
