(** Proofs for C23 (model: Model/C23.v over Base/FsS.v). *)
From Verif Require Import Base.Prelude Gen.Tables Model.C23.
From Coq Require Import Lia.
Local Open Scope N_scope.

(** ** Paths and association lists *)

Lemma path_eqb_spec (a b : path) : path_eqb a b = true <-> a = b.
Proof.
  unfold path_eqb. revert b. induction a as [|x a IH]; intros [|y b]; cbn; split; intros H;
    try reflexivity; try discriminate.
  - apply andb_true_iff in H. destruct H as [H1 H2]. apply String.eqb_eq in H1.
    apply IH in H2. congruence.
  - injection H as -> ->. rewrite String.eqb_refl. apply IH. reflexivity.
Qed.

Lemma path_eqb_refl p : path_eqb p p = true.
Proof. apply path_eqb_spec. reflexivity. Qed.

Lemma path_eqb_neq a b : a <> b -> path_eqb a b = false.
Proof.
  intros H. destruct (path_eqb a b) eqn:E; [|reflexivity]. apply path_eqb_spec in E. contradiction.
Qed.

Lemma pmem_spec p l : pmem p l = true <-> In p l.
Proof.
  unfold pmem, mem. rewrite existsb_exists. split.
  - intros (x & Hx & E). apply path_eqb_spec in E. subst. exact Hx.
  - intros H. exists p. split; [exact H|apply path_eqb_refl].
Qed.

Lemma pmem_false p l : pmem p l = false <-> ~ In p l.
Proof.
  rewrite <- pmem_spec. destruct (pmem p l); split; intros H; try reflexivity; try discriminate;
    try (intros E; discriminate). exfalso. apply H. reflexivity.
Qed.

Lemma is_prefix_spec p q : is_prefix p q = true <-> exists r, q = p ++ r.
Proof.
  revert q. induction p as [|a p IH]; intros q; cbn.
  - split; [intros _; exists q; reflexivity|reflexivity].
  - destruct q as [|b q].
    + split; [discriminate|intros [r H]; discriminate].
    + rewrite andb_true_iff, String.eqb_eq, IH. split.
      * intros [-> [r ->]]. exists r. reflexivity.
      * intros [r H]. injection H as -> ->. split; [reflexivity|exists r; reflexivity].
Qed.

Lemma is_prefix_app p r : is_prefix p (p ++ r) = true.
Proof. apply is_prefix_spec. exists r. reflexivity. Qed.

Lemma skipn_app_exact {A} (p r : list A) : skipn (length p) (p ++ r) = r.
Proof. induction p; cbn; auto. Qed.

Lemma plookup_in {A} p (l : list (path * A)) v : plookup p l = Some v -> In (p, v) l.
Proof.
  induction l as [|[k w] l IH]; cbn; [discriminate|].
  destruct (path_eqb k p) eqn:E.
  - apply path_eqb_spec in E. intros H. injection H as ->. left. congruence.
  - intros H. right. auto.
Qed.

Lemma plookup_none {A} p (l : list (path * A)) : plookup p l = None <-> forall v, ~ In (p, v) l.
Proof.
  induction l as [|[k w] l IH]; cbn.
  - split; [intros _ v H; exact H|reflexivity].
  - destruct (path_eqb k p) eqn:E.
    + apply path_eqb_spec in E. subst k. split; [discriminate|].
      intros H. exfalso. apply (H w). left. reflexivity.
    + rewrite IH. split.
      * intros H v [Hv|Hv]; [|exact (H v Hv)]. injection Hv as -> _.
        rewrite path_eqb_refl in E. discriminate.
      * intros H v Hv. apply (H v). right. exact Hv.
Qed.

Lemma paths_unique_lookup {A} (l : list (path * A)) p v :
  paths_unique (map fst l) = true -> In (p, v) l -> plookup p l = Some v.
Proof.
  induction l as [|[k w] l IH]; cbn; [intros _ []|].
  intros Hu Hin. apply andb_true_iff in Hu. destruct Hu as [Hk Hu].
  destruct Hin as [Hin|Hin].
  - injection Hin as -> ->. rewrite path_eqb_refl. reflexivity.
  - destruct (path_eqb k p) eqn:E.
    + apply path_eqb_spec in E. subst k. exfalso.
      apply negb_true_iff in Hk. apply pmem_false in Hk. apply Hk.
      change p with (fst (p, v)). apply in_map. exact Hin.
    + apply IH; assumption.
Qed.

Lemma plookup_functional {A} p (l : list (path * A)) v :
  In (p, v) l -> (forall v', In (p, v') l -> v' = v) -> plookup p l = Some v.
Proof.
  intros Hin Hf. destruct (plookup p l) as [w|] eqn:E.
  - apply plookup_in in E. rewrite (Hf w E). reflexivity.
  - exfalso. exact (proj1 (plookup_none p l) E v Hin).
Qed.

(** ** Directory entries *)

Lemma find_entry_in nm es ch : find_entry nm es = Some ch -> In (nm, ch) es.
Proof.
  induction es as [|[k n] es IH]; cbn; [discriminate|].
  destruct (String.eqb k nm) eqn:E.
  - apply String.eqb_eq in E. intros H. injection H as ->. left. congruence.
  - intros H. right. auto.
Qed.

Lemma smem_spec (a : string) l : mem String.eqb a l = true <-> In a l.
Proof.
  unfold mem. rewrite existsb_exists. split.
  - intros (x & Hx & E). apply String.eqb_eq in E. subst. exact Hx.
  - intros H. exists a. split; [exact H|apply String.eqb_refl].
Qed.

Lemma find_entry_unique nm es ch :
  names_unique (map fst es) = true -> In (nm, ch) es -> find_entry nm es = Some ch.
Proof.
  induction es as [|[k n] es IH]; cbn; [intros _ []|].
  intros Hu Hin. apply andb_true_iff in Hu. destruct Hu as [Hk Hu].
  destruct Hin as [Hin|Hin].
  - injection Hin as -> ->. rewrite String.eqb_refl. reflexivity.
  - destruct (String.eqb k nm) eqn:E.
    + apply String.eqb_eq in E. subst k. exfalso.
      apply negb_true_iff in Hk.
      assert (Hm : mem String.eqb nm (map fst es) = true).
      { apply smem_spec. change nm with (fst (nm, ch)). apply in_map. exact Hin. }
      congruence.
    + apply IH; assumption.
Qed.

Lemma wf_node_dir es :
  wf_node (DDir es) = true ->
  names_unique (map fst es) = true /\ forall nm ch, In (nm, ch) es -> wf_node ch = true.
Proof.
  cbn [wf_node]. intros H. apply andb_true_iff in H. destruct H as [Hu Ha].
  apply andb_true_iff in Hu. destruct Hu as [Hu _]. split; [exact Hu|].
  clear Hu. induction es as [|e es IH]; [intros ? ? []|].
  apply andb_true_iff in Ha. destruct Ha as [H1 H2].
  intros nm ch [Hin|Hin].
  - subst e. exact H1.
  - exact (IH H2 nm ch Hin).
Qed.

Lemma wf_node_noempty es : wf_node (DDir es) = true -> forall ch, ~ In (EmptyString, ch) es.
Proof.
  cbn [wf_node]. intros H. apply andb_true_iff in H. destruct H as [Hu _].
  apply andb_true_iff in Hu. destruct Hu as [_ Hn]. apply negb_true_iff in Hn.
  intros ch Hin. assert (Hm : mem String.eqb EmptyString (map fst es) = true).
  { apply smem_spec. change EmptyString with (fst (EmptyString, ch)). apply in_map. exact Hin. }
  congruence.
Qed.

Lemma dstat_app root a b :
  dstat root (a ++ b) =
  match dstat root a with SFound n => dstat n b | SNotFound => SNotFound | SNotDir => SNotDir end.
Proof.
  revert root. induction a as [|x a IH]; intros root; [reflexivity|].
  cbn [app dstat]. destruct root as [| | |es]; try reflexivity.
  destruct (find_entry x es); [apply IH|reflexivity].
Qed.

(** ** Items of an output *)

Inductive item := IUpd (p : path) (v : tvalue) | IDel (p : path) | ISeen (p : path).

Definition has (o : out) (it : item) : Prop :=
  match it with
  | IUpd p v => In (p, v) (o_upd o)
  | IDel p => In p (o_del o)
  | ISeen p => In p (o_seen o)
  end.

Lemma has_app a b it : has (out_app a b) it <-> has a it \/ has b it.
Proof. destruct it; cbn; apply in_app_iff. Qed.

Lemma has_empty it : ~ has out_empty it.
Proof. destruct it; cbn; auto. Qed.

Section Proofs.
  Context (c : cfg) (root : dnode).
  Hypothesis tracked_unique : paths_unique (map fst (c_tracked c)) = true.

  Notation st_at := (st_at c).
  Notation act := (act c root).
  Notation visit := (visit c root).

  (** The output a path contributes, given its action. *)
  Definition act_out (p : path) (a : action) : out :=
    match a with
    | APresent v => present_file c p v
    | ADelete => mk_out [] [p] []
    | ANone => out_empty
    end.

  Definition item_path (it : item) : path :=
    match it with IUpd p _ | IDel p | ISeen p => p end.

  Lemma has_act_out_path p a it : has (act_out p a) it -> item_path it = p.
  Proof.
    destruct a as [v| |]; cbn.
    - unfold present_file. destruct it as [q w|q|q]; cbn.
      + destruct (match st_at p with Some s => ts_clean s | None => false end); [intros []|].
        destruct (option_eqb tvalue_eqb (old_at c p) (Some v)); [intros []|].
        intros [Hq|[]]. congruence.
      + intros [].
      + intros [Hq|[]]. congruence.
    - destruct it as [q w|q|q]; cbn.
      + intros [].
      + intros [Hq|[]]. congruence.
      + intros [].
    - intros Hq. destruct (has_empty _ Hq).
  Qed.

  Lemma st_at_in p s : In (p, s) (c_tracked c) -> st_at p = Some s.
  Proof. intros H. apply paths_unique_lookup; assumption. Qed.

  (** [gone p] for a tracked path. *)
  Lemma gone_tracked p s :
    In (p, s) (c_tracked c) -> ts_sub s = false -> sparse_matches c p = true ->
    gone c p = ADelete.
  Proof.
    intros Hin Hs Hm. unfold gone. rewrite (st_at_in p s Hin), Hs, Hm. reflexivity.
  Qed.

  Lemma gone_delete p :
    gone c p = ADelete ->
    exists s, In (p, s) (c_tracked c) /\ ts_sub s = false /\ sparse_matches c p = true.
  Proof.
    unfold gone. destruct (st_at p) as [s|] eqn:E; [|discriminate].
    destruct (ts_sub s) eqn:Hs; cbn; [discriminate|].
    destruct (sparse_matches c p) eqn:Hm; [|discriminate].
    intros _. exists s. split; [apply plookup_in; exact E|auto].
  Qed.

  Lemma gone_cases p : gone c p = ADelete \/ gone c p = ANone.
  Proof.
    unfold gone. destruct (st_at p) as [s|]; [|auto].
    destruct (negb (ts_sub s) && sparse_matches c p); auto.
  Qed.

  (** *** visit_tracked_files *)
  Definition stat_out (tp : path) : out :=
    match dstat root tp with
    | SFound n =>
        match leaf_value n with
        | Some v => present_file c tp v
        | None => mk_out [] [tp] []
        end
    | SNotFound | SNotDir => mk_out [] [tp] []
    end.

  Lemma has_fold {A} (f : A -> out) (l : list A) it :
    has (fold_right (fun e acc => out_app (f e) acc) out_empty l) it
    <-> exists e, In e l /\ has (f e) it.
  Proof.
    induction l as [|a l IH]; cbn [fold_right].
    - split; [intros H; destruct (has_empty _ H)|intros (? & [] & _)].
    - rewrite has_app, IH. split.
      + intros [H|(e & H1 & H2)]; [exists a; split; [left; reflexivity|exact H]|].
        exists e. split; [right; exact H1|exact H2].
      + intros (e & [->|H1] & H2); [left; exact H2|right; exists e; auto].
  Qed.

  Lemma tracked_step_spec p tp s it :
    has (tracked_step c root p (tp, s)) it
    <-> is_prefix p tp = true /\ ts_sub s = false /\ sparse_matches c tp = true
        /\ has (stat_out tp) it.
  Proof.
    unfold tracked_step, stat_out. cbn [fst snd].
    destruct (is_prefix p tp); cbn [negb];
      [|split; [intros H; destruct (has_empty _ H)|intros [? _]; discriminate]].
    destruct (ts_sub s);
      [split; [intros H; destruct (has_empty _ H)|intros (_ & ? & _); discriminate]|].
    destruct (sparse_matches c tp); cbn [negb];
      [|split; [intros H; destruct (has_empty _ H)|intros (_ & _ & ? & _); discriminate]].
    tauto.
  Qed.

  Lemma tracked_only_out tp s :
    In (tp, s) (c_tracked c) -> ts_sub s = false -> sparse_matches c tp = true ->
    forall it, has (stat_out tp) it <-> has (act_out tp (tracked_only c root tp)) it.
  Proof.
    intros Hin Hs Hm it. unfold tracked_only, stat_out.
    rewrite (st_at_in tp s Hin), Hs, Hm. cbn [negb andb].
    destruct (dstat root tp) as [n| |]; [destruct (leaf_value n)| |]; reflexivity.
  Qed.

  Lemma visit_tracked_spec p it :
    has (visit_tracked c root p) it
    <-> exists tp, is_prefix p tp = true /\ has (act_out tp (tracked_only c root tp)) it.
  Proof.
    unfold visit_tracked. rewrite has_fold. split.
    - intros ([tp s] & Hin & H). apply tracked_step_spec in H.
      destruct H as (Hp & Hs & Hm & H). exists tp. split; [exact Hp|].
      apply (tracked_only_out tp s Hin Hs Hm). exact H.
    - intros (tp & Hp & H). unfold tracked_only in H.
      destruct (st_at tp) as [s|] eqn:E; [|destruct (has_empty _ H)].
      destruct (ts_sub s) eqn:Hs; cbn [negb andb] in H; [destruct (has_empty _ H)|].
      destruct (sparse_matches c tp) eqn:Hm; [|destruct (has_empty _ H)].
      apply plookup_in in E. exists (tp, s). split; [exact E|].
      apply tracked_step_spec. repeat split; try assumption.
      apply (tracked_only_out tp s E Hs Hm). unfold tracked_only.
      rewrite (st_at_in tp s E), Hs, Hm. exact H.
  Qed.

  (** *** emit_deleted_files *)
  Lemma emit_deleted_spec dir present it :
    has (emit_deleted c dir present) it
    <-> exists p s, it = IDel p /\ In (p, s) (c_tracked c) /\ is_prefix dir p = true
                    /\ mem pres_eqb (rel_kind dir p) present = false
                    /\ ts_sub s = false /\ sparse_matches c p = true.
  Proof.
    unfold emit_deleted. destruct it as [q w|q|q]; cbn [has o_upd o_del o_seen].
    - split; [intros []|intros (? & ? & H & _); discriminate].
    - rewrite in_map_iff. split.
      + intros ([p s] & E & Hin). cbn in E. subst q. apply filter_In in Hin.
        destruct Hin as [Hin Hc]. cbn [fst snd] in Hc.
        rewrite !andb_true_iff, !negb_true_iff in Hc. destruct Hc as [[[H1 H2] H3] H4].
        exists p, s. repeat split; assumption.
      + intros (p & s & E & Hin & H1 & H2 & H3 & H4). injection E as ->.
        exists (p, s). split; [reflexivity|]. apply filter_In. split; [exact Hin|].
        cbn [fst snd]. rewrite H1, H2, H3, H4. reflexivity.
    - split; [intros []|intros (? & ? & H & _); discriminate].
  Qed.

  (** *** The scan of a directory *)
  Definition cls_pres (nm : string) (cl : eclass) : list pres :=
    match cl with
    | CSkip => []
    | CPresentFile _ => [PFile nm]
    | CIgnoredDir | CPrunedDir | CDescend => [PDir nm]
    end.

  Definition cls_out (p : path) (cl : eclass) (sub : out) : out :=
    match cl with
    | CSkip | CPrunedDir => out_empty
    | CIgnoredDir => visit_tracked c root p
    | CDescend => sub
    | CPresentFile v => present_file c p v
    end.

  Lemma entry_eq dir nm ch sub :
    entry c root dir nm ch sub =
    (cls_out (dir ++ [nm]) (classify c (dir ++ [nm]) nm ch) sub,
     cls_pres nm (classify c (dir ++ [nm]) nm ch)).
  Proof. unfold entry. destruct (classify c (dir ++ [nm]) nm ch); reflexivity. Qed.

  Lemma scan_cons vis dir e rest :
    scan c root vis dir (e :: rest) =
    (out_app (fst (entry c root dir (fst e) (snd e) (vis (dir ++ [fst e]) (snd e))))
             (fst (scan c root vis dir rest)),
     snd (entry c root dir (fst e) (snd e) (vis (dir ++ [fst e]) (snd e)))
     ++ snd (scan c root vis dir rest)).
  Proof. reflexivity. Qed.

  Lemma scan_out vis dir es it :
    has (fst (scan c root vis dir es)) it
    <-> exists nm ch, In (nm, ch) es
          /\ has (cls_out (dir ++ [nm]) (classify c (dir ++ [nm]) nm ch) (vis (dir ++ [nm]) ch)) it.
  Proof.
    induction es as [|[k n] es IH].
    - cbn. split; [intros H; destruct (has_empty _ H)|intros (? & ? & [] & _)].
    - rewrite scan_cons. cbn [fst snd]. rewrite has_app, IH, entry_eq. cbn [fst]. split.
      + intros [H|(nm & ch & H1 & H2)].
        * exists k, n. split; [left; reflexivity|exact H].
        * exists nm, ch. split; [right; exact H1|exact H2].
      + intros (nm & ch & [E|H1] & H2).
        * injection E as -> ->. left. exact H2.
        * right. exists nm, ch. auto.
  Qed.

  Lemma scan_pres vis dir es pr :
    In pr (snd (scan c root vis dir es))
    <-> exists nm ch, In (nm, ch) es /\ In pr (cls_pres nm (classify c (dir ++ [nm]) nm ch)).
  Proof.
    induction es as [|[k n] es IH].
    - cbn. split; [intros []|intros (? & ? & [] & _)].
    - rewrite scan_cons. cbn [fst snd]. rewrite in_app_iff, IH, entry_eq. cbn [snd]. split.
      + intros [H|(nm & ch & H1 & H2)].
        * exists k, n. split; [left; reflexivity|exact H].
        * exists nm, ch. split; [right; exact H1|exact H2].
      + intros (nm & ch & [E|H1] & H2).
        * injection E as -> ->. left. exact H2.
        * right. exists nm, ch. auto.
  Qed.

  Lemma pres_eqb_spec a b : pres_eqb a b = true <-> a = b.
  Proof.
    destruct a, b; cbn; try (split; [discriminate|intros H; discriminate]);
      rewrite String.eqb_eq; split; congruence.
  Qed.

  Lemma pres_mem_spec pr l : mem pres_eqb pr l = true <-> In pr l.
  Proof.
    unfold mem. rewrite existsb_exists. split.
    - intros (x & Hx & E). apply pres_eqb_spec in E. subst. exact Hx.
    - intros H. exists pr. split; [exact H|apply pres_eqb_spec; reflexivity].
  Qed.

  Definition pres_name (pr : pres) : string := match pr with PDir n | PFile n => n end.

  Lemma cls_pres_name nm cl pr : In pr (cls_pres nm cl) -> pres_name pr = nm.
  Proof. destruct cl; cbn; intros H; try destruct H as [<-|[]]; try reflexivity; destruct H. Qed.

  (** With unique names, the presence of a name is decided by its one entry. *)
  Lemma scan_pres_named vis dir es pr :
    names_unique (map fst es) = true ->
    (In pr (snd (scan c root vis dir es))
     <-> match find_entry (pres_name pr) es with
         | Some ch => In pr (cls_pres (pres_name pr)
                               (classify c (dir ++ [pres_name pr]) (pres_name pr) ch))
         | None => False
         end).
  Proof.
    intros Hu. rewrite scan_pres. split.
    - intros (nm & ch & Hin & Hp). pose proof (cls_pres_name _ _ _ Hp) as En. subst nm.
      rewrite (find_entry_unique _ _ _ Hu Hin). exact Hp.
    - destruct (find_entry (pres_name pr) es) as [ch|] eqn:E; [|intros []].
      intros Hp. exists (pres_name pr), ch. split; [apply find_entry_in; exact E|exact Hp].
  Qed.

  Lemma classify_dir_cases p nm ch :
    match classify c p nm ch with
    | CIgnoredDir | CPrunedDir | CDescend => exists es', ch = DDir es'
    | CPresentFile _ => is_dir ch = false
    | CSkip => True
    end.
  Proof.
    unfold classify. destruct (reserved nm); [exact I|]. destruct (is_sub c p); [exact I|].
    destruct ch as [x y z|t z| |es'].
    - cbn. destruct (sparse_matches c p); [|exact I].
      repeat match goal with |- context [if ?b then _ else _] => destruct b end; auto.
    - cbn. destruct (sparse_matches c p); [|exact I].
      repeat match goal with |- context [if ?b then _ else _] => destruct b end; auto.
    - cbn. destruct (sparse_matches c p); [|exact I].
      repeat match goal with |- context [if ?b then _ else _] => destruct b end; auto.
    - destruct (nested_repo es'); [exact I|].
      destruct (pmem p (c_ign_dir c)); [eexists; reflexivity|].
      destruct (prefix_visit_nothing (c_sparse c) p); eexists; reflexivity.
  Qed.

  Lemma tracked_only_dir p es' :
    dstat root p = SFound (DDir es') -> tracked_only c root p = gone c p.
  Proof.
    intros Hd. unfold tracked_only, gone. destruct (st_at p) as [s|]; [|reflexivity].
    destruct (negb (ts_sub s) && sparse_matches c p); [|reflexivity].
    rewrite Hd. reflexivity.
  Qed.

  Fixpoint dsize (n : dnode) : nat :=
    match n with
    | DDir es => S ((fix go (l : list (string * dnode)) : nat :=
                       match l with [] => O | e :: r => (dsize (snd e) + go r)%nat end) es)
    | _ => 1%nat
    end.

  Lemma dsize_child nm ch es : In (nm, ch) es -> (dsize ch < dsize (DDir es))%nat.
  Proof.
    cbn [dsize]. induction es as [|e es IH]; [intros []|].
    intros [->|H]; cbn [snd].
    - lia.
    - specialize (IH H). lia.
  Qed.

  Lemma act_nondir dir n q : is_dir n = false -> act dir n q = ANone.
  Proof. destruct q, n; cbn; try reflexivity; discriminate. Qed.

  Lemma rel_kind_app dir q :
    rel_kind dir (dir ++ q) =
    match q with [] => PFile EmptyString | [nm] => PFile nm | nm :: _ => PDir nm end.
  Proof. unfold rel_kind. rewrite skipn_app_exact. reflexivity. Qed.

  Lemma app_cons_assoc {A} (d : list A) x q : (d ++ [x]) ++ q = d ++ x :: q.
  Proof. rewrite <- app_assoc. reflexivity. Qed.

  (** The walk, characterised path by path. *)
  Theorem visit_spec : forall n dir,
    wf_node n = true -> dstat root dir = SFound n ->
    forall it, has (visit dir n) it <-> exists q, has (act_out (dir ++ q) (act dir n q)) it.
  Proof.
    intros n. remember (dsize n) as k eqn:Hk. revert n Hk.
    induction k as [k IHk] using lt_wf_ind. intros n Hk dir Hwf Hroot it.
    destruct n as [x y z|t z| |es];
      try (cbn [C23.visit]; split;
           [intros H; destruct (has_empty _ H)
           |intros (q & H); rewrite act_nondir in H by reflexivity; destruct (has_empty _ H)]).
    destruct (wf_node_dir es Hwf) as [Hu Hch].
    pose proof (wf_node_noempty es Hwf) as Hne.
    assert (IH : forall nm ch, In (nm, ch) es ->
              forall it, has (visit (dir ++ [nm]) ch) it
                         <-> exists q, has (act_out ((dir ++ [nm]) ++ q) (act (dir ++ [nm]) ch q)) it).
    { intros nm ch Hin. apply (IHk (dsize ch)); auto.
      - subst k. apply (dsize_child nm). exact Hin.
      - exact (Hch nm ch Hin).
      - rewrite dstat_app, Hroot. cbn [dstat]. rewrite (find_entry_unique _ _ _ Hu Hin).
        reflexivity. }
    cbn [C23.visit]. rewrite has_app, scan_out, emit_deleted_spec. split.
    - (* the walk's output is what [act] says *)
      intros [(nm & ch & Hin & H) | (p & s & -> & Hin & Hp & Hk2 & Hs & Hm)].
      + pose proof (find_entry_unique _ _ _ Hu Hin) as Hf.
        pose proof (classify_dir_cases (dir ++ [nm]) nm ch) as Hcl.
        destruct (classify c (dir ++ [nm]) nm ch) as [| | | |v] eqn:Ecl; cbn [cls_out] in H.
        * destruct (has_empty _ H).
        * (* ignored directory *)
          destruct Hcl as [es' ->].
          apply visit_tracked_spec in H. destruct H as (tp & Hp & H).
          apply is_prefix_spec in Hp. destruct Hp as [q' ->].
          destruct q' as [|x r].
          -- exists [nm]. rewrite app_nil_r in H. cbn [C23.act]. rewrite Hf, Ecl.
             rewrite (tracked_only_dir _ es') in H; [exact H|].
             rewrite dstat_app, Hroot. cbn [dstat]. rewrite Hf. reflexivity.
          -- exists (nm :: x :: r). rewrite app_cons_assoc in H. cbn [C23.act]. rewrite Hf, Ecl.
             exact H.
        * destruct (has_empty _ H).
        * (* descend *)
          destruct Hcl as [es' ->].
          apply (IH nm _ Hin) in H. destruct H as (q' & H). destruct q' as [|x r].
          -- exists [nm]. rewrite app_nil_r in H. cbn [C23.act] in *. rewrite Hf, Ecl. exact H.
          -- exists (nm :: x :: r). rewrite app_cons_assoc in H. cbn [C23.act]. rewrite Hf, Ecl.
             exact H.
        * exists [nm]. cbn [C23.act]. rewrite Hf, Ecl. exact H.
      + (* emit_deleted_files *)
        apply is_prefix_spec in Hp. destruct Hp as [q ->]. exists q.
        rewrite rel_kind_app in Hk2.
        assert (Hgone : gone c (dir ++ q) = ADelete) by exact (gone_tracked _ _ Hin Hs Hm).
        assert (Hdone : has (act_out (dir ++ q) ADelete) (IDel (dir ++ q))) by (left; reflexivity).
        destruct q as [|nm q'].
        { cbn [C23.act]. rewrite app_nil_r in *. rewrite Hgone. exact Hdone. }
        cbn [C23.act]. destruct (find_entry nm es) as [ch|] eqn:Hf; [|rewrite Hgone; exact Hdone].
        assert (Hpres : forall pr, pres_name pr = nm ->
                  In pr (cls_pres nm (classify c (dir ++ [nm]) nm ch)) ->
                  mem pres_eqb pr (snd (scan c root visit dir es)) = true).
        { intros pr En Hp. apply pres_mem_spec. apply (scan_pres_named _ _ _ _ Hu).
          rewrite En, Hf. exact Hp. }
        destruct (classify c (dir ++ [nm]) nm ch) as [| | | |v] eqn:Ecl; destruct q' as [|x r];
          try (rewrite Hgone; exact Hdone); exfalso.
        * specialize (Hpres (PDir nm) eq_refl (or_introl eq_refl)). congruence.
        * specialize (Hpres (PDir nm) eq_refl (or_introl eq_refl)). congruence.
        * specialize (Hpres (PDir nm) eq_refl (or_introl eq_refl)). congruence.
        * specialize (Hpres (PFile nm) eq_refl (or_introl eq_refl)). congruence.
    - (* what [act] says is in the walk's output *)
      intros (q & H).
      assert (Hdel : forall p, p = dir ++ q -> gone c p = ADelete ->
                has (act_out p (gone c p)) it ->
                mem pres_eqb (rel_kind dir p) (snd (scan c root visit dir es)) = false ->
                exists p0 s, it = IDel p0 /\ In (p0, s) (c_tracked c) /\ is_prefix dir p0 = true
                  /\ mem pres_eqb (rel_kind dir p0) (snd (scan c root visit dir es)) = false
                  /\ ts_sub s = false /\ sparse_matches c p0 = true).
      { intros p -> Hg Hh Hm. rewrite Hg in Hh. destruct (gone_delete _ Hg) as (s & Hin & Hs & Hsp).
        exists (dir ++ q), s. repeat split; try assumption.
        - destruct it as [a b|a|a]; cbn in Hh; try destruct Hh as [<-|[]]; try reflexivity;
            destruct Hh.
        - apply is_prefix_app. }
      assert (Hnotpres : forall pr,
                match find_entry (pres_name pr) es with
                | Some ch => ~ In pr (cls_pres (pres_name pr)
                                        (classify c (dir ++ [pres_name pr]) (pres_name pr) ch))
                | None => True
                end ->
                mem pres_eqb pr (snd (scan c root visit dir es)) = false).
      { intros pr Hn. destruct (mem pres_eqb pr _) eqn:E; [|reflexivity]. exfalso.
        apply pres_mem_spec in E. apply (scan_pres_named _ _ _ _ Hu) in E.
        destruct (find_entry (pres_name pr) es); [exact (Hn E)|exact E]. }
      destruct q as [|nm q'].
      + (* the directory itself was a tracked file *)
        cbn [C23.act] in H. rewrite app_nil_r in H.
        destruct (gone_cases dir) as [Hg|Hg]; [|rewrite Hg in H; destruct (has_empty _ H)].
        right. apply (Hdel dir); [rewrite app_nil_r; reflexivity|exact Hg|exact H|].
        pose proof (rel_kind_app dir []) as Hrk. rewrite app_nil_r in Hrk. rewrite Hrk.
        apply Hnotpres. cbn [pres_name].
        destruct (find_entry EmptyString es) as [ch|] eqn:Hf; [|exact I].
        exfalso. exact (Hne ch (find_entry_in _ _ _ Hf)).
      + cbn [C23.act] in H.
        assert (Hgone_case : has (act_out (dir ++ nm :: q') (gone c (dir ++ nm :: q'))) it ->
                  mem pres_eqb (rel_kind dir (dir ++ nm :: q'))
                      (snd (scan c root visit dir es)) = false ->
                  (exists nm0 ch0, In (nm0, ch0) es /\
                     has (cls_out (dir ++ [nm0]) (classify c (dir ++ [nm0]) nm0 ch0)
                            (visit (dir ++ [nm0]) ch0)) it) \/
                  (exists p0 s, it = IDel p0 /\ In (p0, s) (c_tracked c) /\ is_prefix dir p0 = true
                     /\ mem pres_eqb (rel_kind dir p0) (snd (scan c root visit dir es)) = false
                     /\ ts_sub s = false /\ sparse_matches c p0 = true)).
        { intros Hh Hm. destruct (gone_cases (dir ++ nm :: q')) as [Hg|Hg];
            [|rewrite Hg in Hh; destruct (has_empty _ Hh)].
          right. apply (Hdel (dir ++ nm :: q')); auto. }
        destruct (find_entry nm es) as [ch|] eqn:Hf.
        2:{ apply Hgone_case; [exact H|]. rewrite rel_kind_app. apply Hnotpres.
            destruct q'; cbn [pres_name]; rewrite Hf; exact I. }
        pose proof (find_entry_in _ _ _ Hf) as Hin.
        pose proof (classify_dir_cases (dir ++ [nm]) nm ch) as Hcl.
        destruct (classify c (dir ++ [nm]) nm ch) as [| | | |v] eqn:Ecl; destruct q' as [|x r].
        * apply Hgone_case; [exact H|]. rewrite rel_kind_app. apply Hnotpres. cbn [pres_name].
          rewrite Hf, Ecl. cbn. tauto.
        * apply Hgone_case; [exact H|]. rewrite rel_kind_app. apply Hnotpres. cbn [pres_name].
          rewrite Hf, Ecl. cbn. tauto.
        * apply Hgone_case; [exact H|]. rewrite rel_kind_app. apply Hnotpres. cbn [pres_name].
          rewrite Hf, Ecl. cbn. intros [E|[]]; discriminate.
        * left. exists nm, ch. split; [exact Hin|]. rewrite Ecl. cbn [cls_out].
          apply visit_tracked_spec. exists (dir ++ nm :: x :: r). split; [|exact H].
          rewrite <- (app_cons_assoc dir nm (x :: r)). apply is_prefix_app.
        * apply Hgone_case; [exact H|]. rewrite rel_kind_app. apply Hnotpres. cbn [pres_name].
          rewrite Hf, Ecl. cbn. intros [E|[]]; discriminate.
        * destruct (has_empty _ H).
        * apply Hgone_case; [exact H|]. rewrite rel_kind_app. apply Hnotpres. cbn [pres_name].
          rewrite Hf, Ecl. cbn. intros [E|[]]; discriminate.
        * left. exists nm, ch. split; [exact Hin|]. rewrite Ecl. cbn [cls_out].
          apply (IH nm ch Hin). exists (x :: r). rewrite app_cons_assoc. exact H.
        * left. exists nm, ch. split; [exact Hin|]. rewrite Ecl. exact H.
        * apply Hgone_case; [exact H|]. rewrite rel_kind_app. apply Hnotpres. cbn [pres_name].
          rewrite Hf, Ecl. cbn. intros [E|[]]; discriminate.
  Qed.
End Proofs.

(** ** The snapshot's result, path by path *)
Section Top.
  Context (c : cfg) (root : dnode).
  Hypothesis tracked_unique : paths_unique (map fst (c_tracked c)) = true.
  Hypothesis root_wf : wf_node root = true.

  Notation act := (act c root [] root).

  Definition clean_at (p : path) : bool :=
    match st_at c p with Some s => ts_clean s | None => false end.

  Lemma walk_spec it :
    has (walk c root) it <-> exists p, has (act_out c p (act p)) it.
  Proof.
    unfold walk. rewrite (visit_spec c root tracked_unique root [] root_wf eq_refl it).
    reflexivity.
  Qed.

  Lemma walk_item it :
    has (walk c root) it <-> has (act_out c (item_path it) (act (item_path it))) it.
  Proof.
    rewrite walk_spec. split.
    - intros (p & H). rewrite (has_act_out_path c p _ it H). exact H.
    - intros H. eexists. exact H.
  Qed.

  Lemma tvalue_eqb_spec a b : tvalue_eqb a b = true <-> a = b.
  Proof.
    destruct a as [x e|s|], b as [y f|t|]; cbn; try (split; [discriminate|intros H; discriminate]).
    - rewrite andb_true_iff, N.eqb_eq. split.
      + intros [-> H]. apply Bool.eqb_prop in H. congruence.
      + intros H. injection H as -> ->. split; [reflexivity|apply Bool.eqb_reflx].
    - rewrite N.eqb_eq. split; congruence.
    - split; reflexivity.
  Qed.

  Lemma opt_tvalue_eqb_spec a b : option_eqb tvalue_eqb a b = true <-> a = b.
  Proof.
    destruct a as [x|], b as [y|]; cbn; try (split; [discriminate|intros H; discriminate]).
    - rewrite tvalue_eqb_spec. split; congruence.
    - split; reflexivity.
  Qed.

  Lemma del_iff p : In p (o_del (walk c root)) <-> act p = ADelete.
  Proof.
    change (In p (o_del (walk c root))) with (has (walk c root) (IDel p)).
    rewrite walk_item. cbn [item_path]. destruct (act p) as [v| |]; cbn.
    - unfold present_file. cbn. split; [intros []|discriminate].
    - split; [reflexivity|intros _; left; reflexivity].
    - split; [intros []|discriminate].
  Qed.

  Lemma seen_iff p : In p (o_seen (walk c root)) <-> exists v, act p = APresent v.
  Proof.
    change (In p (o_seen (walk c root))) with (has (walk c root) (ISeen p)).
    rewrite walk_item. cbn [item_path]. destruct (act p) as [v| |]; cbn.
    - split; [intros _; exists v; reflexivity|intros _; left; reflexivity].
    - split; [intros []|intros [? ?]; discriminate].
    - split; [intros []|intros [? ?]; discriminate].
  Qed.

  Lemma upd_iff p v :
    In (p, v) (o_upd (walk c root))
    <-> act p = APresent v /\ clean_at p = false /\ old_at c p <> Some v.
  Proof.
    change (In (p, v) (o_upd (walk c root))) with (has (walk c root) (IUpd p v)).
    rewrite walk_item. cbn [item_path]. destruct (act p) as [w| |]; cbn.
    - unfold present_file, clean_at. cbn [o_upd].
      destruct (match st_at c p with Some s => ts_clean s | None => false end).
      + split; [intros []|intros (_ & ? & _); discriminate].
      + destruct (option_eqb tvalue_eqb (old_at c p) (Some w)) eqn:E.
        * apply opt_tvalue_eqb_spec in E. split; [intros []|].
          intros (Hw & _ & Hn). injection Hw as ->. contradiction.
        * split.
          -- intros [H|[]]. injection H as ->. repeat split; auto.
             intros Ho. rewrite Ho in E.
             assert (option_eqb tvalue_eqb (Some v) (Some v) = true)
               by (apply opt_tvalue_eqb_spec; reflexivity). congruence.
          -- intros (Hw & _). injection Hw as ->. left. reflexivity.
    - split; [intros []|intros [? _]; discriminate].
    - split; [intros []|intros [? _]; discriminate].
  Qed.

  (** What the model computes at every path, in terms of the per-path action. *)
  Theorem model_tree p :
    new_tree_at c root p =
    match act p with
    | APresent v => if clean_at p then old_at c p else Some v
    | ADelete => None
    | ANone => old_at c p
    end.
  Proof.
    unfold new_tree_at, tree_of.
    destruct (pmem p (o_del (walk c root))) eqn:Hd.
    - apply pmem_spec in Hd. apply del_iff in Hd. rewrite Hd. reflexivity.
    - apply pmem_false in Hd. rewrite del_iff in Hd.
      destruct (act p) as [v| |] eqn:Ha; [|contradiction|].
      + destruct (clean_at p) eqn:Hc.
        * assert (Hn : plookup p (o_upd (walk c root)) = None).
          { apply plookup_none. intros w Hw. apply upd_iff in Hw. destruct Hw as (_ & Hw & _).
            congruence. }
          rewrite Hn. reflexivity.
        * destruct (option_eqb tvalue_eqb (old_at c p) (Some v)) eqn:E.
          -- apply opt_tvalue_eqb_spec in E.
             assert (Hn : plookup p (o_upd (walk c root)) = None).
             { apply plookup_none. intros w Hw. apply upd_iff in Hw.
               destruct Hw as (Hw & _ & Hne). rewrite Ha in Hw. injection Hw as ->. contradiction. }
             rewrite Hn. exact E.
          -- assert (Hin : In (p, v) (o_upd (walk c root))).
             { apply upd_iff. repeat split; auto. intros Ho. rewrite Ho in E.
               assert (option_eqb tvalue_eqb (Some v) (Some v) = true)
                 by (apply opt_tvalue_eqb_spec; reflexivity). congruence. }
             rewrite (plookup_functional p _ v Hin); [reflexivity|].
             intros w Hw. apply upd_iff in Hw. destruct Hw as (Hw & _). rewrite Ha in Hw.
             congruence.
      + assert (Hn : plookup p (o_upd (walk c root)) = None).
        { apply plookup_none. intros w Hw. apply upd_iff in Hw. destruct Hw as (Hw & _).
          rewrite Ha in Hw. discriminate. }
        rewrite Hn. reflexivity.
  Qed.

  Theorem model_tracked p :
    new_tracked c root p =
    match act p with
    | APresent _ => true
    | ADelete => false
    | ANone => is_tracked c p
    end.
  Proof.
    unfold new_tracked, tracked_of.
    destruct (act p) as [v| |] eqn:Ha.
    - assert (Hs : pmem p (o_seen (walk c root)) = true).
      { apply pmem_spec. apply seen_iff. exists v. exact Ha. }
      rewrite Hs. apply orb_true_r.
    - assert (Hd : pmem p (o_del (walk c root)) = true).
      { apply pmem_spec. apply del_iff. exact Ha. }
      assert (Hs : pmem p (o_seen (walk c root)) = false).
      { apply pmem_false. rewrite seen_iff. intros [v Hv]. congruence. }
      rewrite Hd, Hs. cbn. rewrite andb_false_r. reflexivity.
    - assert (Hd : pmem p (o_del (walk c root)) = false).
      { apply pmem_false. rewrite del_iff. congruence. }
      assert (Hs : pmem p (o_seen (walk c root)) = false).
      { apply pmem_false. rewrite seen_iff. intros [v Hv]. congruence. }
      rewrite Hd, Hs. cbn. rewrite andb_true_r, orb_false_r. reflexivity.
  Qed.

  (** No stale clean state (C26's conclusion): a path the walk looks at and judges clean has
      in the tree what is on disk. *)
  Definition no_stale_clean : Prop :=
    forall p v, act p = APresent v -> clean_at p = true -> old_at c p = Some v.

  Theorem exact :
    no_stale_clean ->
    forall p, new_tree_at c root p = expected_at c root p
              /\ new_tracked c root p = expected_tracked c root p.
  Proof.
    intros Hnsc p. rewrite model_tree, model_tracked. unfold expected_at, expected_tracked.
    destruct (act p) as [v| |] eqn:Ha; split; try reflexivity.
    destruct (clean_at p) eqn:Hc; [|reflexivity]. exact (Hnsc p v Ha Hc).
  Qed.
End Top.

(** ** Reading [act]: what the descent means in the situations the property names *)
Section Readable.
  Context (c : cfg) (root : dnode).

  Lemma act_top_nil dir es : act c root dir (DDir es) [] = gone c dir.
  Proof. reflexivity. Qed.

  Lemma act_missing dir es nm q' :
    find_entry nm es = None -> act c root dir (DDir es) (nm :: q') = gone c (dir ++ nm :: q').
  Proof. intros H. cbn [act]. rewrite H. reflexivity. Qed.

  Lemma act_leaf dir es nm ch :
    find_entry nm es = Some ch ->
    act c root dir (DDir es) [nm] =
    match classify c (dir ++ [nm]) nm ch with
    | CPresentFile v => APresent v
    | _ => gone c (dir ++ [nm])
    end.
  Proof. intros H. cbn [act]. rewrite H. destruct (classify c (dir ++ [nm]) nm ch); reflexivity. Qed.

  Lemma act_below dir es nm ch x r :
    find_entry nm es = Some ch ->
    act c root dir (DDir es) (nm :: x :: r) =
    match classify c (dir ++ [nm]) nm ch with
    | CIgnoredDir => tracked_only c root (dir ++ nm :: x :: r)
    | CPrunedDir => ANone
    | CDescend => act c root (dir ++ [nm]) ch (x :: r)
    | CSkip | CPresentFile _ => gone c (dir ++ nm :: x :: r)
    end.
  Proof. intros H. cbn [act]. rewrite H. destruct (classify c (dir ++ [nm]) nm ch); reflexivity. Qed.

  (** When is a directory entry recorded as a present file? *)
  Lemma classify_present_iff p nm ch v :
    classify c p nm ch = CPresentFile v
    <-> reserved nm = false /\ is_sub c p = false /\ is_dir ch = false
        /\ sparse_matches c p = true
        /\ (is_tracked c p = true
            \/ (pmem p (c_ign_file c) = false /\ prefix_matches (c_auto c) p = true
                /\ (c_max_size c <? node_size ch) = false))
        /\ leaf_value ch = Some v.
  Proof.
    unfold classify. destruct (reserved nm); [split; [discriminate|intros [? _]; discriminate]|].
    destruct (is_sub c p); [split; [discriminate|intros (_ & ? & _); discriminate]|].
    destruct ch as [x y z|t z| |es']; cbn [is_dir].
    4:{ split; [|intros (_ & _ & ? & _); discriminate].
        destruct (nested_repo es'); [discriminate|].
        destruct (pmem p (c_ign_dir c)); [discriminate|].
        destruct (prefix_visit_nothing (c_sparse c) p); discriminate. }
    all: destruct (sparse_matches c p);
      [|split; [discriminate|intros (_ & _ & _ & ? & _); discriminate]].
    all: destruct (is_tracked c p); cbn [negb andb].
    all: try (destruct (pmem p (c_ign_file c));
              [split; [discriminate|intros (_ & _ & _ & _ & [?|(? & _)] & _); discriminate]|]).
    all: try (destruct (prefix_matches (c_auto c) p); cbn [negb];
              [|split; [discriminate|intros (_ & _ & _ & _ & [?|(_ & ? & _)] & _); discriminate]]).
    all: try (match goal with |- context [?a <? ?b] => destruct (a <? b) eqn:Hsz end;
              [split; [discriminate|intros (_ & _ & _ & _ & [?|(_ & _ & ?)] & _); discriminate]|]).
    all: cbn [leaf_value]; split;
      [intros H; first [discriminate H | injection H as <-; repeat split; auto]
      |intros (_ & _ & _ & _ & _ & H); first [discriminate H | injection H as <-; reflexivity]].
  Qed.

  Lemma classify_dir_iff p nm es' cl :
    cl = CIgnoredDir \/ cl = CPrunedDir \/ cl = CDescend ->
    (classify c p nm (DDir es') = cl
     <-> reserved nm = false /\ is_sub c p = false /\ nested_repo es' = false
         /\ match cl with
            | CIgnoredDir => pmem p (c_ign_dir c) = true
            | CPrunedDir => pmem p (c_ign_dir c) = false
                            /\ prefix_visit_nothing (c_sparse c) p = true
            | _ => pmem p (c_ign_dir c) = false
                   /\ prefix_visit_nothing (c_sparse c) p = false
            end).
  Proof.
    intros Hcl. unfold classify.
    destruct (reserved nm); [split; [intros <-; destruct Hcl as [?|[?|?]]; discriminate
                                    |intros [? _]; discriminate]|].
    destruct (is_sub c p); [split; [intros <-; destruct Hcl as [?|[?|?]]; discriminate
                                   |intros (_ & ? & _); discriminate]|].
    destruct (nested_repo es'); [split; [intros <-; destruct Hcl as [?|[?|?]]; discriminate
                                       |intros (_ & _ & ? & _); discriminate]|].
    destruct (pmem p (c_ign_dir c)); [|destruct (prefix_visit_nothing (c_sparse c) p)];
      destruct Hcl as [-> | [-> | ->]]; split; try discriminate; try tauto;
      try (intros (_ & _ & _ & H); try destruct H; discriminate);
      try (intros (_ & _ & _ & H); discriminate H).
  Qed.

  Lemma gone_untracked p : is_tracked c p = false -> gone c p = ANone.
  Proof. unfold gone, is_tracked. destruct (st_at c p); [discriminate|reflexivity]. Qed.

  Lemma tracked_only_untracked p : is_tracked c p = false -> tracked_only c root p = ANone.
  Proof. unfold tracked_only, is_tracked. destruct (st_at c p); [discriminate|reflexivity]. Qed.

  Lemma gone_not_present p v : gone c p <> APresent v.
  Proof.
    unfold gone. destruct (st_at c p) as [s|]; [|discriminate].
    destruct (negb (ts_sub s) && sparse_matches c p); discriminate.
  Qed.

  (** Everything the walk records lies inside the sparse patterns. *)
  Lemma act_present_sparse : forall q dir n v,
    act c root dir n q = APresent v -> sparse_matches c (dir ++ q) = true.
  Proof.
    induction q as [|nm q' IH]; intros dir n v H.
    - cbn [act] in H. destruct n; try discriminate. destruct (gone_not_present _ _ H).
    - cbn [act] in H. destruct n as [| | |es]; try discriminate.
      destruct (find_entry nm es) as [ch|]; [|destruct (gone_not_present _ _ H)].
      destruct (classify c (dir ++ [nm]) nm ch) as [| | | |w] eqn:Ecl; destruct q' as [|x r];
        try (destruct (gone_not_present _ _ H)); try discriminate.
      + unfold tracked_only in H. destruct (st_at c (dir ++ nm :: x :: r)) as [s|]; [|discriminate].
        destruct (ts_sub s); cbn [negb andb] in H; [discriminate|].
        destruct (sparse_matches c (dir ++ nm :: x :: r)); [reflexivity|discriminate].
      + apply IH in H. rewrite app_cons_assoc in H. exact H.
      + apply classify_present_iff in Ecl. tauto.
  Qed.

  (** An untracked path is never reported deleted. *)
  Lemma act_untracked_not_deleted : forall q dir n,
    is_tracked c (dir ++ q) = false -> act c root dir n q <> ADelete.
  Proof.
    induction q as [|nm q' IH]; intros dir n Ht.
    - cbn [act]. destruct n; try discriminate. rewrite app_nil_r in Ht.
      rewrite (gone_untracked _ Ht). discriminate.
    - cbn [act]. destruct n as [| | |es]; try discriminate.
      pose proof (gone_untracked _ Ht) as Hg.
      destruct (find_entry nm es) as [ch|]; [|rewrite Hg; discriminate].
      destruct (classify c (dir ++ [nm]) nm ch) as [| | | |w]; destruct q' as [|x r];
        try (rewrite Hg; discriminate); try discriminate.
      + rewrite (tracked_only_untracked _ Ht). discriminate.
      + apply IH. rewrite app_cons_assoc. exact Ht.
  Qed.

  (** The debug assertion of snapshot() (:1402-1411): the file-state keys are exactly the
      tree's paths inside the sparse patterns — given that it held before. *)
  Theorem states_match_tree :
    paths_unique (map fst (c_tracked c)) = true -> wf_node root = true ->
    no_stale_clean c root ->
    (forall p, is_tracked c p = true <-> (old_at c p <> None /\ sparse_matches c p = true)) ->
    forall p, new_tracked c root p = true
              <-> (new_tree_at c root p <> None /\ sparse_matches c p = true).
  Proof.
    intros Hu Hwf Hnsc Hinv p.
    rewrite (model_tree c root Hu Hwf), (model_tracked c root Hu Hwf).
    destruct (act c root [] root p) as [v| |] eqn:Ha.
    - split; [intros _|reflexivity]. split.
      + destruct (clean_at c p) eqn:Hc; [|discriminate]. rewrite (Hnsc p v Ha Hc). discriminate.
      + exact (act_present_sparse p [] root v Ha).
    - split; [discriminate|intros [H _]; contradiction].
    - apply Hinv.
  Qed.
End Readable.

(** ** The run-time checker *)
Lemma okb_spec k :
  okb k = true <->
  k_failed k = false /\
  forall p, In p (probe_paths k) ->
    plookup p (k_new_tree k) = expected_at (k_cfg k) (k_disk k) p
    /\ (pmem p (k_new_tracked k) = expected_tracked (k_cfg k) (k_disk k) p).
Proof.
  unfold okb. rewrite andb_true_iff, negb_true_iff, forallb_forall. split.
  - intros [Hf H]. split; [exact Hf|]. intros p Hp. specialize (H p Hp).
    apply andb_true_iff in H. destruct H as [H1 H2]. split.
    + revert H1. generalize (plookup p (k_new_tree k)), (expected_at (k_cfg k) (k_disk k) p).
      intros a b. destruct a as [x|], b as [y|]; cbn; try discriminate; try reflexivity.
      intros H. destruct x as [x1 e1|s1|], y as [y1 e2|s2|]; cbn in H; try discriminate.
      * apply andb_true_iff in H. destruct H as [Ha Hb]. apply N.eqb_eq in Ha.
        apply Bool.eqb_prop in Hb. congruence.
      * apply N.eqb_eq in H. congruence.
      * reflexivity.
    + apply Bool.eqb_prop. exact H2.
  - intros [Hf H]. split; [exact Hf|]. intros p Hp. destruct (H p Hp) as [H1 H2].
    rewrite H1, H2. apply andb_true_iff. split; [|apply Bool.eqb_reflx].
    destruct (expected_at (k_cfg k) (k_disk k) p) as [y|]; cbn; [|reflexivity].
    destruct y as [y1 e2|s2|]; cbn; [|apply N.eqb_refl|reflexivity].
    rewrite N.eqb_refl. apply Bool.eqb_reflx.
Qed.
