(** C38 — proofs, part 2: for every case with valid inputs the model's annotation passes the
    property checker; meaning of the checker. *)
From Verif Require Import Base.Prelude Base.DagR Model.C38 Proofs.C38.
From Coq Require Import Lia Arith Sorted.
Import ListNotations.
Local Open Scope nat_scope.

Section Anc.
  Variable G : graph.
  Hypothesis Hwf : wf_graph G.
  Hypothesis Hpc : pc_ok G.
  Hypothesis Hsm : small G.

  Lemma is_anc_spec a d :
    is_anc G a d = true <-> d < length G /\ exists k, reach (parents G) k d a.
  Proof.
    unfold is_anc. rewrite anc_full_spec by assumption. split.
    - intros [k [x [Hx [Hm Hp]]]]. rewrite bmem_bsingle, andb_true_iff, Nat.eqb_eq in Hm.
      destruct Hm as [_ ->]. split; [exact Hx|]. exists k. exact Hp.
    - intros [Hd [k Hp]]. exists k, d. split; [exact Hd|]. split; [|exact Hp].
      rewrite bmem_bsingle, Nat.eqb_refl, andb_true_r. now apply Nat.ltb_lt.
  Qed.

  Lemma is_anc_refl x : x < length G -> is_anc G x x = true.
  Proof. intros Hx. apply is_anc_spec. split; auto. exists 0. constructor. Qed.

  Lemma is_anc_trans a b c : is_anc G a b = true -> is_anc G b c = true -> is_anc G a c = true.
  Proof.
    rewrite !is_anc_spec. intros [_ [k1 H1]] [Hc [k2 H2]]. split; auto.
    exists (k2 + k1). eapply rpath_app; eassumption.
  Qed.
End Anc.

Lemma origins_ok_from_spec c : forall os k,
  origins_ok_from c k os = true <->
  forall s o, nth_error os s = Some o -> origin_ok c (k + s) o = true.
Proof.
  induction os as [|o t IH]; intros k; cbn [origins_ok_from].
  - split; auto. intros _ [|s] o H; discriminate.
  - rewrite andb_true_iff, IH. split.
    + intros [H1 H2] [|s] o' H; cbn in H.
      * inversion H; subst. now rewrite Nat.add_0_r.
      * replace (k + S s) with (S k + s) by lia. now apply H2.
    + intros H. split.
      * specialize (H 0 o eq_refl). now rewrite Nat.add_0_r in H.
      * intros s o' Hs. replace (S k + s) with (k + S s) by lia. now apply H.
Qed.

Lemma list_eqb_line_refl (t : text) : list_eqb line_eqb t t = true.
Proof. induction t; cbn; auto. now rewrite line_eqb_refl. Qed.

(** For every case whose recorded inputs are valid, the model's annotation satisfies the
    whole property (one origin per line, text = file, contains the line, ancestor, not
    carried over from an edge target, unresolved only outside the domain). *)
Theorem model_ok (c : case) : inputs_ok c = true ->
  prop_ok c (model_origins c) (case_text c (N.to_nat (c_start c))) = true.
Proof.
  intros Hin. unfold inputs_ok in Hin. rewrite !andb_true_iff in Hin.
  destruct Hin as [[[[Hwf Hpc] Hsm] Hst] Hnodes].
  apply wf_graphb_spec in Hwf. apply pc_okb_spec in Hpc. apply N.leb_le in Hsm.
  apply Nat.ltb_lt in Hst. rewrite forallb_forall in Hnodes.
  set (G := case_graph c) in *. set (start := N.to_nat (c_start c)) in *.
  assert (Hedges : forall nd e, In nd (case_nodes c) -> In e (snd nd) ->
            is_anc G (fst e) (fst nd) = true /\
            ranges_ok (case_text c (fst nd)) (case_text c (fst e)) 0 0
                      (case_matching c (fst nd) (fst e)) = true).
  { intros nd e Hnd He. specialize (Hnodes nd Hnd). rewrite andb_true_iff in Hnodes.
    destruct Hnodes as [_ H]. rewrite forallb_forall in H. specialize (H e He).
    rewrite !andb_true_iff in H. tauto. }
  destruct (annotate_good (case_matching c) false (case_text c) start (case_nodes c)
              (fun a d => is_anc G a d = true)
              (is_anc_refl G Hwf Hpc Hsm start Hst)
              (is_anc_trans G Hwf Hpc Hsm) Hedges
              (length (case_text c start)) eq_refl) as [Hlen Hgood].
  unfold prop_ok. fold start. unfold model_origins. fold start.
  rewrite !andb_true_iff. split; [split|].
  - apply Nat.eqb_eq. exact Hlen.
  - apply list_eqb_line_refl.
  - apply origins_ok_from_spec. intros s o Ho. cbn [Nat.add].
    destruct (Hgood s o Ho) as [[l [Hl1 Hl2]] [Hanc Hkind]].
    unfold origin_ok. fold G. fold start. unfold nth_line. rewrite Hl1, Hl2.
    rewrite line_eqb_refl, Hanc. cbn [andb].
    destruct (o_ok o).
    + destruct Hkind as [nd [Hnd [Hfst Hun]]]. apply existsb_exists. exists nd. split; [exact Hnd|].
      apply andb_true_iff. split; [apply Nat.eqb_eq; exact Hfst|].
      apply forallb_forall. intros e He. now rewrite (Hun e He).
    + apply orb_true_iff. destruct Hkind as [->|[nd [e [Hnd [He [Hm Hfst]]]]]].
      * left. apply Nat.eqb_refl.
      * right. apply existsb_exists. exists nd. split; [exact Hnd|].
        apply existsb_exists. exists e. split; [exact He|].
        apply andb_true_iff. split; [exact Hm|apply Nat.eqb_eq; exact Hfst].
Qed.

(** Meaning of [prop_ok] on any list of origins. *)
Theorem prop_ok_spec (c : case) (os : list origin) (txt : text) :
  prop_ok c os txt = true ->
  length os = length (case_text c (N.to_nat (c_start c))) /\
  txt = case_text c (N.to_nat (c_start c)) /\
  forall s o, nth_error os s = Some o ->
    (exists l, nth_error (case_text c (o_commit o)) (o_line o) = Some l /\
               nth_error (case_text c (N.to_nat (c_start c))) s = Some l) /\
    is_anc (case_graph c) (o_commit o) (N.to_nat (c_start c)) = true /\
    (o_ok o = true ->
       exists nd, In nd (case_nodes c) /\ fst nd = o_commit o /\
         forall e, In e (snd nd) ->
           in_ranges (o_line o) (case_matching c (o_commit o) (fst e)) = false) /\
    (o_ok o = false ->
       o_commit o = N.to_nat (c_start c) \/
       exists nd e, In nd (case_nodes c) /\ In e (snd nd) /\ is_missing e = true /\
                    fst e = o_commit o).
Proof.
  unfold prop_ok. rewrite !andb_true_iff. intros [[Hlen Htxt] Hos].
  apply Nat.eqb_eq in Hlen. split; [exact Hlen|]. split.
  - clear -Htxt. revert Htxt. generalize (case_text c (N.to_nat (c_start c))).
    induction txt as [|a t IH]; intros [|b u]; cbn; try congruence.
    rewrite andb_true_iff. intros [H1 H2]. apply line_eqb_eq in H1. subst. f_equal. auto.
  - rewrite origins_ok_from_spec in Hos. intros s o Ho. specialize (Hos s o Ho). cbn [Nat.add] in Hos.
    unfold origin_ok in Hos. rewrite !andb_true_iff in Hos. destruct Hos as [[H1 H2] H3].
    unfold nth_line in H1.
    destruct (nth_error (case_text c (o_commit o)) (o_line o)) as [a|] eqn:Ea; [|discriminate].
    destruct (nth_error (case_text c (N.to_nat (c_start c))) s) as [b|] eqn:Eb; [|discriminate].
    apply line_eqb_eq in H1. subst b. split; [exists a; auto|]. split; [exact H2|].
    split; intros Hk; rewrite Hk in H3.
    + apply existsb_exists in H3. destruct H3 as [nd [Hnd H]]. apply andb_true_iff in H.
      destruct H as [Hf Hall]. apply Nat.eqb_eq in Hf. exists nd. split; [exact Hnd|]. split; [exact Hf|].
      rewrite forallb_forall in Hall. intros e He. specialize (Hall e He).
      now apply negb_true_iff in Hall.
    + apply orb_true_iff in H3. destruct H3 as [H|H].
      * left. now apply Nat.eqb_eq.
      * right. apply existsb_exists in H. destruct H as [nd [Hnd H]].
        apply existsb_exists in H. destruct H as [e [He H]]. apply andb_true_iff in H.
        destruct H as [Hm Hf]. apply Nat.eqb_eq in Hf. exists nd, e. auto.
Qed.

(* ------------------------------------------------------------------ the strict clause *)

From Verif Require Import Proofs.C38Strict.

Lemma closedb_spec : forall l, closedb l = true ->
  forall pre nd post, l = pre ++ nd :: post ->
  forall e, In e (snd nd) -> is_missing e = false -> In (fst e) (map fst post).
Proof.
  induction l as [|x t IH]; intros H pre nd post Hl e He Hm.
  - destruct pre; discriminate.
  - cbn [closedb] in H. apply andb_true_iff in H. destruct H as [H1 H2].
    destruct pre as [|y pre]; cbn in Hl; inversion Hl; subst.
    + rewrite forallb_forall in H1. specialize (H1 e He). rewrite Hm in H1. cbn in H1.
      apply existsb_exists in H1. destruct H1 as [nd' [Hin Heq]]. apply Nat.eqb_eq in Heq.
      rewrite <- Heq. now apply in_map.
    + eapply IH; eauto.
Qed.

(** For every case whose inputs and stream are valid, the model (after the repair) leaves
    unresolved only lines that ended in a commit outside the searched range. *)
Theorem model_strict_ok (c : case) : stream_okb c = true ->
  strict_ok c (model_origins c) = true.
Proof.
  intros Hs. unfold stream_okb in Hs. rewrite !andb_true_iff in Hs.
  destruct Hs as [[[_ Hmt] Hcl] Hst].
  unfold strict_ok. apply forallb_forall. intros o Ho.
  apply In_nth_error in Ho. destruct Ho as [s Ho].
  assert (Hstart : In (N.to_nat (c_start c)) (map fst (case_nodes c))).
  { apply existsb_exists in Hst. destruct Hst as [nd [Hnd Heq]]. apply Nat.eqb_eq in Heq.
    rewrite <- Heq. now apply in_map. }
  assert (Hmt' : forall nd, In nd (case_nodes c) -> is_mt (case_nodes c) (fst nd) = false).
  { intros nd Hnd. rewrite forallb_forall in Hmt. specialize (Hmt nd Hnd).
    apply negb_true_iff in Hmt. exact Hmt. }
  destruct (annotate_strict (case_matching c) (case_nodes c) (N.to_nat (c_start c)) Hmt'
              (closedb_spec _ Hcl) (length (case_text c (N.to_nat (c_start c)))) Hstart s o Ho)
    as [Hok|Hm].
  - now rewrite Hok.
  - apply orb_true_iff. right. exact Hm.
Qed.
