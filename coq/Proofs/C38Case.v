(** C38 — proofs, part 2: for every case with valid inputs the model's annotation passes the
    property checker; meaning of the checker. *)
From Verif Require Import Base.Prelude Base.DagR Model.C38 Proofs.C38.
From Coq Require Import Lia Arith Sorted.
Import ListNotations.
Local Open Scope nat_scope.

Section Anc.
  Variable G : graph.
  Hypothesis Hwf : wf_graph G.
  Hypothesis Hpc : pc_ok G.
  Hypothesis Hsm : small G.

  Lemma is_anc_spec a d :
    is_anc G a d = true <-> d < length G /\ exists k, reach (parents G) k d a.
  Proof.
    unfold is_anc. rewrite anc_full_spec by assumption. split.
    - intros [k [x [Hx [Hm Hp]]]]. rewrite bmem_bsingle, andb_true_iff, Nat.eqb_eq in Hm.
      destruct Hm as [_ ->]. split; [exact Hx|]. exists k. exact Hp.
    - intros [Hd [k Hp]]. exists k, d. split; [exact Hd|]. split; [|exact Hp].
      rewrite bmem_bsingle, Nat.eqb_refl, andb_true_r. now apply Nat.ltb_lt.
  Qed.

  Lemma is_anc_refl x : x < length G -> is_anc G x x = true.
  Proof. intros Hx. apply is_anc_spec. split; auto. exists 0. constructor. Qed.

  Lemma is_anc_trans a b c : is_anc G a b = true -> is_anc G b c = true -> is_anc G a c = true.
  Proof.
    rewrite !is_anc_spec. intros [_ [k1 H1]] [Hc [k2 H2]]. split; auto.
    exists (k2 + k1). eapply rpath_app; eassumption.
  Qed.
End Anc.

Lemma origins_ok_from_spec c : forall os k,
  origins_ok_from c k os = true <->
  forall s o, nth_error os s = Some o -> origin_ok c (k + s) o = true.
Proof.
  induction os as [|o t IH]; intros k; cbn [origins_ok_from].
  - split; auto. intros _ [|s] o H; discriminate.
  - rewrite andb_true_iff, IH. split.
    + intros [H1 H2] [|s] o' H; cbn in H.
      * inversion H; subst. now rewrite Nat.add_0_r.
      * replace (k + S s) with (S k + s) by lia. now apply H2.
    + intros H. split.
      * specialize (H 0 o eq_refl). now rewrite Nat.add_0_r in H.
      * intros s o' Hs. replace (S k + s) with (k + S s) by lia. now apply H.
Qed.

Lemma list_eqb_line_refl (t : text) : list_eqb line_eqb t t = true.
Proof. induction t; cbn; auto. now rewrite line_eqb_refl. Qed.

(** For every case whose recorded inputs are valid, the model's annotation after EVERY
    [compute] call satisfies the whole property (one origin per line, text = file, contains
    the line, ancestor, not carried over from an edge target, unresolved only at a missing
    edge target or the start). *)
Theorem model_ok (c : case) : inputs_ok c = true ->
  forall os, In os (model_origins c) ->
  prop_ok c os (case_text c (N.to_nat (c_start c))) = true.
Proof.
  intros Hin os Hos. unfold inputs_ok in Hin. rewrite !andb_true_iff in Hin.
  destruct Hin as [[[[Hwf Hpc] Hsm] Hst] Hnodes].
  apply wf_graphb_spec in Hwf. apply pc_okb_spec in Hpc. apply N.leb_le in Hsm.
  apply Nat.ltb_lt in Hst. rewrite forallb_forall in Hnodes.
  set (G := case_graph c) in *. set (start := N.to_nat (c_start c)) in *.
  assert (Hedges : forall nd e, In nd (case_nodes c) -> In e (snd nd) ->
            is_anc G (fst e) (fst nd) = true /\
            ranges_ok (case_text c (fst nd)) (case_text c (fst e)) 0 0
                      (case_matching c (fst nd) (fst e)) = true).
  { intros nd e Hnd He. specialize (Hnodes nd Hnd). rewrite andb_true_iff in Hnodes.
    destruct Hnodes as [_ H]. rewrite forallb_forall in H. specialize (H e He).
    rewrite !andb_true_iff in H. tauto. }
  unfold model_origins in Hos. apply in_map_iff in Hos. destruct Hos as [st [<- Hst']].
  unfold model_states, case_init in Hst'. fold start in Hst'.
  destruct (run_phases_good (case_matching c) false (case_text c) start (case_nodes c)
              (fun a d => is_anc G a d = true)
              (is_anc_trans G Hwf Hpc Hsm) Hedges (case_phases c)
              (init_state start (length (case_text c start)))
              (fun ns nd H1 H2 => proj2 (in_concat _ _) (ex_intro _ ns (conj H1 H2)))
              (init_inv (case_matching c) (case_text c) start (case_nodes c)
                 (fun a d => is_anc G a d = true) (is_anc_refl G Hwf Hpc Hsm start Hst)
                 (length (case_text c start)) eq_refl)
              st Hst') as [[_ Hgood] Hlen].
  unfold init_state in Hlen. cbn [st_olm] in Hlen. rewrite map_length, seq_length in Hlen.
  unfold prop_ok. fold start.
  rewrite !andb_true_iff. split; [split|].
  - apply Nat.eqb_eq. exact Hlen.
  - apply list_eqb_line_refl.
  - apply origins_ok_from_spec. intros s o Ho. cbn [Nat.add].
    destruct (Hgood s o Ho) as [[l [Hl1 Hl2]] [Hanc Hkind]].
    unfold origin_ok. fold G. fold start. unfold nth_line. rewrite Hl1, Hl2.
    rewrite line_eqb_refl, Hanc. cbn [andb].
    destruct (o_ok o).
    + destruct Hkind as [nd [Hnd [Hfst Hun]]]. apply existsb_exists. exists nd. split; [exact Hnd|].
      apply andb_true_iff. split; [apply Nat.eqb_eq; exact Hfst|].
      apply forallb_forall. intros e He. now rewrite (Hun e He).
    + apply orb_true_iff. destruct Hkind as [->|[nd [e [Hnd [He [Hm Hfst]]]]]].
      * left. apply Nat.eqb_refl.
      * right. apply existsb_exists. exists nd. split; [exact Hnd|].
        apply existsb_exists. exists e. split; [exact He|].
        apply andb_true_iff. split; [exact Hm|apply Nat.eqb_eq; exact Hfst].
Qed.

(** Meaning of [prop_ok] on any list of origins. *)
Theorem prop_ok_spec (c : case) (os : list origin) (txt : text) :
  prop_ok c os txt = true ->
  length os = length (case_text c (N.to_nat (c_start c))) /\
  txt = case_text c (N.to_nat (c_start c)) /\
  forall s o, nth_error os s = Some o ->
    (exists l, nth_error (case_text c (o_commit o)) (o_line o) = Some l /\
               nth_error (case_text c (N.to_nat (c_start c))) s = Some l) /\
    is_anc (case_graph c) (o_commit o) (N.to_nat (c_start c)) = true /\
    (o_ok o = true ->
       exists nd, In nd (case_nodes c) /\ fst nd = o_commit o /\
         forall e, In e (snd nd) ->
           in_ranges (o_line o) (case_matching c (o_commit o) (fst e)) = false) /\
    (o_ok o = false ->
       o_commit o = N.to_nat (c_start c) \/
       exists nd e, In nd (case_nodes c) /\ In e (snd nd) /\ is_missing e = true /\
                    fst e = o_commit o).
Proof.
  unfold prop_ok. rewrite !andb_true_iff. intros [[Hlen Htxt] Hos].
  apply Nat.eqb_eq in Hlen. split; [exact Hlen|]. split.
  - clear -Htxt. revert Htxt. generalize (case_text c (N.to_nat (c_start c))).
    induction txt as [|a t IH]; intros [|b u]; cbn; try congruence.
    rewrite andb_true_iff. intros [H1 H2]. apply line_eqb_eq in H1. subst. f_equal. auto.
  - rewrite origins_ok_from_spec in Hos. intros s o Ho. specialize (Hos s o Ho). cbn [Nat.add] in Hos.
    unfold origin_ok in Hos. rewrite !andb_true_iff in Hos. destruct Hos as [[H1 H2] H3].
    unfold nth_line in H1.
    destruct (nth_error (case_text c (o_commit o)) (o_line o)) as [a|] eqn:Ea; [|discriminate].
    destruct (nth_error (case_text c (N.to_nat (c_start c))) s) as [b|] eqn:Eb; [|discriminate].
    apply line_eqb_eq in H1. subst b. split; [exists a; auto|]. split; [exact H2|].
    split; intros Hk; rewrite Hk in H3.
    + apply existsb_exists in H3. destruct H3 as [nd [Hnd H]]. apply andb_true_iff in H.
      destruct H as [Hf Hall]. apply Nat.eqb_eq in Hf. exists nd. split; [exact Hnd|]. split; [exact Hf|].
      rewrite forallb_forall in Hall. intros e He. specialize (Hall e He).
      now apply negb_true_iff in Hall.
    + apply orb_true_iff in H3. destruct H3 as [H|H].
      * left. now apply Nat.eqb_eq.
      * right. apply existsb_exists in H. destruct H as [nd [Hnd H]].
        apply existsb_exists in H. destruct H as [e [He H]]. apply andb_true_iff in H.
        destruct H as [Hm Hf]. apply Nat.eqb_eq in Hf. exists nd, e. auto.
Qed.

(* ------------------------------------------------------------------ the strict clause *)

From Verif Require Import Proofs.C38Strict.

Lemma closedb_spec : forall l, closedb l = true ->
  forall pre nd post, l = pre ++ nd :: post ->
  forall e, In e (snd nd) -> is_missing e = false -> In (fst e) (map fst post).
Proof.
  induction l as [|x t IH]; intros H pre nd post Hl e He Hm.
  - destruct pre; discriminate.
  - cbn [closedb] in H. apply andb_true_iff in H. destruct H as [H1 H2].
    destruct pre as [|y pre]; cbn in Hl; inversion Hl; subst.
    + rewrite forallb_forall in H1. specialize (H1 e He). rewrite Hm in H1. cbn in H1.
      apply existsb_exists in H1. destruct H1 as [nd' [Hin Heq]]. apply Nat.eqb_eq in Heq.
      rewrite <- Heq. now apply in_map.
    + eapply IH; eauto.
Qed.

Lemma phase_okb_spec st ns : phase_okb st ns = true ->
  (forall nd, In nd ns -> is_mt ns (fst nd) = false) /\
  (forall pre nd post, ns = pre ++ nd :: post ->
     forall e, In e (snd nd) -> is_missing e = false -> In (fst e) (map fst post)) /\
  (forall c, In c (keys (st_srcs st)) -> In c (map fst ns)).
Proof.
  unfold phase_okb. rewrite !andb_true_iff. intros [[[_ Hmt] Hcl] Hk]. split; [|split].
  - intros nd Hnd. rewrite forallb_forall in Hmt. specialize (Hmt nd Hnd).
    apply negb_true_iff in Hmt. exact Hmt.
  - now apply closedb_spec.
  - intros c0 Hc. unfold keys in Hc. apply in_map_iff in Hc. destruct Hc as [kv [<- Hkv]].
    rewrite forallb_forall in Hk. specialize (Hk kv Hkv). apply existsb_exists in Hk.
    destruct Hk as [nd [Hnd Heq]]. apply Nat.eqb_eq in Heq. rewrite <- Heq. now apply in_map.
Qed.

(** For every case whose streams are valid, after EVERY [compute] call the model (as
    repaired) leaves unresolved only lines that ended in a commit outside the range that call
    searched, and only such commits are pending. *)
Theorem phases_strict m : forall phases st, ready st -> stream_okb_from m st phases = true ->
  forall k ns st', nth_error phases k = Some ns ->
  nth_error (run_phases m false st phases) k = Some st' ->
  strict_ok ns (st_olm st') = true /\ pending_ok ns (map fst (st_srcs st')) = true.
Proof.
  induction phases as [|ns0 t IH]; intros st Hr Hs k ns st' Hk Hst; [destruct k; discriminate|].
  cbn [stream_okb_from] in Hs. apply andb_true_iff in Hs. destruct Hs as [Hp Hs].
  destruct (phase_okb_spec st ns0 Hp) as [H1 [H2 H3]].
  assert (Hd := run_phase_strict m ns0 H1 H2 st Hr H3).
  cbn [run_phases] in Hst. destruct k as [|k]; cbn in Hk, Hst.
  - inversion Hk; inversion Hst; subst. split.
    + unfold strict_ok. apply forallb_forall. intros o Ho. apply In_nth_error in Ho.
      destruct Ho as [s Ho]. destruct (done_strict ns _ Hd s o Ho) as [Hok|Hm].
      * now rewrite Hok.
      * apply orb_true_iff. right. exact Hm.
    + unfold pending_ok. apply forallb_forall. intros c0 Hc. destruct Hd as [_ [Hall _]].
      exact (Hall c0 Hc).
  - exact (IH _ (done_ready ns0 _ Hd) Hs k ns st' Hk Hst).
Qed.

Theorem model_strict_ok (c : case) : stream_okb c = true ->
  0 < length (case_text c (N.to_nat (c_start c))) ->
  forall k ns st, nth_error (case_phases c) k = Some ns ->
  nth_error (model_states c) k = Some st ->
  strict_ok ns (st_olm st) = true /\ pending_ok ns (map fst (st_srcs st)) = true.
Proof.
  intros Hs Hpos k ns st Hk Hst.
  exact (phases_strict (case_matching c) (case_phases c) (case_init c)
           (init_ready _ _ Hpos) Hs k ns st Hk Hst).
Qed.
