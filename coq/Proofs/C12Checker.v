(** C12, part 3: meaning of the boolean checker [C12.result_okb] applied to the
    implementation's result on every run, and the proof that the model's own result always
    satisfies that meaning. *)
From Verif Require Import Base.Prelude Model.Merge Model.C02 Model.C12 Proofs.MergeDen Proofs.C01
  Proofs.C01Simp Proofs.C01Checker Proofs.C02 Proofs.C12Vec Proofs.C12.
From Coq Require Import Lia Arith Permutation.
Local Open Scope Z_scope.

Section C12Checker.
  Context {A : Type} (eqb : A -> A -> bool) (ancb : A -> A -> bool).
  Hypothesis eqb_spec : forall x y, eqb x y = true <-> x = y.

  Notation T := (option A).
  Notation teqb := (C12.teqb eqb).
  Notation find_pair := (find_pair_to_remove eqb ancb).
  Notation nt := (non_trivial eqb ancb).
  Notation mrt := (merge_ref_targets eqb ancb).
  Notation odd l := (Nat.odd (length l) = true).
  Notation tspec := (teqb_spec eqb eqb_spec).
  Notation covered := (C12.covered ancb).

  Lemma tmem_spec (t : T) l : tmem eqb t l = true <-> In t l.
  Proof. exact (mem_spec teqb tspec t l). Qed.

  Lemma tcount_notin (t : T) l : ~ In t l -> count teqb t l = 0.
  Proof.
    induction l as [|y u IH]; intros H; [reflexivity|]. cbn [count].
    rewrite IH by (intros C; apply H; now right).
    destruct (teqb y t) eqn:E; [|reflexivity]. apply tspec in E. subst. exfalso. apply H. now left.
  Qed.

  Lemma den_pos_in (f : list T) t : den teqb f t <> 0 -> In t f.
  Proof.
    intros H. destruct (in_dec (eq_dec_of_eqb teqb tspec) t f) as [I|I]; [exact I|].
    rewrite (den_notin teqb tspec) in H by exact I. lia.
  Qed.

  (** ** conjunct by conjunct *)
  Definition NoInvention (l b r res : list T) : Prop :=
    forall t, In t res -> In t l \/ In t b \/ In t r.

  Lemma no_invention_b_spec l b r res :
    no_invention_b eqb l b r res = true <-> NoInvention l b r res.
  Proof.
    unfold no_invention_b, NoInvention. rewrite forallb_forall. split.
    - intros H t Ht. specialize (H t Ht). rewrite !Bool.orb_true_iff, !tmem_spec in H. tauto.
    - intros H t Ht. rewrite !Bool.orb_true_iff, !tmem_spec. specialize (H t Ht). tauto.
  Qed.

  Definition Rules (l b r res : list T) : Prop :=
    (l = r -> res = l) /\ (l = b -> res = r) /\ (r = b -> res = l).

  Lemma if_eqb_spec (x y u v : list T) :
    (if target_eqb eqb x y then target_eqb eqb u v else true) = true <-> (x = y -> u = v).
  Proof.
    destruct (target_eqb eqb x y) eqn:E.
    - apply (target_eqb_spec eqb eqb_spec) in E. rewrite (target_eqb_spec eqb eqb_spec). tauto.
    - split; [|reflexivity]. intros _ C. apply (target_eqb_spec eqb eqb_spec) in C. congruence.
  Qed.

  Lemma rules_b_spec l b r res : rules_b eqb l b r res = true <-> Rules l b r res.
  Proof. unfold rules_b, Rules. rewrite !Bool.andb_true_iff, !if_eqb_spec. tauto. Qed.

  Lemma by_rule_b_spec (l b r : list T) :
    by_rule_b eqb l b r = true <-> l = r \/ l = b \/ r = b.
  Proof.
    unfold by_rule_b. rewrite !Bool.orb_true_iff, !(target_eqb_spec eqb eqb_spec). tauto.
  Qed.

  Definition Polarity (f res : list T) : Prop :=
    forall t, count teqb t (adds res) <= Z.max (den teqb f t) 0
              /\ count teqb t (removes res) <= Z.max (- den teqb f t) 0.

  Lemma polarity_b_spec f res : polarity_b eqb f res = true <-> Polarity f res.
  Proof.
    unfold polarity_b, Polarity, cnt. rewrite forallb_forall. split.
    - intros H t. destruct (in_dec (eq_dec_of_eqb teqb tspec) t res) as [I|I].
      + specialize (H t I). rewrite Bool.andb_true_iff, !Z.leb_le in H. exact H.
      + rewrite !tcount_notin; [lia| |]; intros C; apply I, in_evens_or_odds; auto.
    - intros H t _. rewrite Bool.andb_true_iff, !Z.leb_le. apply H.
  Qed.

  Lemma covered_b_spec res (t : T) : covered_b eqb ancb res t = true <-> covered res t.
  Proof.
    unfold covered_b, C12.covered, le. rewrite Bool.orb_true_iff, tmem_spec.
    destruct t as [x|].
    - rewrite existsb_exists. split.
      + intros [H|(u & Hu & Hx)].
        * exists x. auto.
        * destruct u as [x'|]; [|discriminate]. exists x'. auto.
      + intros (x' & Hin & [->|Hx]); [now left|]. right. exists (Some x'). auto.
    - split; [intros [H|H]; [exact H|discriminate]|auto].
  Qed.

  Definition Cover (f res : list T) : Prop := forall t, 0 < den teqb f t -> covered res t.

  Lemma cover_b_spec f res : cover_b eqb ancb f res = true <-> Cover f res.
  Proof.
    unfold cover_b, Cover. rewrite forallb_forall. split.
    - intros H t Hpos. assert (I : In t f) by (apply den_pos_in; lia).
      specialize (H t I). apply Z.ltb_lt in Hpos. rewrite Hpos in H. now apply covered_b_spec.
    - intros H t _. destruct (0 <? den teqb f t) eqn:E; [|reflexivity].
      apply covered_b_spec, H. now apply Z.ltb_lt.
  Qed.

  Lemma stuck_b_spec res : stuck_b eqb ancb res = true <-> find_pair res = None.
  Proof. unfold stuck_b. destruct (find_pair res); split; congruence. Qed.

  (** A resolved result [v]: cancellation alone leaves [v] (the rule of C02), or [v] is a
      commit, every other net side is an ancestor of it and every net base is absent or an
      ancestor of it. *)
  Definition SafeResolved (f : list T) (v : T) : Prop :=
    Resolves teqb true f v
    \/ exists a, v = Some a /\
         forall t, t <> v ->
           (0 < den teqb f t -> exists x, t = Some x /\ ancb x a = true)
           /\ (den teqb f t < 0 -> t = None \/ exists x, t = Some x /\ ancb x a = true).

  Lemma safe_resolved_b_spec f v : safe_resolved_b eqb ancb f v = true <-> SafeResolved f v.
  Proof.
    unfold safe_resolved_b, SafeResolved, cancels_b.
    rewrite Bool.orb_true_iff, (resolves_b_spec teqb tspec).
    apply or_iff_compat_l. destruct v as [a|].
    2:{ split; [discriminate|]. intros (a & C & _). discriminate. }
    rewrite forallb_forall. split.
    - intros H. exists a. split; [reflexivity|]. intros t Hne.
      destruct (in_dec (eq_dec_of_eqb teqb tspec) t f) as [I|I].
      2:{ rewrite (den_notin teqb tspec) by exact I. split; lia. }
      specialize (H t I). destruct (teqb t (Some a)) eqn:E; [apply tspec in E; congruence|].
      destruct (0 <? den teqb f t) eqn:P.
      + apply Z.ltb_lt in P. split; [|lia]. intros _. destruct t as [x|]; [|discriminate]. eauto.
      + apply Z.ltb_ge in P. split; [lia|]. intros N. apply Z.ltb_lt in N. rewrite N in H.
        destruct t as [x|]; [right; eauto|now left].
    - intros (a' & Ea & H) t _. injection Ea as <-.
      destruct (teqb t (Some a)) eqn:E; [reflexivity|].
      assert (Hne : t <> Some a) by (intros C; subst; rewrite (proj2 (tspec _ _) eq_refl) in E; discriminate).
      destruct (H t Hne) as [HP HN].
      destruct (0 <? den teqb f t) eqn:P.
      + apply Z.ltb_lt in P. destruct (HP P) as (x & -> & Hx). exact Hx.
      + destruct (den teqb f t <? 0) eqn:N; [|reflexivity]. apply Z.ltb_lt in N.
        destruct (HN N) as [->|(x & -> & Hx)]; [reflexivity|exact Hx].
  Qed.

  (** ** the whole checker *)
  Record ResultOk (l b r res : list T) : Prop := {
    rk_odd : odd res;
    rk_no_invention : NoInvention l b r res;
    rk_rules : Rules l b r res;
    rk_justified :
      (l = r \/ l = b \/ r = b)
      \/ (Polarity (flatten [l; b; r]) res /\ Cover (flatten [l; b; r]) res
          /\ find_pair res = None
          /\ forall v, res = [v] -> SafeResolved (flatten [l; b; r]) v);
  }.

  Lemma single_spec (res : list T) (P : T -> bool) :
    match res with [v] => P v | _ => true end = true <-> forall v, res = [v] -> P v = true.
  Proof.
    destruct res as [|v [|w u]]; split; intros H; try reflexivity; try (intros ? C; discriminate).
    - intros v' C. injection C as <-. exact H.
    - now apply H.
  Qed.

  Lemma result_okb_spec l b r res :
    result_okb eqb ancb l b r res = true <-> ResultOk l b r res.
  Proof.
    unfold result_okb. cbv zeta.
    rewrite !Bool.andb_true_iff, Bool.orb_true_iff, !Bool.andb_true_iff.
    rewrite no_invention_b_spec, rules_b_spec, by_rule_b_spec, polarity_b_spec, cover_b_spec,
      stuck_b_spec, single_spec.
    split.
    - intros [[[H1 H2] H3] H4]. constructor; auto.
      destruct H4 as [H4|[[[P C] S] R]]; [now left|right].
      split; [exact P|split; [exact C|split; [exact S|]]].
      intros v Hv. apply safe_resolved_b_spec. now apply R.
    - intros [H1 H2 H3 H4]. split; [split; [split; [exact H1|exact H2]|exact H3]|].
      destruct H4 as [H4|(P & C & S & R)]; [now left|right].
      split; [split; [split; [exact P|exact C]|exact S]|].
      intros v Hv. apply safe_resolved_b_spec. now apply R.
  Qed.

  (** ** the model's result satisfies the checker's meaning *)
  Lemma simplified_polarity (f : list T) :
    odd f -> Polarity f (simplify teqb f).
  Proof.
    intros Hodd t. set (m := simplify teqb f).
    pose proof (simplify_den teqb tspec f t) as D. fold m in D.
    rewrite (den_count eqb) in D.
    pose proof (count_nonneg eqb t (adds m)) as NA.
    pose proof (count_nonneg eqb t (removes m)) as NR.
    assert (Hz : count teqb t (adds m) = 0 \/ count teqb t (removes m) = 0).
    { destruct (in_dec (eq_dec_of_eqb teqb tspec) t (adds m)) as [I|I].
      - right. apply tcount_notin. now apply (simplified_disjoint teqb tspec f t Hodd).
      - left. now apply tcount_notin. }
    unfold term in *. lia.
  Qed.

  Lemma resolves_only_positive (f : list T) v t :
    Resolves teqb true f v -> 0 < den teqb f t -> t = v.
  Proof.
    intros [Hv [H|(_ & w & Hw & Hneg & H)]] Hpos;
      destruct (eq_dec_of_eqb teqb tspec t v) as [E|N]; auto.
    - rewrite (H t N) in Hpos. lia.
    - destruct (eq_dec_of_eqb teqb tspec t w) as [->|N2]; [lia|]. rewrite (H t N N2) in Hpos. lia.
  Qed.

  Lemma drops_neg (ds : list (T * A)) t :
    drops_den eqb ds t < 0 -> exists d, In d ds /\ fst d = t.
  Proof.
    induction ds as [|[r0 a] u IH]; cbn [drops_den]; [lia|]. intros H.
    unfold ind in H. destruct (teqb r0 t) eqn:E.
    - apply tspec in E. exists (r0, a). split; [now left|exact E].
    - destruct (teqb (Some a) t); destruct IH as (d & I & F); try lia; exists d; split; auto; now right.
  Qed.

  Lemma trivial_none_len3 (m : list T) :
    odd m -> trivial_merge teqb true m = None -> (3 <= length m)%nat.
  Proof.
    intros Ho H. destruct (Nat.lt_ge_cases (length m) 3) as [L|G]; [|exact G].
    destruct (odd_lt3 m Ho L) as [x ->]. discriminate.
  Qed.

  Lemma nt_resolved_safe (HT : Trans ancb) (m : list T) v :
    odd m -> (3 <= length m)%nat -> nt (length m) m = [v] -> SafeResolved m v.
  Proof.
    intros Ho L3 Hres. right.
    destruct (nt_den eqb ancb eqb_spec HT (length m) m Ho) as (ds & D & J & L).
    rewrite Hres in D, J, L. cbn [length] in L.
    destruct ds as [|[r0 a0] ds']; [cbn [length] in L; lia|].
    assert (Hv : exists a, v = Some a).
    { apply Forall_inv in J. destruct J as [_ (x' & Ix & _)]. cbn in Ix.
      destruct Ix as [E|[]]. exists x'. now symmetry. }
    destruct Hv as [a ->]. exists a. split; [reflexivity|]. intros t Hne.
    assert (Dt : den teqb m t = drops_den eqb ((r0, a0) :: ds') t).
    { rewrite D. unfold Merge.den. cbn [den_s].
      destruct (teqb (Some a) t) eqn:E; [apply tspec in E; congruence|]. lia. }
    split.
    - intros Hpos.
      assert (I : In t (adds m)).
      { apply (count_pos_in eqb eqb_spec). rewrite (den_count eqb) in Hpos.
        pose proof (count_nonneg eqb t (removes m)). lia. }
      pose proof (nt_cover eqb ancb eqb_spec HT (length m) m Ho t I) as C. rewrite Hres in C.
      destruct t as [x|]; cbn in C.
      + destruct C as (x' & [E|[]] & [->|Hx]); injection E as <-; [congruence|eauto].
      + destruct C as [C|[]]. discriminate.
    - intros Hneg. rewrite Dt in Hneg. apply drops_neg in Hneg as ([r1 a1] & I & F). cbn in F. subst r1.
      rewrite Forall_forall in J. destruct (J _ I) as [Ok (x' & [E|[]] & Hle)]. injection E as <-.
      cbn [fst snd] in Ok, Hle. destruct t as [id|]; [right|now left].
      exists id. split; [reflexivity|]. cbn in Ok. destruct Hle as [->|Hle]; [exact Ok|].
      eapply HT; eauto.
  Qed.

  Lemma polarity_ext (f1 f2 res : list T) :
    (forall t, den teqb f1 t = den teqb f2 t) -> Polarity f1 res -> Polarity f2 res.
  Proof. intros E H t. rewrite <- E. apply H. Qed.

  Theorem mrt_result_ok (l b r : list T) :
    Trans ancb -> odd l -> odd b -> odd r -> ResultOk l b r (mrt l b r).
  Proof.
    intros HT Hl Hb Hr.
    pose proof (flatten3_odd l b r Hl Hb Hr) as Hf.
    pose proof (flat_simplified_odd eqb eqb_spec l b r Hl Hb Hr) as Ho.
    assert (Dm : forall t, den teqb (flat_simplified eqb l b r) t = den teqb (flatten [l; b; r]) t).
    { intros t. apply (simplify_den teqb tspec). }
    constructor.
    - unfold merge_ref_targets. dmatch E1.
      + destruct (whole_trivial eqb eqb_spec _ _ _ _ E1) as [[_ ->]|[[_ ->]|[_ ->]]]; auto.
      + cbv zeta. dmatch E2; [reflexivity|]. now apply (nt_ind eqb ancb eqb_spec (fun _ => True)).
    - intros t. now apply mrt_no_invention.
    - repeat split; intros ->.
      + apply mrt_agree; auto.
      + apply mrt_unchanged_left; auto.
      + apply mrt_unchanged_right; auto.
    - unfold merge_ref_targets. dmatch E1.
      { left. destruct (whole_trivial eqb eqb_spec _ _ _ _ E1) as [[H _]|[[H _]|[H _]]]; auto. }
      right. cbv zeta. dmatch E2.
      + match type of E2 with _ = Some ?v => rename v into v0 end.
        apply (trivial_merge_spec teqb tspec) in E2; [|exact Ho].
        assert (Rf : Resolves teqb true (flatten [l; b; r]) v0).
        { eapply (Resolves_ext teqb); [|exact E2]. exact Dm. }
        repeat split.
        * cbn [adds evens odds count]. destruct (teqb v0 t) eqn:E; [|lia].
          apply tspec in E. subst t. destruct Rf as [P _]. lia.
        * cbn [removes evens odds count]. lia.
        * intros t Hpos. rewrite (resolves_only_positive _ _ _ Rf Hpos).
          apply covered_self. now left.
        * intros v Hv. injection Hv as <-. now left.
      + set (m := flat_simplified eqb l b r) in *.
        assert (L3 : (3 <= length m)%nat) by now apply trivial_none_len3.
        split; [|split; [|split]].
        * intros t.
          destruct (simplified_polarity (flatten [l; b; r]) Hf t) as [P1 P2].
          destruct (nt_counts eqb ancb eqb_spec (length m) m Ho t) as [C1 C2].
          split; [eapply Z.le_trans; [exact C1|exact P1]|eapply Z.le_trans; [exact C2|exact P2]].
        * intros t Hpos. rewrite <- Dm in Hpos. apply nt_cover; auto.
          apply (count_pos_in eqb eqb_spec). rewrite (den_count eqb) in Hpos.
          pose proof (count_nonneg eqb t (removes m)) as CN. unfold target, term in *. lia.
        * apply nt_stuck; auto. unfold target, term in *. lia.
        * intros v Hv. destruct (nt_resolved_safe HT m v Ho L3 Hv) as [R|(a & -> & H)].
          -- left. eapply (Resolves_ext teqb); [|exact R]. exact Dm.
          -- right. exists a. split; [reflexivity|]. intros t Hne. rewrite <- Dm. now apply H.
  Qed.
End C12Checker.

(** ** the case-level checker *)
Lemma okb_spec (c : C12.case) :
  C12.okb c = true <->
  c_failed c = false
  /\ ResultOk N.eqb (dag_ancb (c_dag c))
       (map to_term (c_left c)) (map to_term (c_base c)) (map to_term (c_right c))
       (map to_term (c_result c)).
Proof.
  unfold C12.okb. rewrite Bool.andb_true_iff, Bool.negb_true_iff.
  now rewrite (result_okb_spec N.eqb (dag_ancb (c_dag c)) N.eqb_eq).
Qed.
