(** C13 — proofs about the reconciliation model Model/C13.v. *)
From Coq Require Import Lia.
From Verif Require Import Base.Prelude Model.Merge Model.C13.

(** * Decidable equalities *)
Lemma list_eqb_iff {A} (eqb : A -> A -> bool) :
  (forall x y, eqb x y = true <-> x = y) -> forall l1 l2, list_eqb eqb l1 l2 = true <-> l1 = l2.
Proof.
  intros H. induction l1 as [|a l1 IH]; destruct l2 as [|b l2]; cbn; try (split; congruence).
  rewrite andb_true_iff, H, IH. split; [intros [-> ->]; reflexivity|intros E; inversion E; auto].
Qed.

Lemma cinfo_eqb_iff x y : cinfo_eqb x y = true <-> x = y.
Proof.
  destruct x as [a b], y as [c d]. unfold cinfo_eqb, pair_eqb. cbn.
  rewrite andb_true_iff, !N.eqb_eq. split; [intros [-> ->]; reflexivity|intros E; inversion E; auto].
Qed.

Lemma commit_eqb_iff x y : commit_eqb x y = true <-> x = y.
Proof. apply list_eqb_iff, cinfo_eqb_iff. Qed.

Lemma option_eqb_iff {A} (eqb : A -> A -> bool) :
  (forall x y, eqb x y = true <-> x = y) -> forall o1 o2, option_eqb eqb o1 o2 = true <-> o1 = o2.
Proof.
  intros H [x|] [y|]; cbn; try (split; congruence).
  rewrite H. split; [intros ->; reflexivity|intros E; inversion E; auto].
Qed.

Lemma term_eqb_iff x y : term_eqb x y = true <-> x = y.
Proof. apply option_eqb_iff, commit_eqb_iff. Qed.

Lemma target_eqb_iff x y : target_eqb x y = true <-> x = y.
Proof. apply list_eqb_iff, term_eqb_iff. Qed.

Lemma eqb_refl_of {A} (eqb : A -> A -> bool) (H : forall x y, eqb x y = true <-> x = y) x :
  eqb x x = true.
Proof. now apply H. Qed.

Lemma eqb_false_of {A} (eqb : A -> A -> bool) (H : forall x y, eqb x y = true <-> x = y) x y :
  x <> y -> eqb x y = false.
Proof. intros Hn. destruct (eqb x y) eqn:E; [|reflexivity]. apply H in E. contradiction. Qed.

Definition wc_eqb := option_eqb commit_eqb.
Lemma wc_eqb_iff x y : wc_eqb x y = true <-> x = y.
Proof. apply option_eqb_iff, commit_eqb_iff. Qed.

(** * Working copies: the complete rule of [merge_wc_commit] *)
Lemma merge_wc1_spec (s b o : option commit) :
  merge_wc1 s b o =
  if wc_eqb s o then s
  else if wc_eqb s b then o
  else if wc_eqb o b then s
  else match s, o with
       | Some _, Some _ => s        (* both moved differently: keep our side *)
       | _, _ => None               (* removed on a side: the workspace goes away *)
       end.
Proof.
  unfold merge_wc1, trivial_merge. fold wc_eqb. rewrite andb_true_r.
  destruct (wc_eqb s o) eqn:E1; [reflexivity|].
  destruct (wc_eqb s b) eqn:E2; [reflexivity|].
  destruct (wc_eqb o b) eqn:E3; [reflexivity|].
  destruct s, o; reflexivity.
Qed.

(** * Ancestry is the suffix order *)
Lemma suffixb_unfold a b :
  suffixb a b = commit_eqb a b || match b with [] => false | _ :: t => suffixb a t end.
Proof. destruct b; reflexivity. Qed.

Lemma suffixb_refl a : suffixb a a = true.
Proof. rewrite suffixb_unfold, (eqb_refl_of _ commit_eqb_iff). reflexivity. Qed.

Lemma suffixb_iff a b : suffixb a b = true <-> exists p, b = (p ++ a)%list.
Proof.
  induction b as [|x b IH]; rewrite suffixb_unfold.
  - rewrite orb_false_r, commit_eqb_iff. split.
    + intros ->. exists []. reflexivity.
    + intros (p & E). symmetry in E. apply app_eq_nil in E. now destruct E.
  - rewrite orb_true_iff, commit_eqb_iff, IH. split.
    + intros [->|(p & ->)]; [exists []; reflexivity|exists (x :: p); reflexivity].
    + intros (p & E). destruct p as [|y p]; cbn in E.
      * left. congruence.
      * right. inversion E. eauto.
Qed.

Lemma suffixb_trans a b c : suffixb a b = true -> suffixb b c = true -> suffixb a c = true.
Proof.
  rewrite !suffixb_iff. intros (p & ->) (q & ->). exists (q ++ p)%list. now rewrite app_assoc.
Qed.

Lemma suffixb_length a b : suffixb a b = true -> (length a <= length b)%nat.
Proof. rewrite suffixb_iff. intros (p & ->). rewrite app_length. lia. Qed.

Lemma suffixb_antisym a b : suffixb a b = true -> suffixb b a = true -> a = b.
Proof.
  intros H1 H2. pose proof (suffixb_length _ _ H1). pose proof (suffixb_length _ _ H2).
  apply suffixb_iff in H1. destruct H1 as (p & ->). rewrite app_length in *.
  destruct p; [reflexivity|cbn in *; lia].
Qed.

(** * Heads: nothing visible is dropped by normalisation *)
Lemma memc_In c l : memc c l = true <-> In c l.
Proof.
  unfold memc. rewrite existsb_exists. split.
  - intros (x & Hx & E). apply commit_eqb_iff in E. now subst.
  - intros H. exists c. split; [assumption|apply (eqb_refl_of _ commit_eqb_iff)].
Qed.

Lemma dedup_In l x : In x (dedup l) <-> In x l.
Proof.
  induction l as [|a l IH]; cbn; [tauto|].
  destruct (memc a l) eqn:E.
  - rewrite IH. apply memc_In in E. split; [auto|]. intros [<-|H]; auto.
  - cbn. rewrite IH. tauto.
Qed.

Lemma normalize_covers l x : In x l -> exists y, In y (normalize l) /\ suffixb x y = true.
Proof.
  intros Hx. unfold normalize. set (d := dedup l).
  set (keep := fun h => negb (existsb (fun g => negb (commit_eqb g h) && suffixb h g) d)).
  assert (Hd : In x d) by (now apply dedup_In).
  assert (Hmax : forall n x0, In x0 d -> (length x0 + n >= list_max (map (@length _) d))%nat ->
                 exists y, In y (filter keep d) /\ suffixb x0 y = true).
  { induction n as [|n IH]; intros x0 Hx0 Hn.
    - exists x0. split; [|apply suffixb_refl]. apply filter_In. split; [assumption|].
      unfold keep. apply negb_true_iff. apply not_true_iff_false. intros H.
      apply existsb_exists in H. destruct H as (g & Hg & Hgx).
      apply andb_true_iff in Hgx. destruct Hgx as [Hne Hs].
      assert (length g <= list_max (map (@length _) d))%nat.
      { assert (Hall : Forall (fun k => k <= list_max (map (@length _) d))%nat (map (@length _) d))
          by (now apply list_max_le).
        rewrite Forall_forall in Hall. apply Hall. now apply in_map. }
      pose proof (suffixb_length _ _ Hs).
      assert (length g = length x0) by lia.
      apply suffixb_iff in Hs. destruct Hs as (p & ->). rewrite app_length in *.
      destruct p; [|cbn in *; lia]. cbn in Hne.
      rewrite (eqb_refl_of _ commit_eqb_iff) in Hne. discriminate.
    - destruct (keep x0) eqn:Ek.
      + exists x0. split; [|apply suffixb_refl]. apply filter_In. auto.
      + unfold keep in Ek. apply negb_false_iff in Ek. apply existsb_exists in Ek.
        destruct Ek as (g & Hg & Hgx). apply andb_true_iff in Hgx. destruct Hgx as [Hne Hs].
        assert (length x0 < length g)%nat.
        { pose proof (suffixb_length _ _ Hs). apply suffixb_iff in Hs. destruct Hs as (p & ->).
          rewrite app_length in *. destruct p; [|cbn; lia]. cbn in Hne.
          rewrite (eqb_refl_of _ commit_eqb_iff) in Hne. discriminate. }
        destruct (IH g Hg) as (y & Hy & Hgy); [lia|].
        exists y. split; [assumption|]. eapply suffixb_trans; eauto. }
  destruct (Hmax (list_max (map (@length _) d)) x Hd) as (y & Hy & Hxy); [lia|].
  exists y. split; [|assumption].
  destruct (filter keep d); [destruct Hy|assumption].
Qed.

(** Every head of our side and every head the other side added ends up (after following
    the recorded rewrites) at or below a head of the reconciled view. *)
Definition rewrites_of (s b o : view) : list (commit * rewrite) :=
  (record_rewrites (v_heads b) (v_heads o) ++ record_rewrites (v_heads b) (v_heads s))%list.

Lemma merge_views_heads_kept s b o v :
  merge_views s b o = Some v ->
  forall h, In h (v_heads s) \/ (In h (v_heads o) /\ ~ In h (v_heads b)) ->
  exists f, In f (v_heads v)
            /\ suffixb (resolve (rewrites_of s b o) (S (length (rewrites_of s b o))) h) f = true.
Proof.
  unfold merge_views. fold (rewrites_of s b o). intros H h Hh.
  destruct (has_divergent (rewrites_of s b o)); [discriminate|].
  inversion H; subst v; clear H. cbn [v_heads].
  apply normalize_covers. apply in_or_app. left. apply in_map. apply in_or_app. left.
  apply in_or_app.
  destruct Hh as [Hs|[Ho Hb]]; [now left|right].
  apply filter_In. split; [assumption|]. apply negb_true_iff. apply not_true_iff_false.
  intros Hm. apply memc_In in Hm. contradiction.
Qed.

(** * Bookmarks *)
Lemma merge_ref_targets_left_unchanged l r : merge_ref_targets l l r = r.
Proof.
  unfold merge_ref_targets, trivial_merge.
  destruct (target_eqb l r && true) eqn:E.
  - rewrite andb_true_r in E. apply target_eqb_iff in E. now subst.
  - now rewrite (eqb_refl_of _ target_eqb_iff).
Qed.

Lemma merge_ref_targets_right_unchanged l b : merge_ref_targets l b b = l.
Proof.
  unfold merge_ref_targets, trivial_merge.
  destruct (target_eqb l b && true) eqn:E.
  - reflexivity.
  - rewrite andb_true_r in E. rewrite E. now rewrite (eqb_refl_of _ target_eqb_iff).
Qed.

Lemma merge_ref_targets_same l b : merge_ref_targets l b l = l.
Proof.
  unfold merge_ref_targets, trivial_merge.
  now rewrite (eqb_refl_of _ target_eqb_iff).
Qed.

(** Two different moves of a bookmark from [tb] (a commit or absent) to [cl] and [cr]. *)
Definition base_anc (tb : term) (c : commit) : bool :=
  match tb with Some cb => suffixb cb c | None => true end.

Lemma simplify_3_distinct (a b c : term) :
  term_eqb b a = false -> term_eqb b c = false ->
  simplify term_eqb [a; b; c] = [a; b; c].
Proof.
  intros E1 E2. unfold simplify, simplified_pairs. cbn.
  rewrite E1. cbn. rewrite E2. cbn. reflexivity.
Qed.

Lemma trivial3 {T} (eqb : T -> T -> bool) (a r b : T) :
  trivial_merge eqb true [a; r; b]
  = if eqb a b then Some a else if eqb a r then Some b else if eqb b r then Some a else None.
Proof. unfold trivial_merge. now rewrite andb_true_r. Qed.

Lemma merge_ref_targets_normal cl cr tb :
  cl <> cr -> tb <> Some cl -> tb <> Some cr ->
  merge_ref_targets [Some cl] [tb] [Some cr] =
  if suffixb cl cr then (if base_anc tb cl then [Some cr] else [Some cl; tb; Some cr])
  else if suffixb cr cl then (if base_anc tb cr then [Some cl] else [Some cl; tb; Some cr])
  else [Some cl; tb; Some cr].
Proof.
  intros Hlr Hbl Hbr.
  assert (E1 : term_eqb tb (Some cl) = false) by (now apply (eqb_false_of _ term_eqb_iff)).
  assert (E2 : term_eqb tb (Some cr) = false) by (now apply (eqb_false_of _ term_eqb_iff)).
  assert (E3 : commit_eqb cl cr = false) by (now apply (eqb_false_of _ commit_eqb_iff)).
  assert (E4 : term_eqb (Some cl) tb = false).
  { apply (eqb_false_of _ term_eqb_iff). congruence. }
  assert (E5 : term_eqb (Some cr) tb = false).
  { apply (eqb_false_of _ term_eqb_iff). congruence. }
  assert (T1 : target_eqb [Some cl] [Some cr] = false).
  { apply (eqb_false_of _ target_eqb_iff). congruence. }
  assert (T2 : target_eqb [Some cl] [tb] = false).
  { apply (eqb_false_of _ target_eqb_iff). congruence. }
  assert (T3 : target_eqb [Some cr] [tb] = false).
  { apply (eqb_false_of _ target_eqb_iff). congruence. }
  assert (E6 : term_eqb (Some cl) (Some cr) = false).
  { apply (eqb_false_of _ term_eqb_iff). congruence. }
  unfold merge_ref_targets. rewrite trivial3, T1, T2, T3.
  change (flatten [[Some cl]; [tb]; [Some cr]]) with [Some cl; tb; Some cr].
  rewrite simplify_3_distinct by assumption.
  rewrite trivial3, E6, E4, E5.
  cbn [length non_trivial]. unfold find_pair_to_remove. cbn. rewrite E3.
  destruct (suffixb cl cr) eqn:S1.
  - destruct tb as [cb|]; cbn [base_anc].
    + destruct (suffixb cb cl) eqn:S2; cbn.
      * reflexivity.
      * reflexivity.
    + cbn. reflexivity.
  - destruct (suffixb cr cl) eqn:S3.
    + destruct tb as [cb|]; cbn [base_anc].
      * destruct (suffixb cb cr) eqn:S2; cbn; reflexivity.
      * cbn. reflexivity.
    + reflexivity.
Qed.

Lemma merge_ref_targets_normal_sym cl cr tb :
  cl <> cr -> tb <> Some cl -> tb <> Some cr ->
  merge_ref_targets [Some cl] [tb] [Some cr] = merge_ref_targets [Some cr] [tb] [Some cl]
  \/ (merge_ref_targets [Some cl] [tb] [Some cr] = [Some cl; tb; Some cr]
      /\ merge_ref_targets [Some cr] [tb] [Some cl] = [Some cr; tb; Some cl]).
Proof.
  intros H1 H2 H3.
  rewrite (merge_ref_targets_normal cl cr tb) by assumption.
  rewrite (merge_ref_targets_normal cr cl tb) by auto.
  destruct (suffixb cl cr) eqn:S1, (suffixb cr cl) eqn:S2.
  - exfalso. apply H1. now apply suffixb_antisym.
  - destruct (base_anc tb cl); auto.
  - destruct (base_anc tb cr); auto.
  - auto.
Qed.

(** Each side's target survives, or the bookmark was fast-forwarded to the other side's
    target, which is then a descendant (and the old target an ancestor). *)
Lemma merge_ref_targets_normal_keeps cl cr tb :
  cl <> cr -> tb <> Some cl -> tb <> Some cr ->
  let r := merge_ref_targets [Some cl] [tb] [Some cr] in
  (In (Some cl) r \/ (r = [Some cr] /\ suffixb cl cr = true /\ base_anc tb cl = true))
  /\ (In (Some cr) r \/ (r = [Some cl] /\ suffixb cr cl = true /\ base_anc tb cr = true)).
Proof.
  intros H1 H2 H3. cbv zeta. rewrite (merge_ref_targets_normal cl cr tb) by assumption.
  destruct (suffixb cl cr) eqn:S1.
  - destruct (base_anc tb cl) eqn:B1; cbn; auto 6.
  - destruct (suffixb cr cl) eqn:S2.
    + destruct (base_anc tb cr) eqn:B2; cbn; auto 6.
    + cbn. auto 6.
Qed.

(** * Working copies: order *)
Lemma merge_wc1_sym s b o :
  merge_wc1 s b o = merge_wc1 o b s
  \/ (exists cs co, s = Some cs /\ o = Some co /\ cs <> co /\ s <> b /\ o <> b
                    /\ merge_wc1 s b o = s /\ merge_wc1 o b s = o).
Proof.
  rewrite !merge_wc1_spec.
  destruct (wc_eqb s o) eqn:E1.
  - apply wc_eqb_iff in E1. subst o. rewrite (eqb_refl_of _ wc_eqb_iff). now left.
  - assert (wc_eqb o s = false) as ->.
    { destruct (wc_eqb o s) eqn:E; [|reflexivity]. apply wc_eqb_iff in E. subst.
      now rewrite (eqb_refl_of _ wc_eqb_iff) in E1. }
    destruct (wc_eqb s b) eqn:E2, (wc_eqb o b) eqn:E3; try now left.
    + apply wc_eqb_iff in E2, E3. subst. now rewrite (eqb_refl_of _ wc_eqb_iff) in E1.
    + destruct s as [cs|], o as [co|]; try now left.
      right. exists cs, co. repeat split; try reflexivity.
      * intros ->. now rewrite (eqb_refl_of _ wc_eqb_iff) in E1.
      * intros <-. now rewrite (eqb_refl_of _ wc_eqb_iff) in E2.
      * intros <-. now rewrite (eqb_refl_of _ wc_eqb_iff) in E3.
Qed.

(** * Meaning of the checker's tests *)
Lemma visible_iff heads c : visible heads c = true <-> exists h, In h heads /\ suffixb c h = true.
Proof.
  unfold visible, ancs. rewrite memc_In, dedup_In, in_flat_map. split.
  - intros (h & Hh & Hc). exists h. split; [assumption|].
    clear Hh. induction h as [|x h IH]; cbn in Hc.
    + destruct Hc as [<-|[]]. apply suffixb_refl.
    + destruct Hc as [<-|Hc]; [apply suffixb_refl|].
      rewrite suffixb_unfold. rewrite (IH Hc). apply orb_true_r.
  - intros (h & Hh & Hc). exists h. split; [assumption|].
    clear Hh. induction h as [|x h IH]; rewrite suffixb_unfold in Hc.
    + rewrite orb_false_r in Hc. apply commit_eqb_iff in Hc. subst. now left.
    + apply orb_true_iff in Hc. destruct Hc as [Hc|Hc].
      * apply commit_eqb_iff in Hc. subst. now left.
      * right. auto.
Qed.

Lemma removed_hidden_spec side base merged :
  removed_hidden side base merged = true <->
  forall c, visible (v_heads base) c = true -> visible (v_heads side) c = false ->
            visible (v_heads merged) c = false.
Proof.
  unfold removed_hidden. rewrite forallb_forall. split.
  - intros H c Hb Hs. specialize (H c). unfold visible in Hb at 1. apply memc_In in Hb.
    specialize (H Hb). rewrite Hs in H. cbn in H. now apply negb_true_iff in H.
  - intros H c Hc. destruct (visible (v_heads side) c) eqn:Es; [reflexivity|]. cbn.
    apply negb_true_iff. apply H; [|assumption]. unfold visible. now apply memc_In.
Qed.

(** A resolved bookmark follows the rewrite of its commit. *)
Lemma update_bookmark_normal res c : update_bookmark res [Some c] = [Some (res c)].
Proof.
  unfold update_bookmark. cbn [evens_t fold_left]. unfold moved.
  destruct (commit_eqb (res c) c) eqn:E; cbn [negb].
  - apply commit_eqb_iff in E. now rewrite E.
  - unfold normal. apply merge_ref_targets_left_unchanged.
Qed.

(** * The operation-DAG checks *)
Lemma dag_removed_hidden_spec dag heads merged :
  dag_removed_hidden dag heads merged = true <->
  forall h a c, In h heads -> In a (op_ancestors dag [h]) ->
    visible (v_heads (view_at dag a)) c = true ->
    visible (v_heads (view_at dag h)) c = false ->
    visible (v_heads merged) c = true ->
    kept_in_place dag heads merged c = true \/ under_conflicted_bookmark merged c = true.
Proof.
  unfold dag_removed_hidden. rewrite forallb_forall. split.
  - intros H h a c Hh Ha Hva Hvh Hm. specialize (H h Hh). rewrite forallb_forall in H.
    specialize (H a Ha). rewrite forallb_forall in H.
    unfold visible in Hva at 1. apply memc_In in Hva. specialize (H c Hva).
    rewrite Hvh, Hm in H. cbn in H. now apply orb_true_iff in H.
  - intros H h Hh. apply forallb_forall. intros a Ha. apply forallb_forall. intros c Hc.
    destruct (visible (v_heads (view_at dag h)) c) eqn:E1; [reflexivity|].
    destruct (visible (v_heads merged) c) eqn:E2; [|reflexivity]. cbn.
    apply orb_true_iff. apply (H h a c Hh Ha); auto. unfold visible. now apply memc_In.
Qed.

(** Two operations with a single closest common ancestor: [merge_ops] is [merge_views] with
    that ancestor's view as base. *)
Lemma merge_ops_two dag i j a ni nj na fuel :
  nth_error dag i = Some ni -> nth_error dag j = Some nj -> nth_error dag a = Some na ->
  cca dag [i] [j] = [a] ->
  merge_ops (S fuel) dag [i; j]
  = match merge_views (n_view ni) (n_view na) (n_view nj) with Some v => MOk v | None => MSkip end.
Proof.
  intros Hi Hj Ha Hc. cbn [merge_ops]. rewrite Hi, Hj, Hc, Ha.
  destruct (merge_views (n_view ni) (n_view na) (n_view nj)); reflexivity.
Qed.
