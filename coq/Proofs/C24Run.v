(** C24: a whole valid diff on a clean disk. *)
From Verif Require Import Base.Prelude Base.FsC Base.WcC Base.C24Chk Proofs.FsC Proofs.WcCore Proofs.C24Step.
From Coq Require Import Lia.
Local Open Scope string_scope.
Local Open Scope list_scope.

Section WithReserved.
Variable rn : list name.
Local Notation has_reserved := (WcC.has_reserved rn).
Local Notation sinv := (WcCore.sinv rn).
Local Notation tok := (C24Step.tok rn).
Local Notation uok := (C24Step.uok rn).
Local Notation process_entry := (WcC.process_entry rn).
Local Notation process_all := (WcC.process_all rn).
Local Notation run_update := (WcC.run_update rn).

Definition patch (t : tree) (e : dentry) : tree := tree_set t (d_path e) (d_after e).
Definition patch_all (t : tree) (d : list dentry) : tree := fold_left patch d t.

(** A diff order is valid from tree [t]: each entry really changes the value at its path,
    and every intermediate tree can be checked out (in particular no path is at the same
    time a file and a directory) with the untracked entries not in its way. *)
Fixpoint valid (u : fs) (t : tree) (d : list dentry) : Prop :=
  match d with
  | [] => True
  | e :: r => leaf t (d_path e) = d_before e /\ d_before e <> d_after e
              /\ tok (patch t e) /\ uok u (patch t e) /\ valid u (patch t e) r
  end.

Definition writes (d : list dentry) : list (path * fstate) :=
  flat_map (fun e => match d_after e with Some _ => [(d_path e, FWritten)] | None => [] end) d.
Definition removes (d : list dentry) : list path :=
  flat_map (fun e => match d_after e with Some _ => [] | None => [d_path e] end) d.

Theorem clean_run : forall d t u s,
  tok t -> uok u t -> valid u t d -> sinv s -> models t u (w_fs (s_w s)) ->
  exists s', process_all s d = PDone s' /\ sinv s' /\ models (patch_all t d) u (w_fs (s_w s'))
    /\ s_stats s' = fold_left bump d (s_stats s)
    /\ s_changed s' = s_changed s ++ writes d
    /\ s_deleted s' = s_deleted s ++ removes d.
Proof.
  induction d as [|e r IH]; intros t u s Ht Hu Hv Hs Hm.
  - exists s. cbn. rewrite !app_nil_r.
    split; [reflexivity|]. split; [exact Hs|]. split; [exact Hm|]. auto.
  - destruct Hv as [Hb [Hab [Ht' [Hu' Hv']]]].
    destruct (step_clean rn t u e _ s Ht Ht' Hu Hu' Hb Hab Hm Hs eq_refl)
      as [s1 [E1 [Hs1 [Hm1 [St1 [Ch1 De1]]]]]].
    destruct (IH (patch t e) u s1 Ht' Hu' Hv' Hs1 Hm1) as [s' [E [Hs' [Hm' [St [Ch De]]]]]].
    exists s'. cbn [WcC.process_all]. rewrite E1. split; [exact E|]. split; [exact Hs'|].
    split; [exact Hm'|]. cbn [fold_left writes removes flat_map].
    rewrite St, St1, Ch, Ch1, De, De1, <- !app_assoc. auto.
Qed.

Lemma bump_skipped' : forall t e, n_skipped (bump t e) = n_skipped t.
Proof. intros t e. unfold bump. destruct (d_after e), (d_before e); reflexivity. Qed.

Lemma fold_bump_skipped : forall d t, n_skipped (fold_left bump d t) = n_skipped t.
Proof. induction d as [|e r IH]; intros t; cbn; [reflexivity|]. now rewrite IH, bump_skipped'. Qed.

Lemma merge_in_asserts_ok : forall (c : list (path * fstate)) (dl : list path),
  sorted_strict (map fst c) = true -> (forall q, In q (map fst c) -> ~ In q dl) ->
  merge_in_asserts c dl = true.
Proof.
  intros c dl Hsorted Hdisj.
  assert (H : sorted_strict (map fst c)
              && forallb (fun pc : path * fstate => negb (mem path_eqb (fst pc) dl)) c = true).
  { apply Bool.andb_true_iff. split; [exact Hsorted|]. apply forallb_forall. intros [q x] Hin. cbn.
    apply Bool.negb_true_iff. destruct (mem path_eqb q dl) eqn:Em; auto. exfalso.
    apply existsb_exists in Em as [q' [Hq' Heq]]. apply path_eqb_spec in Heq. subst q'.
    apply (Hdisj q); auto. apply in_map_iff. exists (q, x). auto. }
  unfold merge_in_asserts. destruct c, dl; auto.
Qed.

(** The whole update: no error, nothing skipped, the disk of the patched tree. The two
    conditions on the order are the debug assertions of merge_in. *)
Theorem clean_update : forall d t u f states,
  tok t -> uok u t -> valid u t d -> models t u f ->
  sorted_strict (map fst (writes d)) = true ->
  (forall q, In q (map fst (writes d)) -> ~ In q (removes d)) ->
  let o := run_update f states d in
  exists st, o_res o = ROk st /\ n_skipped st = 0%N /\ st = fold_left bump d stats0
    /\ models (patch_all t d) u (o_fs o)
    /\ o_states o = merge_in states (writes d) (removes d).
Proof.
  intros d t u f states Ht Hu Hv Hm Hsorted Hdisj o. unfold o, WcC.run_update.
  assert (Hs0 : sinv (st0 f)).
  { unfold WcCore.sinv, st0. cbn.
    split; [split; [eapply models_wf; eauto | constructor]|].
    split; [eapply models_anchor; eauto | split; reflexivity]. }
  destruct (clean_run d t u (st0 f) Ht Hu Hv Hs0 Hm) as [s' [E [Hs' [Hm' [St [Ch De]]]]]].
  rewrite E. cbn in Ch, De, St. rewrite Ch, De.
  assert (Ha : merge_in_asserts (writes d) (removes d) = true) by now apply merge_in_asserts_ok.
  rewrite Ha. cbn. eexists. split; [reflexivity|]. rewrite St, fold_bump_skipped. cbn. auto.
Qed.

End WithReserved.
