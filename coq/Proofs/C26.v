(** Proofs for C26 (model: Model/C26.v). *)
From Verif Require Import Base.Prelude Model.C26.
From Coq Require Import Lia.
Local Open Scope N_scope.

Lemma ftype_eqb_spec a b : ftype_eqb a b = true <-> a = b.
Proof.
  destruct a as [x| |], b as [y| |]; cbn; split; intros H; try congruence; try reflexivity.
  - apply Bool.eqb_prop in H. congruence.
  - injection H as ->. apply Bool.eqb_reflx.
Qed.

Lemma fstate_eqb_spec a b : fstate_eqb a b = true <-> a = b.
Proof.
  unfold fstate_eqb. rewrite !andb_true_iff, ftype_eqb_spec, !N.eqb_eq.
  destruct a, b; cbn. split; [intros [[? ?] ?]; congruence | intros H; injection H; auto].
Qed.

Lemma tval_eqb_spec a b : tval_eqb a b = true <-> a = b.
Proof.
  unfold tval_eqb. rewrite !andb_true_iff, !N.eqb_eq.
  destruct a, b; cbn. split.
  - intros [[? ?] Hx]. apply Bool.eqb_prop in Hx. congruence.
  - intros Hx; injection Hx as -> -> ->. repeat split. apply Bool.eqb_reflx.
Qed.

Lemma option_eqb_spec {A} (eqb : A -> A -> bool) :
  (forall x y, eqb x y = true <-> x = y) ->
  forall a b, option_eqb eqb a b = true <-> a = b.
Proof.
  intros H [x|] [y|]; cbn; try rewrite H; split; congruence.
Qed.

Lemma obs_eqb_spec a b : obs_eqb a b = true <-> a = b.
Proof.
  unfold obs_eqb. rewrite andb_true_iff.
  rewrite (option_eqb_spec _ tval_eqb_spec), (option_eqb_spec _ fstate_eqb_spec).
  destruct a, b; cbn. split; [intros [? ?]; congruence | intros H; injection H; auto].
Qed.

Lemma is_clean_spec new old :
  is_clean new old = true <-> new = old.
Proof.
  unfold is_clean. rewrite !andb_true_iff, ftype_eqb_spec, !N.eqb_eq.
  destruct new, old; cbn. split; [intros [[? ?] ?]; congruence | intros H; injection H; auto].
Qed.

(** The rule itself: a clean verdict needs the recorded mtime strictly below own_mtime. *)
Lemma clean_verdict_spec own cur new :
  clean_verdict own cur new = true <-> cur = Some new /\ fs_mtime new < own.
Proof.
  destruct cur as [c|]; cbn.
  - rewrite andb_true_iff, is_clean_spec, N.ltb_lt. split.
    + intros [-> ?]; auto.
    + intros [H ?]; injection H as ->; auto.
  - split; [discriminate | intros [? _]; discriminate].
Qed.

Section Proofs.
  Context (g : N -> N).
  Hypothesis g_mono : forall a b, a <= b -> g a <= g b.

  Definition content_agrees (t : option tval) (d : dfile) : Prop :=
    exists tv, t = Some tv /\ t_id tv = d_content d /\ t_len tv = d_size d.

  Definition consistent (st : option fstate) (t : option tval) : Prop :=
    match st, t with
    | None, None => True
    | Some s, Some tv => fs_type s = FNormal (t_exec tv)
    | _, _ => False
    end.

  (** Facts that hold in every world reachable by a trace whose times never decrease, plus the
      meaning of the knowledge flags. *)
  Record Inv (w : world) (k : know) : Prop := {
    inv_I1 : sf_mtime (w_sfile w) <= g (w_now w);
    inv_I2 : m_own (w_mem w) <= sf_mtime (w_sfile w);
    inv_Cm : consistent (m_state (w_mem w)) (m_tree (w_mem w));
    inv_Cs : consistent (sf_state (w_sfile w)) (sf_tree (w_sfile w));
    inv_am : k_am k = true -> forall d, w_file w = Some d -> content_agrees (m_tree (w_mem w)) d;
    inv_lm : k_lm k = true -> forall d, w_file w = Some d -> m_own (w_mem w) <= d_mtime d;
    inv_as : k_as k = true -> forall d, w_file w = Some d -> content_agrees (sf_tree (w_sfile w)) d;
    inv_ls : k_ls k = true -> forall d, w_file w = Some d -> sf_mtime (w_sfile w) <= d_mtime d;
  }.

  Lemma inv_init t0 : Inv (init_world g t0) know_init.
  Proof.
    constructor; cbn; try (intros; discriminate); try exact I; try lia.
  Qed.

  (** What one snapshot does, given the invariant. *)
  Lemma snapshot_exact w k :
    Inv w k ->
    (w_file w = None \/ k_am k = true \/ k_lm k = true) ->
    forall t, obs_of (step g (EvSnapshot t) w) = expected (w_file w).
  Proof.
    intros HI Hc t. unfold obs_of, expected. cbn.
    destruct (w_file w) as [d|] eqn:Hf; cbn; [|reflexivity].
    destruct (clean_verdict (m_own (w_mem w)) (m_state (w_mem w)) (stat d)) eqn:Hv; cbn;
      [|reflexivity].
    apply clean_verdict_spec in Hv. destruct Hv as [Hst Hlt]. cbn in Hlt.
    destruct Hc as [Hc | [Hc | Hc]]; [discriminate| |].
    - destruct (inv_am _ _ HI Hc d Hf) as (tv & Ht & Hid & Hlen).
      pose proof (inv_Cm _ _ HI) as HC. rewrite Hst, Ht in HC. cbn in HC.
      rewrite Hst, Ht. f_equal. f_equal.
      destruct tv as [i l x]; cbn in *. injection HC as <-. unfold of_disk. congruence.
    - pose proof (inv_lm _ _ HI Hc d Hf). lia.
  Qed.

  Lemma snapshot_mem_own m f : m_own (snapshot_mem m f) = m_own m.
  Proof.
    unfold snapshot_mem. destruct f as [d|]; [|reflexivity].
    destruct (clean_verdict _ _ _); reflexivity.
  Qed.

  Lemma inv_step w k e :
    Inv w k -> w_now w <= ev_time e ->
    Inv (step g e w) (know_step e (w_now w) k).
  Proof.
    intros HI Ht.
    pose proof (inv_I1 _ _ HI) as I1. pose proof (inv_I2 _ _ HI) as I2.
    pose proof (inv_Cm _ _ HI) as Cm. pose proof (inv_Cs _ _ HI) as Cs.
    pose proof (g_mono _ _ Ht) as Hg.
    destruct e as [t x c sz|t x|t|t|t|t]; cbn in Ht, Hg.
    - (* Write *)
      constructor; cbn; try assumption; try (intros; discriminate); try lia.
      + intros _ d H. injection H as <-. cbn. lia.
      + intros _ d H. injection H as <-. cbn. lia.
    - (* Chmod *)
      constructor; cbn; try assumption; try lia.
      + intros Hk d H. destruct (w_file w) as [d0|] eqn:Hf; [|discriminate].
        injection H as <-. exact (inv_am _ _ HI Hk d0 Hf).
      + intros Hk d H. destruct (w_file w) as [d0|] eqn:Hf; [|discriminate].
        injection H as <-. exact (inv_lm _ _ HI Hk d0 Hf).
      + intros Hk d H. destruct (w_file w) as [d0|] eqn:Hf; [|discriminate].
        injection H as <-. exact (inv_as _ _ HI Hk d0 Hf).
      + intros Hk d H. destruct (w_file w) as [d0|] eqn:Hf; [|discriminate].
        injection H as <-. exact (inv_ls _ _ HI Hk d0 Hf).
    - (* Delete *)
      constructor; cbn; try assumption; try (intros; discriminate); try lia.
    - (* Load *)
      constructor; cbn; try assumption; try lia.
      + exact (inv_as _ _ HI).
      + exact (inv_ls _ _ HI).
      + exact (inv_as _ _ HI).
      + exact (inv_ls _ _ HI).
    - (* Snapshot *)
      constructor; cbn; try assumption; try lia.
      + rewrite snapshot_mem_own. lia.
      + unfold snapshot_mem. destruct (w_file w) as [d|]; [|exact I].
        destruct (clean_verdict _ _ _); [assumption|reflexivity].
      + intros Hk d Hf. unfold snapshot_mem. rewrite Hf.
        destruct (clean_verdict _ _ _) eqn:Hv.
        * apply clean_verdict_spec in Hv. destruct Hv as [Hst Hlt]. cbn in Hlt.
          apply orb_true_iff in Hk. destruct Hk as [Hk|Hk].
          -- exact (inv_am _ _ HI Hk d Hf).
          -- pose proof (inv_lm _ _ HI Hk d Hf). lia.
        * cbn. exists (of_disk d). auto.
      + intros Hk d Hf. rewrite snapshot_mem_own. exact (inv_lm _ _ HI Hk d Hf).
      + exact (inv_as _ _ HI).
      + exact (inv_ls _ _ HI).
    - (* Save *)
      constructor; cbn; try assumption; try lia; try (intros; discriminate).
      + exact (inv_am _ _ HI).
      + exact (inv_ls _ _ HI).
      + exact (inv_am _ _ HI).
  Qed.

  Lemma step_file e w : w_file (step g e w) = disk_step g e (w_file w).
  Proof. destruct e; reflexivity. Qed.
  Lemma step_now e w : w_now (step g e w) = ev_time e.
  Proof. destruct e; reflexivity. Qed.

  Lemma know_step_timed e now k :
    k_timed (know_step e now k) = k_timed k && (now <=? ev_time e).
  Proof. destruct e; reflexivity. Qed.

  (** Every claim the checker derives from the events is met by the model, for every trace. *)
  Lemma claims_sound_gen : forall evs w k,
    (k_timed k = true -> Inv w k) ->
    claims_hold (claims g evs (w_now w) (w_file w) k) (run_obs g evs w) = true.
  Proof.
    induction evs as [|e r IH]; intros w k HI; [reflexivity|].
    assert (HI' : k_timed (know_step e (w_now w) k) = true ->
                  Inv (step g e w) (know_step e (w_now w) k)).
    { rewrite know_step_timed, andb_true_iff, N.leb_le. intros [Hk Ht].
      apply inv_step; auto. }
    specialize (IH (step g e w) _ HI'). rewrite step_now, step_file in IH.
    destruct e as [t x c sz|t x|t|t|t|t]; try exact IH.
    cbn [claims run_obs claims_hold]. rewrite IH, andb_true_r.
    destruct (k_timed (know_step (EvSnapshot t) (w_now w) k)) eqn:Hk; [|reflexivity].
    rewrite know_step_timed, andb_true_iff in Hk. destruct Hk as [Hk _].
    specialize (HI Hk). cbn [andb].
    destruct (w_file w) as [d|] eqn:Hf.
    - destruct (k_am k || k_lm k) eqn:Hc; [|reflexivity].
      apply obs_eqb_spec. symmetry. rewrite <- Hf. apply (snapshot_exact w k HI).
      apply orb_true_iff in Hc. tauto.
    - apply obs_eqb_spec. symmetry. rewrite <- Hf. apply (snapshot_exact w k HI). auto.
  Qed.

  Theorem claims_sound t0 evs :
    claims_hold (claims g evs t0 None know_init) (run_obs g evs (init_world g t0)) = true.
  Proof.
    apply (claims_sound_gen evs (init_world g t0) know_init). intros _. apply inv_init.
  Qed.

  (** ** Reachability and the explicit corollaries *)

  Fixpoint know_run (evs : list event) (now : N) (k : know) : know :=
    match evs with
    | [] => k
    | e :: r => know_run r (ev_time e) (know_step e now k)
    end.

  Definition last_time (evs : list event) (now : N) : N :=
    fold_left (fun _ e => ev_time e) evs now.

  Lemma run_cons e r w : run g (e :: r) w = run g r (step g e w).
  Proof. reflexivity. Qed.

  Lemma run_app a b w : run g (a ++ b) w = run g b (run g a w).
  Proof. unfold run. apply fold_left_app. Qed.

  Lemma timed_app a b now :
    timed (a ++ b) now <-> timed a now /\ timed b (last_time a now).
  Proof.
    revert now. induction a as [|e r IH]; intros now; cbn.
    - tauto.
    - rewrite IH. unfold last_time. cbn. tauto.
  Qed.

  Lemma inv_run : forall evs w k,
    Inv w k -> k_timed k = true -> timed evs (w_now w) ->
    Inv (run g evs w) (know_run evs (w_now w) k)
    /\ k_timed (know_run evs (w_now w) k) = true
    /\ w_now (run g evs w) = last_time evs (w_now w).
  Proof.
    induction evs as [|e r IH]; intros w k HI Hk Ht.
    - cbn. auto.
    - destruct Ht as [Ht Hr]. rewrite run_cons. cbn [know_run].
      pose proof (inv_step w k e HI Ht) as HI'.
      assert (Hk' : k_timed (know_step e (w_now w) k) = true).
      { rewrite know_step_timed, Hk. cbn. apply N.leb_le. exact Ht. }
      rewrite <- (step_now e w) in Hr.
      destruct (IH _ _ HI' Hk' Hr) as (A & B & C).
      rewrite step_now in A, B, C. split; [exact A | split; [exact B | exact C]].
  Qed.

  (** Flags after external events following a state in which nothing is known. *)
  Lemma know_ext_lm : forall ws now k,
    forallb external ws = true ->
    (existsb content_edit ws = true \/ (k_lm k = true /\ k_ls k = true)) ->
    let k' := know_run ws now k in k_lm k' = true /\ k_ls k' = true.
  Proof.
    induction ws as [|e r IH]; intros now k Hx Hc; cbn in *.
    - destruct Hc as [Hc|Hc]; [discriminate|exact Hc].
    - apply andb_true_iff in Hx. destruct Hx as [He Hr].
      apply IH; auto.
      destruct e; cbn in *; try discriminate; auto.
  Qed.

  Lemma last_time_app a b now : last_time (a ++ b) now = last_time b (last_time a now).
  Proof. unfold last_time. apply fold_left_app. Qed.

  Lemma know_run_app : forall a b now k,
    know_run (a ++ b) now k = know_run b (last_time a now) (know_run a now k).
  Proof.
    induction a as [|e r IH]; intros b now k; cbn; [reflexivity|].
    rewrite IH. reflexivity.
  Qed.

  (** After a save followed by external events that include a content edit — whatever the
      flags were before — own_mtime of a reloaded process is known to be <= the file's mtime. *)
  Lemma know_after_save_edit evs t_s ws now k :
    forallb external ws = true -> existsb content_edit ws = true ->
    let k' := know_run (evs ++ EvSave t_s :: ws) now k in
    k_lm k' = true /\ k_ls k' = true.
  Proof.
    intros Hx Hc. cbn zeta. rewrite know_run_app. cbn [know_run].
    apply know_ext_lm; auto.
  Qed.

  (** [C26_detected], reloaded process: whatever happened before (any events, any recorded
      state), after a save at [t_s] followed only by external events that include a content
      edit, a freshly loaded process's snapshot records exactly what is on disk. *)
  Theorem detected_reload t0 evs t_s ws t_l t_n :
    timed (evs ++ EvSave t_s :: ws ++ [EvLoad t_l; EvSnapshot t_n]) t0 ->
    forallb external ws = true -> existsb content_edit ws = true ->
    let w := run g (evs ++ EvSave t_s :: ws ++ [EvLoad t_l]) (init_world g t0) in
    obs_of (step g (EvSnapshot t_n) w) = expected (w_file w).
  Proof.
    intros Ht Hx Hc w.
    replace (evs ++ EvSave t_s :: ws ++ [EvLoad t_l; EvSnapshot t_n])
      with ((evs ++ EvSave t_s :: ws ++ [EvLoad t_l]) ++ [EvSnapshot t_n]) in Ht
      by (rewrite <- !app_assoc; cbn; rewrite <- app_assoc; reflexivity).
    apply timed_app in Ht. destruct Ht as [Ht _].
    destruct (inv_run _ _ _ (inv_init t0) eq_refl Ht) as (HI & Hk & _).
    fold w in HI. apply (snapshot_exact w _ HI). right. right.
    cbn [init_world w_now].
    replace (evs ++ EvSave t_s :: ws ++ [EvLoad t_l])
      with ((evs ++ EvSave t_s :: ws) ++ [EvLoad t_l])
      by (rewrite <- app_assoc; reflexivity).
    rewrite know_run_app. cbn [know_run know_step k_lm].
    apply (know_after_save_edit evs t_s ws t0 know_init Hx Hc).
  Qed.

  (** [C26_detected], same process (no reload): the value save() leaves in memory is the old
      tree_state's mtime, which is even smaller. *)
  Theorem detected_in_process t0 evs t_s ws t_n :
    timed (evs ++ EvSave t_s :: ws ++ [EvSnapshot t_n]) t0 ->
    forallb external ws = true -> existsb content_edit ws = true ->
    let w := run g (evs ++ EvSave t_s :: ws) (init_world g t0) in
    obs_of (step g (EvSnapshot t_n) w) = expected (w_file w).
  Proof.
    intros Ht Hx Hc w.
    replace (evs ++ EvSave t_s :: ws ++ [EvSnapshot t_n])
      with ((evs ++ EvSave t_s :: ws) ++ [EvSnapshot t_n]) in Ht
      by (rewrite <- !app_assoc; reflexivity).
    apply timed_app in Ht. destruct Ht as [Ht _].
    destruct (inv_run _ _ _ (inv_init t0) eq_refl Ht) as (HI & Hk & _).
    fold w in HI. apply (snapshot_exact w _ HI). right. right.
    apply (know_after_save_edit evs t_s ws t0 know_init Hx Hc).
  Qed.

  (** The direct arithmetic form of the rule: a stat taken of a file written at real time
      [e >= t_save] is never judged clean against ANY recorded state, by a process that
      loaded the tree_state file written at [t_save]. *)
  Theorem detected_direct cur t_save e ty sz :
    t_save <= e -> clean_verdict (g t_save) cur (mk_fstate ty (g e) sz) = false.
  Proof.
    intros Hle. destruct (clean_verdict _ _ _) eqn:Hv; [|reflexivity].
    apply clean_verdict_spec in Hv. destruct Hv as [_ Hlt]. cbn in Hlt.
    pose proof (g_mono _ _ Hle). lia.
  Qed.

  (** Files whose recorded mtime equals own_mtime are always re-read. *)
  Theorem equal_mtime_reread own cur new :
    fs_mtime cur = own -> clean_verdict own (Some cur) new = false.
  Proof.
    intros H. destruct (clean_verdict _ _ _) eqn:Hv; [|reflexivity].
    apply clean_verdict_spec in Hv. destruct Hv as [Hc Hlt]. injection Hc as ->. lia.
  Qed.

  (** In every reachable world the in-memory own_mtime is at most the tree_state file's
      mtime (what a reload would use), which is at most the current time's stamp. *)
  Theorem in_process_conservative t0 evs :
    timed evs t0 ->
    let w := run g evs (init_world g t0) in
    m_own (w_mem w) <= sf_mtime (w_sfile w) /\ sf_mtime (w_sfile w) <= g (w_now w).
  Proof.
    intros Ht w.
    destruct (inv_run _ _ _ (inv_init t0) eq_refl Ht) as (HI & _ & _).
    split; [exact (inv_I2 _ _ HI) | exact (inv_I1 _ _ HI)].
  Qed.

  (** A smaller own_mtime can only turn clean verdicts into re-reads. *)
  Theorem verdict_monotone own1 own2 cur new :
    own1 <= own2 -> clean_verdict own1 cur new = true -> clean_verdict own2 cur new = true.
  Proof.
    intros Hle Hv. apply clean_verdict_spec in Hv. apply clean_verdict_spec.
    destruct Hv; split; auto; lia.
  Qed.

  (** ** Disciplined traces: every snapshot is exact. *)
  Lemma disciplined_claims : forall evs now f k s,
    disciplined evs now s = true ->
    k_timed k = true ->
    (k_am k || k_lm k = true) -> (k_as k || k_ls k = true) ->
    (sy_mem s = true -> k_am k = true) -> (sy_file s = true -> k_as k = true) ->
    Forall (fun c => c <> None) (claims g evs now f k).
  Proof.
    induction evs as [|e r IH]; intros now f k s Hd Hk H1 H2 H3 H4; [constructor|].
    cbn [disciplined] in Hd. apply andb_true_iff in Hd. destruct Hd as [Ht Hd].
    assert (Hk' : k_timed (know_step e now k) = true)
      by (rewrite know_step_timed, Hk, Ht; reflexivity).
    destruct e as [t x c sz|t x|t|t|t|t]; cbn [claims].
    - eapply IH; eauto; cbn; auto; discriminate.
    - eapply IH; eauto.
    - eapply IH; eauto; cbn; auto.
    - eapply IH; eauto; cbn; auto.
    - constructor.
      + rewrite Hk'. cbn [andb]. destruct f; [rewrite H1|]; discriminate.
      + eapply IH; eauto; cbn; auto.
        rewrite H1. reflexivity.
    - apply andb_true_iff in Hd. destruct Hd as [Hs Hd].
      eapply IH; eauto; cbn; rewrite ?(H3 Hs); auto.
  Qed.

  Lemma claims_all_exact : forall evs now f k os,
    claims_hold (claims g evs now f k) os = true ->
    Forall (fun c => c <> None) (claims g evs now f k) ->
    os = exact_obs g evs f.
  Proof.
    induction evs as [|e r IH]; intros now f k os Hh Hall.
    - destruct os; [reflexivity|discriminate].
    - destruct e as [t x c sz|t x|t|t|t|t]; cbn [claims exact_obs] in *;
        try (eapply IH; eassumption).
      destruct os as [|o os]; [discriminate|].
      match type of Hall with Forall _ ((if ?c then _ else _) :: _) => destruct c end.
      + cbn [claims_hold] in Hh. apply andb_true_iff in Hh. destruct Hh as [Ho Hr].
        apply obs_eqb_spec in Ho. subst o. inversion Hall; subst. f_equal.
        eapply IH; eassumption.
      + inversion Hall; subst. congruence.
  Qed.

  (** [C26_no_stale_clean]: if no external write/delete ever falls between a snapshot and the
      save that persists it, and the clock never goes back, EVERY snapshot of the whole history
      records exactly the disk — no edit of any kind is ever missed. *)
  Theorem no_stale_clean t0 evs :
    disciplined evs t0 (mk_sync true true) = true ->
    run_obs g evs (init_world g t0) = exact_obs g evs None.
  Proof.
    intros Hd. eapply claims_all_exact.
    - apply claims_sound.
    - eapply disciplined_claims; eauto.
  Qed.
End Proofs.

(** The granularity functions used for running are monotone (also the constant clock u = 0). *)
Lemma gran_mono u a b : a <= b -> gran u a <= gran u b.
Proof.
  intros H. unfold gran. destruct (N.eq_dec u 0) as [->|Hu].
  - rewrite !N.mul_0_r. lia.
  - apply N.mul_le_mono_r. apply N.div_le_mono; assumption.
Qed.

(** The checker of the correspondence cases accepts whatever the model computes. *)
Lemma okb_model u t0 evs :
  okb (mk_case u t0 evs (run_obs (gran u) evs (init_world (gran u) t0)) false) = true.
Proof.
  unfold okb. cbn. apply claims_sound. apply gran_mono.
Qed.
