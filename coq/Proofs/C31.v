(** Proofs for C31: [to_matcher e] matches exactly the set semantics [den e]. *)
From Verif Require Import Base.Prelude Proofs.BytesF.
From Verif Require Model.C30 Model.C32 Proofs.C30 Proofs.C32.
From Verif Require Import Model.C31.
From Coq Require Import Lia Btauto.
Local Open Scope N_scope.

(** * Part A: what [add_modify] does to a [RepoPathTree] *)
Section TreeLemmas.
  Context {name : Type} (neqb : name -> name -> bool).
  Hypothesis neqb_spec : forall x y, neqb x y = true <-> x = y.
  Notation path := (list name).
  Notation tree := (@C30.tree name).
  Notation assoc := (C30.assoc neqb).
  Notation tget := (C30.tget neqb).
  Notation strip := (C30.strip_prefix neqb).
  Notation peqb := (list_eqb neqb).

  Lemma neqb_refl x : neqb x x = true.
  Proof. apply neqb_spec; reflexivity. Qed.

  Lemma peqb_eq a b : peqb a b = true <-> a = b.
  Proof. apply list_eqb_eq, neqb_spec. Qed.
  Lemma peqb_sym a b : peqb a b = peqb b a.
  Proof.
    destruct (peqb a b) eqn:E1, (peqb b a) eqn:E2; auto.
    - apply peqb_eq in E1. subst. assert (X : peqb b b = true) by (apply peqb_eq; auto). congruence.
    - apply peqb_eq in E2. subst. assert (X : peqb a a = true) by (apply peqb_eq; auto). congruence.
  Qed.

  Lemma strip_spec d p q : strip d p = Some q <-> p = d ++ q.
  Proof. apply (Proofs.C30.strip_prefix_spec neqb neqb_spec). Qed.

  Lemma strip_peqb p q :
    peqb p q = match strip p q with Some [] => true | _ => false end.
  Proof.
    destruct (strip p q) as [[|x r]|] eqn:E.
    - apply strip_spec in E. rewrite app_nil_r in E. subst. apply peqb_eq; auto.
    - apply strip_spec in E. destruct (peqb p q) eqn:F; auto. apply peqb_eq in F.
      exfalso. rewrite <- F in E. apply (f_equal (@length _)) in E.
      rewrite app_length in E. cbn in E. lia.
    - destruct (peqb p q) eqn:F; auto. apply peqb_eq in F. subst.
      assert (X : strip q q = Some []) by (apply strip_spec; rewrite app_nil_r; auto). congruence.
  Qed.

  Section Values.
    Context {V : Type} (dflt : V).
    Definition vget (t : tree V) (p : path) : option V := option_map C30.value (tget t p).
    Definition vd (t : tree V) (p : path) : V :=
      match vget t p with Some v => v | None => dflt end.

    Lemma assoc_update_same {A} (d : A) c f (l : list (name * A)) :
      assoc c (C30.update_child neqb d c f l) =
      Some (f (match assoc c l with Some s => s | None => d end)).
    Proof.
      induction l as [|[k v] r IH]; cbn.
      - rewrite neqb_refl. reflexivity.
      - destruct (neqb c k) eqn:E; cbn; rewrite E; auto.
    Qed.

    Lemma assoc_update_other {A} (d : A) a c f (l : list (name * A)) :
      neqb a c = false -> assoc a (C30.update_child neqb d c f l) = assoc a l.
    Proof.
      intros H. induction l as [|[k v] r IH]; cbn.
      - rewrite H. reflexivity.
      - destruct (neqb c k) eqn:E; cbn.
        + apply neqb_spec in E. subst k. rewrite H. reflexivity.
        + destruct (neqb a k); auto.
    Qed.

    Lemma vget_cons (t : tree V) c p :
      vget t (c :: p) = match assoc c (C30.children t) with Some s => vget s p | None => None end.
    Proof. unfold vget. cbn. destruct (assoc c (C30.children t)); reflexivity. Qed.

    Lemma vget_add_modify f q : forall (t : tree V) p,
      vget (C30.add_modify neqb dflt f q t) p =
      match strip p q with
      | Some [] => Some (f (vd t p))
      | Some (_ :: _) => Some (vd t p)
      | None => vget t p
      end.
    Proof.
      induction q as [|c q IH]; intros t p.
      - destruct p as [|a p]; cbn [C30.add_modify C30.strip_prefix].
        + reflexivity.
        + rewrite !vget_cons. reflexivity.
      - destruct p as [|a p]; cbn [C30.add_modify C30.strip_prefix].
        + reflexivity.
        + rewrite vget_cons. cbn [C30.children].
          destruct (neqb a c) eqn:E.
          * apply neqb_spec in E. subst a. rewrite assoc_update_same, IH.
            unfold vd. rewrite (vget_cons t c p).
            destruct (assoc c (C30.children t)) as [s|] eqn:A.
            -- reflexivity.
            -- assert (G : forall p', vget (C30.Node dflt []) p'
                                      = match p' with [] => Some dflt | _ => None end).
               { intros [|x p']; reflexivity. }
               rewrite G. destruct p as [|x p].
               ++ destruct q; reflexivity.
               ++ destruct (strip (x :: p) q) as [[|y r]|]; reflexivity.
          * rewrite assoc_update_other by auto. rewrite (vget_cons t a p). reflexivity.
    Qed.
  End Values.

  (** All prefixes of a path, and all ways to cut it in two. *)
  Fixpoint prefixes (p : path) : list path :=
    [] :: match p with [] => [] | c :: p' => map (cons c) (prefixes p') end.
  Fixpoint splits (p : path) : list (path * path) :=
    ([], p) :: match p with
               | [] => []
               | c :: p' => map (fun ab => (c :: fst ab, snd ab)) (splits p')
               end.

  Lemma existsb_false {A} (l : list A) : existsb (fun _ => false) l = false.
  Proof. induction l; auto. Qed.

  Lemma existsb_all_false {A} (f : A -> bool) l : (forall x, f x = false) -> existsb f l = false.
  Proof. intros H. induction l; cbn; auto. rewrite H. auto. Qed.

  Lemma existsb_map {A B} (f : A -> B) g l : existsb g (map f l) = existsb (fun x => g (f x)) l.
  Proof. induction l; cbn; congruence. Qed.

  Lemma existsb_ext {A} (f g : A -> bool) l : (forall x, f x = g x) -> existsb f l = existsb g l.
  Proof. intros H. induction l; cbn; congruence. Qed.

  Lemma existsb_swap {A B} (f : A -> B -> bool) l1 l2 :
    existsb (fun x => existsb (f x) l2) l1 = existsb (fun y => existsb (fun x => f x y) l1) l2.
  Proof.
    induction l1 as [|a l1 IH]; cbn.
    - symmetry. apply existsb_false.
    - rewrite IH. clear IH. induction l2 as [|b l2 IH2]; cbn; auto.
      rewrite <- IH2. destruct (f a b), (existsb (f a) l2), (existsb (fun x => f x b) l1); reflexivity.
  Qed.

  Lemma walk_exists {V} (g : V -> bool) : forall (t : tree V) p,
    existsb (fun e => g (C30.value (fst e))) (C30.walk neqb t p) =
    existsb (fun p0 => match vget t p0 with Some v => g v | None => false end) (prefixes p).
  Proof.
    intros t p; revert t; induction p as [|c p IH]; intros t; cbn [C30.walk prefixes existsb fst].
    - reflexivity.
    - f_equal. rewrite existsb_map.
      destruct (assoc c (C30.children t)) as [s|] eqn:A.
      + rewrite IH. apply existsb_ext. intros p0. rewrite vget_cons, A. reflexivity.
      + cbn. symmetry. apply existsb_all_false.
        intros p0. rewrite vget_cons, A. reflexivity.
  Qed.

  Lemma prefixes_strip q p :
    existsb (fun p0 => peqb p0 q) (prefixes p) =
    match strip q p with Some _ => true | None => false end.
  Proof.
    revert q; induction p as [|c p IH]; intros q; cbn [prefixes existsb].
    - destruct q; reflexivity.
    - destruct q as [|a q]; [reflexivity|]. cbn [list_eqb orb C30.strip_prefix].
      rewrite existsb_map. cbn [list_eqb].
      destruct (neqb a c) eqn:E.
      + apply neqb_spec in E. subst a. rewrite <- IH. apply existsb_ext. intros p0.
        rewrite neqb_refl. reflexivity.
      + apply existsb_all_false. intros p0.
        destruct (neqb c a) eqn:F; auto. apply neqb_spec in F. subst. rewrite neqb_refl in E.
        discriminate.
  Qed.

  Lemma splits_strip (h : path -> bool) dir p :
    existsb (fun ab => negb (C30.is_nil (snd ab)) && peqb (fst ab) dir && h (snd ab)) (splits p) =
    match strip dir p with
    | Some tail => negb (C30.is_nil tail) && h tail
    | None => false
    end.
  Proof.
    revert dir; induction p as [|c p IH]; intros dir; cbn [splits existsb fst snd].
    - destruct dir; reflexivity.
    - rewrite existsb_map. cbn [fst snd]. destruct dir as [|a dir].
      + cbn [list_eqb C30.strip_prefix C30.is_nil negb andb].
        rewrite existsb_all_false; [apply orb_false_r|]. intros x.
        cbn. rewrite andb_false_r. reflexivity.
      + cbn [list_eqb C30.strip_prefix andb]. rewrite andb_false_r. cbn [orb].
        destruct (neqb a c) eqn:E.
        * apply neqb_spec in E. subst a. rewrite <- IH. apply existsb_ext. intros x.
          cbn [list_eqb]. rewrite neqb_refl. reflexivity.
        * apply existsb_all_false. intros x. cbn [list_eqb].
          destruct (neqb c a) eqn:F; [|rewrite andb_false_r; reflexivity].
          apply neqb_spec in F. subst. rewrite neqb_refl in E. discriminate.
  Qed.

  (** ** FilesMatcher *)
  Definition is_file_at (t : tree C30.files_kind) (p : path) : bool :=
    match vget t p with Some C30.FFile => true | _ => false end.

  Lemma files_matches_at t p : C30.files_matches neqb t p = is_file_at t p.
  Proof.
    unfold C30.files_matches, is_file_at, vget. destruct (tget t p) as [s|]; cbn; auto;
      destruct (C30.value s); reflexivity.
  Qed.

  Lemma is_file_at_add q t p :
    is_file_at (C30.add_modify neqb C30.FDir (fun _ => C30.FFile) q t) p = peqb p q || is_file_at t p.
  Proof.
    unfold is_file_at. rewrite (vget_add_modify C30.FDir), strip_peqb. unfold vd.
    destruct (strip p q) as [[|x r]|]; cbn; auto.
    destruct (vget t p) as [[|]|]; reflexivity.
  Qed.

  Lemma files_tree_matches fs p :
    C30.files_matches neqb (C30.files_tree neqb fs) p = existsb (peqb p) fs.
  Proof.
    rewrite files_matches_at. unfold C30.files_tree.
    assert (G : forall fs t, is_file_at (fold_left (fun t f =>
                 C30.add_modify neqb C30.FDir (fun _ => C30.FFile) f t) fs t) p
                = existsb (peqb p) fs || is_file_at t p).
    { clear fs. induction fs as [|f fs IH]; intros t; cbn [fold_left existsb]; auto.
      rewrite IH, is_file_at_add. rewrite orb_assoc, (orb_comm (existsb _ _)). reflexivity. }
    rewrite G. replace (is_file_at (C30.Node C30.FDir []) p) with false; [apply orb_false_r|].
    destruct p; reflexivity.
  Qed.

  (** ** PrefixMatcher *)
  Definition is_prefix_at (t : tree C30.prefix_kind) (p : path) : bool :=
    match vget t p with Some C30.PPrefix => true | _ => false end.

  Lemma is_prefix_at_add q t p :
    is_prefix_at (C30.add_modify neqb C30.PDir (fun _ => C30.PPrefix) q t) p
    = peqb p q || is_prefix_at t p.
  Proof.
    unfold is_prefix_at. rewrite (vget_add_modify C30.PDir), strip_peqb. unfold vd.
    destruct (strip p q) as [[|x r]|]; cbn; auto.
    destruct (vget t p) as [[|]|]; reflexivity.
  Qed.

  Lemma prefix_tree_at ps p : is_prefix_at (C30.prefix_tree neqb ps) p = existsb (peqb p) ps.
  Proof.
    unfold C30.prefix_tree.
    assert (G : forall ps t, is_prefix_at (fold_left (fun t f =>
                 C30.add_modify neqb C30.PDir (fun _ => C30.PPrefix) f t) ps t) p
                = existsb (peqb p) ps || is_prefix_at t p).
    { clear ps. induction ps as [|f ps IH]; intros t; cbn [fold_left existsb]; auto.
      rewrite IH, is_prefix_at_add. rewrite orb_assoc, (orb_comm (existsb _ _)). reflexivity. }
    rewrite G. replace (is_prefix_at (C30.Node C30.PDir []) p) with false; [apply orb_false_r|].
    destruct p; reflexivity.
  Qed.

  Lemma prefix_tree_matches ps p :
    C30.prefix_matches neqb (C30.prefix_tree neqb ps) p =
    existsb (fun q => match strip q p with Some _ => true | None => false end) ps.
  Proof.
    unfold C30.prefix_matches. rewrite (walk_exists C30.is_prefix_kind).
    rewrite (existsb_ext _ (fun p0 => existsb (peqb p0) ps)).
    - rewrite existsb_swap. apply existsb_ext. intros q. apply prefixes_strip.
    - intros p0. rewrite <- prefix_tree_at. unfold is_prefix_at.
      destruct (vget _ p0) as [[|]|]; reflexivity.
  Qed.

  (** ** GlobsMatcher *)
  Section Globs.
    Context {pid : Type} (gm : bool -> pid -> path -> bool).
    Notation gtree := (tree (option (list pid))).
    Definition pats_at (t : gtree) (p : path) : list pid :=
      match vget t p with Some (Some l) => l | _ => [] end.
    Definition upd (g : pid) (v : option (list pid)) : option (list pid) :=
      match v with None => Some [g] | Some l => Some (l ++ [g]) end.

    Lemma pats_at_add dir g t p :
      pats_at (C30.add_modify neqb None (upd g) dir t) p =
      pats_at t p ++ (if peqb p dir then [g] else []).
    Proof.
      unfold pats_at. rewrite (vget_add_modify None), strip_peqb. unfold vd.
      destruct (strip p dir) as [[|x r]|]; cbn.
      - destruct (vget t p) as [[l|]|]; reflexivity.
      - destruct (vget t p) as [[l|]|]; cbn; rewrite ?app_nil_r; reflexivity.
      - rewrite app_nil_r. reflexivity.
    Qed.

    Lemma globs_tree_pats pats p :
      pats_at (C30.globs_tree neqb pats) p = map snd (filter (fun dp => peqb p (fst dp)) pats).
    Proof.
      unfold C30.globs_tree.
      assert (G : forall pats t,
                 pats_at (fold_left (fun t dp => C30.add_modify neqb None
                            (fun v => match v with None => Some [snd dp]
                                               | Some l => Some (l ++ [snd dp]) end) (fst dp) t) pats t) p
                 = pats_at t p ++ map snd (filter (fun dp => peqb p (fst dp)) pats)).
      { clear pats. induction pats as [|[d g] pats IH]; intros t; cbn [fold_left filter map fst snd].
        - rewrite app_nil_r. reflexivity.
        - rewrite IH. change (fun v => match v with None => Some [g] | Some l => Some (l ++ [g]) end)
            with (upd g). rewrite pats_at_add. destruct (peqb p d); cbn; rewrite <- app_assoc; reflexivity. }
      rewrite G. destruct p; reflexivity.
    Qed.

    Lemma globs_matches_splits pm : forall (t : gtree) p,
      C30.globs_matches neqb gm pm t p =
      existsb (fun ab => negb (C30.is_nil (snd ab))
                         && C30.is_match gm pm (pats_at t (fst ab)) (snd ab)) (splits p).
    Proof.
      intros t p; revert t; induction p as [|c p IH]; intros t.
      - reflexivity.
      - rewrite (Proofs.C30.globs_matches_cons neqb gm). cbn [splits existsb fst snd C30.is_nil negb andb].
        f_equal.
        + unfold Proofs.C30.node_match, pats_at, vget. cbn. destruct (C30.value t); reflexivity.
        + rewrite existsb_map. cbn [fst snd].
          destruct (assoc c (C30.children t)) as [s|] eqn:A.
          * rewrite IH. apply existsb_ext. intros x. unfold pats_at. rewrite vget_cons, A. reflexivity.
          * symmetry. apply existsb_all_false. intros x.
            unfold pats_at. rewrite vget_cons, A. cbn. rewrite andb_false_r. reflexivity.
    Qed.

    Lemma globs_tree_matches pm pats p :
      C30.globs_matches neqb gm pm (C30.globs_tree neqb pats) p =
      existsb (fun dp => match strip (fst dp) p with
                         | Some tail => negb (C30.is_nil tail) && gm pm (snd dp) tail
                         | None => false
                         end) pats.
    Proof.
      rewrite globs_matches_splits.
      rewrite (existsb_ext _ (fun ab => existsb (fun dp =>
                 negb (C30.is_nil (snd ab)) && peqb (fst ab) (fst dp) && gm pm (snd dp) (snd ab)) pats)).
      - rewrite existsb_swap. apply existsb_ext. intros [d g]. cbn [fst snd].
        apply (splits_strip (fun tail => gm pm g tail)).
      - intros [p0 tail]. cbn [fst snd]. rewrite globs_tree_pats. unfold C30.is_match.
        rewrite existsb_map. induction pats as [|[d g] pats IH]; cbn [filter existsb fst snd].
        + rewrite andb_false_r. reflexivity.
        + destruct (peqb p0 d); cbn [existsb snd andb]; rewrite <- IH;
            destruct (negb (C30.is_nil tail)), (gm pm g tail); cbn; auto.
    Qed.
  End Globs.
End TreeLemmas.

(** * Part B: the fileset layer *)
Lemma neqb_spec : forall x y, neqb x y = true <-> x = y.
Proof. exact bytes_eqb_eq. Qed.

Section Denote.
  Variable gm : bool -> pid -> rpath -> bool.
  Notation mt := (C30.matches neqb gm).

  Lemma union_all_unfold f m1 m2 r :
    union_all_matchers (S f) (m1 :: m2 :: r) =
    C30.BUnion
      (union_all_matchers f (firstn (Nat.div (length (m1 :: m2 :: r)) 2) (m1 :: m2 :: r)))
      (union_all_matchers f (skipn (Nat.div (length (m1 :: m2 :: r)) 2) (m1 :: m2 :: r))).
  Proof. reflexivity. Qed.

  Lemma union_all_matches fuel : forall ms p,
    (length ms <= fuel)%nat ->
    mt (union_all_matchers fuel ms) p = existsb (fun m => mt m p) ms.
  Proof.
    induction fuel as [|f IH]; intros ms p Hlen.
    - destruct ms; [reflexivity|cbn in Hlen; lia].
    - destruct ms as [|m1 [|m2 r]]; [reflexivity|cbn; rewrite orb_false_r; reflexivity|].
      rewrite union_all_unfold.
      set (ms := m1 :: m2 :: r) in *.
      assert (L : (2 <= length ms)%nat) by (subst ms; cbn; lia).
      set (k := Nat.div (length ms) 2).
      assert (K1 : (1 <= k)%nat) by (apply Nat.div_le_lower_bound; lia).
      assert (K2 : (k < length ms)%nat) by (apply Nat.div_lt; lia).
      cbn [C30.matches]. rewrite !IH.
      + rewrite <- existsb_app, firstn_skipn. reflexivity.
      + rewrite skipn_length. lia.
      + rewrite firstn_length. lia.
  Qed.

  Definition item_den (it : item) (p : rpath) : bool :=
    match it with IPat pt => den_pattern gm pt p | IMat m => mt m p end.

  Definition is_pfx (p q : rpath) : bool :=
    match C30.strip_prefix neqb q p with Some _ => true | None => false end.
  Definition gden (pm : bool) (p : rpath) (dp : rpath * pid) : bool :=
    den_glob gm pm (fst dp) (snd dp) p.

  Definition mden (p : rpath) (m : matcher) : bool := mt m p.

  Definition acc_den (a : acc) (p : rpath) : bool :=
    existsb (mden p) (a_matchers a)
    || existsb (path_eqb p) (a_file_paths a)
    || existsb (is_pfx p) (a_prefix_paths a)
    || existsb (gden false p) (a_file_globs a)
    || existsb (gden true p) (a_prefix_globs a).

  Lemma opt_single {A} (l : list A) (m : matcher) (f : bool) p :
    (l = [] -> f = false) ->
    (l <> [] -> mt m p = f) ->
    existsb (fun x => mt x p) (if C30.is_nil l then [] else [m]) = f.
  Proof. destruct l; cbn; intros H1 H2; [symmetry; auto|rewrite H2 by discriminate; apply orb_false_r]. Qed.

  Lemma finalize_matches a p : mt (finalize a) p = acc_den a p.
  Proof.
    unfold finalize, acc_den. rewrite union_all_matches by lia. rewrite !existsb_app.
    rewrite !orb_assoc. repeat f_equal.
    - apply opt_single; [intros ->; reflexivity|]. intros _. cbn [C30.matches].
      apply (files_tree_matches neqb neqb_spec).
    - apply opt_single; [intros ->; reflexivity|]. intros _. cbn [C30.matches].
      apply (prefix_tree_matches neqb neqb_spec).
    - apply opt_single; [intros ->; reflexivity|]. intros _. cbn [C30.matches].
      apply (globs_tree_matches neqb neqb_spec gm).
    - apply opt_single; [intros ->; reflexivity|]. intros _. cbn [C30.matches].
      apply (globs_tree_matches neqb neqb_spec gm).
  Qed.

  Lemma acc_step_den a it p : acc_den (acc_step a it) p = acc_den a p || item_den it p.
  Proof.
    unfold acc_den.
    destruct it as [[q|q|d ic pat|d ic pat]|m]; cbn [acc_step item_den den_pattern a_matchers
      a_file_paths a_prefix_paths a_file_globs a_prefix_globs];
      rewrite ?existsb_app; cbn [existsb]; rewrite ?orb_false_r.
    - unfold path_eqb. rewrite (peqb_sym neqb neqb_spec p (comps q)). btauto.
    - change (match C30.strip_prefix neqb (comps q) p with Some _ => true | None => false end)
        with (is_pfx p (comps q)). btauto.
    - change (den_glob gm false (comps d) (ic, pat) p) with (gden false p (comps d, (ic, pat))).
      btauto.
    - change (den_glob gm true (comps d) (ic, pat) p) with (gden true p (comps d, (ic, pat))).
      btauto.
    - change (mt m p) with (mden p m). btauto.
  Qed.

  Lemma assemble_matches items p : mt (assemble items) p = existsb (fun it => item_den it p) items.
  Proof.
    unfold assemble. rewrite finalize_matches.
    assert (G : forall items a, acc_den (fold_left acc_step items a) p
                                = acc_den a p || existsb (fun it => item_den it p) items).
    { clear items. induction items as [|it items IH]; intros a; cbn [fold_left existsb].
      - rewrite orb_false_r. reflexivity.
      - rewrite IH, acc_step_den, orb_assoc. reflexivity. }
    rewrite G. reflexivity.
  Qed.

  (** Induction over expressions with list-valued unions. *)
  Fixpoint fexpr_rect' (P : fexpr -> Prop)
           (Hn : P ENone) (Ha : P EAll) (Hp : forall pt, P (EPattern pt))
           (Hu : forall l, Forall P l -> P (EUnionAll l))
           (Hi : forall a b, P a -> P b -> P (EIntersection a b))
           (Hd : forall a b, P a -> P b -> P (EDifference a b))
           (e : fexpr) : P e :=
    match e with
    | ENone => Hn
    | EAll => Ha
    | EPattern pt => Hp pt
    | EUnionAll l =>
        Hu l ((fix go (l : list fexpr) : Forall P l :=
                 match l with
                 | [] => Forall_nil P
                 | x :: t => Forall_cons x (fexpr_rect' P Hn Ha Hp Hu Hi Hd x) (go t)
                 end) l)
    | EIntersection a b => Hi a b (fexpr_rect' P Hn Ha Hp Hu Hi Hd a) (fexpr_rect' P Hn Ha Hp Hu Hi Hd b)
    | EDifference a b => Hd a b (fexpr_rect' P Hn Ha Hp Hu Hi Hd a) (fexpr_rect' P Hn Ha Hp Hu Hi Hd b)
    end.

  Lemma item_of_inter a b :
    item_of (EIntersection a b) = IMat (C30.BIntersection (to_matcher a) (to_matcher b)).
  Proof. reflexivity. Qed.
  Lemma item_of_diff a b :
    item_of (EDifference a b) = IMat (C30.BDifference (to_matcher a) (to_matcher b)).
  Proof. reflexivity. Qed.
  Lemma item_of_union l : item_of (EUnionAll l) = IMat (assemble (map item_of l)).
  Proof. reflexivity. Qed.

  Lemma denotes_both e p :
    item_den (item_of e) p = den gm e p /\ mt (to_matcher e) p = den gm e p.
  Proof.
    induction e as [| |pt|l IH|a b [IHa1 IHa2] [IHb1 IHb2]|a b [IHa1 IHa2] [IHb1 IHb2]]
      using fexpr_rect'.
    - split; reflexivity.
    - split; [reflexivity|]. unfold to_matcher. rewrite assemble_matches. reflexivity.
    - split; [reflexivity|]. unfold to_matcher. rewrite assemble_matches. cbn.
      apply orb_false_r.
    - assert (G : mt (assemble (map item_of l)) p = existsb (fun x => den gm x p) l).
      { rewrite assemble_matches, (existsb_map item_of).
        induction IH as [|x l [Hx _] _ IHl]; cbn [existsb]; [reflexivity|]. rewrite Hx, IHl. reflexivity. }
      split; [rewrite item_of_union; exact G | exact G].
    - assert (G : item_den (item_of (EIntersection a b)) p = den gm (EIntersection a b) p).
      { rewrite item_of_inter. cbn [item_den C30.matches den]. rewrite IHa2, IHb2. reflexivity. }
      split; [exact G|]. unfold to_matcher. rewrite assemble_matches. cbn [existsb].
      rewrite G. apply orb_false_r.
    - assert (G : item_den (item_of (EDifference a b)) p = den gm (EDifference a b) p).
      { rewrite item_of_diff. cbn [item_den C30.matches den]. rewrite IHa2, IHb2. reflexivity. }
      split; [exact G|]. unfold to_matcher. rewrite assemble_matches. cbn [existsb].
      rewrite G. apply orb_false_r.
  Qed.

  Lemma denotes e p : mt (to_matcher e) p = den gm e p.
  Proof. apply denotes_both. Qed.
End Denote.

(** * Part C: resolution keeps the C32 guarantee: every path in a resolved expression is a
    valid repository path with good components. *)
Lemma from_relative_path_ok s p : C32.from_relative_path s = C32.Ok p -> path_ok p = true.
Proof.
  unfold C32.from_relative_path. intros H.
  apply Proofs.C32.from_relative_Ok in H as [[_ ->] | (ns & E & U & ->)]; [reflexivity|].
  assert (G : Forall (fun n => C32.good_name n = true) ns).
  { apply Forall_forall. intros n Hn. apply (Proofs.C32.components_names_good s).
    rewrite E. apply in_map. exact Hn. }
  assert (W : Forall Proofs.C32.comp_wf ns)
    by (eapply Forall_impl; [|exact G]; apply Proofs.C32.good_name_wf).
  unfold path_ok. rewrite Proofs.C32.join_valid by auto.
  rewrite Proofs.C32.repo_components_join by auto. cbn. apply forallb_forall.
  rewrite Forall_forall in G. exact G.
Qed.

Lemma parse_fs_path_ok cwd base s p : C32.parse_fs_path cwd base s = C32.Ok p -> path_ok p = true.
Proof.
  intros H. destruct (Proofs.C32.parse_no_bad_components_valid _ _ _ _ H) as (V & G & _).
  unfold path_ok. rewrite V. cbn. apply forallb_forall. rewrite Forall_forall in G. exact G.
Qed.

Section ResolveOk.
  Variable cwd base : bytes.
  Variable bad : pid -> bool.

  Lemma glob_at_ok pm dir input ic pt :
    path_ok dir = true -> glob_at bad pm dir input ic = C32.Ok pt -> fpattern_ok pt = true.
  Proof.
    unfold glob_at. intros D. destruct (C32.is_nil input).
    - intros H; inversion H; subst. destruct pm; exact D.
    - destruct (C32.from_relative_path input) as [n|e]; cbn; [|discriminate].
      destruct (bad (ic, n)); [discriminate|]. intros H; inversion H; subst. destruct pm; exact D.
  Qed.

  Lemma glob_pattern_ok cr pm ic input pt :
    glob_pattern cwd base bad cr pm ic input = C32.Ok pt -> fpattern_ok pt = true.
  Proof.
    unfold glob_pattern. destruct (split_glob_path ic input) as [d pat].
    destruct cr; unfold cwd_path, root_path, rbind.
    - destruct (C32.parse_fs_path cwd base d) as [dir|e] eqn:E; [|discriminate].
      apply glob_at_ok. eapply parse_fs_path_ok; eauto.
    - destruct (C32.from_relative_path d) as [dir|e] eqn:E; [|discriminate].
      apply glob_at_ok. eapply from_relative_path_ok; eauto.
  Qed.

  Lemma resolve_pattern_ok k input pt :
    resolve_pattern cwd base bad k input = C32.Ok pt -> fpattern_ok pt = true.
  Proof.
    destruct k; cbn [resolve_pattern]; try apply glob_pattern_ok;
      unfold cwd_path, root_path, rbind.
    - destruct (C32.parse_fs_path cwd base input) eqn:E; [|discriminate].
      intros H; inversion H; subst. cbn. eapply parse_fs_path_ok; eauto.
    - destruct (C32.parse_fs_path cwd base input) eqn:E; [|discriminate].
      intros H; inversion H; subst. cbn. eapply parse_fs_path_ok; eauto.
    - destruct (C32.from_relative_path input) eqn:E; [|discriminate].
      intros H; inversion H; subst. cbn. eapply from_relative_path_ok; eauto.
    - destruct (C32.from_relative_path input) eqn:E; [|discriminate].
      intros H; inversion H; subst. cbn. eapply from_relative_path_ok; eauto.
  Qed.

  Fixpoint ast_rect' (P : ast -> Prop)
           (Hn : P ANone) (Ha : P AAll) (Hp : forall k i, P (APattern k i))
           (Hg : forall a, P a -> P (ANegate a))
           (Hi : forall a b, P a -> P b -> P (AIntersection a b))
           (Hd : forall a b, P a -> P b -> P (ADifference a b))
           (Hu : forall l, Forall P l -> P (AUnionAll l))
           (a : ast) : P a :=
    match a with
    | ANone => Hn
    | AAll => Ha
    | APattern k i => Hp k i
    | ANegate x => Hg x (ast_rect' P Hn Ha Hp Hg Hi Hd Hu x)
    | AIntersection x y => Hi x y (ast_rect' P Hn Ha Hp Hg Hi Hd Hu x) (ast_rect' P Hn Ha Hp Hg Hi Hd Hu y)
    | ADifference x y => Hd x y (ast_rect' P Hn Ha Hp Hg Hi Hd Hu x) (ast_rect' P Hn Ha Hp Hg Hi Hd Hu y)
    | AUnionAll l =>
        Hu l ((fix go (l : list ast) : Forall P l :=
                 match l with
                 | [] => Forall_nil P
                 | x :: t => Forall_cons x (ast_rect' P Hn Ha Hp Hg Hi Hd Hu x) (go t)
                 end) l)
    end.

  Lemma union_all_expr_ok l : forallb fexpr_ok l = true -> fexpr_ok (union_all_expr l) = true.
  Proof.
    destruct l as [|x [|y r]]; cbn; auto; rewrite andb_true_r; auto.
  Qed.

  Lemma resolve_ok a : forall e, resolve cwd base bad a = C32.Ok e -> fexpr_ok e = true.
  Proof.
    induction a as [| |k i|x IHx|x y IHx IHy|x y IHx IHy|l IH] using ast_rect'; intros e;
      cbn [resolve]; unfold rbind.
    - intros H; inversion H; reflexivity.
    - intros H; inversion H; reflexivity.
    - destruct (resolve_pattern cwd base bad k i) eqn:E; [|discriminate].
      intros H; inversion H; subst. cbn. eapply resolve_pattern_ok; eauto.
    - destruct (resolve cwd base bad x) as [ex|]; [|discriminate].
      intros H; inversion H; subst. cbn. apply IHx; auto.
    - destruct (resolve cwd base bad x) as [ex|]; [|discriminate].
      destruct (resolve cwd base bad y) as [ey|]; [|discriminate].
      intros H; inversion H; subst. cbn. rewrite IHx, IHy; auto.
    - destruct (resolve cwd base bad x) as [ex|]; [|discriminate].
      destruct (resolve cwd base bad y) as [ey|]; [|discriminate].
      intros H; inversion H; subst. cbn. rewrite IHx, IHy; auto.
    - assert (G : forall es, collect_with (resolve cwd base bad) l = C32.Ok es ->
                             forallb fexpr_ok es = true).
      { induction IH as [|x l Hx _ IHl]; intros es; cbn [collect_with]; unfold rbind.
        - intros H; inversion H; reflexivity.
        - destruct (resolve cwd base bad x) as [ex|]; [|discriminate].
          destruct (collect_with (resolve cwd base bad) l) as [et|]; [|discriminate].
          intros H; inversion H; subst. cbn. rewrite (Hx ex eq_refl), (IHl et eq_refl). reflexivity. }
      destruct (collect_with (resolve cwd base bad) l) as [es|]; [|discriminate].
      intros H; inversion H; subst. apply union_all_expr_ok. apply G. reflexivity.
  Qed.
End ResolveOk.

(** * Meaning of the checker *)
Lemma okb_spec (c : case) :
  okb c = true <->
  c_panicked c = false /\
  forall e, c_resolved c = Some e ->
    fexpr_ok e = true /\
    forall p b, In (p, b) (c_matches c) -> den (gm_table (c_globs c)) e (comps p) = b.
Proof.
  unfold okb. rewrite andb_true_iff, negb_true_iff. destruct (c_resolved c) as [e|].
  - rewrite andb_true_iff, forallb_forall. split.
    + intros [Hp [Ho H]]. split; auto. intros e' E. inversion E; subst. split; auto.
      intros p b Hin. specialize (H _ Hin). cbn in H. apply Bool.eqb_prop in H. exact H.
    + intros [Hp H]. destruct (H e eq_refl) as [Ho Hm]. repeat split; auto.
      intros [p b] Hin. cbn. rewrite (Hm _ _ Hin). apply Bool.eqb_reflx.
  - split; [intros [Hp _]; split; auto; discriminate | intros [Hp _]; auto].
Qed.

(** * The literal directory prefix of a glob *)
Lemma si_go_concat acc s : concat (si_go acc s) = rev acc ++ s.
Proof.
  revert acc; induction s as [|b t IH]; intros acc; cbn [si_go].
  - destruct acc; cbn; rewrite ?app_nil_r; reflexivity.
  - destruct (C32.is_slash b).
    + cbn [concat]. rewrite IH. cbn [rev app]. rewrite <- app_assoc. reflexivity.
    + rewrite IH. cbn [rev]. rewrite <- app_assoc. reflexivity.
Qed.

Lemma take_while_split {A} (f : A -> bool) l :
  exists r, l = C30.take_while f l ++ r /\ Forall (fun x => f x = true) (C30.take_while f l).
Proof.
  induction l as [|x l (r & E & F)]; cbn.
  - exists []. split; [reflexivity|constructor].
  - destruct (f x) eqn:H.
    + exists r. split; [cbn; congruence|constructor; auto].
    + exists (x :: l). split; [reflexivity|constructor].
Qed.

Lemma fold_len (pieces : list bytes) n :
  fold_left (fun n piece => (n + length piece)%nat) pieces n = (n + length (concat pieces))%nat.
Proof.
  revert n; induction pieces as [|x l IH]; intros n; cbn [fold_left concat].
  - cbn. lia.
  - rewrite IH, app_length. lia.
Qed.

Lemma firstn_skipn_exact {A} (a b : list A) :
  firstn (length a) (a ++ b) = a /\ skipn (length a) (a ++ b) = b.
Proof. induction a as [|x a [IH1 IH2]]; cbn; [auto|]. split; congruence. Qed.

Lemma existsb_concat {A} (f : A -> bool) (ls : list (list A)) :
  existsb f (concat ls) = existsb (existsb f) ls.
Proof. induction ls as [|l ls IH]; cbn; [reflexivity|]. rewrite existsb_app, IH. reflexivity. Qed.

(** [split_glob_path] cuts the input in two; the first part consists of whole
    '/'-terminated pieces none of which contains a stop (glob) character. *)
Lemma split_glob_path_by_spec stop input :
  fst (split_glob_path_by stop input) ++ snd (split_glob_path_by stop input) = input /\
  existsb stop (fst (split_glob_path_by stop input)) = false.
Proof.
  unfold split_glob_path_by. cbn [fst snd].
  match goal with |- context [C30.take_while ?f ?l] =>
    destruct (take_while_split f l) as (r & E & F);
    remember (C30.take_while f l) as taken eqn:T; clear T end.
  assert (I : input = concat taken ++ concat r).
  { assert (H : concat (split_inclusive input) = input)
      by (unfold split_inclusive; rewrite si_go_concat; reflexivity).
    rewrite E, concat_app in H. symmetry. exact H. }
  rewrite (fold_len taken 0). cbn [Nat.add].
  split; [apply firstn_skipn|].
  rewrite I. destruct (firstn_skipn_exact (concat taken) (concat r)) as [-> _].
  rewrite existsb_concat. clear - F. induction F as [|x l Hx _ IH]; cbn; [reflexivity|].
  apply negb_true_iff in Hx. rewrite Hx, IH. reflexivity.
Qed.

(** * What cwd-relative literal patterns denote, through the C32 characterisation *)
Lemma cwd_path_spec cwd base input p :
  C32.has_root base = true -> C32.has_root (C32.push cwd input) = true ->
  cwd_path cwd base input = C32.Ok p ->
  exists l, comps p = l /\
            C32.normalize_comps (C32.components (C32.push cwd input))
            = C32.components base ++ map C32.Normal l.
Proof.
  intros Hb Ha H. unfold cwd_path in H.
  apply Proofs.C32.parse_fs_path_spec in H as (l & E & U & ->); auto.
  exists l. split; auto. unfold comps. apply Proofs.C32.repo_components_join.
  apply Forall_forall. intros n Hn. apply Proofs.C32.good_name_wf.
  pose proof (Proofs.C32.normalize_comps_ok _ (Proofs.C32.components_ok (C32.push cwd input))) as P.
  rewrite Forall_forall in P. apply (P (C32.Normal n)). rewrite E.
  apply in_or_app. right. apply in_map. exact Hn.
Qed.

Lemma cwd_literal_denotes cwd base bad (file : bool) input pt :
  C32.has_root base = true -> C32.has_root (C32.push cwd input) = true ->
  resolve_pattern cwd base bad (if file then KCwdFile else KCwd) input = C32.Ok pt ->
  exists l,
    C32.normalize_comps (C32.components (C32.push cwd input))
    = C32.components base ++ map C32.Normal l /\
    forall gm p,
      den_pattern gm pt p =
      if file then path_eqb l p
      else match C30.strip_prefix neqb l p with Some _ => true | None => false end.
Proof.
  intros Hb Ha H. destruct file; cbn [resolve_pattern] in H; unfold rbind in H;
    destruct (cwd_path cwd base input) as [p0|] eqn:E; try discriminate;
    inversion H; subst; destruct (cwd_path_spec _ _ _ _ Hb Ha E) as (l & C & N);
    exists l; (split; [exact N|]); intros gm p; cbn [den_pattern]; rewrite C; reflexivity.
Qed.
