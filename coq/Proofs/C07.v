(** C07: the merged tree reads, path by path, as the merge of the inputs' values at that
    path; clashes; conflict-freeness; base identity; termination of the resolve loop. *)
From Verif Require Import Base.Prelude Model.Merge.
From Verif Require Import Proofs.MergeDen Proofs.C01 Proofs.C02 Proofs.TrivialMap.
From Verif Require Import Model.TreeMerge Proofs.TreeValue Proofs.TreeMerge.
From Coq Require Import Lia Arith.

(** * reading one tree along a path *)
Lemma descend_none p : descend p None = None.
Proof. destruct p; reflexivity. Qed.

Lemma descend_nondir p o : p <> [] -> is_dir o = false -> descend p o = None.
Proof. destruct p as [|n p]; [congruence|]. intros _. destruct o as [[| | |s]|]; try reflexivity. discriminate. Qed.

Lemma descend_step n p r : descend (n :: p) r = descend p (lookup n (to_tree r)).
Proof. destruct r as [[| | |s]|]; cbn [descend to_tree lookup]; try reflexivity; now rewrite descend_none. Qed.

Lemma value_at_cons n q t : value_at (n :: q) t = descend q (lookup n t).
Proof. reflexivity. Qed.

Lemma value_at_sub n q t : q <> [] -> value_at (n :: q) t = value_at q (to_tree (lookup n t)).
Proof.
  intros Hq. rewrite value_at_cons. unfold value_at.
  destruct (lookup n t) as [[| | |s]|]; cbn [to_tree]; try reflexivity;
    destruct q as [|m q]; try congruence; cbn [descend lookup]; now rewrite descend_none.
Qed.

Lemma map_to_tree_of_tree ts : map to_tree (map of_tree ts) = ts.
Proof. rewrite map_map. rewrite (map_ext _ (fun t => t)); [apply map_id|apply to_tree_of_tree]. Qed.

Section C07.
  Context (accept : bool) (content_merge : list N -> option N).
  Notation tm := (tm accept).
  Notation merge_vals := (merge_vals accept content_merge).
  Notation merge_dir := (merge_dir accept content_merge).
  Notation merge_dir_full := (merge_dir_full accept content_merge).
  Notation merge_trees := (merge_trees accept content_merge).
  Notation merge_path := (merge_path accept content_merge).
  Notation resolve_file_values := (resolve_file_values accept content_merge).
  Notation try_resolve_file_conflict := (try_resolve_file_conflict accept content_merge).
  Notation mvalue := (mvalue accept).
  Notation sub_tree := (sub_tree accept).
  Notation path_value := (path_value accept).
  Notation clash := (clash accept).
  Notation clash_above := (clash_above accept).

  (** * path_value on a resolved tree, and below a trivially resolvable merge *)
  Lemma mvalue_single s n : mvalue [s] n = [lookup n s].
  Proof. reflexivity. Qed.

  Lemma path_value_single : forall p s, p <> [] -> path_value [s] p = [value_at p s].
  Proof.
    induction p as [|n p IH]; intros s Hp; [congruence|].
    destruct p as [|m p]; [reflexivity|].
    change (path_value [s] (n :: m :: p))
      with (match sub_tree [s] n with None => [None] | Some ts' => path_value ts' (m :: p) end).
    unfold TreeMerge.sub_tree. rewrite mvalue_single, value_at_cons.
    destruct (lookup n s) as [[| | |s']|]; try (rewrite descend_nondir by (congruence || reflexivity); reflexivity).
    rewrite IH by congruence. reflexivity.
  Qed.

  (** What follows a resolved entry [r] when the path goes on. *)
  Definition continue (r : oval) (p : list N) : list oval :=
    match r with Some (Tree s) => path_value [s] p | _ => [None] end.

  Lemma continue_descend r p : p <> [] -> continue r p = [descend p r].
  Proof.
    intros Hp. unfold continue. destruct r as [[| | |s]|];
      try (rewrite descend_nondir by (assumption || reflexivity); reflexivity).
    now rewrite path_value_single.
  Qed.

  Lemma path_value_cons ts n m p :
    path_value ts (n :: m :: p)
    = match sub_tree ts n with None => [None] | Some ts' => path_value ts' (m :: p) end.
  Proof. reflexivity. Qed.

  Lemma sub_tree_resolved ts n r m p : mvalue ts n = [r] ->
    path_value ts (n :: m :: p) = continue r (m :: p).
  Proof.
    intros H. rewrite path_value_cons. unfold TreeMerge.sub_tree. rewrite H.
    destruct r as [[| | |s]|]; reflexivity.
  Qed.

  Lemma mvalue_trivial ts n r : Nat.odd (length ts) = true ->
    tm (map of_tree ts) = Some r -> mvalue ts n = [lookup n (to_tree r)].
  Proof.
    intros Hodd H. unfold TreeMerge.mvalue.
    assert (E : map (lookup n) ts = map (fun o => lookup n (to_tree o)) (map of_tree ts)).
    { rewrite map_map. apply map_ext. intros t. now rewrite to_tree_of_tree. }
    rewrite E, (tm_map accept (fun o => lookup n (to_tree o)) _ r); [reflexivity| |assumption].
    now rewrite map_length.
  Qed.

  (** A merge of directories that resolves trivially reads like its resolution. *)
  Lemma path_value_trivial ts r p : Nat.odd (length ts) = true -> p <> [] ->
    tm (map of_tree ts) = Some r -> path_value ts p = [descend p r].
  Proof.
    intros Hodd Hp H. destruct p as [|n p]; [congruence|]. rewrite descend_step.
    destruct p as [|m p].
    - cbn [TreeMerge.path_value descend]. now apply mvalue_trivial.
    - rewrite (sub_tree_resolved ts n (lookup n (to_tree r))) by now apply mvalue_trivial.
      apply continue_descend. congruence.
  Qed.

  (** * files *)
  Lemma all_some_in {A} (l : list (option A)) r : all_some l = Some r -> ~ In None l.
  Proof.
    revert r. induction l as [|[x|] t IH]; intros r H; cbn [all_some In] in *; [tauto| |discriminate].
    destruct (all_some t) eqn:E; [|discriminate]. intros [C|C]; [discriminate|]. eapply IH; eauto.
  Qed.

  Lemma try_resolve_is_file c v : try_resolve_file_conflict c = Some v -> is_dir (Some v) = false.
  Proof.
    unfold TreeMerge.try_resolve_file_conflict.
    destruct (all_some (map file_id c)), (all_some (map file_exec c)), (all_some (map file_copy c));
      try discriminate.
    destruct (trivial_merge Bool.eqb true l0); [|discriminate].
    destruct (trivial_merge N.eqb true l1); [|discriminate].
    destruct (trivial_merge N.eqb accept l); [intros H; injection H as <-; reflexivity|].
    destruct (content_merge _); [intros H; injection H as <-; reflexivity|discriminate].
  Qed.

  Lemma try_resolve_needs_files c : existsb is_dir c = true -> try_resolve_file_conflict c = None.
  Proof.
    intros H. apply existsb_exists in H as (o & Hin & Hd).
    unfold TreeMerge.try_resolve_file_conflict.
    destruct (all_some (map file_id c)) as [ids|] eqn:E; [|reflexivity].
    exfalso. apply all_some_in in E. apply E. apply in_map_iff. exists o. split; [|assumption].
    destruct o as [[| | |s]|]; try discriminate. reflexivity.
  Qed.

  (** * the sub-directory merge does not depend on the fuel handed down *)
  Lemma merge_dir_sub_full f ts n : Nat.odd (length ts) = true -> (max_tdepth ts <= f)%nat ->
    tm (map (lookup n) ts) = None -> is_tree (map (lookup n) ts) = true ->
    merge_dir f (map to_tree (map (lookup n) ts)) = merge_dir_full (map to_tree (map (lookup n) ts)).
  Proof.
    intros Hodd Hf Hn Ht.
    destruct (nontrivial_tree_has_dir accept (map (lookup n) ts)) as [s Hs]; auto; [now rewrite map_length|].
    apply in_map_iff in Hs as (t & Hl & Hin). apply to_tree_lookup_depth in Hl.
    destruct f as [|g].
    - rewrite max_tdepth_le, Forall_forall in Hf. apply Hf in Hin. lia.
    - apply merge_dir_full_fuel; [now rewrite !map_length|now apply max_tdepth_sub].
  Qed.

  Lemma mvalue_merge_dir_full f ts n : Nat.odd (length ts) = true -> (max_tdepth ts <= f)%nat ->
    mvalue (merge_dir (S f) ts) n = merge_path (map (lookup n) ts).
  Proof.
    intros Hodd Hf. rewrite mvalue_merge_dir by assumption. apply merge_vals_ext.
    intros Hn Ht. now apply merge_dir_sub_full.
  Qed.

  (** * clashes *)
  Lemma prefixes_cons {A} (x : A) p : prefixes (x :: p) = [] :: map (cons x) (prefixes p).
  Proof. reflexivity. Qed.

  Lemma existsb_map' {A B} (f : B -> bool) (g : A -> B) l :
    existsb f (map g l) = existsb (fun x => f (g x)) l.
  Proof. induction l as [|x t IH]; [reflexivity|]. cbn [map existsb]. now rewrite IH. Qed.

  Lemma existsb_ext' {A} (f g : A -> bool) l :
    (forall x, In x l -> f x = g x) -> existsb f l = existsb g l.
  Proof.
    induction l as [|x t IH]; intros H; [reflexivity|]. cbn [existsb].
    rewrite (H x (or_introl eq_refl)), IH; [reflexivity|]. intros; apply H; now right.
  Qed.

  Lemma map_value_at_one ts n : map (value_at [n]) ts = map (lookup n) ts.
  Proof. reflexivity. Qed.

  Lemma map_value_at_sub ts n q : q <> [] ->
    map (value_at (n :: q)) ts = map (value_at q) (map to_tree (map (lookup n) ts)).
  Proof. intros Hq. rewrite !map_map. apply map_ext. intros t. now apply value_at_sub. Qed.

  Lemma map_value_at_descend ts n q :
    map (value_at (n :: q)) ts = map (descend q) (map (lookup n) ts).
  Proof. rewrite map_map. reflexivity. Qed.

  Lemma clash_above_cons ts n m p :
    clash_above ts (n :: m :: p)
    = clash (map (lookup n) ts) || clash_above (map to_tree (map (lookup n) ts)) (m :: p).
  Proof.
    unfold TreeMerge.clash_above. rewrite prefixes_cons, (prefixes_cons m p).
    cbn [map existsb orb]. f_equal. rewrite !existsb_map'. apply existsb_ext'.
    intros q _. now rewrite map_value_at_sub by congruence.
  Qed.

  Lemma clash_above_one ts n : clash_above ts [n] = false.
  Proof. reflexivity. Qed.

  Lemma clash_facts vs : clash vs = true ->
    tm vs = None /\ is_tree vs = false /\ existsb is_dir (simplify oval_eqb vs) = true.
  Proof.
    unfold TreeMerge.clash. destruct (tm vs); [discriminate|].
    rewrite Bool.andb_true_iff, Bool.negb_true_iff. tauto.
  Qed.

  Lemma no_clash_facts vs : clash vs = false -> tm vs = None -> is_tree vs = false ->
    existsb is_dir (simplify oval_eqb vs) = false.
  Proof.
    unfold TreeMerge.clash. intros H E Ht. rewrite E, Ht in H. exact H.
  Qed.

  Lemma map_descend_nondir (l : list oval) p : p <> [] -> existsb is_dir l = false ->
    map (descend p) l = repeat None (length l).
  Proof.
    intros Hp. induction l as [|o t IH]; intros Hd; [reflexivity|].
    cbn [existsb] in Hd. apply Bool.orb_false_iff in Hd as [Ho Ht].
    cbn [map length repeat]. rewrite IH by assumption. f_equal. now apply descend_nondir.
  Qed.

  (** Below a conflict of non-directories (after cancellation) every input reads absent,
      up to terms that cancel. *)
  Lemma tm_below_files vs p : Nat.odd (length vs) = true -> p <> [] ->
    existsb is_dir (simplify oval_eqb vs) = false -> tm (map (descend p) vs) = Some None.
  Proof.
    intros Hodd Hp Hd.
    assert (Hs : Nat.odd (length (simplify oval_eqb vs)) = true).
    { destruct (simplify_arity oval_eqb oval_eqb_spec vs) as [A _].
      rewrite <- Nat.negb_even, A, Nat.negb_even. assumption. }
    rewrite (tm_den_only accept (map (descend p) vs) (map (descend p) (simplify oval_eqb vs))).
    - rewrite map_descend_nondir by assumption. now apply tm_repeat.
    - now rewrite map_length.
    - now rewrite map_length.
    - apply (den_map_ext oval_eqb oval_eqb oval_eqb_spec). intros v. symmetry.
      apply (simplify_den oval_eqb oval_eqb_spec).
  Qed.

  (** * C07_pathwise on the directory merge *)
  Lemma merge_path_resolved vs r : tm vs = Some r -> merge_path vs = [r].
  Proof. intros H. unfold TreeMerge.merge_path, TreeMerge.merge_vals. now rewrite H. Qed.

  Theorem pathwise_dir : forall p f ts,
    Nat.odd (length ts) = true -> (max_tdepth ts <= f)%nat -> p <> [] ->
    clash_above ts p = false ->
    path_value (merge_dir (S f) ts) p = merge_path (map (value_at p) ts).
  Proof.
    induction p as [|n p IH]; intros f ts Hodd Hf Hp Hc; [congruence|].
    destruct p as [|m p].
    - cbn [TreeMerge.path_value]. rewrite map_value_at_one. now apply mvalue_merge_dir_full.
    - rewrite clash_above_cons in Hc. apply Bool.orb_false_iff in Hc as [Hc1 Hc2].
      set (vs := map (lookup n) ts) in *.
      assert (Hvs : Nat.odd (length vs) = true) by (unfold vs; now rewrite map_length).
      pose proof (mvalue_merge_dir_full f ts n Hodd Hf) as HM. fold vs in HM.
      rewrite map_value_at_descend. fold vs.
      destruct (tm vs) as [r|] eqn:Etm.
      + (* trivially resolved entry *)
        rewrite (merge_path_resolved vs r Etm) in HM.
        rewrite (sub_tree_resolved _ n r m p HM), continue_descend by congruence.
        rewrite (merge_path_resolved _ (descend (m :: p) r)); [reflexivity|].
        now apply tm_map.
      + destruct (is_tree vs) eqn:Et.
        * (* all directories: recursion *)
          set (ts' := map to_tree vs) in *.
          assert (Hts' : Nat.odd (length ts') = true) by (unfold ts'; now rewrite map_length).
          assert (Esub : map (descend (m :: p)) vs = map (value_at (m :: p)) ts').
          { unfold ts', vs. rewrite <- map_value_at_descend. apply map_value_at_sub. congruence. }
          rewrite Esub.
          specialize (IH (max_tdepth ts') ts' Hts' (le_n _) ltac:(congruence) Hc2).
          change (merge_dir (S (max_tdepth ts')) ts') with (merge_dir_full ts') in IH.
          rewrite <- IH.
          unfold TreeMerge.merge_path, TreeMerge.merge_vals in HM. rewrite Etm, Et in HM. fold ts' in HM.
          destruct (tm (map of_tree (merge_dir_full ts'))) as [r|] eqn:Ec.
          -- rewrite (sub_tree_resolved _ n r m p HM), continue_descend by congruence.
             symmetry. apply path_value_trivial; [|congruence|assumption].
             destruct (merge_dir_length accept content_merge (S (max_tdepth ts')) ts' Hts') as [L|L];
               unfold TreeMerge.merge_dir_full; rewrite L; [reflexivity|assumption].
          -- rewrite path_value_cons. unfold TreeMerge.sub_tree. rewrite HM.
             assert (Hnt : is_tree (map of_tree (merge_dir_full ts')) = true).
             { unfold is_tree. apply Bool.andb_true_iff. split.
               - destruct (map of_tree (merge_dir_full ts')) as [|[x|] [|y t]] eqn:E; try reflexivity.
                 rewrite tm_single in Ec. discriminate.
               - apply forallb_forall. intros o Ho. apply in_map_iff in Ho as (t & <- & _).
                 destruct t; reflexivity. }
             destruct (map of_tree (merge_dir_full ts')) as [|x [|y t]] eqn:E.
             ++ apply map_eq_nil in E. rewrite E. reflexivity.
             ++ rewrite tm_single in Ec. discriminate.
             ++ destruct x as [[| | |?]|]; rewrite Hnt; rewrite <- E, map_to_tree_of_tree; reflexivity.
        * (* files (after cancellation): nothing below *)
          pose proof (no_clash_facts vs Hc1 Etm Et) as Hd.
          rewrite (merge_path_resolved _ None) by (apply tm_below_files; auto; congruence).
          unfold TreeMerge.merge_path, TreeMerge.merge_vals in HM. rewrite Etm, Et in HM.
          unfold TreeMerge.resolve_file_values in HM.
          destruct (try_resolve_file_conflict (simplify oval_eqb vs)) as [v|] eqn:Ef.
          -- rewrite tm_single in HM. rewrite (sub_tree_resolved _ n (Some v) m p HM).
             apply try_resolve_is_file in Ef. destruct v; try reflexivity. discriminate.
          -- rewrite Etm in HM. rewrite path_value_cons. unfold TreeMerge.sub_tree. rewrite HM.
             destruct vs as [|x [|y t]] eqn:E; [discriminate Hvs| |].
             ++ rewrite tm_single in Etm. discriminate.
             ++ destruct x as [[| | |?]|]; now rewrite Et.
  Qed.

  (** * C07_pathwise for merge_trees *)
  Lemma merge_path_single x : merge_path [x] = [x].
  Proof. reflexivity. Qed.

  Theorem pathwise ts p :
    Nat.odd (length ts) = true -> p <> [] -> clash_above ts p = false ->
    path_value (merge_trees ts) p = merge_path (map (value_at p) ts).
  Proof.
    intros Hodd Hp Hc. unfold TreeMerge.merge_trees.
    destruct ts as [|t [|t2 r]].
    - discriminate.
    - rewrite path_value_single by assumption. reflexivity.
    - apply pathwise_dir; auto.
  Qed.

  (** * C07_clash *)
  Definition descendable (vs : list oval) : bool :=
    match vs with
    | [Some (Tree _)] => true
    | [_] => false
    | _ => is_tree vs
    end.

  Lemma sub_tree_none ts n : descendable (mvalue ts n) = false -> sub_tree ts n = None.
  Proof.
    unfold TreeMerge.sub_tree, descendable.
    destruct (mvalue ts n) as [|[[| | |s]|] [|y t]]; intros H; try reflexivity; try discriminate;
      now rewrite H.
  Qed.

  Lemma path_value_below : forall q ts p, q <> [] -> p <> [] ->
    descendable (path_value ts q) = false -> path_value ts (q ++ p) = [None].
  Proof.
    induction q as [|n q IH]; intros ts p Hq Hp Hd; [congruence|].
    destruct p as [|m p]; [congruence|].
    destruct q as [|k q].
    - cbn [app]. rewrite path_value_cons. cbn [TreeMerge.path_value] in Hd.
      now rewrite sub_tree_none.
    - cbn [app] in *. rewrite path_value_cons in *.
      destruct (sub_tree ts n) as [ts'|]; [|reflexivity].
      change (k :: q ++ m :: p) with ((k :: q) ++ m :: p).
      apply IH; [congruence|congruence|assumption].
  Qed.

  Lemma merge_path_clash vs : clash vs = true -> merge_path vs = vs.
  Proof.
    intros H. apply clash_facts in H as (Hn & Ht & Hd).
    unfold TreeMerge.merge_path, TreeMerge.merge_vals, TreeMerge.resolve_file_values.
    rewrite Hn, Ht, (try_resolve_needs_files _ Hd), Hn. reflexivity.
  Qed.

  Lemma clash_not_descendable vs : clash vs = true -> descendable vs = false.
  Proof.
    intros H. apply clash_facts in H as (Hn & Ht & _). unfold descendable.
    destruct vs as [|[[| | |s]|] [|y t]]; try reflexivity; try assumption;
      rewrite tm_single in Hn; discriminate.
  Qed.

  Theorem clash_theorem ts q :
    Nat.odd (length ts) = true -> q <> [] -> clash_above ts q = false ->
    clash (map (value_at q) ts) = true ->
    path_value (merge_trees ts) q = map (value_at q) ts
    /\ forall p, p <> [] -> path_value (merge_trees ts) (q ++ p) = [None].
  Proof.
    intros Hodd Hq Hc Hcl.
    assert (E : path_value (merge_trees ts) q = map (value_at q) ts).
    { rewrite pathwise by assumption. now apply merge_path_clash. }
    split; [assumption|]. intros p Hp. apply path_value_below; auto.
    rewrite E. now apply clash_not_descendable.
  Qed.

  (** * arity, conflict-freeness *)
  Theorem merge_trees_length ts : Nat.odd (length ts) = true ->
    length (merge_trees ts) = 1%nat \/ length (merge_trees ts) = length ts.
  Proof.
    intros Hodd. unfold TreeMerge.merge_trees. destruct ts as [|t [|t2 r]]; [discriminate|now left|].
    now apply merge_dir_length.
  Qed.

  Lemma is_single_length {A} (l : list A) : is_single l = true <-> length l = 1%nat.
  Proof. destruct l as [|x [|y t]]; cbn; split; congruence. Qed.

  Theorem conflict_free_iff ts : Nat.odd (length ts) = true ->
    (is_single (merge_trees ts) = true <->
     forall p, p <> [] -> is_single (path_value (merge_trees ts) p) = true).
  Proof.
    intros Hodd. split.
    - intros H p Hp. destruct (merge_trees ts) as [|s [|]]; try discriminate.
      now rewrite path_value_single.
    - intros H. unfold TreeMerge.merge_trees in *. destruct ts as [|t [|t2 r]]; [discriminate|reflexivity|].
      set (ts := t :: t2 :: r) in *. unfold TreeMerge.merge_dir_full in *.
      set (f := max_tdepth ts) in *. rewrite merge_dir_S in *.
      set (F := fun n => merge_vals (merge_dir f) (map (lookup n) ts)) in *.
      pose proof (merge_dir_shaped' accept content_merge f ts Hodd) as Hs. fold F in Hs.
      unfold assemble in *.
      destruct (filter (fun e => negb (is_single (snd e))) (es_of F (names ts))) as [|c rest] eqn:E;
        [reflexivity|exfalso].
      assert (Hc : In c (filter (fun e => negb (is_single (snd e))) (es_of F (names ts))))
        by (rewrite E; now left).
      apply filter_In in Hc as [Hin Hns]. apply in_map_iff in Hin as (k & <- & Hk). cbn [snd] in Hns.
      specialize (H [k] ltac:(congruence)). cbn [TreeMerge.path_value] in H.
      pose proof (mvalue_assemble accept F (length ts) Hodd (names ts) k Hs) as HM.
      unfold assemble in HM. rewrite E in HM. rewrite HM in H.
      destruct (in_dec N.eq_dec k (names ts)); [|contradiction].
      rewrite H in Hns. discriminate.
  Qed.

  (** * the resolve loop terminates *)
  Notation resolve_loop := (resolve_loop accept content_merge).

  Lemma odd_le_pred a b : Nat.odd a = true -> Nat.odd b = true -> (a <= b)%nat -> a <> b -> (S (S a) <= b)%nat.
  Proof.
    intros Ha Hb Hle Hne. destruct (Nat.eq_dec (S a) b) as [<-|]; [|lia].
    rewrite Nat.odd_succ, <- Nat.negb_odd, Ha in Hb. discriminate.
  Qed.

  Theorem resolve_loop_fuel : forall f f' ts, Nat.odd (length ts) = true ->
    (length ts <= f)%nat -> (length ts <= f')%nat -> resolve_loop f ts = resolve_loop f' ts.
  Proof.
    induction f as [|f IH]; intros f' ts Hodd Hf Hf'.
    - destruct ts; [discriminate|cbn [length] in Hf; lia].
    - destruct f' as [|f']; [destruct ts; [discriminate|cbn [length] in Hf'; lia]|].
      cbn [TreeMerge.resolve_loop].
      destruct (is_single (merge_trees ts)) eqn:Es; [reflexivity|].
      destruct (Nat.eqb_spec (length (simplify tree_eqb (merge_trees ts))) (length (merge_trees ts)))
        as [|Hne]; [reflexivity|].
      destruct (merge_trees_length ts Hodd) as [L|L]; [apply is_single_length in L; congruence|].
      destruct (simplify_arity tree_eqb tree_eqb_spec (merge_trees ts)) as [A B].
      assert (Hm : Nat.odd (length (merge_trees ts)) = true) by now rewrite L.
      assert (Hso : Nat.odd (length (simplify tree_eqb (merge_trees ts))) = true).
      { rewrite <- Nat.negb_even, A, Nat.negb_even. assumption. }
      pose proof (odd_le_pred _ _ Hso Hm B Hne).
      apply IH; [assumption|lia|lia].
  Qed.

  (** Every round but the last starts from strictly fewer sides. *)
  Theorem resolve_round_decreases ts : Nat.odd (length ts) = true ->
    let m := merge_trees ts in
    is_single m = false -> length (simplify tree_eqb m) <> length m ->
    (length (simplify tree_eqb m) < length ts)%nat.
  Proof.
    intros Hodd m Hs Hne.
    destruct (merge_trees_length ts Hodd) as [L|L]; [apply is_single_length in L; subst m; congruence|].
    destruct (simplify_arity tree_eqb tree_eqb_spec m) as [_ B]. subst m. lia.
  Qed.
End C07.

(** * simplify on three terms: the base identities *)
Section Simplify3.
  Context {T : Type} (eqb : T -> T -> bool).
  Hypothesis eqb_spec : forall x y, eqb x y = true <-> x = y.

  Lemma simplify_abb a b : simplify eqb [a; b; b] = [a].
  Proof.
    unfold simplify, simplified_pairs. cbn [length enumerate_from].
    destruct (eq_dec eqb eqb_spec a b) as [->|Hne].
    - cbn. rewrite !(eqb_refl eqb eqb_spec). cbn. reflexivity.
    - cbn. rewrite (eqb_false eqb eqb_spec b a) by congruence. cbn.
      rewrite !(eqb_refl eqb eqb_spec). cbn. reflexivity.
  Qed.

  Lemma simplify_bba a b : simplify eqb [b; b; a] = [a].
  Proof.
    unfold simplify, simplified_pairs. cbn [length enumerate_from].
    cbn. rewrite !(eqb_refl eqb eqb_spec). cbn. reflexivity.
  Qed.
End Simplify3.

Section Identity.
  Context (accept : bool) (content_merge : list N -> option N).

  Lemma resolve_resolved t : resolve accept content_merge [t] = [t].
  Proof. reflexivity. Qed.

  Theorem base_identity_left a b : merged_tree_merge accept content_merge [[a]; [b]; [b]] = [a].
  Proof.
    unfold merged_tree_merge, merge_no_resolve. cbn [flatten flatten_rest neg_inner rotate_left1 swap_pairs app].
    rewrite (simplify_abb tree_eqb tree_eqb_spec). apply resolve_resolved.
  Qed.

  Theorem base_identity_right a b : merged_tree_merge accept content_merge [[b]; [b]; [a]] = [a].
  Proof.
    unfold merged_tree_merge, merge_no_resolve. cbn [flatten flatten_rest neg_inner rotate_left1 swap_pairs app].
    rewrite (simplify_bba tree_eqb tree_eqb_spec). apply resolve_resolved.
  Qed.

  (** merge_no_resolve keeps every tree's net count (outer adds minus outer removes), hence
      the net count of every value at every path. *)
  Theorem merge_no_resolve_den (mm : list (list tree)) :
    Nat.odd (length mm) = true -> Forall (fun m => Nat.odd (length m) = true) mm ->
    forall t, den tree_eqb (merge_no_resolve mm) t = den_nested tree_eqb mm t.
  Proof.
    intros H1 H2 t. unfold merge_no_resolve.
    rewrite (simplify_den tree_eqb tree_eqb_spec). now apply flatten_den.
  Qed.

  Theorem merge_no_resolve_den_at (mm : list (list tree)) p :
    forall v, den oval_eqb (map (value_at p) (merge_no_resolve mm)) v
              = den oval_eqb (map (value_at p) (flatten mm)) v.
  Proof.
    apply (den_map_ext tree_eqb oval_eqb tree_eqb_spec). intros t.
    apply (simplify_den tree_eqb tree_eqb_spec).
  Qed.
End Identity.

(** * meaning of the checker applied to the implementation's outputs *)
From Verif Require Import Model.TreeCase Model.C07.

Lemma list_eqb_spec {A} (eqb : A -> A -> bool) :
  (forall x y, eqb x y = true <-> x = y) -> forall l1 l2, list_eqb eqb l1 l2 = true <-> l1 = l2.
Proof.
  intros Hs. induction l1 as [|x t IH]; intros [|y u]; cbn [list_eqb]; try (split; [discriminate|congruence]);
    [tauto|].
  rewrite Bool.andb_true_iff, Hs, IH. split; [intros [-> ->]; reflexivity|intros H; injection H; auto].
Qed.

Lemma trees_eqb_spec l1 l2 : trees_eqb l1 l2 = true <-> l1 = l2.
Proof. apply list_eqb_spec, tree_eqb_spec. Qed.
Lemma ovals_eqb_spec l1 l2 : ovals_eqb l1 l2 = true <-> l1 = l2.
Proof. apply list_eqb_spec, oval_eqb_spec. Qed.

Section CheckerSpec.
  Context (accept : bool) (content_merge : list N -> option N).

  (** The value recorded at every listed path is the one C07_pathwise / C07_clash prescribe. *)
  Definition values_ok_P (ts : list tree) (vals : list (list N * list oval)) : Prop :=
    forall p vs, In (p, vs) vals -> p <> [] -> vs = expected_value accept content_merge ts p.
  Definition flag_ok_P (merged : list tree) (vals : list (list N * list oval)) : Prop :=
    is_single merged = true <-> forall p vs, In (p, vs) vals -> is_single vs = true.
  Definition final_ok_P (merged result : list tree) : Prop :=
    if is_single merged then result = merged
    else (length result <= length merged)%nat /\ Nat.odd (length result) = true
         /\ (is_single result = true
             \/ (simplify tree_eqb result = result
                 /\ merge_trees accept content_merge result = result)).
  Definition identity_ok_P (inputs : list (list tree)) (result : list tree) : Prop :=
    forall a b c, inputs = [[a]; [b]; [c]] -> (b = c -> result = [a]) /\ (a = b -> result = [c]).

  Lemma values_ok_spec ts vals : values_ok accept content_merge ts vals = true <-> values_ok_P ts vals.
  Proof.
    unfold values_ok, values_ok_P. rewrite forallb_forall. split.
    - intros H p vs Hin Hp. specialize (H _ Hin). cbn [fst snd] in H.
      destruct p; [congruence|]. now apply ovals_eqb_spec.
    - intros H [p vs] Hin. cbn [fst snd]. destruct p as [|n p]; [reflexivity|].
      apply ovals_eqb_spec. apply H; [assumption|congruence].
  Qed.

  Lemma flag_ok_spec merged vals : flag_ok merged vals = true <-> flag_ok_P merged vals.
  Proof.
    unfold flag_ok, flag_ok_P. rewrite Bool.eqb_true_iff.
    assert (E : forallb (fun pv : list N * list oval => is_single (snd pv)) vals = true
                <-> forall p vs, In (p, vs) vals -> is_single vs = true).
    { rewrite forallb_forall. split; [intros H p vs Hin; apply (H _ Hin)|intros H [p vs] Hin; apply (H p vs Hin)]. }
    rewrite <- E. destruct (is_single merged), (forallb _ vals); intuition congruence.
  Qed.

  Lemma final_ok_spec merged result :
    final_ok accept content_merge merged result = true <-> final_ok_P merged result.
  Proof.
    unfold final_ok, final_ok_P. destruct (is_single merged); [apply trees_eqb_spec|].
    rewrite !Bool.andb_true_iff, Bool.orb_true_iff, Bool.andb_true_iff, Nat.leb_le, !trees_eqb_spec.
    tauto.
  Qed.

  Lemma identity_ok_spec inputs result : identity_ok inputs result = true <-> identity_ok_P inputs result.
  Proof.
    unfold identity_ok, identity_ok_P.
    destruct inputs as [|[|a [|? ?]] [|[|b [|? ?]] [|[|c [|? ?]] [|? ?]]]];
      try (split; [intros _ a' b' c' H; discriminate H|reflexivity]).
    rewrite Bool.andb_true_iff, !Bool.orb_true_iff, !Bool.negb_true_iff, !trees_eqb_spec. split.
    - intros [H1 H2] a' b' c' H. injection H as <- <- <-. split; intros ->.
      + destruct H1 as [H1|H1]; [|assumption]. pose proof (proj2 (tree_eqb_spec c c) eq_refl). congruence.
      + destruct H2 as [H2|H2]; [|assumption]. pose proof (proj2 (tree_eqb_spec b b) eq_refl). congruence.
    - intros H. destruct (H a b c eq_refl) as [H1 H2]. split.
      + destruct (tree_eqb b c) eqn:E; [right; apply H1; now apply tree_eqb_spec|now left].
      + destruct (tree_eqb a b) eqn:E; [right; apply H2; now apply tree_eqb_spec|now left].
  Qed.
End CheckerSpec.

Theorem okb_spec (c : case) :
  okb c = true <->
  exists m r, c_merged c = Some m /\ c_result c = Some r /\
    let tab := c_tab c in
    let orc := oracle_of (c_oracle c) in
    values_ok_P (c_accept c) orc (map (dec tab) (c_unresolved c)) (dec_values c)
    /\ flag_ok_P (map (dec tab) m) (dec_values c)
    /\ final_ok_P (c_accept c) orc (map (dec tab) m) (map (dec tab) r)
    /\ identity_ok_P (dec_inputs c) (map (dec tab) r).
Proof.
  unfold okb. destruct (c_merged c) as [m|], (c_result c) as [r|];
    try (split; [discriminate|intros (m' & r' & H1 & H2 & _); discriminate]).
  rewrite !Bool.andb_true_iff, values_ok_spec, flag_ok_spec, final_ok_spec, identity_ok_spec.
  split.
  - intros (((A & B) & C) & D). exists m, r. cbn zeta. tauto.
  - intros (m' & r' & E1 & E2 & H). injection E1 as <-. injection E2 as <-. cbn zeta in H. tauto.
Qed.
