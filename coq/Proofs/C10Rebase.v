(** C10: the state invariant through rewrite records and rebase_descendants. *)
From Verif Require Import Base.Prelude Base.DagV Model.Merge Model.RepoV Model.C10 Model.C11
  Proofs.C10 Proofs.C11 Proofs.C11Loop Proofs.C11Refs Proofs.C11View Proofs.C11Follow.
From Coq Require Import Lia Arith.

(** * The loop *)
Lemma J_rebase_one st o x st' : J st -> rebase_one st o x = Ok st' -> J st'.
Proof.
  intros Js H. unfold rebase_one in H.
  set (c := getc (s_g st) x) in *.
  destruct (new_parents (s_pm st) (c_parents c)) as [np| | |] eqn:Hnp; cbn [bind] in H; try discriminate.
  destruct (rewritten_ids_with_result _ _ _ _ Hnp) as [NE Src].
  assert (Lx : x < length (s_g st)).
  { destruct (Nat.lt_ge_cases x (length (s_g st))) as [L|L]; [assumption|]. exfalso.
    unfold c, getc in Hnp. rewrite nth_overflow in Hnp by assumption. cbn in Hnp. discriminate. }
  assert (Rnp : forall q, In q np -> q < length (s_g st)).
  { intros q Hq. destruct (Src q Hq) as [_ [Hp|[k [r [Hin Ht]]]]].
    - unfold c in Hp. rewrite <- parents_pg in Hp. apply (j_wf _ Js) in Hp. lia.
    - destruct (j_pm _ Js k r Hin) as [_ R]. now apply R. }
  destruct (list_nat_eqb np (c_parents c)); [apply Ok_inj in H; now subst|].
  set (np' := if o_simplify o then filter (fun p => memn p (heads_of (pg (s_g st)) np)) np else np) in *.
  assert (Sub : forall q, In q np' -> In q np).
  { unfold np'. destruct (o_simplify o); [|auto]. intros q Hq. apply filter_In in Hq. apply Hq. }
  assert (NE' : np' <> []).
  { unfold np'. destruct (o_simplify o); [|assumption]. apply simplify_filter_nonempty; [apply (j_wf _ Js)|assumption]. }
  match type of H with (if ?b then _ else _) = _ => destruct b end; apply Ok_inj in H; subst st'.
  - apply J_pm_set; [assumption|assumption|]. cbn [new_parent_ids]. intros t Ht. apply Rnp. now apply Sub.
  - apply J_write_commit; [assumption|exact NE'|intros p Hp; apply Rnp; now apply Sub|].
    intros o' E. injection E as <-. assumption.
Qed.

Lemma J_rebase_fold o order : forall st st', J st -> rebase_fold o order st = Ok st' -> J st'.
Proof.
  unfold rebase_fold. intros st st' Js H.
  refine (fold_res_inv (fun s x => rebase_one s o x) J order _ st st' Js H).
  intros a b a' Ja _ Hf. eapply J_rebase_one; eassumption.
Qed.

(** * Record operations *)
Definition record_op_okb (s : state) (o : op) : bool :=
  match o with
  | ORewrite old ps _ => ids_ok s [old] && match ps with Some l => ids_ok s l | None => true end
  | OAbandon old => ids_ok s [old]
  | OAbandonWith old ps => ids_ok s (old :: ps)
  | OSetRewritten old new => ids_ok s [old; new]
  | ODivergent old news => ids_ok s (old :: news)
  | _ => false
  end.

Lemma J_step_record s o s' : J s -> record_op_okb s o = true -> step s o = Ok s' -> J s'.
Proof.
  intros Js G H. destruct o; cbn [record_op_okb] in G; try discriminate; cbn [step] in H.
  - (* ORewrite *)
    apply andb_true_iff in G. destruct G as [G1 G2].
    pose proof (proj1 (ids_ok_spec s [old]) G1 old (or_introl eq_refl)) as Lo.
    destruct (old =? 0); [discriminate|].
    set (ps' := match ps with Some l => l | None => c_parents (getc (s_g s) old) end) in *.
    destruct ps' as [|p0 pt] eqn:E; [discriminate|]. apply Ok_inj in H. subst s'.
    apply J_write_commit; [assumption|discriminate| |intros o' Eo; injection Eo as <-; assumption].
    cbn [c_parents]. intros p Hp. rewrite <- E in Hp. unfold ps' in Hp. destruct ps as [l|].
    + now apply (proj1 (ids_ok_spec s l) G2).
    + rewrite <- parents_pg in Hp. apply (j_wf _ Js) in Hp. lia.
  - destruct (old =? 0); [discriminate|]. apply Ok_inj in H. subst s'.
    pose proof (proj1 (ids_ok_spec s [old]) G old (or_introl eq_refl)) as Lo.
    apply J_pm_set; [assumption|assumption|]. cbn [new_parent_ids]. intros t Ht.
    rewrite <- parents_pg in Ht. apply (j_wf _ Js) in Ht. lia.
  - destruct (old =? 0); [discriminate|]. apply Ok_inj in H. subst s'.
    pose proof (proj1 (ids_ok_spec s (old :: ps)) G) as R.
    apply J_pm_set; [assumption|apply R; now left|]. cbn [new_parent_ids]. intros t Ht. apply R. now right.
  - destruct (old =? 0); [discriminate|]. apply Ok_inj in H. subst s'.
    pose proof (proj1 (ids_ok_spec s [old; new]) G) as R.
    apply J_pm_set; [assumption|apply R; now left|]. cbn [new_parent_ids]. intros t [<-|[]]. apply R. right. now left.
  - destruct (old =? 0); [discriminate|]. apply Ok_inj in H. subst s'.
    pose proof (proj1 (ids_ok_spec s (old :: news)) G) as R.
    apply J_pm_set; [assumption|apply R; now left|]. cbn [new_parent_ids]. intros t Ht. apply R. now right.
Qed.

(** * States reachable by the basic mutations and the record operations (before a rebase) *)
Inductive reach_pre : state -> Prop :=
| rp_init : reach_pre init_state
| rp_basic s o s' : reach_pre s -> basic_op_okb s o = true -> step s o = Ok s' -> reach_pre s'
| rp_record s o s' : reach_pre s -> record_op_okb s o = true -> step s o = Ok s' -> reach_pre s'.

Theorem reach_pre_J s : reach_pre s -> J s.
Proof.
  induction 1; [apply J_init|eapply J_step_basic; eassumption|eapply J_step_record; eassumption].
Qed.

(** The invariant also survives the loop of rebase_descendants (every ordering). *)
Theorem J_rebase_loop ord s o s1 : J s -> rebase_loop_with ord s o = Ok s1 -> J s1.
Proof.
  intros Js H. unfold rebase_loop_with in H.
  destruct (ord _ _ _) as [order| | |]; cbn [bind] in H; try discriminate.
  eapply J_rebase_fold; eassumption.
Qed.

(** * The reference updates keep the invariant *)
Lemma J_merge_bookmark st name old other : J st ->
  Nat.odd (length (bm_get (s_v st) name)) = true -> Nat.odd (length other) = true ->
  (forall c, In c (added_ids other) -> c < length (s_g st)) ->
  J (merge_local_bookmark st name [Some old] other).
Proof.
  intros Js OS O R. unfold merge_local_bookmark.
  destruct (merge_ref_targets_facts (pg (s_g st)) (bm_get (s_v st) name) other old OS O) as [_ AT].
  apply J_set_local_bookmark_target; [assumption|].
  intros c Hc. apply added_ids_In in Hc. destruct (AT _ Hc) as [H|H]; apply added_ids_In in H; [|auto].
  unfold bm_get in H. destruct (aget N.eqb name (v_bms (s_v st))) as [t|] eqn:E; [|destruct H].
  apply (aget_In N.eqb Neqb_spec) in E. now apply (j_bms _ Js name t c E).
Qed.

(** Odd arity of every stored target is preserved by the bookmark updates. *)
Definition bms_odd (st : state) : Prop :=
  forall name t, In (name, t) (v_bms (s_v st)) -> Nat.odd (length t) = true.

Lemma bm_get_odd st name : bms_odd st -> Nat.odd (length (bm_get (s_v st) name)) = true.
Proof.
  intros O. unfold bm_get. destruct (aget N.eqb name (v_bms (s_v st))) as [t|] eqn:E; [|reflexivity].
  apply (aget_In N.eqb Neqb_spec) in E. eapply O; eassumption.
Qed.

Lemma bms_odd_set st name t : bms_odd st -> Nat.odd (length t) = true ->
  bms_odd (set_local_bookmark_target st name t).
Proof.
  intros O Ot name' t' Hin. unfold set_local_bookmark_target in Hin. cbn [set_view s_v v_bms] in Hin.
  rewrite fold_add_head_bms in Hin. destruct (is_absent t).
  - apply (adel_In N.eqb) in Hin. eapply O; eassumption.
  - apply (aset_In N.eqb N.ltb) in Hin. destruct Hin as [E|Hin]; [injection E as -> ->; assumption|eapply O; eassumption].
Qed.

Lemma J_update_local_bookmarks st mapping del st' :
  J st -> bms_odd st ->
  (forall k nids, aget Nat.eqb k mapping = Some nids -> forall z, In z nids -> z < length (s_g st)) ->
  update_local_bookmarks st mapping del = Ok st' ->
  J st' /\ bms_odd st' /\ s_g st' = s_g st /\ s_pm st' = s_pm st /\ v_wcs (s_v st') = v_wcs (s_v st).
Proof.
  intros Js Os R H.
  destruct (update_local_bookmarks_fields _ _ _ _ H) as [W [P G]].
  unfold update_local_bookmarks in H.
  match type of H with fold_left _ ?l _ = _ => set (changed := l) in * end.
  assert (Hch : forall name oldc nids, In (name, oldc, nids) changed -> aget Nat.eqb oldc mapping = Some nids).
  { intros name oldc nids Hin. unfold changed in Hin. apply in_flat_map in Hin.
    destruct Hin as [[nm t] [_ Hin]]. apply in_flat_map in Hin. destruct Hin as [id [_ Hin]].
    destruct (aget Nat.eqb id mapping) as [ns|] eqn:E; [|contradiction].
    destruct Hin as [Hin|[]]. injection Hin as <- <- <-. assumption. }
  assert (Q : J st' /\ bms_odd st' /\ s_g st' = s_g st).
  { refine (fold_res_inv (fun (s1' : state) (ch : N * nat * list nat) => _)
              (fun s => J s /\ bms_odd s /\ s_g s = s_g st) changed _ st st' (conj Js (conj Os eq_refl)) H).
    intros a [[name oldc] nids] a' [Ja [Oa Ga]] Hin Hf. cbv beta iota in Hf.
    assert (M : forall other, Nat.odd (length other) = true ->
                 (forall c, In c (added_ids other) -> c < length (s_g a)) ->
                 let a2 := merge_local_bookmark a name [Some oldc] other in
                 J a2 /\ bms_odd a2 /\ s_g a2 = s_g st).
    { intros other Oo Ro. cbv zeta. split; [|split].
      - apply J_merge_bookmark; auto. now apply bm_get_odd.
      - unfold merge_local_bookmark. apply bms_odd_set; [assumption|].
        apply (merge_ref_targets_facts (pg (s_g a)) (bm_get (s_v a) name) other oldc); [now apply bm_get_odd|assumption].
      - unfold merge_local_bookmark. destruct (set_local_bookmark_fields a name
          (merge_ref_targets (pg (s_g a)) (bm_get (s_v a) name) [Some oldc] other)) as [_ [_ X]]. now rewrite X. }
    destruct (del && is_abandoned (pm_get (s_pm a) oldc)).
    - apply Ok_inj in Hf. subst a'. apply M; [reflexivity|intros c []].
    - destruct nids as [|n ns]; [discriminate|]. apply Ok_inj in Hf. subst a'.
      destruct (intersperse_facts (map Some (n :: ns)) (Some oldc)) as [IE IO]; [discriminate|].
      apply M; [assumption|]. intros c Hc. apply added_ids_In in Hc. rewrite IE in Hc. apply in_map_iff in Hc.
      destruct Hc as [z [E Hz]]. injection E as ->. rewrite Ga. eapply R; [apply (Hch _ _ _ Hin)|exact Hz]. }
  destruct Q as [A [B C]]. auto.
Qed.

Lemma J_update_wc_commits st mapping st' :
  J st ->
  (forall k nids, aget Nat.eqb k mapping = Some nids -> nids <> [] /\ forall z, In z nids -> z < length (s_g st)) ->
  update_wc_commits st mapping = Ok st' ->
  J st' /\ v_bms (s_v st') = v_bms (s_v st).
Proof.
  intros Js R H. pose proof (update_wc_commits_bms _ _ _ H) as B. split; [|assumption].
  rewrite update_wc_commits_eq in H.
  match type of H with (do r <- fold_left _ ?l _; _) = _ => set (changed := l) in * end.
  assert (Hch : forall ws oldc nids, In (ws, oldc, nids) changed -> aget Nat.eqb oldc mapping = Some nids).
  { intros ws oldc nids Hin. unfold changed in Hin. apply in_flat_map in Hin.
    destruct Hin as [[w c] [_ Hin]]. cbn [fst snd] in Hin.
    destruct (aget Nat.eqb c mapping) as [ns|] eqn:E; [|contradiction].
    destruct Hin as [Hin|[]]. injection Hin as <- <- <-. assumption. }
  destruct (fold_left uwc_step changed (Ok (st, []))) as [[sf rec]| | |] eqn:F; cbn [bind] in H; try discriminate.
  apply Ok_inj in H. cbn [fst] in H. subst st'.
  set (Q := fun sr : state * list (nat * nat) =>
              J (fst sr) /\ length (s_g st) <= length (s_g (fst sr)) /\
              forall k c, aget Nat.eqb k (snd sr) = Some c -> c < length (s_g (fst sr)) /\ c <> 0).
  assert (HQ : Q (sf, rec)).
  { unfold uwc_step in F.
    refine (fold_res_inv (fun (sr : state * list (nat * nat)) (ch : N * nat * list nat) => _) Q changed _ (st, []) (sf, rec) _ F).
    - intros [a recr] [[ws oldc] nids] a' [Ja [La Ra]] Hin Hf. cbn [fst snd] in *. cbv beta iota in Hf.
      destruct (R _ _ (Hch _ _ _ Hin)) as [NE Rn].
      match type of Hf with (do sw <- ?X; _) = _ => destruct X as [[[s2 rec2] new_wc]| | |] eqn:EX end;
        cbn [bind] in Hf; try discriminate.
      assert (Hs2 : Q (s2, rec2) /\ new_wc < length (s_g s2)).
      { destruct (negb (is_abandoned (pm_get (s_pm a) oldc))).
        - destruct nids as [|n ns]; [discriminate|]. apply Ok_inj in EX. injection EX as <- <- <-.
          split; [split; [assumption|split; assumption]|]. specialize (Rn n (or_introl eq_refl)). cbn [fst]. lia.
        - destruct (aget Nat.eqb oldc recr) as [cc|] eqn:ER.
          + apply Ok_inj in EX. injection EX as <- <- <-. split; [split; [assumption|split; assumption]|].
            apply (Ra _ _ ER).
          + destruct nids as [|n ns]; [discriminate|]. set (nids := n :: ns) in *.
            destruct (J_write_commit a (fresh_commit (s_g a) nids 0 true) None Ja) as [Jw [Ew [Lw _]]];
              [discriminate|intros p Hp; specialize (Rn p Hp); lia|discriminate|].
            destruct (write_commit a (fresh_commit (s_g a) nids 0 true) None) as [sw nw] eqn:EW.
            cbn [fst snd] in *. subst nw. apply Ok_inj in EX. injection EX as <- <- <-.
            split; [|lia]. split; [assumption|]. split; [cbn [fst]; lia|].
            intros k c Hk. cbn [fst snd] in *. destruct (Nat.eq_dec k oldc) as [->|Nk].
            * rewrite aget_aset_same in Hk. injection Hk as <-. pose proof (j_ne _ Ja). split; lia.
            * rewrite aget_aset_other in Hk by assumption. destruct (Ra _ _ Hk). split; [lia|assumption]. }
      destruct Hs2 as [[J2 [L2 R2]] Lw]. cbn [fst snd] in *.
      destruct (edit s2 ws new_wc) as [s3|] eqn:EE; [|discriminate]. apply Ok_inj in Hf. subst a'.
      cbn [fst snd]. pose proof (edit_graph _ _ _ _ EE) as G3. split; [|split].
      + eapply J_edit; eassumption.
      + cbn [fst]. rewrite G3. assumption.
      + intros k c Hk. cbn [fst snd] in *. rewrite G3. exact (R2 k c Hk).
    - split; [exact Js|]. split; [cbn [fst]; lia|]. intros k c Hk. discriminate. }
  apply HQ.
Qed.
