(** C10: the state invariant through rewrite records and rebase_descendants. *)
From Verif Require Import Base.Prelude Base.DagV Model.Merge Model.RepoV Model.C10 Model.C11
  Proofs.C10 Proofs.C11 Proofs.C11Loop Proofs.C11Refs Proofs.C11View Proofs.C11Follow.
From Coq Require Import Lia Arith.

(** * The loop *)
Lemma J_rebase_one st o x st' : J st -> rebase_one st o x = Ok st' -> J st'.
Proof.
  intros Js H. unfold rebase_one in H.
  set (c := getc (s_g st) x) in *.
  destruct (new_parents (s_pm st) (c_parents c)) as [np| | |] eqn:Hnp; cbn [bind] in H; try discriminate.
  destruct (rewritten_ids_with_result _ _ _ _ Hnp) as [NE Src].
  assert (Lx : x < length (s_g st)).
  { destruct (Nat.lt_ge_cases x (length (s_g st))) as [L|L]; [assumption|]. exfalso.
    unfold c, getc in Hnp. rewrite nth_overflow in Hnp by assumption. cbn in Hnp. discriminate. }
  assert (Rnp : forall q, In q np -> q < length (s_g st)).
  { intros q Hq. destruct (Src q Hq) as [_ [Hp|[k [r [Hin Ht]]]]].
    - unfold c in Hp. rewrite <- parents_pg in Hp. apply (j_wf _ Js) in Hp. lia.
    - destruct (j_pm _ Js k r Hin) as [_ R]. now apply R. }
  destruct (list_nat_eqb np (c_parents c)); [apply Ok_inj in H; now subst|].
  set (np' := if o_simplify o then filter (fun p => memn p (heads_of (pg (s_g st)) np)) np else np) in *.
  assert (Sub : forall q, In q np' -> In q np).
  { unfold np'. destruct (o_simplify o); [|auto]. intros q Hq. apply filter_In in Hq. apply Hq. }
  assert (NE' : np' <> []).
  { unfold np'. destruct (o_simplify o); [|assumption]. apply simplify_filter_nonempty; [apply (j_wf _ Js)|assumption]. }
  match type of H with (if ?b then _ else _) = _ => destruct b end; apply Ok_inj in H; subst st'.
  - apply J_pm_set; [assumption|assumption|]. cbn [new_parent_ids]. intros t Ht. apply Rnp. now apply Sub.
  - apply J_write_commit; [assumption|exact NE'|intros p Hp; apply Rnp; now apply Sub|].
    intros o' E. injection E as <-. assumption.
Qed.

Lemma J_rebase_fold o order : forall st st', J st -> rebase_fold o order st = Ok st' -> J st'.
Proof.
  unfold rebase_fold. intros st st' Js H.
  refine (fold_res_inv (fun s x => rebase_one s o x) J order _ st st' Js H).
  intros a b a' Ja _ Hf. eapply J_rebase_one; eassumption.
Qed.

(** * Record operations *)
Definition record_op_okb (s : state) (o : op) : bool :=
  match o with
  | ORewrite old ps _ => ids_ok s [old] && match ps with Some l => ids_ok s l | None => true end
  | OAbandon old => ids_ok s [old]
  | OAbandonWith old ps => ids_ok s (old :: ps)
  | OSetRewritten old new => ids_ok s [old; new]
  | ODivergent old news => ids_ok s (old :: news)
  | _ => false
  end.

Lemma J_step_record s o s' : J s -> record_op_okb s o = true -> step s o = Ok s' -> J s'.
Proof.
  intros Js G H. destruct o; cbn [record_op_okb] in G; try discriminate; cbn [step] in H.
  - (* ORewrite *)
    apply andb_true_iff in G. destruct G as [G1 G2].
    pose proof (proj1 (ids_ok_spec s [old]) G1 old (or_introl eq_refl)) as Lo.
    destruct (old =? 0); [discriminate|].
    set (ps' := match ps with Some l => l | None => c_parents (getc (s_g s) old) end) in *.
    destruct ps' as [|p0 pt] eqn:E; [discriminate|]. apply Ok_inj in H. subst s'.
    apply J_write_commit; [assumption|discriminate| |intros o' Eo; injection Eo as <-; assumption].
    cbn [c_parents]. intros p Hp. rewrite <- E in Hp. unfold ps' in Hp. destruct ps as [l|].
    + now apply (proj1 (ids_ok_spec s l) G2).
    + rewrite <- parents_pg in Hp. apply (j_wf _ Js) in Hp. lia.
  - destruct (old =? 0); [discriminate|]. apply Ok_inj in H. subst s'.
    pose proof (proj1 (ids_ok_spec s [old]) G old (or_introl eq_refl)) as Lo.
    apply J_pm_set; [assumption|assumption|]. cbn [new_parent_ids]. intros t Ht.
    rewrite <- parents_pg in Ht. apply (j_wf _ Js) in Ht. lia.
  - destruct (old =? 0); [discriminate|]. apply Ok_inj in H. subst s'.
    pose proof (proj1 (ids_ok_spec s (old :: ps)) G) as R.
    apply J_pm_set; [assumption|apply R; now left|]. cbn [new_parent_ids]. intros t Ht. apply R. now right.
  - destruct (old =? 0); [discriminate|]. apply Ok_inj in H. subst s'.
    pose proof (proj1 (ids_ok_spec s [old; new]) G) as R.
    apply J_pm_set; [assumption|apply R; now left|]. cbn [new_parent_ids]. intros t [<-|[]]. apply R. right. now left.
  - destruct (old =? 0); [discriminate|]. apply Ok_inj in H. subst s'.
    pose proof (proj1 (ids_ok_spec s (old :: news)) G) as R.
    apply J_pm_set; [assumption|apply R; now left|]. cbn [new_parent_ids]. intros t Ht. apply R. now right.
Qed.

(** * States reachable by the basic mutations and the record operations (before a rebase) *)
Inductive reach_pre : state -> Prop :=
| rp_init : reach_pre init_state
| rp_basic s o s' : reach_pre s -> basic_op_okb s o = true -> step s o = Ok s' -> reach_pre s'
| rp_record s o s' : reach_pre s -> record_op_okb s o = true -> step s o = Ok s' -> reach_pre s'.

Theorem reach_pre_J s : reach_pre s -> J s.
Proof.
  induction 1; [apply J_init|eapply J_step_basic; eassumption|eapply J_step_record; eassumption].
Qed.

(** The invariant also survives the loop of rebase_descendants (every ordering). *)
Theorem J_rebase_loop ord s o s1 : J s -> rebase_loop_with ord s o = Ok s1 -> J s1.
Proof.
  intros Js H. unfold rebase_loop_with in H.
  destruct (ord _ _ _) as [order| | |]; cbn [bind] in H; try discriminate.
  eapply J_rebase_fold; eassumption.
Qed.

(** * The reference updates keep the invariant *)
Lemma J_merge_bookmark st name old other : J st ->
  Nat.odd (length (bm_get (s_v st) name)) = true -> Nat.odd (length other) = true ->
  (forall c, In c (added_ids other) -> c < length (s_g st)) ->
  J (merge_local_bookmark st name [Some old] other).
Proof.
  intros Js OS O R. unfold merge_local_bookmark.
  destruct (merge_ref_targets_facts (pg (s_g st)) (bm_get (s_v st) name) other old OS O) as [_ AT].
  apply J_set_local_bookmark_target; [assumption|].
  intros c Hc. apply added_ids_In in Hc. destruct (AT _ Hc) as [H|H]; apply added_ids_In in H; [|auto].
  unfold bm_get in H. destruct (aget N.eqb name (v_bms (s_v st))) as [t|] eqn:E; [|destruct H].
  apply (aget_In N.eqb Neqb_spec) in E. now apply (j_bms _ Js name t c E).
Qed.

(** Odd arity of every stored target is preserved by the bookmark updates. *)
Definition bms_odd (st : state) : Prop :=
  forall name t, In (name, t) (v_bms (s_v st)) -> Nat.odd (length t) = true.

Lemma bm_get_odd st name : bms_odd st -> Nat.odd (length (bm_get (s_v st) name)) = true.
Proof.
  intros O. unfold bm_get. destruct (aget N.eqb name (v_bms (s_v st))) as [t|] eqn:E; [|reflexivity].
  apply (aget_In N.eqb Neqb_spec) in E. eapply O; eassumption.
Qed.

Lemma bms_odd_set st name t : bms_odd st -> Nat.odd (length t) = true ->
  bms_odd (set_local_bookmark_target st name t).
Proof.
  intros O Ot name' t' Hin. unfold set_local_bookmark_target in Hin. cbn [set_view s_v v_bms] in Hin.
  rewrite fold_add_head_bms in Hin. destruct (is_absent t).
  - apply (adel_In N.eqb) in Hin. eapply O; eassumption.
  - apply (aset_In N.eqb N.ltb) in Hin. destruct Hin as [E|Hin]; [injection E as -> ->; assumption|eapply O; eassumption].
Qed.

Lemma J_update_local_bookmarks st mapping del st' :
  J st -> bms_odd st ->
  (forall k nids, aget Nat.eqb k mapping = Some nids -> forall z, In z nids -> z < length (s_g st)) ->
  update_local_bookmarks st mapping del = Ok st' ->
  J st' /\ bms_odd st' /\ s_g st' = s_g st /\ s_pm st' = s_pm st /\ v_wcs (s_v st') = v_wcs (s_v st).
Proof.
  intros Js Os R H.
  destruct (update_local_bookmarks_fields _ _ _ _ H) as [W [P G]].
  unfold update_local_bookmarks in H.
  match type of H with fold_left _ ?l _ = _ => set (changed := l) in * end.
  assert (Hch : forall name oldc nids, In (name, oldc, nids) changed -> aget Nat.eqb oldc mapping = Some nids).
  { intros name oldc nids Hin. unfold changed in Hin. apply in_flat_map in Hin.
    destruct Hin as [[nm t] [_ Hin]]. apply in_flat_map in Hin. destruct Hin as [id [_ Hin]].
    destruct (aget Nat.eqb id mapping) as [ns|] eqn:E; [|contradiction].
    destruct Hin as [Hin|[]]. injection Hin as <- <- <-. assumption. }
  assert (Q : J st' /\ bms_odd st' /\ s_g st' = s_g st).
  { refine (fold_res_inv (fun (s1' : state) (ch : N * nat * list nat) => _)
              (fun s => J s /\ bms_odd s /\ s_g s = s_g st) changed _ st st' (conj Js (conj Os eq_refl)) H).
    intros a [[name oldc] nids] a' [Ja [Oa Ga]] Hin Hf. cbv beta iota in Hf.
    assert (M : forall other, Nat.odd (length other) = true ->
                 (forall c, In c (added_ids other) -> c < length (s_g a)) ->
                 let a2 := merge_local_bookmark a name [Some oldc] other in
                 J a2 /\ bms_odd a2 /\ s_g a2 = s_g st).
    { intros other Oo Ro. cbv zeta. split; [|split].
      - apply J_merge_bookmark; auto. now apply bm_get_odd.
      - unfold merge_local_bookmark. apply bms_odd_set; [assumption|].
        apply (merge_ref_targets_facts (pg (s_g a)) (bm_get (s_v a) name) other oldc); [now apply bm_get_odd|assumption].
      - unfold merge_local_bookmark. destruct (set_local_bookmark_fields a name
          (merge_ref_targets (pg (s_g a)) (bm_get (s_v a) name) [Some oldc] other)) as [_ [_ X]]. now rewrite X. }
    destruct (del && is_abandoned (pm_get (s_pm a) oldc)).
    - apply Ok_inj in Hf. subst a'. apply M; [reflexivity|intros c []].
    - destruct nids as [|n ns]; [discriminate|]. apply Ok_inj in Hf. subst a'.
      destruct (intersperse_facts (map Some (n :: ns)) (Some oldc)) as [IE IO]; [discriminate|].
      apply M; [assumption|]. intros c Hc. apply added_ids_In in Hc. rewrite IE in Hc. apply in_map_iff in Hc.
      destruct Hc as [z [E Hz]]. injection E as ->. rewrite Ga. eapply R; [apply (Hch _ _ _ Hin)|exact Hz]. }
  destruct Q as [A [B C]]. auto.
Qed.

Lemma J_update_wc_commits st mapping st' :
  J st ->
  (forall k nids, aget Nat.eqb k mapping = Some nids -> nids <> [] /\ forall z, In z nids -> z < length (s_g st)) ->
  update_wc_commits st mapping = Ok st' ->
  J st' /\ v_bms (s_v st') = v_bms (s_v st).
Proof.
  intros Js R H. pose proof (update_wc_commits_bms _ _ _ H) as B. split; [|assumption].
  rewrite update_wc_commits_eq in H.
  match type of H with (do r <- fold_left _ ?l _; _) = _ => set (changed := l) in * end.
  assert (Hch : forall ws oldc nids, In (ws, oldc, nids) changed -> aget Nat.eqb oldc mapping = Some nids).
  { intros ws oldc nids Hin. unfold changed in Hin. apply in_flat_map in Hin.
    destruct Hin as [[w c] [_ Hin]]. cbn [fst snd] in Hin.
    destruct (aget Nat.eqb c mapping) as [ns|] eqn:E; [|contradiction].
    destruct Hin as [Hin|[]]. injection Hin as <- <- <-. assumption. }
  destruct (fold_left uwc_step changed (Ok (st, []))) as [[sf rec]| | |] eqn:F; cbn [bind] in H; try discriminate.
  apply Ok_inj in H. cbn [fst] in H. subst st'.
  set (Q := fun sr : state * list (nat * nat) =>
              J (fst sr) /\ length (s_g st) <= length (s_g (fst sr)) /\
              forall k c, aget Nat.eqb k (snd sr) = Some c -> c < length (s_g (fst sr)) /\ c <> 0).
  assert (HQ : Q (sf, rec)).
  { unfold uwc_step in F.
    refine (fold_res_inv (fun (sr : state * list (nat * nat)) (ch : N * nat * list nat) => _) Q changed _ (st, []) (sf, rec) _ F).
    - intros [a recr] [[ws oldc] nids] a' [Ja [La Ra]] Hin Hf. cbn [fst snd] in *. cbv beta iota in Hf.
      destruct (R _ _ (Hch _ _ _ Hin)) as [NE Rn].
      match type of Hf with (do sw <- ?X; _) = _ => destruct X as [[[s2 rec2] new_wc]| | |] eqn:EX end;
        cbn [bind] in Hf; try discriminate.
      assert (Hs2 : Q (s2, rec2) /\ new_wc < length (s_g s2)).
      { destruct (negb (is_abandoned (pm_get (s_pm a) oldc))).
        - destruct nids as [|n ns]; [discriminate|]. apply Ok_inj in EX. injection EX as <- <- <-.
          split; [split; [assumption|split; assumption]|]. specialize (Rn n (or_introl eq_refl)). cbn [fst]. lia.
        - destruct (aget Nat.eqb oldc recr) as [cc|] eqn:ER.
          + apply Ok_inj in EX. injection EX as <- <- <-. split; [split; [assumption|split; assumption]|].
            apply (Ra _ _ ER).
          + destruct nids as [|n ns]; [discriminate|]. set (nids := n :: ns) in *.
            destruct (J_write_commit a (fresh_commit (s_g a) nids 0 true) None Ja) as [Jw [Ew [Lw _]]];
              [discriminate|intros p Hp; specialize (Rn p Hp); lia|discriminate|].
            destruct (write_commit a (fresh_commit (s_g a) nids 0 true) None) as [sw nw] eqn:EW.
            cbn [fst snd] in *. subst nw. apply Ok_inj in EX. injection EX as <- <- <-.
            split; [|lia]. split; [assumption|]. split; [cbn [fst]; lia|].
            intros k c Hk. cbn [fst snd] in *. destruct (Nat.eq_dec k oldc) as [->|Nk].
            * rewrite aget_aset_same in Hk. injection Hk as <-. pose proof (j_ne _ Ja). split; lia.
            * rewrite aget_aset_other in Hk by assumption. destruct (Ra _ _ Hk). split; [lia|assumption]. }
      destruct Hs2 as [[J2 [L2 R2]] Lw]. cbn [fst snd] in *.
      destruct (edit s2 ws new_wc) as [s3|] eqn:EE; [|discriminate]. apply Ok_inj in Hf. subst a'.
      cbn [fst snd]. pose proof (edit_graph _ _ _ _ EE) as G3. split; [|split].
      + eapply J_edit; eassumption.
      + cbn [fst]. rewrite G3. assumption.
      + intros k c Hk. cbn [fst snd] in *. rewrite G3. exact (R2 k c Hk).
    - split; [exact Js|]. split; [cbn [fst]; lia|]. intros k c Hk. discriminate. }
  apply HQ.
Qed.

(** * update_heads keeps every reference visible, provided no reference sits on a commit with a
    rewrite record *)
Lemma anc_bottom g a d : anc g a d -> a = d \/ exists c, In a (parents g c) /\ anc g c d.
Proof.
  induction 1 as [x|a p d Hp Ha IH]; [now left|right].
  destruct IH as [->|[c [Hc Hcd]]].
  - exists d. split; [assumption|constructor].
  - exists c. split; [assumption|]. eapply anc_step; eassumption.
Qed.

Lemma update_heads_cover g heads keys x : wf_dag g ->
  let vis := ancs g heads in
  let old := filter (fun k => memn k vis) keys in
  let to_add := filter (fun p => negb (memn p old)) (flat_map (parents g) old) in
  let hs' := fold_left (fun hs p => ins p hs) to_add (fold_left (fun hs k => remn k hs) keys heads) in
  covered g heads x -> ~ In x keys -> covered g hs' x.
Proof.
  intros W vis old to_add hs' [h [Hh Ha]] Nk.
  assert (G : forall n d, h - d = n -> anc g d h -> ~ In d keys -> covered g hs' d).
  { induction n as [n IH] using lt_wf_ind. intros d En Hd Nd.
    destruct (anc_bottom g d h Hd) as [->|[c [Hc Hch]]].
    - exists h. split; [|constructor]. unfold hs'. apply fold_ins_In. left. apply fold_remn_In. auto.
    - assert (d < c) by now apply W. pose proof (anc_le g c h W Hch).
      destruct (in_dec Nat.eq_dec c keys) as [Ck|Ck].
      + exists d. split; [|constructor]. unfold hs'. apply fold_ins_In. right. unfold to_add. apply filter_In.
        assert (Co : In c old).
        { unfold old. apply filter_In. split; [assumption|]. apply memn_In. unfold vis.
          apply ancs_spec; [assumption|]. exists h. auto. }
        split; [apply in_flat_map; exists c; auto|].
        apply negb_true_iff, memn_false. intros Do. unfold old in Do. apply filter_In in Do. apply Nd. apply Do.
      + destruct (IH (h - c)) with (d := c) as [h' [Hh' Ha']]; [lia|reflexivity|assumption|assumption|].
        exists h'. split; [assumption|]. apply (anc_trans g d c h'); [apply anc_parent; exact Hc|exact Ha']. }
  apply (G (h - x) x eq_refl Ha Nk).
Qed.

Definition refs_clear (st : state) : Prop :=
  (forall name t c, In (name, t) (v_bms (s_v st)) -> In c (added_ids t) -> pm_get (s_pm st) c = None) /\
  (forall ws c, In (ws, c) (v_wcs (s_v st)) -> pm_get (s_pm st) c = None).

Lemma J_update_heads st : J st -> refs_clear st -> J (update_heads st).
Proof.
  intros Js [RB RW]. unfold update_heads.
  set (g := pg (s_g st)). set (keys := pm_keys (s_pm st)).
  set (vis := ancs g (v_heads (s_v st))).
  set (old := filter (fun k => memn k vis) keys).
  set (to_add := filter (fun p => negb (memn p old)) (flat_map (parents g) old)).
  set (hs := fold_left (fun hs k => remn k hs) keys (v_heads (s_v st))).
  set (hs' := fold_left (fun hs p => ins p hs) to_add hs).
  assert (Cov : forall x, covered g (v_heads (s_v st)) x -> pm_get (s_pm st) x = None -> covered g hs' x).
  { intros x Hc Hn. apply (update_heads_cover g (v_heads (s_v st)) keys x (j_wf _ Js) Hc).
    intros Hk. apply In_pm_keys_get in Hk. destruct Hk as [r Hr]. congruence. }
  assert (HJ : J (set_view st (set_heads (s_v st) hs' false))); [|exact (proj1 (J_normalize _ HJ))].
  destruct Js. constructor; cbn [set_view s_g s_v s_pm set_heads v_heads v_bms v_wcs v_norm]; auto.
  - unfold hs'. apply fold_ins_sorted. unfold hs. now apply fold_remn_sorted.
  - intros h Hh. unfold hs' in Hh. apply fold_ins_In in Hh. destruct Hh as [Hh|Hh].
    + unfold hs in Hh. apply fold_remn_In in Hh. apply j_heads. apply Hh.
    + unfold to_add in Hh. apply filter_In in Hh. destruct Hh as [Hh _]. apply in_flat_map in Hh.
      destruct Hh as [k [Hk Hp]]. unfold old in Hk. apply filter_In in Hk. destruct Hk as [Hk _].
      unfold keys in Hk. apply In_pm_keys_get in Hk. destruct Hk as [r Hr]. apply pm_get_In in Hr.
      destruct (j_pm k r Hr) as [Lk _]. apply j_wf in Hp. lia.
  - intros name t c Hb Hc. destruct (j_bms name t c Hb Hc) as [A B]. split; [assumption|].
    apply Cov; [assumption|]. eapply RB; eassumption.
  - intros ws c Hw. destruct (j_wcs ws c Hw) as [A B]. split; [assumption|].
    apply Cov; [assumption|]. eapply RW; eassumption.
  - discriminate.
Qed.

(** * rebase_descendants keeps the invariant *)
Definition rebase_before_heads ord (s : state) (o : rebase_opts) : res state :=
  do s1 <- rebase_loop_with ord s o;
  do mapping <- resolve_rewrite_mapping (s_pm s1) (fun _ => true);
  do sA <- update_local_bookmarks s1 mapping (o_delete_abandoned o);
  update_wc_commits sA mapping.

Lemma rebase_descendants_split ord s o :
  rebase_descendants_with ord s o =
  do sB <- rebase_before_heads ord s o; Ok (set_pm (update_heads sB) []).
Proof.
  unfold rebase_descendants_with, rebase_before_heads, update_rewritten_references.
  destruct (rebase_loop_with ord s o) as [s1| | |]; cbn [bind]; try reflexivity.
  destruct (resolve_rewrite_mapping _ _) as [m| | |]; cbn [bind]; try reflexivity.
  destruct (update_local_bookmarks _ _ _) as [sA| | |]; cbn [bind]; try reflexivity.
  destruct (update_wc_commits _ _) as [sB| | |]; cbn [bind]; reflexivity.
Qed.

Theorem J_rebase_descendants ord s o s' :
  J s -> bms_odd s ->
  (forall sB, rebase_before_heads ord s o = Ok sB -> refs_clear sB) ->
  rebase_descendants_with ord s o = Ok s' ->
  J s' /\ bms_odd s' /\ s_pm s' = [].
Proof.
  intros Js Os RC H. rewrite rebase_descendants_split in H.
  destruct (rebase_before_heads ord s o) as [sB| | |] eqn:EB; cbn [bind] in H; try discriminate.
  apply Ok_inj in H. subst s'. specialize (RC sB eq_refl).
  unfold rebase_before_heads in EB.
  destruct (rebase_loop_with ord s o) as [s1| | |] eqn:EL; cbn [bind] in EB; try discriminate.
  destruct (resolve_rewrite_mapping (s_pm s1) (fun _ => true)) as [mapping| | |] eqn:EM; cbn [bind] in EB; try discriminate.
  destruct (update_local_bookmarks s1 mapping (o_delete_abandoned o)) as [sA| | |] eqn:EA; cbn [bind] in EB; try discriminate.
  pose proof (J_rebase_loop ord s o s1 Js EL) as J1.
  assert (O1 : bms_odd s1).
  { unfold bms_odd. unfold rebase_loop_with in EL. destruct (ord _ _ _) as [order| | |]; cbn [bind] in EL; try discriminate.
    rewrite (rebase_fold_bms _ _ _ _ EL). exact Os. }
  assert (MR : forall k nids, aget Nat.eqb k mapping = Some nids -> nids <> [] /\ forall z, In z nids -> z < length (s_g s1)).
  { intros k nids Hk. destruct (resolve_mapping_spec _ _ _ EM k nids Hk) as [Kk R].
    destruct (rewritten_ids_with_result _ _ _ _ R) as [NE F]. split; [assumption|].
    intros z Hz. destruct (F z Hz) as [Fz [[<-|[]]|[k' [r [Hin Ht]]]]].
    - exfalso. apply Kk. exact Fz.
    - destruct (j_pm _ J1 k' r Hin) as [_ Rg]. exact (Rg z Ht). }
  destruct (J_update_local_bookmarks s1 mapping _ sA J1 O1 (fun k nids Hk => proj2 (MR k nids Hk)) EA)
    as [JA [OA [GA [PA WA]]]].
  assert (MRA : forall k nids, aget Nat.eqb k mapping = Some nids -> nids <> [] /\ forall z, In z nids -> z < length (s_g sA)).
  { intros k nids Hk. rewrite GA. exact (MR k nids Hk). }
  destruct (J_update_wc_commits sA mapping sB JA MRA EB) as [JB BB].
  pose proof (J_update_heads sB JB RC) as JH.
  split; [|split].
  - destruct JH. constructor; cbn [set_pm s_g s_v s_pm]; auto.
    + intros k r [].
    + exact I.
  - unfold bms_odd. cbn [set_pm s_v]. rewrite update_heads_bms, BB. exact OA.
  - reflexivity.
Qed.

(** * All operations *)
Definition refs_clearb (st : state) : bool :=
  forallb (fun b : N * target => forallb (fun c => negb (memn c (pm_keys (s_pm st)))) (added_ids (snd b))) (v_bms (s_v st))
  && forallb (fun w : N * nat => negb (memn (snd w) (pm_keys (s_pm st)))) (v_wcs (s_v st)).

Lemma refs_clearb_spec st : refs_clearb st = true -> refs_clear st.
Proof.
  unfold refs_clearb, refs_clear. rewrite andb_true_iff, !forallb_forall. intros [A B]. split.
  - intros name t c Hb Hc. specialize (A _ Hb). cbn [snd] in A. rewrite forallb_forall in A.
    specialize (A c Hc). apply negb_true_iff, memn_false in A.
    destruct (pm_get (s_pm st) c) eqn:G; [|reflexivity]. exfalso. apply A. apply In_pm_keys_get. eauto.
  - intros ws c Hw. specialize (B _ Hw). cbn [snd] in B. apply negb_true_iff, memn_false in B.
    destruct (pm_get (s_pm st) c) eqn:G; [|reflexivity]. exfalso. apply B. apply In_pm_keys_get. eauto.
Qed.

(** Guards. For descendant rebasing: after the bookmark and working-copy updates no bookmark adds and
    no workspace sits on a commit that has a rewrite record (what C11_bookmarks_follow and
    C11_wc_follows establish for unconflicted bookmarks and every workspace; evaluated on the
    implementation's output by the C11 checker). *)
Definition op_okb (s : state) (o : op) : bool :=
  match o with
  | OSetBookmark _ t => basic_op_okb s o && Nat.odd (length t)
  | ORebase ro =>
      match rebase_before_heads order_commits_for_rebase s ro with
      | Ok sB => refs_clearb sB
      | _ => true
      end
  | _ => basic_op_okb s o || record_op_okb s o
  end.

Lemma step_bms_basic s o s' : basic_op_okb s o = true -> step s o = Ok s' ->
  match o with OSetBookmark _ _ => True | _ => v_bms (s_v s') = v_bms (s_v s) end.
Proof.
  intros G H. destruct o; cbn [basic_op_okb] in G; try discriminate; cbn [step] in H; try exact I.
  - destruct ps; [discriminate|]. apply Ok_inj in H. subst s'. apply write_commit_bms.
  - apply Ok_inj in H. subst s'. apply add_heads_fields.
  - destruct (edit s ws c) eqn:E; [|discriminate]. apply Ok_inj in H. subst s'. eapply edit_bms; eassumption.
  - unfold check_out in H. destruct (write_commit s (fresh_commit (s_g s) [c] 0 true) None) as [s1 n] eqn:EW.
    destruct (edit s1 ws n) eqn:E; [|discriminate]. apply Ok_inj in H. subst s'.
    rewrite (edit_bms _ _ _ _ E). change s1 with (fst (s1, n)). rewrite <- EW. apply write_commit_bms.
  - apply Ok_inj in H. subst s'. unfold remove_workspace. cbn [set_view s_v v_bms]. apply maybe_abandon_bms.
  - destruct (s_pm s); [|discriminate]. apply Ok_inj in H. subst s'. apply normalize_fields.
Qed.

Lemma step_bms_record s o s' : record_op_okb s o = true -> step s o = Ok s' -> v_bms (s_v s') = v_bms (s_v s).
Proof.
  intros G H. destruct o; cbn [record_op_okb] in G; try discriminate; cbn [step] in H.
  - destruct (old =? 0); [discriminate|].
    destruct (match ps with Some l => l | None => c_parents (getc (s_g s) old) end); [discriminate|].
    apply Ok_inj in H. subst s'. apply write_commit_bms.
  - destruct (old =? 0); [discriminate|]. apply Ok_inj in H. now subst s'.
  - destruct (old =? 0); [discriminate|]. apply Ok_inj in H. now subst s'.
  - destruct (old =? 0); [discriminate|]. apply Ok_inj in H. now subst s'.
  - destruct (old =? 0); [discriminate|]. apply Ok_inj in H. now subst s'.
Qed.

Inductive reach_all : state -> Prop :=
| ra_init : reach_all init_state
| ra_step s o s' : reach_all s -> op_okb s o = true -> step s o = Ok s' -> reach_all s'.

Theorem reach_all_inv s : reach_all s -> J s /\ bms_odd s.
Proof.
  induction 1 as [|s o s' _ [Js Os] G H].
  - split; [apply J_init|]. intros name t [].
  - destruct o; cbn [op_okb] in G.
    all: try (apply orb_true_iff in G; destruct G as [G|G];
              [split; [eapply J_step_basic; eassumption|];
               pose proof (step_bms_basic _ _ _ G H) as B; cbn beta iota in B; unfold bms_odd; rewrite B; exact Os
              |split; [eapply J_step_record; eassumption|];
               unfold bms_odd; rewrite (step_bms_record _ _ _ G H); exact Os]).
    + (* OSetBookmark *)
      apply andb_true_iff in G. destruct G as [G Od]. split; [eapply J_step_basic; eassumption|].
      cbn [step] in H. apply Ok_inj in H. subst s'. now apply bms_odd_set.
    + (* ORebase *)
      cbn [step] in H. change (rebase_descendants s o) with (rebase_descendants_with order_commits_for_rebase s o) in H.
      destruct (J_rebase_descendants order_commits_for_rebase s o s' Js Os) as [A [B _]]; [|exact H|auto].
      intros sB EB. rewrite EB in G. now apply refs_clearb_spec.
Qed.

Theorem commit_inv_all s s' :
  reach_all s -> step s OCommit = Ok s' -> Inv (pg (s_g s')) (s_v s').
Proof.
  intros R H. destruct (reach_all_inv s R) as [Js _]. cbn [step] in H.
  destruct (s_pm s); [|discriminate]. apply Ok_inj in H. subst s'. now apply commit_Inv.
Qed.
