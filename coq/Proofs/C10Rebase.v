(** C10: the state invariant through rewrite records and rebase_descendants. *)
From Verif Require Import Base.Prelude Base.DagV Model.Merge Model.RepoV Model.C10 Model.C11
  Proofs.C10 Proofs.C11 Proofs.C11Loop Proofs.C11Refs Proofs.C11View Proofs.C11Follow.
From Coq Require Import Lia Arith.

(** * The loop *)
Lemma J_rebase_one st o x st' : J st -> rebase_one st o x = Ok st' -> J st'.
Proof.
  intros Js H. unfold rebase_one in H.
  set (c := getc (s_g st) x) in *.
  destruct (new_parents (s_pm st) (c_parents c)) as [np| | |] eqn:Hnp; cbn [bind] in H; try discriminate.
  destruct (rewritten_ids_with_result _ _ _ _ Hnp) as [NE Src].
  assert (Lx : x < length (s_g st)).
  { destruct (Nat.lt_ge_cases x (length (s_g st))) as [L|L]; [assumption|]. exfalso.
    unfold c, getc in Hnp. rewrite nth_overflow in Hnp by assumption. cbn in Hnp. discriminate. }
  assert (Rnp : forall q, In q np -> q < length (s_g st)).
  { intros q Hq. destruct (Src q Hq) as [_ [Hp|[k [r [Hin Ht]]]]].
    - unfold c in Hp. rewrite <- parents_pg in Hp. apply (j_wf _ Js) in Hp. lia.
    - destruct (j_pm _ Js k r Hin) as [_ R]. now apply R. }
  destruct (list_nat_eqb np (c_parents c)); [apply Ok_inj in H; now subst|].
  set (np' := if o_simplify o then filter (fun p => memn p (heads_of (pg (s_g st)) np)) np else np) in *.
  assert (Sub : forall q, In q np' -> In q np).
  { unfold np'. destruct (o_simplify o); [|auto]. intros q Hq. apply filter_In in Hq. apply Hq. }
  assert (NE' : np' <> []).
  { unfold np'. destruct (o_simplify o); [|assumption]. apply simplify_filter_nonempty; [apply (j_wf _ Js)|assumption]. }
  match type of H with (if ?b then _ else _) = _ => destruct b end; apply Ok_inj in H; subst st'.
  - apply J_pm_set; [assumption|assumption|]. cbn [new_parent_ids]. intros t Ht. apply Rnp. now apply Sub.
  - apply J_write_commit; [assumption|exact NE'|intros p Hp; apply Rnp; now apply Sub|].
    intros o' E. injection E as <-. assumption.
Qed.

Lemma J_rebase_fold o order : forall st st', J st -> rebase_fold o order st = Ok st' -> J st'.
Proof.
  unfold rebase_fold. intros st st' Js H.
  refine (fold_res_inv (fun s x => rebase_one s o x) J order _ st st' Js H).
  intros a b a' Ja _ Hf. eapply J_rebase_one; eassumption.
Qed.

(** * Record operations *)
Definition record_op_okb (s : state) (o : op) : bool :=
  match o with
  | ORewrite old ps _ => ids_ok s [old] && match ps with Some l => ids_ok s l | None => true end
  | OAbandon old => ids_ok s [old]
  | OAbandonWith old ps => ids_ok s (old :: ps)
  | OSetRewritten old new => ids_ok s [old; new]
  | ODivergent old news => ids_ok s (old :: news)
  | _ => false
  end.

Lemma J_step_record s o s' : J s -> record_op_okb s o = true -> step s o = Ok s' -> J s'.
Proof.
  intros Js G H. destruct o; cbn [record_op_okb] in G; try discriminate; cbn [step] in H.
  - (* ORewrite *)
    apply andb_true_iff in G. destruct G as [G1 G2].
    pose proof (proj1 (ids_ok_spec s [old]) G1 old (or_introl eq_refl)) as Lo.
    destruct (old =? 0); [discriminate|].
    set (ps' := match ps with Some l => l | None => c_parents (getc (s_g s) old) end) in *.
    destruct ps' as [|p0 pt] eqn:E; [discriminate|]. apply Ok_inj in H. subst s'.
    apply J_write_commit; [assumption|discriminate| |intros o' Eo; injection Eo as <-; assumption].
    cbn [c_parents]. intros p Hp. rewrite <- E in Hp. unfold ps' in Hp. destruct ps as [l|].
    + now apply (proj1 (ids_ok_spec s l) G2).
    + rewrite <- parents_pg in Hp. apply (j_wf _ Js) in Hp. lia.
  - destruct (old =? 0); [discriminate|]. apply Ok_inj in H. subst s'.
    pose proof (proj1 (ids_ok_spec s [old]) G old (or_introl eq_refl)) as Lo.
    apply J_pm_set; [assumption|assumption|]. cbn [new_parent_ids]. intros t Ht.
    rewrite <- parents_pg in Ht. apply (j_wf _ Js) in Ht. lia.
  - destruct (old =? 0); [discriminate|]. apply Ok_inj in H. subst s'.
    pose proof (proj1 (ids_ok_spec s (old :: ps)) G) as R.
    apply J_pm_set; [assumption|apply R; now left|]. cbn [new_parent_ids]. intros t Ht. apply R. now right.
  - destruct (old =? 0); [discriminate|]. apply Ok_inj in H. subst s'.
    pose proof (proj1 (ids_ok_spec s [old; new]) G) as R.
    apply J_pm_set; [assumption|apply R; now left|]. cbn [new_parent_ids]. intros t [<-|[]]. apply R. right. now left.
  - destruct (old =? 0); [discriminate|]. apply Ok_inj in H. subst s'.
    pose proof (proj1 (ids_ok_spec s (old :: news)) G) as R.
    apply J_pm_set; [assumption|apply R; now left|]. cbn [new_parent_ids]. intros t Ht. apply R. now right.
Qed.

(** * States reachable by the basic mutations and the record operations (before a rebase) *)
Inductive reach_pre : state -> Prop :=
| rp_init : reach_pre init_state
| rp_basic s o s' : reach_pre s -> basic_op_okb s o = true -> step s o = Ok s' -> reach_pre s'
| rp_record s o s' : reach_pre s -> record_op_okb s o = true -> step s o = Ok s' -> reach_pre s'.

Theorem reach_pre_J s : reach_pre s -> J s.
Proof.
  induction 1; [apply J_init|eapply J_step_basic; eassumption|eapply J_step_record; eassumption].
Qed.

(** The invariant also survives the loop of rebase_descendants (every ordering). *)
Theorem J_rebase_loop ord s o s1 : J s -> rebase_loop_with ord s o = Ok s1 -> J s1.
Proof.
  intros Js H. unfold rebase_loop_with in H.
  destruct (ord _ _ _) as [order| | |]; cbn [bind] in H; try discriminate.
  eapply J_rebase_fold; eassumption.
Qed.
