(** Proofs for C16: proto round-trips of views and operations, prefix-decodability (hence
    injectivity) of the ContentHash encoding, and the meaning of the checker. *)
From Verif Require Import Base.Prelude Base.C16Lib Gen.Tables Model.C16 Proofs.C16Lib.
From Coq Require Import Lia Permutation.
Local Open Scope N_scope.

(** * Lists two elements at a time *)
Lemma list_ind2 {A} (P : list A -> Prop) :
  P [] -> (forall x, P [x]) -> (forall x y l, P l -> P (x :: y :: l)) -> forall l, P l.
Proof.
  intros H0 H1 H2. fix IH 1. intros [|x [|y l]]; [exact H0 | apply H1 | apply H2, IH].
Qed.

Lemma evens_cons {A} (x : A) l : evens (x :: l) = x :: odds l.
Proof. destruct l; reflexivity. Qed.

Lemma odds_cons {A} (x : A) l : odds (x :: l) = evens l.
Proof. reflexivity. Qed.

Lemma interleave_evens_odds {A} (l : list A) :
  Nat.even (length l) = true -> interleave (evens l) (odds l) = Ok l.
Proof.
  induction l as [| x | x y l IH] using list_ind2; intro E.
  - reflexivity.
  - discriminate.
  - rewrite evens_cons, !odds_cons, evens_cons. cbn [interleave].
    rewrite IH by exact E. reflexivity.
Qed.

Lemma oddb_cons {A} (x : A) l : oddb (x :: l) = Nat.even (length l).
Proof. unfold oddb. cbn [length]. rewrite Nat.odd_succ. reflexivity. Qed.

Lemma from_removes_adds_roundtrip {A} (t : list A) :
  oddb t = true -> from_removes_adds (odds t) (evens t) = Ok t.
Proof.
  destruct t as [|a t]; [discriminate|]. rewrite oddb_cons. intro E.
  rewrite evens_cons, odds_cons. cbn [from_removes_adds].
  rewrite interleave_evens_odds by exact E. reflexivity.
Qed.

Lemma ref_target_roundtrip t :
  oddb t = true -> ref_target_from_proto (ref_target_to_proto t) = Ok t.
Proof. intro H. cbn. apply from_removes_adds_roundtrip, H. Qed.

Lemma terms_roundtrip t :
  oddb t = true -> ref_target_from_terms_proto (ref_target_to_terms_proto t) = Ok t.
Proof.
  unfold ref_target_from_terms_proto, ref_target_to_terms_proto, oddb. intro H.
  destruct (Nat.even _) eqn:E; [|reflexivity].
  exfalso. rewrite <- Nat.negb_odd in E. apply negb_true_iff in E.
  exact (eq_true_false_abs _ H E).
Qed.

Lemma state_roundtrip s : state_from_proto (state_to_proto s) = Ok s.
Proof. destruct s; reflexivity. Qed.

(** * [rmapM] over converted elements that all convert back *)
Lemma rmapM_roundtrip {E A B} (f : B -> res E A) (h : A -> B) l :
  (forall x, In x l -> f (h x) = Ok x) -> rmapM f (map h l) = Ok l.
Proof.
  induction l as [|x l IH]; intro H; [reflexivity|]. cbn.
  rewrite (H x (or_introl eq_refl)). cbn. rewrite IH by (intros; apply H; right; assumption).
  reflexivity.
Qed.

(** * Remote views, new form *)
Lemma remote_refs_roundtrip m :
  refs_okb m = true -> remote_refs_from_proto (remote_refs_to_proto m) = Ok m.
Proof.
  unfold refs_okb. intro H. apply andb_true_iff in H as [S F].
  unfold remote_refs_from_proto, remote_refs_to_proto.
  rewrite rmapM_roundtrip.
  - cbn [rbind]. rewrite map_of_list_id by exact S. reflexivity.
  - intros [k [t s]] Hin. unfold remote_ref_from_proto.
    cbn [prr_terms prr_state prr_name fst snd rr_target rr_state].
    rewrite forallb_forall in F. specialize (F _ Hin). cbn in F.
    rewrite terms_roundtrip by exact F. cbn [rbind]. rewrite state_roundtrip. reflexivity.
Qed.

Definition rvs_okb (rvs : list (bytes * remote_view)) : bool :=
  keys_sortedb rvs
  && forallb (fun kv => refs_okb (rv_bookmarks (snd kv)) && refs_okb (rv_tags (snd kv))) rvs.

Lemma remote_views_roundtrip rvs :
  rvs_okb rvs = true -> remote_views_from_proto (remote_views_to_proto rvs) = Ok rvs.
Proof.
  unfold rvs_okb. intro H. apply andb_true_iff in H as [S F].
  unfold remote_views_from_proto, remote_views_to_proto.
  rewrite rmapM_roundtrip.
  - cbn [rbind]. rewrite map_of_list_id by exact S. reflexivity.
  - intros [k [bs ts]] Hin.
    rewrite forallb_forall in F. specialize (F _ Hin). cbn in F.
    apply andb_true_iff in F as [Fb Ft].
    unfold remote_view_from_proto. cbn [prv_bookmarks prv_tags prv_name fst snd rv_bookmarks rv_tags].
    rewrite (remote_refs_roundtrip _ Fb). cbn [rbind]. rewrite (remote_refs_roundtrip _ Ft). reflexivity.
Qed.

(** * Legacy bookmark form *)
Definition j_name (j : joined) : bytes := fst (fst j).
Definition j_local (j : joined) : target := snd (fst j).
Definition j_remotes (j : joined) : list (bytes * remote_ref) := snd j.
Definition j_okb (j : joined) : bool :=
  oddb (j_local j) && forallb (fun rr => oddb (rr_target (snd rr))) (j_remotes j).
Definition ins_present (m : list (bytes * target)) (j : joined) : list (bytes * target) :=
  if is_absent (j_local j) then m else map_insert (j_name j) (j_local j) m.

Lemma legacy_remotes_ok name (rrs : list (bytes * remote_ref)) :
  forallb (fun rr => oddb (rr_target (snd rr))) rrs = true ->
  forall rvs, exists rvs',
    legacy_remotes name
      (map (fun rr => mk_prb (fst rr) (ref_target_to_proto (rr_target (snd rr)))
                             (Some (state_to_proto (rr_state (snd rr))))) rrs) rvs = Ok rvs'
    /\ (rrs = [] -> rvs' = rvs).
Proof.
  induction rrs as [|[r [t s]] rrs IH]; intros F rvs.
  - exists rvs. split; reflexivity.
  - cbn [forallb snd rr_target] in F. apply andb_true_iff in F as [Ft F].
    cbn [map legacy_remotes prb_state prb_target prb_remote fst snd rr_target rr_state].
    rewrite state_roundtrip. cbn [rbind]. rewrite ref_target_roundtrip by exact Ft. cbn [rbind].
    destruct (IH F (rvs_insert_bookmark r name (mk_rr t s) rvs)) as [rvs' [E _]].
    exists rvs'. split; [exact E | discriminate].
Qed.

Lemma legacy_bookmarks_ok (J : list joined) :
  forallb j_okb J = true ->
  forall locals rvs, exists rvs',
    legacy_bookmarks (map joined_to_proto J) locals rvs
      = Ok (fold_left ins_present J locals, rvs')
    /\ (forallb (fun j => is_nil (j_remotes j)) J = true -> rvs' = rvs).
Proof.
  induction J as [|[[n lt] rrs] J IH]; intros F locals rvs.
  - exists rvs. split; reflexivity.
  - cbn [forallb] in F. apply andb_true_iff in F as [Fj F].
    unfold j_okb in Fj. cbn [j_local j_remotes fst snd] in Fj. apply andb_true_iff in Fj as [Fl Fr].
    cbn [map legacy_bookmarks]. unfold joined_to_proto at 1 2 3.
    cbn [pb_local pb_name pb_remotes fst snd].
    rewrite ref_target_roundtrip by exact Fl. cbn [rbind].
    destruct (legacy_remotes_ok n rrs Fr rvs) as [rvs1 [E1 N1]]. rewrite E1. cbn [rbind].
    destruct (IH F (if is_absent lt then locals else map_insert n lt locals) rvs1) as [rvs' [E N]].
    exists rvs'. split.
    + exact E.
    + cbn [forallb j_remotes snd]. intro H. apply andb_true_iff in H as [H1 H2].
      destruct rrs; [|discriminate]. rewrite (N H2). apply N1. reflexivity.
Qed.

Lemma drop_while_length {A} (f : A -> bool) l : (length (drop_while f l) <= length l)%nat.
Proof. induction l as [|x l IH]; cbn; [lia|]. destruct (f x); cbn; lia. Qed.

Lemma is_absent_absent : is_absent absent = true.
Proof. reflexivity. Qed.

(** Dropping the entries invented for remote-only names gives back the local map, in order
    (this is also the termination argument: the fuel is never exhausted). *)
Lemma merge_join_locals fuel : forall locals flat,
  (length locals + length flat <= fuel)%nat ->
  forallb (fun kv => negb (is_absent (snd kv))) locals = true ->
  map fst (filter (fun j => negb (is_absent (j_local j))) (merge_join fuel locals flat)) = locals.
Proof.
  induction fuel as [|fuel IH]; intros locals flat L P.
  - destruct locals, flat; cbn in L; try lia. reflexivity.
  - cbn [merge_join]. destruct flat as [|x flat].
    + destruct locals as [|[ln lt] locals]; [reflexivity|].
      cbn [forallb snd] in P. apply andb_true_iff in P as [P1 P].
      cbn [filter j_local fst snd map]. rewrite P1. cbn [map fst].
      f_equal. apply IH; [cbn in *; lia | exact P].
    + destruct locals as [|[ln lt] locals].
      * cbn [filter j_local fst snd]. rewrite is_absent_absent. cbn [negb].
        apply IH; [|reflexivity]. cbn [drop_while]. rewrite bytes_eqb_refl.
        pose proof (drop_while_length (fun x0 => bytes_eqb (fr_name x0) (fr_name x)) flat).
        cbn in *; lia.
      * cbn [forallb snd] in P. apply andb_true_iff in P as [P1 P].
        destruct (negb (bytes_ltb (fr_name x) ln)).
        -- cbn [filter j_local fst snd map]. rewrite P1. cbn [map fst]. f_equal.
           apply IH; [|exact P].
           pose proof (drop_while_length (fun x0 => bytes_eqb (fr_name x0) ln) (x :: flat)).
           cbn [length] in *. lia.
        -- cbn [filter j_local fst snd]. rewrite is_absent_absent. cbn [negb].
           apply IH; [| cbn [forallb snd]; rewrite P1; exact P].
           cbn [drop_while]. rewrite bytes_eqb_refl.
           pose proof (drop_while_length (fun x0 => bytes_eqb (fr_name x0) (fr_name x)) flat).
           cbn [length] in *. lia.
Qed.

Lemma take_while_In {A} (f : A -> bool) l x : In x (take_while f l) -> In x l.
Proof.
  induction l as [|y l IH]; cbn; [auto|]. destruct (f y); cbn; [|intros []].
  intros [->|H]; auto.
Qed.

Lemma drop_while_In {A} (f : A -> bool) l x : In x (drop_while f l) -> In x l.
Proof.
  induction l as [|y l IH]; cbn; [auto|]. destruct (f y); cbn; auto.
Qed.

Lemma merge_join_ok fuel : forall locals flat,
  targets_oddb locals = true ->
  forallb (fun x : flat_ref => oddb (rr_target (snd x))) flat = true ->
  forallb j_okb (merge_join fuel locals flat) = true.
Proof.
  induction fuel as [|fuel IH]; intros locals flat Tl Tf; [reflexivity|].
  assert (Hdrop : forall f, forallb (fun x : flat_ref => oddb (rr_target (snd x))) (drop_while f flat) = true).
  { intro f. apply forallb_forall. intros x Hx. apply drop_while_In in Hx.
    rewrite forallb_forall in Tf. apply Tf, Hx. }
  assert (Htake : forall f, forallb (fun rr : bytes * remote_ref => oddb (rr_target (snd rr)))
            (map (fun x : flat_ref => (fr_remote x, snd x)) (take_while f flat)) = true).
  { intro f. apply forallb_forall. intros rr Hrr. apply in_map_iff in Hrr as [x [<- Hx]].
    apply take_while_In in Hx. rewrite forallb_forall in Tf. apply (Tf _ Hx). }
  cbn [merge_join]. destruct flat as [|x flat].
  - destruct locals as [|[ln lt] locals]; [reflexivity|].
    unfold targets_oddb in Tl. cbn [forallb snd] in Tl. apply andb_true_iff in Tl as [T1 Tl].
    cbn [forallb]. apply andb_true_iff. split.
    + unfold j_okb. cbn [j_local j_remotes fst snd take_while map forallb]. rewrite T1. reflexivity.
    + apply IH; [exact Tl | reflexivity].
  - destruct locals as [|[ln lt] locals].
    + cbn [forallb]. apply andb_true_iff. split.
      * unfold j_okb. cbn [j_local j_remotes fst snd]. rewrite Htake. reflexivity.
      * apply IH; [reflexivity | apply Hdrop].
    + unfold targets_oddb in Tl. cbn [forallb snd] in Tl. apply andb_true_iff in Tl as [T1 Tl].
      destruct (negb (bytes_ltb (fr_name x) ln)); cbn [forallb]; apply andb_true_iff; split.
      * unfold j_okb. cbn [j_local j_remotes fst snd]. rewrite T1, Htake. reflexivity.
      * apply IH; [exact Tl | apply Hdrop].
      * unfold j_okb. cbn [j_local j_remotes fst snd]. rewrite Htake. reflexivity.
      * apply IH; [|apply Hdrop]. unfold targets_oddb. cbn [forallb snd]. rewrite T1. exact Tl.
Qed.

Lemma merge_join_no_remotes fuel : forall locals,
  forallb (fun j => is_nil (j_remotes j)) (merge_join fuel locals []) = true.
Proof.
  induction fuel as [|fuel IH]; intros locals; [reflexivity|].
  cbn [merge_join]. destruct locals as [|[ln lt] locals]; [reflexivity|].
  cbn [forallb take_while drop_while map j_remotes snd is_nil]. apply IH.
Qed.

Lemma merge2_In (l1 : list flat_ref) : forall l2 x, In x (merge2 l1 l2) -> In x l1 \/ In x l2.
Proof.
  induction l1 as [|a l1 IH1]; intros l2; [cbn; destruct l2; auto|].
  induction l2 as [|b l2 IH2]; intros x H; [left; exact H|].
  cbn [merge2] in H. destruct (symbol_ltb b a).
  - destruct H as [<-|H]; [right; left; reflexivity|].
    apply IH2 in H as [H|H]; [left; exact H | right; right; exact H].
  - destruct H as [<-|H]; [left; left; reflexivity|].
    apply IH1 in H as [H|H]; [left; right; exact H | right; exact H].
Qed.

Lemma flatten_ok get (rvs : list (bytes * remote_view)) :
  forallb (fun kv => forallb (fun nr => oddb (rr_target (snd nr))) (get (snd kv))) rvs = true ->
  forallb (fun x : flat_ref => oddb (rr_target (snd x))) (flatten_remote_refs get rvs) = true.
Proof.
  unfold flatten_remote_refs. induction rvs as [|[r rv] rvs IH]; intro F; [reflexivity|].
  cbn [forallb snd] in F. apply andb_true_iff in F as [F1 F].
  cbn [map fold_right fst snd]. apply forallb_forall. intros x Hx.
  apply merge2_In in Hx as [Hx|Hx].
  - apply in_map_iff in Hx as [nr [<- Hnr]]. cbn [snd].
    rewrite forallb_forall in F1. apply F1, Hnr.
  - specialize (IH F). rewrite forallb_forall in IH. apply IH, Hx.
Qed.

Lemma fold_ins_present (J : list joined) : forall acc,
  fold_left ins_present J acc =
  fold_left (fun m kv => map_insert (fst kv) (snd kv) m)
            (map fst (filter (fun j => negb (is_absent (j_local j))) J)) acc.
Proof.
  induction J as [|[[n lt] rrs] J IH]; intro acc; [reflexivity|].
  cbn [fold_left filter]. unfold ins_present at 2. cbn [j_local j_name fst snd].
  destruct (is_absent lt); cbn [negb]; [apply IH|]. cbn [map fold_left fst snd]. apply IH.
Qed.

Theorem legacy_bookmarks_roundtrip locals rvs :
  keys_sortedb locals = true -> targets_oddb locals = true ->
  forallb (fun kv => negb (is_absent (snd kv))) locals = true ->
  forallb (fun kv => refs_okb (rv_bookmarks (snd kv)) && refs_okb (rv_tags (snd kv))) rvs = true ->
  exists rvs',
    bookmark_views_from_proto_legacy (bookmark_views_to_proto_legacy locals rvs) = Ok (locals, rvs')
    /\ (rvs = [] -> rvs' = []).
Proof.
  intros S T P F.
  unfold bookmark_views_from_proto_legacy, bookmark_views_to_proto_legacy, merge_join_ref_views.
  set (flat := flatten_remote_refs rv_bookmarks rvs).
  assert (Tf : forallb (fun x : flat_ref => oddb (rr_target (snd x))) flat = true).
  { apply flatten_ok. apply forallb_forall. intros kv Hkv.
    rewrite forallb_forall in F. specialize (F _ Hkv). apply andb_true_iff in F as [Fb _].
    unfold refs_okb in Fb. apply andb_true_iff in Fb as [_ Fb]. exact Fb. }
  set (fuel := (length locals + length flat)%nat).
  destruct (legacy_bookmarks_ok (merge_join fuel locals flat) (merge_join_ok _ _ _ T Tf) [] [])
    as [rvs' [E N]].
  exists rvs'. split.
  - rewrite E. rewrite fold_ins_present, merge_join_locals by (auto; unfold fuel; lia).
    fold (map_of_list locals). rewrite map_of_list_id by exact S. reflexivity.
  - intros ->. apply N. apply merge_join_no_remotes.
Qed.

(** * The view round-trip *)
Lemma named_targets_roundtrip (m : list (bytes * target)) :
  targets_oddb m = true ->
  rmapM named_target_from_proto (map named_target_to_proto m) = Ok m.
Proof.
  intro T. apply rmapM_roundtrip. intros [k t] Hin.
  unfold targets_oddb in T. rewrite forallb_forall in T. specialize (T _ Hin). cbn in T.
  unfold named_target_from_proto, named_target_to_proto. cbn [fst snd].
  rewrite ref_target_roundtrip by exact T. reflexivity.
Qed.

Lemma git_refs_roundtrip (m : list (bytes * target)) :
  targets_oddb m = true ->
  rmapM git_ref_from_proto
        (map (fun kv => mk_pgr (fst kv) [] (ref_target_to_proto (snd kv))) m) = Ok m.
Proof.
  intro T. apply rmapM_roundtrip. intros [k t] Hin.
  unfold targets_oddb in T. rewrite forallb_forall in T. specialize (T _ Hin). cbn in T.
  unfold git_ref_from_proto. cbn [pgr_target pgr_name fst snd].
  change (ref_target_to_proto t) with (Some (Some (PConflict (odds t) (evens t)))) at 1.
  cbv iota. rewrite ref_target_roundtrip by exact T. reflexivity.
Qed.

Lemma map_lookup_nil_keys {V} k (m : list (bytes * V)) : m = [] -> map_lookup k m = None.
Proof. intros ->; reflexivity. Qed.

Theorem view_roundtrip v h w :
  wf_view v -> Permutation h (v_head_ids v) -> Permutation w (v_wc_commit_ids v) ->
  view_from_proto (with_hash_order h w (view_to_proto v)) = Ok v.
Proof.
  unfold wf_view, wf_viewb. intros WF Ph Pw.
  repeat (apply andb_true_iff in WF as [WF ?]).
  rename WF into Sh, H into Swc, H0 into Tgh, H1 into Sgh, H2 into Tgr, H3 into Sgr,
         H4 into Frv, H5 into Srv, H6 into Tlt, H7 into Slt, H8 into Plb, H9 into Tlb, H10 into Slb.
  destruct v as [heads lbs lts rvs grs ghs wcs]. cbn [v_head_ids v_local_bookmarks v_local_tags
    v_remote_views v_git_refs v_git_heads v_wc_commit_ids] in *.
  unfold view_from_proto, with_hash_order, view_to_proto.
  cbn [pv_head_ids pv_wc_commit_id pv_wc_commit_ids pv_bookmarks pv_local_tags pv_remote_views
       pv_git_refs pv_git_head_legacy pv_git_head pv_migrated pv_git_heads
       v_head_ids v_local_bookmarks v_local_tags v_remote_views v_git_refs v_git_heads
       v_wc_commit_ids is_nil].
  destruct (legacy_bookmarks_roundtrip lbs rvs Slb Tlb Plb Frv) as [rvs' [E N]].
  rewrite E. cbn [rbind fst snd].
  rewrite named_targets_roundtrip by exact Tlt. cbn [rbind].
  rewrite git_refs_roundtrip by exact Tgr. cbn [rbind].
  assert (Erv : (if is_nil (remote_views_to_proto rvs) then Ok rvs'
                 else remote_views_from_proto (remote_views_to_proto rvs)) = Ok rvs).
  { destruct rvs as [|rv rvs0] eqn:Ervs.
    - cbn. rewrite N; reflexivity.
    - rewrite <- Ervs in *. replace (is_nil (remote_views_to_proto rvs)) with false
        by (rewrite Ervs; reflexivity).
      apply remote_views_roundtrip. unfold rvs_okb. rewrite Srv, Frv. reflexivity. }
  rewrite Erv. cbn [rbind].
  rewrite named_targets_roundtrip by exact Tgh. cbn [rbind].
  rewrite (map_of_list_id ghs) by exact Sgh.
  assert (Egh : (if is_nil ghs
     then rbind match match map_lookup C16_WORKSPACE_DEFAULT ghs with
                      | Some t => ref_target_to_proto t
                      | None => None
                      end with
                | Some _ => ref_target_from_proto match map_lookup C16_WORKSPACE_DEFAULT ghs with
                                                  | Some t => ref_target_to_proto t
                                                  | None => None
                                                  end
                | None => Ok absent
                end
            (fun gh => Ok (if is_absent gh then ghs else map_insert C16_WORKSPACE_DEFAULT gh ghs))
     else Ok ghs) = (Ok ghs : R _)).
  { destruct ghs; reflexivity. }
  rewrite Egh. cbn [rbind].
  rewrite (map_of_list_id lts) by exact Slt. rewrite (map_of_list_id grs) by exact Sgr.
  rewrite (set_of_list_perm h heads Sh Ph).
  pose proof (map_of_list_perm w wcs Swc Pw) as Ew. unfold map_of_list in Ew.
  do 2 f_equal. exact Ew.
Qed.

(** O3: a view holding an absent local bookmark target is outside the domain, and indeed
    does not round-trip (the legacy form drops the entry). *)
Lemma absent_local_not_roundtrip :
  let v := mk_view [] [([97], absent)] [] [] [] [] [] in
  view_from_proto (view_to_proto v) = Ok (mk_view [] [] [] [] [] [] []) /\ wf_viewb v = false.
Proof. split; reflexivity. Qed.

(** * The operation round-trip *)
Lemma hash_ids_ok n (l : list id) :
  forallb (len_is n) l = true -> rmapM (hash_id_from_proto n) l = Ok l.
Proof.
  intro F. rewrite <- (map_id l) at 1. apply rmapM_roundtrip. intros x Hx.
  rewrite forallb_forall in F. specialize (F _ Hx). unfold len_is in F.
  unfold hash_id_from_proto. rewrite F. reflexivity.
Qed.

Theorem operation_roundtrip o a :
  wf_op o -> Permutation a (md_attributes (op_meta o)) ->
  read_operation (with_attr_order a (operation_to_proto o)) = Ok o.
Proof.
  unfold wf_op, wf_opb. intros WF Pa.
  repeat (apply andb_true_iff in WF as [WF ?]).
  rename WF into Lv, H into Sp, H0 into Sa, H1 into Lp, H2 into Np.
  destruct o as [vid parents [[s1 s2] [e1 e2] de ho us sn ws attrs] preds].
  cbn [op_view_id op_parents op_meta op_predecessors md_attributes] in *.
  unfold read_operation, operation_from_proto, with_attr_order, operation_to_proto.
  cbn [po_view_id po_parents po_metadata po_predecessors po_stores op_view_id op_parents op_meta
       op_predecessors metadata_to_proto pm_start pm_end pm_description pm_hostname pm_username
       pm_is_snapshot pm_workspace md_start md_end md_description md_hostname md_username
       md_is_snapshot md_workspace md_attributes].
  rewrite hash_ids_ok by exact Lp. cbn [rbind].
  unfold hash_id_from_proto. unfold len_is in Lv. rewrite Lv. cbn [rbind op_parents].
  destruct parents as [|p0 parents]; [discriminate|]. cbn [is_nil].
  unfold metadata_from_proto.
  cbn [pm_start pm_end pm_description pm_hostname pm_username pm_is_snapshot pm_workspace
       pm_attributes timestamp_from_proto timestamp_to_proto pts_millis pts_tz].
  rewrite (map_of_list_perm a attrs Sa Pa).
  cbn [ts_millis ts_tz].
  destruct preds as [m|]; [|reflexivity].
  rewrite (map_of_list_id m) by exact Sp. reflexivity.
Qed.

(** * The ContentHash encoding is prefix-decodable *)
Lemma c_target_ok : codec_ok c_target.
Proof. apply c_list_ok, c_option_ok, c_bytes_ok. Qed.

Lemma c_state_ok : codec_ok c_state.
Proof. apply c_iso_ok; [intros []; reflexivity | apply c_unsigned_ok]. Qed.

Lemma c_remote_ref_ok : codec_ok c_remote_ref.
Proof.
  apply c_iso_ok; [intros []; reflexivity | apply c_pair_ok; [apply c_target_ok | apply c_state_ok]].
Qed.

Lemma c_map_ok {V} (cv : codec V) : codec_ok cv -> codec_ok (c_map cv).
Proof. intro H. apply c_list_ok, c_pair_ok; [apply c_bytes_ok | exact H]. Qed.

Lemma c_remote_view_ok : codec_ok c_remote_view.
Proof.
  apply c_iso_ok; [intros []; reflexivity | apply c_pair_ok; apply c_map_ok, c_remote_ref_ok].
Qed.

Lemma c_view_ok : codec_ok c_view.
Proof.
  apply c_iso_ok; [intros []; reflexivity|].
  repeat apply c_pair_ok;
    first [ apply c_list_ok, c_bytes_ok
          | apply c_map_ok, c_target_ok
          | apply c_map_ok, c_remote_view_ok
          | apply c_map_ok, c_bytes_ok ].
Qed.

Lemma c_timestamp_ok : codec_ok c_timestamp.
Proof.
  apply c_iso_ok; [intros []; reflexivity|]. apply c_pair_ok; apply c_signed_ok; lia.
Qed.

Lemma c_metadata_ok : codec_ok c_metadata.
Proof.
  apply c_iso_ok; [intros []; reflexivity|].
  repeat apply c_pair_ok;
    first [ apply c_timestamp_ok | apply c_bytes_ok | apply c_bool_ok
          | apply c_option_ok, c_bytes_ok | apply c_map_ok, c_bytes_ok ].
Qed.

Lemma c_operation_ok : codec_ok c_operation.
Proof.
  apply c_iso_ok; [intros []; reflexivity|].
  repeat apply c_pair_ok;
    first [ apply c_bytes_ok | apply c_list_ok, c_bytes_ok | apply c_metadata_ok
          | apply c_option_ok, c_map_ok, c_list_ok, c_bytes_ok ].
Qed.

Lemma bytes_wfb_spec b : bytes_wfb b = true -> cwf c_bytes b.
Proof.
  unfold bytes_wfb, lenb. intro H. apply andb_true_iff in H as [H1 H2]. split.
  - apply Forall_forall. intros x Hx. rewrite forallb_forall in H1. apply N.ltb_lt, H1, Hx.
  - apply N.ltb_lt, H2.
Qed.

Lemma list_wfb_spec {A} (c : codec A) (f : A -> bool) l :
  (forall x, f x = true -> cwf c x) -> forallb f l && lenb l = true -> cwf (c_list c) l.
Proof.
  intros Hf H. apply andb_true_iff in H as [H1 H2]. split.
  - apply Forall_forall. intros x Hx. rewrite forallb_forall in H1. apply Hf, H1, Hx.
  - apply N.ltb_lt, H2.
Qed.

Lemma target_wfb_spec t : target_wfb t = true -> cwf c_target t.
Proof.
  apply list_wfb_spec. intros [b|] H; [apply bytes_wfb_spec, H | exact I].
Qed.

Lemma map_wfb_spec {V} (cv : codec V) (f : V -> bool) m :
  (forall x, f x = true -> cwf cv x) -> map_wfb f m = true -> cwf (c_map cv) m.
Proof.
  intros Hf. apply list_wfb_spec. intros [k v] H. apply andb_true_iff in H as [H1 H2].
  split; [apply bytes_wfb_spec, H1 | apply Hf, H2].
Qed.

Lemma remote_ref_wfb_spec r : remote_ref_wfb r = true -> cwf c_remote_ref r.
Proof.
  intro H. split; [apply target_wfb_spec, H|]. cbn. destruct (rr_state r); cbn; lia.
Qed.

Lemma remote_view_wfb_spec r : remote_view_wfb r = true -> cwf c_remote_view r.
Proof.
  unfold remote_view_wfb. intro H. apply andb_true_iff in H as [H1 H2].
  split; (eapply map_wfb_spec; [apply remote_ref_wfb_spec | eassumption]).
Qed.

Lemma view_enc_wfb_spec v : view_enc_wfb v = true -> cwf c_view v.
Proof.
  unfold view_enc_wfb. intro H. repeat (apply andb_true_iff in H as [H ?]).
  destruct v as [heads lbs lts rvs grs ghs wcs].
  cbn [v_head_ids v_local_bookmarks v_local_tags v_remote_views v_git_refs
       v_git_heads v_wc_commit_ids] in *.
  repeat split; cbn [fst snd];
    first [ eapply (list_wfb_spec c_bytes bytes_wfb); [apply bytes_wfb_spec | apply andb_true_iff; split; eassumption]
          | eapply map_wfb_spec; [apply target_wfb_spec | eassumption]
          | eapply map_wfb_spec; [apply remote_view_wfb_spec | eassumption]
          | eapply map_wfb_spec; [apply bytes_wfb_spec | eassumption] ].
Qed.

Lemma timestamp_wfb_spec t : timestamp_wfb t = true -> cwf c_timestamp t.
Proof.
  unfold timestamp_wfb. intro H. repeat (apply andb_true_iff in H as [H ?]).
  apply Z.leb_le in H. apply Z.ltb_lt in H0. apply Z.leb_le in H1. apply Z.ltb_lt in H2.
  split; cbn [fst snd cwf c_signed]; cbn; lia.
Qed.

Lemma op_enc_wfb_spec o : op_enc_wfb o = true -> cwf c_operation o.
Proof.
  unfold op_enc_wfb. intro H.
  destruct o as [vid parents [st en de ho us sn ws attrs] preds].
  cbn [op_view_id op_parents op_meta op_predecessors md_start md_end md_description md_hostname
       md_username md_is_snapshot md_workspace md_attributes] in *.
  apply andb_true_iff in H as [H Hpreds]. apply andb_true_iff in H as [H Hattrs].
  apply andb_true_iff in H as [H Hws]. apply andb_true_iff in H as [H Hus].
  apply andb_true_iff in H as [H Hho]. apply andb_true_iff in H as [H Hde].
  apply andb_true_iff in H as [H Hen]. apply andb_true_iff in H as [H Hst].
  apply andb_true_iff in H as [H Hlp]. apply andb_true_iff in H as [Hvid Hps].
  refine (conj (bytes_wfb_spec _ Hvid) (conj _ (conj _ _))).
  - eapply (list_wfb_spec c_bytes bytes_wfb); [apply bytes_wfb_spec | apply andb_true_iff; split; eassumption].
  - refine (conj (conj (timestamp_wfb_spec _ Hst) (timestamp_wfb_spec _ Hen))
             (conj (bytes_wfb_spec _ Hde) (conj (bytes_wfb_spec _ Hho) (conj (bytes_wfb_spec _ Hus)
             (conj I (conj _ _)))))).
    + destruct ws; [apply bytes_wfb_spec; assumption | exact I].
    + eapply map_wfb_spec; [apply bytes_wfb_spec | eassumption].
  - destruct preds as [p|]; [|exact I].
    eapply map_wfb_spec; [|eassumption]. intros l Hl.
    eapply (list_wfb_spec c_bytes bytes_wfb); [apply bytes_wfb_spec | exact Hl].
Qed.

Theorem view_dec_enc v r : view_enc_wfb v = true -> dec c_view (enc_view v ++ r) = Some (v, r).
Proof. intro H. apply c_view_ok, view_enc_wfb_spec, H. Qed.

Theorem view_enc_injective v1 v2 :
  view_enc_wfb v1 = true -> view_enc_wfb v2 = true -> enc_view v1 = enc_view v2 -> v1 = v2.
Proof. intros H1 H2. apply (codec_inj _ c_view_ok); apply view_enc_wfb_spec; assumption. Qed.

Theorem operation_dec_enc o r :
  op_enc_wfb o = true -> dec c_operation (enc_operation o ++ r) = Some (o, r).
Proof. intro H. apply c_operation_ok, op_enc_wfb_spec, H. Qed.

Theorem operation_enc_injective o1 o2 :
  op_enc_wfb o1 = true -> op_enc_wfb o2 = true -> enc_operation o1 = enc_operation o2 -> o1 = o2.
Proof. intros H1 H2. apply (codec_inj _ c_operation_ok); apply op_enc_wfb_spec; assumption. Qed.

(** An id is the hash of the encoding: equal ids of different values are a hash collision. *)
Theorem id_collision_is_hash_collision {A} (c : codec A) (H : bytes -> bytes) :
  codec_ok c -> forall x y, cwf c x -> cwf c y ->
  H (enc c x) = H (enc c y) -> x = y \/ (enc c x <> enc c y /\ H (enc c x) = H (enc c y)).
Proof.
  intros Hc x y Wx Wy E. destruct (bytes_eqb (enc c x) (enc c y)) eqn:B.
  - left. apply bytes_eqb_spec in B. apply (codec_inj _ Hc); assumption.
  - right. split; [|exact E]. intro E'. apply bytes_eqb_spec in E'. congruence.
Qed.

(** * Boolean equalities reflect equality *)
Lemma target_eqb_spec a b : target_eqb a b = true <-> a = b.
Proof. apply list_eqb_spec, option_eqb_spec, bytes_eqb_spec. Qed.

Lemma rstate_eqb_spec a b : rstate_eqb a b = true <-> a = b.
Proof. destruct a, b; cbn; split; intro H; try discriminate; reflexivity. Qed.

Lemma remote_ref_eqb_spec a b : remote_ref_eqb a b = true <-> a = b.
Proof.
  destruct a as [a1 a2], b as [b1 b2]. unfold remote_ref_eqb. cbn [rr_target rr_state].
  rewrite andb_true_iff, target_eqb_spec, rstate_eqb_spec.
  split; [intros [-> ->]; reflexivity | intros [= -> ->]; auto].
Qed.

Lemma map_eqb_spec {V} (e : V -> V -> bool) :
  (forall x y, e x y = true <-> x = y) -> forall a b, map_eqb e a b = true <-> a = b.
Proof. intro H. apply list_eqb_spec, pair_eqb_spec; [apply bytes_eqb_spec | exact H]. Qed.

Lemma remote_view_eqb_spec a b : remote_view_eqb a b = true <-> a = b.
Proof.
  destruct a as [a1 a2], b as [b1 b2]. unfold remote_view_eqb. cbn [rv_bookmarks rv_tags].
  rewrite andb_true_iff, !(map_eqb_spec _ remote_ref_eqb_spec).
  split; [intros [-> ->]; reflexivity | intros [= -> ->]; auto].
Qed.

Lemma view_eqb_spec a b : view_eqb a b = true <-> a = b.
Proof.
  destruct a as [a1 a2 a3 a4 a5 a6 a7], b as [b1 b2 b3 b4 b5 b6 b7]. unfold view_eqb.
  cbn [v_head_ids v_local_bookmarks v_local_tags v_remote_views v_git_refs v_git_heads
       v_wc_commit_ids].
  rewrite !andb_true_iff, (list_eqb_spec _ bytes_eqb_spec), !(map_eqb_spec _ target_eqb_spec),
    (map_eqb_spec _ remote_view_eqb_spec), (map_eqb_spec _ bytes_eqb_spec).
  split; [intros [[[[[[-> ->] ->] ->] ->] ->] ->]; reflexivity | intros [= -> -> -> -> -> -> ->]; tauto].
Qed.

Lemma timestamp_eqb_spec a b : timestamp_eqb a b = true <-> a = b.
Proof.
  destruct a as [a1 a2], b as [b1 b2]. unfold timestamp_eqb. cbn [ts_millis ts_tz].
  rewrite andb_true_iff, !Z.eqb_eq. split; [intros [-> ->]; reflexivity | intros [= -> ->]; auto].
Qed.

Lemma bool_eqb_spec a b : Bool.eqb a b = true <-> a = b.
Proof. destruct a, b; cbn; split; intro H; try discriminate; reflexivity. Qed.

Lemma metadata_eqb_spec a b : metadata_eqb a b = true <-> a = b.
Proof.
  destruct a as [a1 a2 a3 a4 a5 a6 a7 a8], b as [b1 b2 b3 b4 b5 b6 b7 b8]. unfold metadata_eqb.
  cbn [md_start md_end md_description md_hostname md_username md_is_snapshot md_workspace
       md_attributes].
  rewrite !andb_true_iff, !timestamp_eqb_spec, !bytes_eqb_spec, bool_eqb_spec,
    (option_eqb_spec _ bytes_eqb_spec), (map_eqb_spec _ bytes_eqb_spec).
  split; [intros [[[[[[[-> ->] ->] ->] ->] ->] ->] ->]; reflexivity
         | intros [= -> -> -> -> -> -> -> ->]; tauto].
Qed.

Lemma operation_eqb_spec a b : operation_eqb a b = true <-> a = b.
Proof.
  destruct a as [a1 a2 a3 a4], b as [b1 b2 b3 b4]. unfold operation_eqb.
  cbn [op_view_id op_parents op_meta op_predecessors].
  rewrite !andb_true_iff, bytes_eqb_spec, (list_eqb_spec _ bytes_eqb_spec), metadata_eqb_spec,
    (option_eqb_spec _ (map_eqb_spec _ (list_eqb_spec _ bytes_eqb_spec))).
  split; [intros [[[-> ->] ->] ->]; reflexivity | intros [= -> -> -> ->]; tauto].
Qed.

Lemma perr_eqb_spec a b : perr_eqb a b = true <-> a = b.
Proof.
  destruct a, b; cbn; try (split; [discriminate | intros [=]]).
  - rewrite andb_true_iff, !N.eqb_eq. split; [intros [-> ->]; reflexivity | intros [= -> ->]; auto].
  - rewrite Z.eqb_eq. split; [intros ->; reflexivity | intros [= ->]; auto].
  - rewrite N.eqb_eq. split; [intros ->; reflexivity | intros [= ->]; auto].
Qed.

(** * What the checker means *)
Lemma eqb_iff (a b : bool) : Bool.eqb a b = true <-> (a = true <-> b = true).
Proof. destruct a, b; cbn; intuition discriminate. Qed.

Theorem okb_spec c : okb c = true <-> case_ok c.
Proof.
  destruct c as [v w via stored read hashed vid vid2 wid ih | p read
                | o w stored read hashed oid oid2 wid ih | p read]; cbn [okb case_ok].
  - rewrite !andb_true_iff, bytes_eqb_spec, eqb_iff, bytes_eqb_spec, view_eqb_spec.
    unfold view_res_eqb, wf_view.
    rewrite !orb_true_iff, !negb_true_iff, (res_eqb_spec _ _ perr_eqb_spec view_eqb_spec).
    split.
    + intros [[[H1 H2] H3] H4]. repeat split; try tauto.
      * intros ->. destruct H1; [discriminate | assumption].
      * intro W. destruct H2; [congruence | assumption].
    + intros [H1 [H2 [H3 H4]]]. repeat split; try tauto.
      * destruct via; [right; auto | left; reflexivity].
      * destruct (wf_viewb v); [right; auto | left; reflexivity].
  - destruct read as [v| |]; [| split; [intros _ v' [=] | reflexivity]
                              | split; [intros _ v' [=] | reflexivity]].
    split.
    + intros H v' [= <-]. exact H.
    + intro H. exact (H v eq_refl).
  - rewrite !andb_true_iff, bytes_eqb_spec, eqb_iff, bytes_eqb_spec, operation_eqb_spec.
    unfold op_res_eqb, wf_op.
    rewrite !orb_true_iff, !negb_true_iff, (res_eqb_spec _ _ perr_eqb_spec operation_eqb_spec).
    split.
    + intros [[H2 H3] H4]. repeat split; try tauto.
      intro W. destruct H2; [congruence | assumption].
    + intros [H2 [H3 H4]]. repeat split; try tauto.
      destruct (wf_opb o); [right; auto | left; reflexivity].
  - destruct read as [o| |]; [| split; [intros _ o' [=] | reflexivity]
                              | split; [intros _ o' [=] | reflexivity]].
    split.
    + intros H o' [= <-]. exact H.
    + intro H. exact (H o eq_refl).
Qed.

Lemma view_id_collision (H : bytes -> bytes) (v1 v2 : view) :
  view_enc_wfb v1 = true -> view_enc_wfb v2 = true ->
  H (enc_view v1) = H (enc_view v2) ->
  v1 = v2 \/ (enc_view v1 <> enc_view v2 /\ H (enc_view v1) = H (enc_view v2)).
Proof.
  intros W1 W2. apply (id_collision_is_hash_collision c_view H c_view_ok);
    apply view_enc_wfb_spec; assumption.
Qed.

Lemma op_id_collision (H : bytes -> bytes) (o1 o2 : operation) :
  op_enc_wfb o1 = true -> op_enc_wfb o2 = true ->
  H (enc_operation o1) = H (enc_operation o2) ->
  o1 = o2 \/ (enc_operation o1 <> enc_operation o2 /\ H (enc_operation o1) = H (enc_operation o2)).
Proof.
  intros W1 W2. apply (id_collision_is_hash_collision c_operation H c_operation_ok);
    apply op_enc_wfb_spec; assumption.
Qed.

Lemma absent_local_refuted :
  exists v, wf_viewb v = false /\ view_from_proto (view_to_proto v) <> Ok v.
Proof.
  exists (mk_view [] [([97], absent)] [] [] [] [] []). split; [reflexivity|].
  rewrite (proj1 absent_local_not_roundtrip). discriminate.
Qed.

(** * Whatever view_from_proto returns is well-formed *)
Lemma pad_adds_even ads : Nat.even (length (pad_adds ads)) = true.
Proof. induction ads as [|a t IH]; [reflexivity|]. cbn [pad_adds length]. exact IH. Qed.

Lemma zip_legacy_even rs : forall ads, Nat.even (length (zip_legacy rs ads)) = true.
Proof.
  induction rs as [|r rs IH]; intro ads; [apply pad_adds_even|].
  destruct ads as [|a ads]; cbn [zip_legacy length]; apply IH.
Qed.

Lemma from_legacy_form_odd rs ads : oddb (from_legacy_form rs ads) = true.
Proof.
  unfold from_legacy_form. destruct ads as [|a ads]; rewrite oddb_cons; apply zip_legacy_even.
Qed.

Lemma interleave_even {A} (rs : list A) : forall ads l,
  interleave rs ads = Ok l -> Nat.even (length l) = true.
Proof.
  induction rs as [|r rs IH]; intros [|a ads] l; cbn [interleave]; try discriminate.
  - intros [= <-]. reflexivity.
  - destruct (interleave rs ads) as [l'| |] eqn:E; cbn [rbind]; try discriminate.
    intros [= <-]. cbn [length]. exact (IH _ _ E).
Qed.

Lemma ref_target_from_proto_odd p t : ref_target_from_proto p = Ok t -> oddb t = true.
Proof.
  destruct p as [[[b|rs ads|rs ads]|]|]; cbn [ref_target_from_proto]; try discriminate.
  - intros [= <-]. reflexivity.
  - intros [= <-]. apply from_legacy_form_odd.
  - unfold from_removes_adds. destruct ads as [|a ads]; [discriminate|].
    destruct (interleave rs ads) as [l| |] eqn:E; cbn [rbind]; try discriminate.
    intros [= <-]. rewrite oddb_cons. exact (interleave_even _ _ _ E).
  - intros [= <-]. reflexivity.
Qed.

Lemma terms_from_proto_odd ts t : ref_target_from_terms_proto ts = Ok t -> oddb t = true.
Proof.
  unfold ref_target_from_terms_proto, oddb. destruct (Nat.even (length ts)) eqn:E; [discriminate|].
  intros [= <-]. rewrite <- Nat.negb_even, E. reflexivity.
Qed.

Lemma rmapM_Forall {E A B} (f : A -> res E B) (P : B -> Prop) l : forall l',
  (forall x y, In x l -> f x = Ok y -> P y) -> rmapM f l = Ok l' -> Forall P l'.
Proof.
  induction l as [|x l IH]; intros l' H; cbn [rmapM].
  - intros [= <-]. constructor.
  - destruct (f x) as [y| |] eqn:Fx; cbn [rbind]; try discriminate.
    destruct (rmapM f l) as [ys| |] eqn:R; cbn [rbind]; try discriminate.
    intros [= <-]. constructor.
    + eapply H; [left; reflexivity | exact Fx].
    + apply IH; [|reflexivity]. intros x' y' Hin. apply H. right. exact Hin.
Qed.

Lemma map_insert_In_weak {V} k (v : V) m x :
  In x (map_insert k v m) -> x = (k, v) \/ In x m.
Proof.
  induction m as [|[k' v'] m IH]; cbn [map_insert].
  - intros [<-|[]]. left; reflexivity.
  - destruct (bytes_ltb k k'); [intros [<-|H]; auto|].
    destruct (bytes_ltb k' k).
    + intros [<-|H]; [right; left; reflexivity|]. destruct (IH H); auto. right; right; assumption.
    + intros [<-|H]; [left; reflexivity | right; right; exact H].
Qed.

Lemma fold_insert_Forall {V} (P : bytes * V -> Prop) (l : list (bytes * V)) : forall m,
  Forall P m -> Forall P l ->
  Forall P (fold_left (fun m kv => map_insert (fst kv) (snd kv) m) l m).
Proof.
  induction l as [|[k v] l IH]; intros m Hm Hl; [exact Hm|].
  inversion Hl; subst. cbn [fold_left fst snd]. apply IH; [|assumption].
  apply Forall_forall. intros x Hx. apply map_insert_In_weak in Hx as [->|Hx]; [assumption|].
  rewrite Forall_forall in Hm. apply Hm, Hx.
Qed.

Lemma map_of_list_Forall {V} (P : bytes * V -> Prop) (l : list (bytes * V)) :
  Forall P l -> Forall P (map_of_list l).
Proof. intro H. apply fold_insert_Forall; [constructor | exact H]. Qed.

Lemma map_insert_Forall {V} (P : bytes * V -> Prop) k (v : V) m :
  P (k, v) -> Forall P m -> Forall P (map_insert k v m).
Proof.
  intros Hk Hm. apply Forall_forall. intros x Hx.
  apply map_insert_In_weak in Hx as [->|Hx]; [exact Hk|]. rewrite Forall_forall in Hm. apply Hm, Hx.
Qed.

Lemma targets_oddb_Forall {K} (m : list (K * target)) :
  targets_oddb m = true <-> Forall (fun kv => oddb (snd kv) = true) m.
Proof. unfold targets_oddb. rewrite forallb_forall, Forall_forall. reflexivity. Qed.

Lemma named_targets_odd l l' :
  rmapM named_target_from_proto l = Ok l' -> Forall (fun kv : bytes * target => oddb (snd kv) = true) l'.
Proof.
  apply rmapM_Forall. intros [k p] [k' t] _. unfold named_target_from_proto. cbn [fst snd].
  destruct (ref_target_from_proto p) as [t'| |] eqn:E; cbn [rbind]; try discriminate.
  intros [= _ <-]. exact (ref_target_from_proto_odd _ _ E).
Qed.

Lemma git_refs_odd l l' :
  rmapM git_ref_from_proto l = Ok l' -> Forall (fun kv : bytes * target => oddb (snd kv) = true) l'.
Proof.
  apply rmapM_Forall. intros [n c p] [k' t] _. unfold git_ref_from_proto. cbn [pgr_target pgr_name pgr_commit_id].
  destruct p as [p0|].
  - destruct (ref_target_from_proto (Some p0)) as [t'| |] eqn:E; cbn [rbind]; try discriminate.
    intros [= _ <-]. exact (ref_target_from_proto_odd _ _ E).
  - intros [= _ <-]. reflexivity.
Qed.

Definition ref_ok (kv : bytes * remote_ref) : Prop := oddb (rr_target (snd kv)) = true.
Definition rv_ok (kv : bytes * remote_view) : Prop :=
  refs_okb (rv_bookmarks (snd kv)) = true /\ refs_okb (rv_tags (snd kv)) = true.

Lemma refs_okb_intro m : keys_sortedb m = true -> Forall ref_ok m -> refs_okb m = true.
Proof.
  intros S F. unfold refs_okb. rewrite S. cbn. apply forallb_forall. intros kv Hin.
  rewrite Forall_forall in F. apply F, Hin.
Qed.

Lemma refs_okb_elim m : refs_okb m = true -> keys_sortedb m = true /\ Forall ref_ok m.
Proof.
  unfold refs_okb. intro H. apply andb_true_iff in H as [S F]. split; [exact S|].
  apply Forall_forall. intros kv Hin. rewrite forallb_forall in F. apply F, Hin.
Qed.

Lemma remote_refs_from_proto_ok l m : remote_refs_from_proto l = Ok m -> refs_okb m = true.
Proof.
  unfold remote_refs_from_proto. destruct (rmapM remote_ref_from_proto l) as [es| |] eqn:R; cbn [rbind]; try discriminate.
  intros [= <-]. apply refs_okb_intro; [apply map_of_list_sorted|].
  apply map_of_list_Forall. revert R. apply rmapM_Forall.
  intros [n ts st] [k rr] _. unfold remote_ref_from_proto. cbn [prr_terms prr_state prr_name].
  destruct (ref_target_from_terms_proto ts) as [t| |] eqn:E; cbn [rbind]; try discriminate.
  destruct (state_from_proto st) as [s| |]; cbn [rbind]; try discriminate.
  intros [= _ <-]. exact (terms_from_proto_odd _ _ E).
Qed.

Lemma remote_views_from_proto_ok l m :
  remote_views_from_proto l = Ok m -> keys_sortedb m = true /\ Forall rv_ok m.
Proof.
  unfold remote_views_from_proto. destruct (rmapM remote_view_from_proto l) as [es| |] eqn:R; cbn [rbind]; try discriminate.
  intros [= <-]. split; [apply map_of_list_sorted|].
  apply map_of_list_Forall. revert R. apply rmapM_Forall.
  intros [n bs ts] [k rv] _. unfold remote_view_from_proto. cbn [prv_bookmarks prv_tags prv_name].
  destruct (remote_refs_from_proto bs) as [b| |] eqn:Eb; cbn [rbind]; try discriminate.
  destruct (remote_refs_from_proto ts) as [t| |] eqn:Et; cbn [rbind]; try discriminate.
  intros [= _ <-]. split; [exact (remote_refs_from_proto_ok _ _ Eb) | exact (remote_refs_from_proto_ok _ _ Et)].
Qed.

Lemma map_lookup_Forall {V} (P : bytes * V -> Prop) k (m : list (bytes * V)) v :
  Forall P m -> map_lookup k m = Some v -> P (k, v).
Proof.
  induction m as [|[k' v'] m IH]; intros F; [discriminate|]. inversion F; subst. cbn [map_lookup].
  destruct (bytes_eqb k k') eqn:E.
  - apply bytes_eqb_spec in E. subst. intros [= <-]. assumption.
  - apply IH. assumption.
Qed.

Lemma rv_ok_empty k : rv_ok (k, rv_empty).
Proof. split; reflexivity. Qed.

Lemma rvs_insert_bookmark_ok remote name rr rvs :
  oddb (rr_target rr) = true -> keys_sortedb rvs = true -> Forall rv_ok rvs ->
  keys_sortedb (rvs_insert_bookmark remote name rr rvs) = true
  /\ Forall rv_ok (rvs_insert_bookmark remote name rr rvs).
Proof.
  intros O S F. unfold rvs_insert_bookmark. split; [apply map_insert_sorted, S|].
  apply map_insert_Forall; [|exact F].
  assert (Hrv : rv_ok (remote, match map_lookup remote rvs with Some rv => rv | None => rv_empty end)).
  { destruct (map_lookup remote rvs) as [rv|] eqn:L; [|apply rv_ok_empty].
    exact (map_lookup_Forall rv_ok remote rvs rv F L). }
  destruct Hrv as [Hb Ht]. cbn [snd] in Hb, Ht. split; cbn [snd rv_bookmarks rv_tags]; [|exact Ht].
  apply refs_okb_elim in Hb as [Sb Fb]. apply refs_okb_intro; [apply map_insert_sorted, Sb|].
  apply map_insert_Forall; [exact O | exact Fb].
Qed.

Lemma legacy_remotes_ok' name rbs : forall rvs rvs',
  keys_sortedb rvs = true -> Forall rv_ok rvs ->
  legacy_remotes name rbs rvs = Ok rvs' -> keys_sortedb rvs' = true /\ Forall rv_ok rvs'.
Proof.
  induction rbs as [|rb rbs IH]; intros rvs rvs' S F; cbn [legacy_remotes].
  - intros [= <-]. auto.
  - assert (Step : forall st,
      rbind (ref_target_from_proto (prb_target rb))
        (fun tg => legacy_remotes name rbs
                     (rvs_insert_bookmark (prb_remote rb) name (mk_rr tg st) rvs)) = Ok rvs' ->
      keys_sortedb rvs' = true /\ Forall rv_ok rvs').
    { intro st.
      destruct (ref_target_from_proto (prb_target rb)) as [tg| |] eqn:E; cbn [rbind]; try discriminate.
      destruct (rvs_insert_bookmark_ok (prb_remote rb) name (mk_rr tg st) rvs
                  (ref_target_from_proto_odd _ _ E) S F) as [S' F'].
      intro H. exact (IH _ _ S' F' H). }
    destruct (prb_state rb) as [n|].
    + destruct (state_from_proto n) as [st| |]; cbn [rbind]; try discriminate. apply Step.
    + cbn [rbind]. apply Step.
Qed.

Definition local_ok (kv : bytes * target) : Prop := oddb (snd kv) = true /\ is_absent (snd kv) = false.

Lemma legacy_bookmarks_wf bs : forall locals rvs locals' rvs',
  keys_sortedb locals = true -> Forall local_ok locals ->
  keys_sortedb rvs = true -> Forall rv_ok rvs ->
  legacy_bookmarks bs locals rvs = Ok (locals', rvs') ->
  keys_sortedb locals' = true /\ Forall local_ok locals'
  /\ keys_sortedb rvs' = true /\ Forall rv_ok rvs'.
Proof.
  induction bs as [|b bs IH]; intros locals rvs locals' rvs' Sl Fl Sr Fr; cbn [legacy_bookmarks].
  - intros [= <- <-]. auto.
  - destruct (ref_target_from_proto (pb_local b)) as [lt| |] eqn:E; cbn [rbind]; try discriminate.
    destruct (legacy_remotes (pb_name b) (pb_remotes b) rvs) as [rvs1| |] eqn:R; cbn [rbind]; try discriminate.
    destruct (legacy_remotes_ok' _ _ _ _ Sr Fr R) as [Sr1 Fr1].
    apply IH; try assumption.
    + destruct (is_absent lt); [exact Sl | apply map_insert_sorted, Sl].
    + destruct (is_absent lt) eqn:A; [exact Fl|]. apply map_insert_Forall; [|exact Fl].
      split; [exact (ref_target_from_proto_odd _ _ E) | exact A].
Qed.

Lemma git_tags_of_ok grs : forall tags,
  Forall (fun kv : bytes * target => oddb (snd kv) = true) grs ->
  git_tags_of grs = Ok tags -> Forall ref_ok tags.
Proof.
  induction grs as [|[full t] grs IH]; intros tags F; cbn [git_tags_of].
  - intros [= <-]. constructor.
  - inversion F; subst. destruct (strip_prefix C16_GIT_TAGS_PREFIX full) as [[|c name]|].
    + discriminate.
    + destruct (git_tags_of grs) as [l| |] eqn:G; cbn [rbind]; try discriminate.
      intros [= <-]. constructor; [assumption | apply IH; auto].
    + apply IH. assumption.
Qed.

Lemma migrate_git_tags_ok git_refs rvs rvs' :
  Forall (fun kv : bytes * target => oddb (snd kv) = true) git_refs ->
  keys_sortedb rvs = true -> Forall rv_ok rvs ->
  migrate_git_tags git_refs rvs = Ok rvs' -> keys_sortedb rvs' = true /\ Forall rv_ok rvs'.
Proof.
  intros Fg S F. unfold migrate_git_tags.
  destruct (git_tags_of git_refs) as [tags| |] eqn:G; cbn [rbind]; try discriminate.
  destruct (is_nil tags); [intros [= <-]; auto|].
  set (rv := match map_lookup C16_REMOTE_NAME_FOR_LOCAL_GIT_REPO rvs with Some rv => rv | None => rv_empty end).
  assert (Hrv : rv_ok (C16_REMOTE_NAME_FOR_LOCAL_GIT_REPO, rv)).
  { unfold rv. destruct (map_lookup C16_REMOTE_NAME_FOR_LOCAL_GIT_REPO rvs) as [rv0|] eqn:L; [|apply rv_ok_empty].
    exact (map_lookup_Forall rv_ok _ rvs rv0 F L). }
  destruct (is_nil (rv_tags rv)); [|discriminate]. intros [= <-].
  split; [apply map_insert_sorted, S|]. apply map_insert_Forall; [|exact F].
  destruct Hrv as [Hb _]. split; cbn [snd rv_bookmarks rv_tags]; [exact Hb|].
  apply refs_okb_intro; [apply map_of_list_sorted|]. apply map_of_list_Forall.
  exact (git_tags_of_ok _ _ Fg G).
Qed.

Lemma forallb_of_Forall {A} (f : A -> bool) l : Forall (fun x => f x = true) l -> forallb f l = true.
Proof. intro H. apply forallb_forall. rewrite Forall_forall in H. exact H. Qed.

Lemma set_of_list_sorted l : strict_sortedb (set_of_list l) = true.
Proof. unfold set_of_list. apply (map_of_list_sorted (V:=unit)). Qed.

Theorem view_from_proto_wf p v : view_from_proto p = Ok v -> wf_view v.
Proof.
  unfold view_from_proto, bookmark_views_from_proto_legacy.
  destruct (legacy_bookmarks (pv_bookmarks p) [] []) as [[locals rvs0]| |] eqn:L; cbn [rbind]; try discriminate.
  destruct (legacy_bookmarks_wf _ [] [] locals rvs0 eq_refl (Forall_nil _) eq_refl (Forall_nil _) L)
    as [Sl [Fl [Sr0 Fr0]]].
  destruct (rmapM named_target_from_proto (pv_local_tags p)) as [tags| |] eqn:T; cbn [rbind]; try discriminate.
  destruct (rmapM git_ref_from_proto (pv_git_refs p)) as [grs| |] eqn:G; cbn [rbind]; try discriminate.
  pose proof (map_of_list_Forall _ _ (git_refs_odd _ _ G)) as Fgr.
  cbn [fst snd].
  assert (Hrvs : forall rvs, (if is_nil (pv_remote_views p) then Ok rvs0
                              else remote_views_from_proto (pv_remote_views p)) = Ok rvs ->
                             keys_sortedb rvs = true /\ Forall rv_ok rvs).
  { intros rvs. destruct (is_nil (pv_remote_views p)); [intros [= <-]; auto|].
    apply remote_views_from_proto_ok. }
  destruct (if is_nil (pv_remote_views p) then Ok rvs0 else remote_views_from_proto (pv_remote_views p))
    as [rvs| |] eqn:RV; cbn [rbind]; try discriminate.
  destruct (Hrvs rvs eq_refl) as [Sr Fr].
  assert (Hrvs' : forall rvs', (if pv_migrated p then Ok rvs else migrate_git_tags (map_of_list grs) rvs) = Ok rvs' ->
                               keys_sortedb rvs' = true /\ Forall rv_ok rvs').
  { intros rvs'. destruct (pv_migrated p); [intros [= <-]; auto|].
    apply migrate_git_tags_ok; assumption. }
  destruct (if pv_migrated p then Ok rvs else migrate_git_tags (map_of_list grs) rvs) as [rvs'| |] eqn:RV';
    cbn [rbind]; try discriminate.
  destruct (Hrvs' rvs' eq_refl) as [Sr' Fr'].
  destruct (rmapM named_target_from_proto (pv_git_heads p)) as [ghs| |] eqn:GH; cbn [rbind]; try discriminate.
  pose proof (map_of_list_Forall _ _ (named_targets_odd _ _ GH)) as Fgh.
  pose proof (map_of_list_Forall _ _ (named_targets_odd _ _ T)) as Flt.
  assert (Hgh : forall ghs', (if is_nil (map_of_list ghs)
      then rbind match pv_git_head p with
                 | Some _ => ref_target_from_proto (pv_git_head p)
                 | None => if is_nil (pv_git_head_legacy p) then Ok absent else Ok [Some (pv_git_head_legacy p)]
                 end
             (fun gh => Ok (if is_absent gh then map_of_list ghs
                            else map_insert C16_WORKSPACE_DEFAULT gh (map_of_list ghs)))
      else Ok (map_of_list ghs)) = Ok ghs' ->
      keys_sortedb ghs' = true /\ Forall (fun kv : bytes * target => oddb (snd kv) = true) ghs').
  { intros ghs'. destruct (is_nil (map_of_list ghs)).
    - destruct (pv_git_head p) as [gp|] eqn:Egp.
      + destruct (ref_target_from_proto (Some gp)) as [gh| |] eqn:E; cbn [rbind]; try discriminate.
        intros [= <-]. destruct (is_absent gh); [split; [apply map_of_list_sorted | exact Fgh]|].
        split; [apply map_insert_sorted, map_of_list_sorted|].
        apply map_insert_Forall; [exact (ref_target_from_proto_odd _ _ E) | exact Fgh].
      + destruct (is_nil (pv_git_head_legacy p)); cbn [rbind]; intros [= <-].
        * split; [apply map_of_list_sorted | exact Fgh].
        * split; [apply map_insert_sorted, map_of_list_sorted|].
          apply map_insert_Forall; [reflexivity | exact Fgh].
    - intros [= <-]. split; [apply map_of_list_sorted | exact Fgh]. }
  match goal with |- rbind ?X _ = _ -> _ => destruct X as [ghs'| |] eqn:GH' end; cbn [rbind]; try discriminate.
  destruct (Hgh ghs' eq_refl) as [Sgh Fgh'].
  intros [= <-]. unfold wf_view, wf_viewb.
  cbn [v_head_ids v_local_bookmarks v_local_tags v_remote_views v_git_refs v_git_heads v_wc_commit_ids].
  rewrite set_of_list_sorted, Sl, !map_of_list_sorted, Sr', Sgh. cbn [andb].
  assert (E1 : targets_oddb locals = true).
  { apply targets_oddb_Forall. eapply Forall_impl; [|exact Fl]. intros a [H _]. exact H. }
  assert (E2 : forallb (fun kv : bytes * target => negb (is_absent (snd kv))) locals = true).
  { apply forallb_of_Forall. eapply Forall_impl; [|exact Fl]. intros a [_ H]. rewrite H. reflexivity. }
  assert (E3 : targets_oddb (map_of_list tags) = true) by (apply targets_oddb_Forall; exact Flt).
  assert (E4 : forallb (fun kv : bytes * remote_view =>
                          refs_okb (rv_bookmarks (snd kv)) && refs_okb (rv_tags (snd kv))) rvs' = true).
  { apply forallb_of_Forall. eapply Forall_impl; [|exact Fr']. intros a [H1 H2]. rewrite H1, H2. reflexivity. }
  assert (E5 : targets_oddb (map_of_list grs) = true) by (apply targets_oddb_Forall; exact Fgr).
  assert (E6 : targets_oddb ghs' = true) by (apply targets_oddb_Forall; exact Fgh').
  rewrite E1, E2, E3, E4, E5, E6. cbn [andb].
  apply fold_insert_sorted. destruct (is_nil (pv_wc_commit_id p)); reflexivity.
Qed.

(** Hence a view that was read can be written and read again unchanged. *)
Corollary view_reread p v :
  view_from_proto p = Ok v -> view_from_proto (view_to_proto v) = Ok v.
Proof.
  intro H. apply view_from_proto_wf in H.
  exact (view_roundtrip v (v_head_ids v) (v_wc_commit_ids v) H
           (Permutation_refl _) (Permutation_refl _)).
Qed.

(** * Whatever read_operation returns is well-formed *)
Lemma hash_ids_len n l l' :
  rmapM (hash_id_from_proto n) l = Ok l' -> forallb (len_is n) l' = true.
Proof.
  intro H. apply forallb_of_Forall. revert H. apply rmapM_Forall.
  intros x y _. unfold hash_id_from_proto, len_is. destruct (N.of_nat (length x) =? n) eqn:E; [|discriminate].
  intros [= <-]. exact E.
Qed.

Theorem read_operation_wf p o : read_operation p = Ok o -> wf_op o.
Proof.
  unfold read_operation, operation_from_proto.
  destruct (rmapM (hash_id_from_proto C16_OPERATION_ID_LENGTH) (po_parents p)) as [parents| |] eqn:P;
    cbn [rbind]; try discriminate.
  pose proof (hash_ids_len _ _ _ P) as Lp.
  unfold hash_id_from_proto at 1.
  destruct (N.of_nat (length (po_view_id p)) =? C16_VIEW_ID_LENGTH) eqn:Lv; cbn [rbind]; [|discriminate].
  cbn [op_parents op_view_id op_meta op_predecessors].
  assert (Sa : keys_sortedb (md_attributes (metadata_from_proto (po_metadata p))) = true).
  { unfold metadata_from_proto. cbn [md_attributes]. apply map_of_list_sorted. }
  assert (Spd : match (if po_stores p then Some (map_of_list (po_predecessors p)) else None) with
                | Some m => keys_sortedb m | None => true end = true).
  { destruct (po_stores p); [apply map_of_list_sorted | reflexivity]. }
  destruct parents as [|p0 parents]; cbn [is_nil]; intros [= <-]; unfold wf_op, wf_opb;
    cbn [op_view_id op_parents op_meta op_predecessors is_nil negb]; unfold len_is at 1;
    rewrite Lv, Sa, Spd.
  - vm_compute. reflexivity.
  - rewrite Lp. reflexivity.
Qed.

Corollary operation_reread p o :
  read_operation p = Ok o -> read_operation (operation_to_proto o) = Ok o.
Proof.
  intro H. apply read_operation_wf in H.
  pose proof (operation_roundtrip o (md_attributes (op_meta o)) H (Permutation_refl _)) as R.
  destruct o as [vid parents [s e de ho us sn ws attrs] preds]. exact R.
Qed.
