(** C08: rebasing carries a commit's changes and nothing else. *)
From Verif Require Import Base.Prelude Model.Merge.
From Verif Require Import Proofs.MergeDen Proofs.C01 Proofs.C02 Proofs.TrivialMap.
From Verif Require Import Model.TreeMerge Model.TreeCase Model.Rebase Model.C08.
From Verif Require Import Proofs.TreeValue Proofs.TreeMerge Proofs.C07.
From Coq Require Import Lia Arith.
Local Open Scope Z_scope.

Lemma list_ind2 {A} (P : list A -> Prop) :
  P [] -> (forall a, P [a]) -> (forall a b l, P l -> P (a :: b :: l)) -> forall l, P l.
Proof.
  intros H0 H1 H2. fix IH 1. intros [|a [|b l]]; [exact H0|exact (H1 a)|exact (H2 a b l (IH l))].
Qed.

(** * flatten commutes with mapping the terms *)
Section FlattenMap.
  Context {T U : Type} (g : T -> U).

  Lemma swap_pairs_map (l : list T) : map g (swap_pairs l) = swap_pairs (map g l).
  Proof.
    induction l as [|a|a b t IH] using list_ind2; try reflexivity.
    cbn [swap_pairs map]. now rewrite IH.
  Qed.

  Lemma neg_inner_map (r : list T) : map g (neg_inner r) = neg_inner (map g r).
  Proof.
    unfold neg_inner. rewrite swap_pairs_map. f_equal.
    destruct r as [|x t]; [reflexivity|]. cbn [rotate_left1 map]. now rewrite map_app.
  Qed.

  Lemma flatten_rest_map (l : list (list T)) :
    map g (flatten_rest l) = flatten_rest (map (map g) l).
  Proof.
    induction l as [|r|r a t IH] using list_ind2; try reflexivity.
    cbn [flatten_rest map]. now rewrite !map_app, neg_inner_map, IH.
  Qed.

  Lemma flatten_map (mm : list (list T)) : map g (flatten mm) = flatten (map (map g) mm).
  Proof.
    destruct mm as [|f t]; [reflexivity|]. cbn [flatten map]. now rewrite map_app, flatten_rest_map.
  Qed.
End FlattenMap.

Section Den3.
  Context {T : Type} (eqb : T -> T -> bool).

  (** Net counts of the rebase merge: new base - old base + old tree. *)
  Lemma den_flatten3 (a b c : list T) v :
    Nat.odd (length a) = true -> Nat.odd (length b) = true -> Nat.odd (length c) = true ->
    den eqb (flatten [a; b; c]) v = den eqb a v - den eqb b v + den eqb c v.
  Proof.
    intros Ha Hb Hc. rewrite (flatten_den eqb); [|reflexivity|repeat constructor; assumption].
    unfold den_nested. cbn [den_nested_s negb]. lia.
  Qed.

  Lemma length_swap_pairs (l : list T) : length (swap_pairs l) = length l.
  Proof.
    induction l as [|a|a b t IH] using list_ind2; try reflexivity.
    cbn [swap_pairs length]. now rewrite IH.
  Qed.

  Lemma length_flatten3 (a b c : list T) :
    length (flatten [a; b; c]) = (length a + length b + length c)%nat.
  Proof.
    cbn [flatten flatten_rest]. rewrite !app_length. unfold neg_inner.
    rewrite length_swap_pairs. destruct b; cbn [rotate_left1 length]; [lia|].
    rewrite app_length. cbn [length]. lia.
  Qed.

  Lemma odd_add3 a b c : Nat.odd a = true -> Nat.odd b = true -> Nat.odd c = true ->
    Nat.odd (a + b + c) = true.
  Proof. intros Ha Hb Hc. rewrite !Nat.odd_add, Ha, Hb, Hc. reflexivity. Qed.
End Den3.

Section C08.
  Context (accept : bool) (content_merge : list N -> option N).
  Notation tm := (tm accept).
  Notation merge_trees := (merge_trees accept content_merge).
  Notation path_value := (path_value accept).
  Notation clash_above := (clash_above accept).
  Notation rebase_tree := (rebase_tree accept content_merge).

  (** The input of the rebase merge after merge_no_resolve. *)
  Definition rebase_input (nb ob ot : list tree) : list tree := merge_no_resolve [nb; ob; ot].

  Section Three.
    Context (nb ob ot : list tree).
    Hypothesis Hnb : Nat.odd (length nb) = true.
    Hypothesis Hob : Nat.odd (length ob) = true.
    Hypothesis Hot : Nat.odd (length ot) = true.

    Lemma rebase_input_odd : Nat.odd (length (rebase_input nb ob ot)) = true.
    Proof.
      unfold rebase_input, merge_no_resolve.
      destruct (simplify_arity tree_eqb tree_eqb_spec (flatten [nb; ob; ot])) as [A _].
      rewrite <- Nat.negb_even, A, Nat.negb_even, length_flatten3. now apply odd_add3.
    Qed.

    Lemma rebase_input_den p u :
      den oval_eqb (vals p (rebase_input nb ob ot)) u
      = den oval_eqb (vals p nb) u - den oval_eqb (vals p ob) u + den oval_eqb (vals p ot) u.
    Proof.
      unfold vals, rebase_input. rewrite merge_no_resolve_den_at, flatten_map. cbn [map].
      apply den_flatten3; now rewrite map_length.
    Qed.

    (** The value the rebase merge (first round of resolve) gives to a path whose net
        counts are those of a trivially resolvable list [l]. *)
    Lemma first_round_resolved p l v : p <> [] ->
      clash_above (rebase_input nb ob ot) p = false ->
      Nat.odd (length l) = true ->
      (forall u, den oval_eqb (vals p (rebase_input nb ob ot)) u = den oval_eqb l u) ->
      tm l = Some v ->
      path_value (merge_trees (rebase_input nb ob ot)) p = [v].
    Proof.
      intros Hp Hc Hl Hd Hv. rewrite pathwise by (auto using rebase_input_odd).
      apply merge_path_resolved. fold (vals p (rebase_input nb ob ot)).
      rewrite (tm_den_only accept _ l); auto.
      unfold vals. rewrite map_length. apply rebase_input_odd.
    Qed.

    (** C08_unchanged_paths: the commit did not change [p] (its tree and its old base agree
        there, as net counts) and the new base resolves trivially to [v] at [p]. *)
    Theorem unchanged_paths p v : p <> [] ->
      clash_above (rebase_input nb ob ot) p = false ->
      (forall u, den oval_eqb (vals p ot) u = den oval_eqb (vals p ob) u) ->
      tm (vals p nb) = Some v ->
      path_value (merge_trees (rebase_input nb ob ot)) p = [v].
    Proof.
      intros Hp Hc Hd Hv. apply (first_round_resolved p (vals p nb) v); auto.
      - unfold vals. now rewrite map_length.
      - intros u. rewrite rebase_input_den, Hd. lia.
    Qed.

    (** C08_agreeing_parents: old and new base agree at [p]; the commit's value survives. *)
    Theorem agreeing_parents p v : p <> [] ->
      clash_above (rebase_input nb ob ot) p = false ->
      (forall u, den oval_eqb (vals p ob) u = den oval_eqb (vals p nb) u) ->
      tm (vals p ot) = Some v ->
      path_value (merge_trees (rebase_input nb ob ot)) p = [v].
    Proof.
      intros Hp Hc Hd Hv. apply (first_round_resolved p (vals p ot) v); auto.
      - unfold vals. now rewrite map_length.
      - intros u. rewrite rebase_input_den, Hd. lia.
    Qed.

    (** When the first round resolves everything, it is the rebased tree. *)
    Lemma rebase_tree_resolved :
      is_single (merge_trees (rebase_input nb ob ot)) = true ->
      rebase_tree nb ob ot = merge_trees (rebase_input nb ob ot).
    Proof.
      intros Hs. unfold Rebase.rebase_tree, merged_tree_merge, resolve. fold (rebase_input nb ob ot).
      destruct (length (rebase_input nb ob ot)); cbn [resolve_loop]; now rewrite Hs.
    Qed.
  End Three.

  (** Equal old and new base trees (different parents with the same tree): the commit's
      tree is kept exactly. *)
  Theorem equal_bases (b t : tree) : rebase_tree [b] [b] [t] = [t].
  Proof. apply base_identity_right. Qed.

  (** The commit's tree equals its old base (an empty commit): it becomes the new base. *)
  Theorem empty_commit (b' b : tree) : rebase_tree [b'] [b] [b] = [b'].
  Proof. apply base_identity_left. Qed.

  (** * the rebase function *)
  Context (common_ancestors : list nat -> list nat -> list nat) (tree_of : nat -> list tree) (root : nat).
  Notation rebase := (rebase accept content_merge common_ancestors tree_of root).

  Lemma list_eqb_refl {A} (eqb : A -> A -> bool) (l : list A) :
    (forall x, eqb x x = true) -> list_eqb eqb l l = true.
  Proof. intros H. induction l as [|x t IH]; [reflexivity|]. cbn [list_eqb]. now rewrite H, IH. Qed.

  (** C08_same_parents: rebasing onto parents with the same trees (in particular onto the
      commit's own parents) keeps the tree exactly, conflicted or not. *)
  Theorem same_parents fuel (old_parents new_parents : list nat) (old_tree : list tree) :
    map tree_of new_parents = map tree_of old_parents ->
    rebase fuel old_parents new_parents old_tree = Some old_tree.
  Proof.
    intros E. unfold Rebase.rebase. rewrite E, list_eqb_refl; [reflexivity|].
    intros l. apply list_eqb_refl. intros t. now apply tree_eqb_spec.
  Qed.

  (** Otherwise it is the merge [new base; old base; old tree]. *)
  Theorem rebase_is_merge fuel old_parents new_parents old_tree ob nb :
    map tree_of new_parents <> map tree_of old_parents ->
    merge_commit_trees accept content_merge common_ancestors tree_of root fuel old_parents = Some ob ->
    merge_commit_trees accept content_merge common_ancestors tree_of root fuel new_parents = Some nb ->
    rebase fuel old_parents new_parents old_tree = Some (rebase_tree nb ob old_tree).
  Proof.
    intros Hne Ho Hn. unfold Rebase.rebase.
    destruct (list_eqb (list_eqb tree_eqb) (map tree_of new_parents) (map tree_of old_parents)) eqn:E.
    - exfalso. apply Hne. apply (list_eqb_spec (list_eqb tree_eqb)); [|assumption].
      intros x y. apply list_eqb_spec, tree_eqb_spec.
    - now rewrite Ho, Hn.
  Qed.

  (** * find_recursive_merge_commits terminates *)
  Notation frmc := (find_recursive_merge_commits common_ancestors root).

  (** Greatest common ancestors of a set and a commit outside it lie strictly below that
      commit whenever there are several of them (graph fact, C18's side). *)
  Definition ca_below : Prop :=
    forall seen c, (2 <= length (common_ancestors seen [c]))%nat ->
                   forall a, In a (common_ancestors seen [c]) -> (a < c)%nat.

  Definition bound (ids : list nat) : nat := fold_right Nat.max 0%nat ids.

  Lemma bound_in a ids : In a ids -> (a <= bound ids)%nat.
  Proof.
    induction ids as [|x t IH]; [contradiction|]. cbn [bound fold_right]. fold (bound t).
    intros [->|H]; [lia|]. apply IH in H. lia.
  Qed.

  Lemma bound_lt ids m : (forall a, In a ids -> (a < m)%nat) -> ids <> [] -> (bound ids < m)%nat.
  Proof.
    induction ids as [|x t IH]; intros H Hne; [congruence|]. cbn [bound fold_right]. fold (bound t).
    pose proof (H x (or_introl eq_refl)). destruct t as [|y t'].
    - cbn. lia.
    - assert (bound (y :: t') < m)%nat by (apply IH; [intros a Ha; apply H; now right|congruence]). lia.
  Qed.

  Definition frmc_loop (f : nat) : list nat -> list nat -> list nat -> option (list nat) :=
    fix loop (result seen rest : list nat) {struct rest} : option (list nat) :=
      match rest with
      | [] => Some result
      | c :: rest' =>
          match frmc f (common_ancestors seen [c]) with
          | None => None
          | Some ancestor => loop (flatten [result; ancestor; [c]]) (seen ++ [c]) rest'
          end
      end.

  Lemma frmc_S f c0 c1 rest : frmc (S f) (c0 :: c1 :: rest) = frmc_loop f [c0] [c0] (c1 :: rest).
  Proof. reflexivity. Qed.

  Lemma frmc_loop_some f rest :
    (forall seen c, In c rest -> exists a, frmc f (common_ancestors seen [c]) = Some a) ->
    forall result seen, exists m, frmc_loop f result seen rest = Some m.
  Proof.
    induction rest as [|c t IH]; intros H result seen; [cbn; eauto|].
    cbn [frmc_loop]. destruct (H seen c (or_introl eq_refl)) as [a ->]. fold (frmc_loop f).
    apply IH. intros s c' Hc'. apply H. now right.
  Qed.

  Lemma frmc_single f c : frmc f [c] = Some [c].
  Proof. destruct f; reflexivity. Qed.

  (** Three parents with single merge bases: the base [b] of the third parent is the common
      ancestor of the third parent with BOTH parents merged so far. *)
  Lemma frmc_three f p1 p2 p3 a b :
    common_ancestors [p1] [p2] = [a] -> common_ancestors [p1; p2] [p3] = [b] ->
    frmc (S f) [p1; p2; p3] = Some [p1; a; p2; b; p3].
  Proof.
    intros H1 H2. rewrite frmc_S. cbn [frmc_loop app]. rewrite H1, frmc_single.
    cbn [app]. rewrite H2, frmc_single. reflexivity.
  Qed.

  Theorem frmc_terminates : ca_below -> forall fuel ids,
    ((2 <= length ids)%nat -> (bound ids < fuel)%nat) -> exists m, frmc fuel ids = Some m.
  Proof.
    intros Hca. induction fuel as [|f IH]; intros ids Hb.
    - destruct ids as [|c0 [|c1 rest]]; [cbn; eauto|cbn; eauto|]. cbn [length] in Hb. lia.
    - destruct ids as [|c0 [|c1 rest]]; [cbn; eauto|cbn; eauto|].
      specialize (Hb ltac:(cbn [length]; lia)).
      rewrite frmc_S. apply frmc_loop_some. intros seen c Hc.
      assert (Hcf : (c <= f)%nat).
      { assert (c <= bound (c0 :: c1 :: rest))%nat by (apply bound_in; now right). lia. }
      apply IH. intros H2. apply bound_lt.
      + intros a Ha. specialize (Hca seen c H2 a Ha). lia.
      + destruct (common_ancestors seen [c]); [cbn [length] in H2; lia|congruence].
  Qed.
End C08.

(** * meaning of the checker *)
Section CheckerSpec.
  Context (accept : bool).

  (** Both laws at one path: whenever the path is not below a clash, ... *)
  Definition law_P (ts0 nb ob ot : list tree) (p : list N) (vs : list oval) : Prop :=
    clash_above accept ts0 p = false ->
    (forall v, tm accept (vals p nb) = Some v ->
               (forall u, den oval_eqb (vals p ot) u = den oval_eqb (vals p ob) u) -> vs = [v])
    /\ (forall v, tm accept (vals p ot) = Some v ->
                  (forall u, den oval_eqb (vals p ob) u = den oval_eqb (vals p nb) u) -> vs = [v]).

  Lemma law_ok_spec ts0 nb ob ot p vs : law_ok accept ts0 nb ob ot p vs = true <-> law_P ts0 nb ob ot p vs.
  Proof.
    unfold law_ok, law_P. destruct (clash_above accept ts0 p); [split; [discriminate|reflexivity]|].
    rewrite Bool.andb_true_iff. split.
    - intros [A B] _. split; intros v Hv Hd.
      + rewrite Hv in A. apply Bool.orb_true_iff in A as [A|A].
        * apply Bool.negb_true_iff in A. apply (den_eqb_spec oval_eqb oval_eqb_spec) in Hd. congruence.
        * now apply ovals_eqb_spec.
      + rewrite Hv in B. apply Bool.orb_true_iff in B as [B|B].
        * apply Bool.negb_true_iff in B. apply (den_eqb_spec oval_eqb oval_eqb_spec) in Hd. congruence.
        * now apply ovals_eqb_spec.
    - intros H. destruct (H eq_refl) as [A B]. split.
      + destruct (tm accept (vals p nb)) as [v|]; [|reflexivity].
        destruct (den_eqb oval_eqb (vals p ot) (vals p ob)) eqn:E; [|reflexivity].
        cbn [negb orb]. apply ovals_eqb_spec. apply A; [reflexivity|].
        now apply (den_eqb_spec oval_eqb oval_eqb_spec).
      + destruct (tm accept (vals p ot)) as [v|]; [|reflexivity].
        destruct (den_eqb oval_eqb (vals p ob) (vals p nb)) eqn:E; [|reflexivity].
        cbn [negb orb]. apply ovals_eqb_spec. apply B; [reflexivity|].
        now apply (den_eqb_spec oval_eqb oval_eqb_spec).
  Qed.

  Lemma laws_ok_spec ts0 nb ob ot values :
    laws_ok accept ts0 nb ob ot values = true
    <-> forall p vs, In (p, vs) values -> p <> [] -> law_P ts0 nb ob ot p vs.
  Proof.
    unfold laws_ok. rewrite forallb_forall. split.
    - intros H p vs Hin Hp. specialize (H _ Hin). cbn [fst snd] in H.
      destruct p; [congruence|]. now apply law_ok_spec.
    - intros H [p vs] Hin. cbn [fst snd]. destruct p as [|n p]; [reflexivity|].
      apply law_ok_spec. apply H; [assumption|congruence].
  Qed.
End CheckerSpec.

Definition back_P (accept : bool) (nbt obt ot backt : list tree) : Prop :=
  forall b' b t, nbt = [b'] -> obt = [b] -> ot = [t] ->
    back_applies accept b b' t = true -> backt = [t].

Lemma back_ok_spec accept nbt obt ot backt :
  match nbt, obt, ot with
  | [b'], [b], [t] => negb (back_applies accept b b' t) || trees_eqb backt [t]
  | _, _, _ => true
  end = true <-> back_P accept nbt obt ot backt.
Proof.
  unfold back_P.
  destruct nbt as [|b' [|? ?]]; [| |split; [intros _ x y z H1; discriminate H1|reflexivity]];
    [split; [intros _ x y z H1; discriminate H1|reflexivity]|].
  destruct obt as [|b [|? ?]]; [| |split; [intros _ x y z _ H2; discriminate H2|reflexivity]];
    [split; [intros _ x y z _ H2; discriminate H2|reflexivity]|].
  destruct ot as [|t [|? ?]];
    try (split; [intros _ x y z H1 H2 H3; discriminate H1 || discriminate H2 || discriminate H3|reflexivity]).
  rewrite Bool.orb_true_iff, Bool.negb_true_iff, trees_eqb_spec. split.
  - intros H x y z E1 E2 E3 Hd. injection E1 as <-. injection E2 as <-. injection E3 as <-.
    destruct H as [H|H]; [congruence|assumption].
  - intros H. destruct (back_applies accept b b' t) eqn:E; [right|now left].
    now apply (H b' b t).
Qed.

Lemma opt_nats_eqb_spec a b :
  opt_nats_eqb a b = true <-> exists y, b = Some y /\ a = Some (nats y).
Proof.
  destruct a as [x|], b as [y|]; cbn [opt_nats_eqb];
    try (split; [discriminate|intros (y' & H1 & H2); discriminate]).
  rewrite (list_eqb_spec Nat.eqb Nat.eqb_eq). split.
  - intros ->. eauto.
  - intros (y' & H1 & H2). injection H1 as <-. now injection H2.
Qed.

(** find_recursive_merge_commits returned what its documented recursion over the graph's
    greatest common ancestors gives, for the old and for the new parents. *)
Definition merge_commits_P (c : case) : Prop :=
  (exists y, c_frmc_old c = Some y /\ merge_commits_spec c (old_parents c) = Some (nats y))
  /\ (exists y, c_frmc_new c = Some y /\ merge_commits_spec c (nats (c_new_parents c)) = Some (nats y)).

Theorem okb_spec (c : case) :
  C08.okb c = true <->
  merge_commits_P c /\
  exists ob nb r back,
    c_old_base c = Some ob /\ c_new_base c = Some nb /\ c_rebased c = Some r /\ c_back c = Some back /\
    let tab := c_tab c in
    let ot := C08.tree_of c (N.to_nat (c_target c)) in
    let nbt := map (dec tab) nb in
    let obt := map (dec tab) ob in
    let rt := map (dec tab) r in
    let backt := map (dec tab) back in
    if same_parent_trees c then rt = ot /\ backt = ot
    else (forall p vs, In (p, vs) (C08.dec_values c) -> p <> [] ->
                       law_P (c_accept c) (map (dec tab) (c_unresolved c)) nbt obt ot p vs)
         /\ back_P (c_accept c) nbt obt ot backt.
Proof.
  unfold C08.okb. rewrite Bool.andb_true_iff.
  assert (EM : merge_commits_ok c = true <-> merge_commits_P c).
  { unfold merge_commits_ok, merge_commits_P. now rewrite Bool.andb_true_iff, !opt_nats_eqb_spec. }
  rewrite EM. apply and_iff_compat_l.
  destruct (c_old_base c) as [ob|], (c_new_base c) as [nb|], (c_rebased c) as [r|], (c_back c) as [back|];
    try (split; [discriminate|intros (? & ? & ? & ? & H1 & H2 & H3 & H4 & _); discriminate]).
  cbn zeta. split.
  - intros H. exists ob, nb, r, back. repeat split.
    destruct (same_parent_trees c).
    + apply Bool.andb_true_iff in H as [A B]. now rewrite trees_eqb_spec in A, B.
    + apply Bool.andb_true_iff in H as [A B]. split; [now apply laws_ok_spec|now apply back_ok_spec].
  - intros (ob' & nb' & r' & back' & E1 & E2 & E3 & E4 & H).
    injection E1 as <-. injection E2 as <-. injection E3 as <-. injection E4 as <-.
    destruct (same_parent_trees c).
    + destruct H as [A B]. apply Bool.andb_true_iff. now rewrite !trees_eqb_spec.
    + destruct H as [A B]. apply Bool.andb_true_iff. split; [now apply laws_ok_spec|now apply back_ok_spec].
Qed.
