(** C34: proofs about the model of Git import / export (Model/C34.v). *)
From Verif Require Import Base.Prelude Model.Merge Model.C34.
From Coq Require Import Lia Arith.
Local Open Scope N_scope.

(** * Basic facts: equality tests, maps *)
Lemma list_eqb_N_spec (a b : list N) : list_eqb N.eqb a b = true <-> a = b.
Proof.
  revert b. induction a as [|x a IH]; destruct b as [|y b]; cbn [list_eqb];
    try (split; [discriminate|discriminate]); [tauto|].
  rewrite Bool.andb_true_iff, N.eqb_eq, IH. split; [intros [-> ->]; reflexivity|].
  intros H. injection H. auto.
Qed.
Lemma teqb_spec a b : teqb a b = true <-> a = b.
Proof. apply list_eqb_N_spec. Qed.
Lemma teqb_refl a : teqb a a = true.
Proof. now apply teqb_spec. Qed.
Lemma teqb_false a b : teqb a b = false <-> a <> b.
Proof.
  destruct (teqb a b) eqn:E.
  - apply teqb_spec in E. split; [discriminate|congruence].
  - split; [|reflexivity]. intros _ C. apply teqb_spec in C. congruence.
Qed.
Lemma teqb_sym a b : teqb a b = teqb b a.
Proof.
  destruct (teqb a b) eqn:E, (teqb b a) eqn:F; try reflexivity.
  - apply teqb_spec in E. subst. now rewrite teqb_refl in F.
  - apply teqb_spec in F. subst. now rewrite teqb_refl in E.
Qed.

Lemma is_absent_spec t : is_absent t = true <-> t = absent.
Proof.
  unfold is_absent, absent. destruct t as [|c [|d t]]; try (split; discriminate).
  rewrite N.eqb_eq. split; [intros ->; reflexivity|]. intros H. now injection H.
Qed.

Lemma mem_spec x l : mem N.eqb x l = true <-> In x l.
Proof.
  unfold mem. rewrite existsb_exists. split.
  - intros [y [Hy E]]. apply N.eqb_eq in E. now subst.
  - intros H. exists x. split; [assumption|apply N.eqb_refl].
Qed.
Lemma mem_false x l : mem N.eqb x l = false <-> ~ In x l.
Proof.
  rewrite <- mem_spec. destruct (mem N.eqb x l); split; congruence.
Qed.

Lemma dedup_in x l : In x (dedup l) <-> In x l.
Proof.
  induction l as [|y l IH]; cbn [dedup]; [tauto|].
  destruct (mem N.eqb y l) eqn:E; cbn [In].
  - apply mem_spec in E. rewrite IH. split; [auto|]. intros [->|H]; auto.
  - rewrite IH. tauto.
Qed.
Lemma dedup_nodup l : NoDup (dedup l).
Proof.
  induction l as [|y l IH]; cbn [dedup]; [constructor|].
  destruct (mem N.eqb y l) eqn:E; [assumption|].
  constructor; [|assumption]. rewrite dedup_in. now apply mem_false.
Qed.

Section Maps.
  Context {V : Type}.
  Lemma remove_keys (k x : N) (m : list (N * V)) :
    In x (keys (remove k m)) <-> x <> k /\ In x (keys m).
  Proof.
    unfold keys, remove. induction m as [|[k' v] m IH]; cbn [filter map fst In]; [tauto|].
    destruct (k' =? k) eqn:E; cbn [negb map fst In].
    - apply N.eqb_eq in E. subst. rewrite IH. split; [tauto|]. intros [H [->|H']]; tauto.
    - apply N.eqb_neq in E. rewrite IH. split; [intros [->|H]; tauto|tauto].
  Qed.
  Lemma remove_nodup (k : N) (m : list (N * V)) : NoDup (keys m) -> NoDup (keys (remove k m)).
  Proof.
    unfold keys, remove. induction m as [|[k' v] m IH]; cbn [filter map fst]; [auto|].
    intros H. inversion H as [|? ? Hn Hm]; subst.
    destruct (k' =? k); cbn [negb map fst]; [auto|].
    constructor; [|auto]. intros C. apply (remove_keys k k' m) in C. tauto.
  Qed.
  Lemma remove_notin (k : N) (m : list (N * V)) : ~ In k (keys m) -> remove k m = m.
  Proof.
    unfold keys, remove. induction m as [|[k' v] m IH]; cbn [filter map fst In]; [auto|].
    intros H. destruct (k' =? k) eqn:E.
    - apply N.eqb_eq in E. tauto.
    - cbn [negb]. f_equal. apply IH. tauto.
  Qed.
End Maps.

Lemma get_notin m k : ~ In k (keys m) -> get m k = absent.
Proof.
  unfold keys. induction m as [|[k' t] m IH]; cbn [get map fst In]; [auto|].
  intros H. destruct (k' =? k) eqn:E; [apply N.eqb_eq in E; tauto|]. apply IH. tauto.
Qed.
Lemma get_remove m k k' : get (remove k m) k' = if k =? k' then absent else get m k'.
Proof.
  unfold remove. induction m as [|[j t] m IH]; cbn [filter get fst].
  - now destruct (k =? k').
  - destruct (j =? k) eqn:E; cbn [negb get].
    + apply N.eqb_eq in E. subst. rewrite IH. destruct (k =? k'); reflexivity.
    + rewrite IH. destruct (j =? k') eqn:F; [|reflexivity].
      apply N.eqb_eq in F. subst. now rewrite N.eqb_sym, E.
Qed.
Lemma get_set m k t k' : get (set m k t) k' = if k =? k' then t else get m k'.
Proof.
  unfold set. destruct (is_absent t) eqn:A.
  - apply is_absent_spec in A. subst. apply get_remove.
  - cbn [get]. destruct (k =? k') eqn:E; [reflexivity|]. rewrite get_remove. now rewrite E.
Qed.
Lemma get_set_same m k t : get (set m k t) k = t.
Proof. rewrite get_set. now rewrite N.eqb_refl. Qed.
Lemma get_set_other m k t k' : k <> k' -> get (set m k t) k' = get m k'.
Proof. intros H. rewrite get_set. apply N.eqb_neq in H. now rewrite H. Qed.

Lemma gget_notin g k : ~ In k (keys g) -> gget g k = 0.
Proof.
  unfold keys. induction g as [|[k' t] g IH]; cbn [gget map fst In]; [auto|].
  intros H. destruct (k' =? k) eqn:E; [apply N.eqb_eq in E; tauto|]. apply IH. tauto.
Qed.
Lemma gget_remove (g : gmap) k k' : gget (remove k g) k' = if k =? k' then 0 else gget g k'.
Proof.
  unfold remove. induction g as [|[j t] g IH]; cbn [filter gget fst].
  - now destruct (k =? k').
  - destruct (j =? k) eqn:E; cbn [negb gget].
    + apply N.eqb_eq in E. subst. rewrite IH. destruct (k =? k'); reflexivity.
    + rewrite IH. destruct (j =? k') eqn:F; [|reflexivity].
      apply N.eqb_eq in F. subst. now rewrite N.eqb_sym, E.
Qed.
Lemma gget_gset g k c k' : gget (gset g k c) k' = if k =? k' then c else gget g k'.
Proof.
  unfold gset. destruct (c =? 0) eqn:A.
  - apply N.eqb_eq in A. subst. apply gget_remove.
  - cbn [gget]. destruct (k =? k') eqn:E; [reflexivity|]. rewrite gget_remove. now rewrite E.
Qed.
Lemma gget_in g k c : NoDup (keys g) -> In (k, c) g -> gget g k = c.
Proof.
  unfold keys. induction g as [|[k' c'] g IH]; cbn [gget map fst In]; [tauto|].
  intros H [E|E]; inversion H as [|? ? Hn Hg]; subst.
  - injection E as -> ->. now rewrite N.eqb_refl.
  - destruct (k' =? k) eqn:F; [|auto]. apply N.eqb_eq in F. subst.
    exfalso. apply Hn. now apply (in_map fst) in E.
Qed.
Lemma gset_nodup g k c : NoDup (keys g) -> NoDup (keys (gset g k c)).
Proof.
  intros H. unfold gset. destruct (c =? 0); [now apply remove_nodup|].
  cbn [keys map fst]. constructor; [|now apply remove_nodup].
  intros C. apply (remove_keys k k g) in C. tauto.
Qed.

(** [simplify] leaves a merge alone when no add equals a remove. *)
Lemma simp_loop_id {T} (eqb : T -> T -> bool) fuel : forall (l : list (nat * T)) ai,
  (forall k i a, nth_error l (ai + 2 * k) = Some (i, a) -> find_remove eqb 0 false l a = None) ->
  simp_loop eqb fuel l ai = l.
Proof.
  induction fuel as [|f IH]; intros l ai H; cbn [simp_loop]; [reflexivity|].
  destruct (Nat.ltb ai (length l)); [|reflexivity].
  assert (E : simp_step eqb l ai = (l, (ai + 2)%nat)).
  { unfold simp_step. destruct (nth_error l ai) as [[i a]|] eqn:Hn; [|reflexivity].
    rewrite (H 0%nat i a); [reflexivity|]. now rewrite Nat.add_0_r. }
  rewrite E. apply IH. intros k i a Hn. apply (H (S k) i a).
  replace (ai + 2 * S k)%nat with (ai + 2 + 2 * k)%nat by lia. exact Hn.
Qed.

(** * [merge_ref_targets] *)
Section Merge.
  Context (anc : N -> N -> bool).

  (** The three safe cases of the 3-way merge (refs.rs:114, merge.rs trivial_merge). *)
  Lemma merge_left_unchanged l r : merge_targets anc l l r = r.
  Proof.
    unfold merge_targets. cbn [trivial_merge]. rewrite teqb_refl.
    destruct (teqb l r) eqn:E; cbn [andb]; [|reflexivity]. now apply teqb_spec in E.
  Qed.
  Lemma merge_right_unchanged l b : merge_targets anc l b b = l.
  Proof.
    unfold merge_targets. cbn [trivial_merge]. rewrite teqb_refl.
    destruct (teqb l b) eqn:E; cbn [andb]; reflexivity.
  Qed.
  Lemma merge_same_change l b : merge_targets anc l b l = l.
  Proof. unfold merge_targets. cbn [trivial_merge]. now rewrite teqb_refl. Qed.

  (** Termination of [merge_ref_targets_non_trivial]: a round drops two terms. *)
  Lemma vswap_remove_length {A} i (l : list A) : length (vswap_remove i l) = pred (length l).
  Proof.
    unfold vswap_remove. destruct l as [|x l]; [reflexivity|].
    assert (forall n (y : A) (m : list A), length (set_nth n y m) = length m) as Hs.
    { intros n y m. revert n. induction m as [|z m IH]; intros [|n]; cbn [set_nth length]; auto. }
    rewrite Hs. clear Hs. revert x. induction l as [|y l IH]; intros x; [reflexivity|].
    change (removelast (x :: y :: l)) with (x :: removelast (y :: l)).
    cbn [length]. rewrite IH. reflexivity.
  Qed.
  Lemma merge_swap_remove_length ri ai m :
    length (merge_swap_remove ri ai m) = pred (pred (length m)).
  Proof. unfold merge_swap_remove. now rewrite !vswap_remove_length. Qed.

  Lemma find_inner_some rems i1 a1 i2 rest p :
    find_inner anc rems i1 a1 i2 rest = Some p -> rest <> [] /\ rems <> [].
  Proof.
    revert i2. induction rest as [|a2 t IH]; intros i2; cbn [find_inner]; [discriminate|].
    intros H. split; [discriminate|].
    destruct (pick_add anc i1 i2 a1 a2) as [[ai aid]|].
    - destruct (position (remove_ok anc aid) rems 0) eqn:P.
      + destruct rems; [discriminate P|discriminate].
      + now apply IH in H.
    - now apply IH in H.
  Qed.
  Lemma find_outer_some rems i1 adds p :
    find_outer anc rems i1 adds = Some p -> rems <> [].
  Proof.
    revert i1. induction adds as [|a1 t IH]; intros i1; cbn [find_outer]; [discriminate|].
    destruct (find_inner anc rems i1 a1 (S i1) t) eqn:F.
    - intros _. now apply find_inner_some in F.
    - apply IH.
  Qed.
  Lemma odds_nonempty_length {A} (m : list A) : odds m <> [] -> (2 <= length m)%nat.
  Proof. destruct m as [|x [|y m]]; cbn; try congruence; lia. Qed.

  (** With [length m] rounds of fuel the loop has reached its fixpoint: the result has no
      removable pair left (this is the loop exit condition of refs.rs:161). *)
  Lemma nontrivial_fixpoint fuel : forall m,
    (length m <= 2 * fuel)%nat -> find_pair_to_remove anc (nontrivial anc fuel m) = None.
  Proof.
    induction fuel as [|f IH]; intros m Hlen; cbn [nontrivial].
    - destruct m; [reflexivity|cbn [length] in Hlen; lia].
    - destruct (find_pair_to_remove anc m) as [[ri ai]|] eqn:F; [|assumption].
      apply IH. rewrite merge_swap_remove_length.
      unfold find_pair_to_remove in F. apply find_outer_some in F.
      apply odds_nonempty_length in F. lia.
  Qed.
  Lemma nontrivial_length fuel : forall m, (length (nontrivial anc fuel m) <= length m)%nat.
  Proof.
    induction fuel as [|f IH]; intros m; cbn [nontrivial]; [lia|].
    destruct (find_pair_to_remove anc m) as [[ri ai]|]; [|lia].
    specialize (IH (merge_swap_remove ri ai m)). rewrite merge_swap_remove_length in IH. lia.
  Qed.
  Lemma nontrivial_parity fuel : forall m,
    Nat.odd (length m) = true -> Nat.odd (length (nontrivial anc fuel m)) = true.
  Proof.
    induction fuel as [|f IH]; intros m Ho; cbn [nontrivial]; [assumption|].
    destruct (find_pair_to_remove anc m) as [[ri ai]|] eqn:F; [|assumption].
    apply IH. rewrite merge_swap_remove_length.
    unfold find_pair_to_remove in F. apply find_outer_some in F.
    apply odds_nonempty_length in F.
    destruct (length m) as [|[|k]]; try lia. cbn [pred].
    rewrite Nat.odd_succ, Nat.even_succ in Ho. exact Ho.
  Qed.

  (** Both sides changed a resolved bookmark differently. *)
  Lemma merge_three_distinct a b c :
    a <> b -> b <> c -> a <> c ->
    merge_targets anc [a] [b] [c] =
      match ff_resolves anc a b c with
      | Some d => [d]
      | None => [a; b; c]
      end.
  Proof.
    intros Hab Hbc Hac.
    assert (Eab : a =? b = false) by now apply N.eqb_neq.
    assert (Ebc : b =? c = false) by now apply N.eqb_neq.
    assert (Eac : a =? c = false) by now apply N.eqb_neq.
    assert (Eba : b =? a = false) by (rewrite N.eqb_sym; exact Eab).
    assert (Ecb : c =? b = false) by (rewrite N.eqb_sym; exact Ebc).
    assert (Eca : c =? a = false) by (rewrite N.eqb_sym; exact Eac).
    unfold merge_targets.
    cbn [trivial_merge teqb list_eqb]. rewrite Eac, Eab, Ecb. cbn [andb].
    match goal with |- context [simplify N.eqb ?x] => assert (S : simplify N.eqb x = [a; b; c]) end.
    { unfold flatten, flatten_rest, neg_inner, rotate_left1. cbn [app swap_pairs].
      unfold simplify, simplified_pairs. cbn [enumerate_from].
      rewrite simp_loop_id; [reflexivity|].
      intros k i x Hn. destruct k as [|[|k]].
      - change (Some (0%nat, a) = Some (i, x)) in Hn.
        injection Hn as _ <-. cbn [find_remove andb]. now rewrite Eba.
      - change (Some (2%nat, c) = Some (i, x)) in Hn.
        injection Hn as _ <-. cbn [find_remove andb]. now rewrite Ebc.
      - replace (0 + 2 * S (S k))%nat with (S (S (S (S (2 * k)))))%nat in Hn by lia.
        cbn [nth_error] in Hn. destruct (2 * k)%nat; discriminate. }
    rewrite S. cbn [trivial_merge]. rewrite Eac, Eab, Ecb. cbn [andb length].
    unfold ff_resolves.
    cbn [nontrivial find_pair_to_remove evens odds find_outer find_inner].
    unfold pick_add. rewrite Eac.
    destruct (a =? 0) eqn:A0; cbn [orb].
    { reflexivity. }
    destruct (c =? 0) eqn:C0; cbn [orb].
    { reflexivity. }
    destruct (anc a c) eqn:Aac.
    - cbn [position]. unfold remove_ok.
      destruct ((b =? 0) || anc b a) eqn:R.
      + cbn [nontrivial merge_swap_remove vswap_remove Nat.mul Nat.add last removelast set_nth].
        cbn [find_pair_to_remove evens odds find_outer find_inner]. reflexivity.
      + cbn [find_outer find_inner]. reflexivity.
    - destruct (anc c a) eqn:Aca.
      + cbn [position]. unfold remove_ok.
        destruct ((b =? 0) || anc b c) eqn:R.
        * cbn [nontrivial merge_swap_remove vswap_remove Nat.mul Nat.add last removelast set_nth].
          cbn [find_pair_to_remove evens odds find_outer find_inner]. reflexivity.
        * cbn [find_outer find_inner]. reflexivity.
      + cbn [find_outer find_inner]. reflexivity.
  Qed.
End Merge.

(** * Import *)
Lemma nodup_app {A} (l1 l2 : list A) :
  NoDup l1 -> NoDup l2 -> (forall x, In x l1 -> ~ In x l2) -> NoDup (l1 ++ l2).
Proof.
  induction l1 as [|x l1 IH]; cbn [app]; intros H1 H2 Hd; [assumption|].
  inversion H1 as [|? ? Hn H1']; subst. constructor.
  - rewrite in_app_iff. intros [C|C]; [tauto|]. apply (Hd x); cbn; auto.
  - apply IH; auto. intros y Hy. apply Hd. now right.
Qed.

Lemma flat_map_ext_in' {A B} (f g : A -> list B) l :
  (forall x, In x l -> f x = g x) -> flat_map f l = flat_map g l.
Proof.
  induction l as [|x l IH]; cbn [flat_map]; intros H; [reflexivity|].
  rewrite H by now left. f_equal. apply IH. intros; apply H. now right.
Qed.

Fixpoint remove_all {V} (ks : list N) (m : list (N * V)) : list (N * V) :=
  match ks with [] => m | k :: t => remove_all t (remove k m) end.
Lemma remove_all_keys {V} ks : forall (m : list (N * V)) x,
  In x (keys (remove_all ks m)) <-> ~ In x ks /\ In x (keys m).
Proof.
  induction ks as [|k ks IH]; intros m x; cbn [remove_all In]; [tauto|].
  rewrite IH, remove_keys. split; [intros [H1 [H2 H3]]|intros [H1 H2]].
  - split; [intros [->|C]; tauto|assumption].
  - split; [tauto|]. split; [intros ->; tauto|assumption].
Qed.
Lemma get_remove_all ks : forall m x, ~ In x ks -> get (remove_all ks m) x = get m x.
Proof.
  induction ks as [|k ks IH]; intros m x H; cbn [remove_all]; [reflexivity|].
  rewrite IH by (cbn in H; tauto). rewrite get_remove.
  destruct (k =? x) eqn:E; [|reflexivity]. apply N.eqb_eq in E. subst. cbn in H. tauto.
Qed.

Section Import.
  Context (anc : N -> N -> bool).

  Definition spec_g (kg : rmap) (g : gmap) : list (N * target) :=
    flat_map (fun p => if snd p =? 0 then []
                       else if teqb (resolved (snd p)) (get kg (fst p)) then []
                       else [(fst p, resolved (snd p))]) g.
  Definition spec_r (kr : rmap) (g : gmap) : list (N * (target * target)) :=
    flat_map (fun p => if snd p =? 0 then []
                       else if teqb (resolved (snd p)) (get kr (fst p)) then []
                       else [(fst p, (get kr (fst p), resolved (snd p)))]) g.
  (** names of the Git branches that resolve to a commit *)
  Definition seen (g : gmap) : list N :=
    flat_map (fun p => if snd p =? 0 then [] else [fst p]) g.

  Lemma seen_in g n : In n (seen g) <-> exists c, In (n, c) g /\ c <> 0.
  Proof.
    unfold seen. rewrite in_flat_map. split.
    - intros [[k c] [Hin H]]. cbn [fst snd] in H. destruct (c =? 0) eqn:E; [contradiction|].
      destruct H as [->|[]]. exists c. split; [assumption|now apply N.eqb_neq].
    - intros [c [Hin Hc]]. exists (n, c). split; [assumption|]. cbn [fst snd].
      apply N.eqb_neq in Hc. rewrite Hc. now left.
  Qed.
  Lemma seen_keys g n : In n (seen g) -> In n (keys g).
  Proof. rewrite seen_in. intros [c [H _]]. now apply (in_map fst) in H. Qed.
  Lemma seen_nodup g : NoDup (keys g) -> NoDup (seen g).
  Proof.
    unfold keys, seen. induction g as [|[k c] g IH]; cbn [map fst flat_map snd]; [constructor|].
    intros H. inversion H as [|? ? Hn Hg]; subst.
    destruct (c =? 0); cbn [app]; [auto|]. constructor; [|auto].
    intros C. apply Hn. now apply seen_keys.
  Qed.
  Lemma gget_seen g n : NoDup (keys g) -> In n (seen g) -> gget g n <> 0.
  Proof.
    intros Hnd H. apply seen_in in H. destruct H as [c [Hin Hc]].
    now rewrite (gget_in g n c Hnd Hin).
  Qed.
  Lemma gget_unseen g n : ~ In n (seen g) -> gget g n = 0.
  Proof.
    unfold seen. induction g as [|[k c] g IH]; cbn [gget flat_map fst snd]; [reflexivity|].
    intros H. rewrite in_app_iff in H. destruct (k =? n) eqn:E.
    - apply N.eqb_eq in E. subst. destruct (c =? 0) eqn:C; [now apply N.eqb_eq in C|].
      exfalso. apply H. left. now left.
    - apply IH. tauto.
  Qed.

  Lemma spec_g_remove n kg g : ~ In n (keys g) -> spec_g (remove n kg) g = spec_g kg g.
  Proof.
    intros H. unfold spec_g. apply flat_map_ext_in'. intros [k c] Hin. cbn [fst snd].
    rewrite get_remove. destruct (n =? k) eqn:E; [|reflexivity].
    apply N.eqb_eq in E. subst. exfalso. apply H. now apply (in_map fst) in Hin.
  Qed.
  Lemma spec_r_remove n kr g : ~ In n (keys g) -> spec_r (remove n kr) g = spec_r kr g.
  Proof.
    intros H. unfold spec_r. apply flat_map_ext_in'. intros [k c] Hin. cbn [fst snd].
    rewrite get_remove. destruct (n =? k) eqn:E; [|reflexivity].
    apply N.eqb_eq in E. subst. exfalso. apply H. now apply (in_map fst) in Hin.
  Qed.

  (** The loop over the actual Git branches, in closed form. *)
  Lemma fold_import_step g : forall kg kr cg cr,
    NoDup (keys g) ->
    fold_left import_step g (mk_acc kg kr cg cr) =
    mk_acc (remove_all (seen g) kg) (remove_all (seen g) kr)
           (cg ++ spec_g kg g) (cr ++ spec_r kr g).
  Proof.
    induction g as [|[n c] g IH]; intros kg kr cg cr Hnd.
    - cbn. now rewrite !app_nil_r.
    - inversion Hnd as [|? ? Hn Hg]; subst. cbn [fold_left].
      unfold import_step at 2. cbn [known_g known_r ch_g ch_r].
      unfold seen, spec_g, spec_r. cbn [flat_map fst snd].
      fold (seen g). fold (spec_g kg g). fold (spec_r kr g).
      destruct (c =? 0) eqn:C.
      + rewrite IH by assumption. reflexivity.
      + rewrite IH by assumption. cbn [app remove_all].
        rewrite spec_g_remove, spec_r_remove by assumption.
        f_equal.
        * destruct (teqb (resolved c) (get kg n)); cbn [app]; [reflexivity|].
          now rewrite <- app_assoc.
        * destruct (teqb (resolved c) (get kr n)); cbn [app]; [reflexivity|].
          now rewrite <- app_assoc.
  Qed.

  Definition left_g (s : view) (g : gmap) : list (N * target) :=
    map (fun n => (n, absent)) (dedup (keys (remove_all (seen g) (grefs s)))).
  Definition left_r (s : view) (g : gmap) : list (N * (target * target)) :=
    flat_map (fun n => let old := get (remove_all (seen g) (rgit s)) n in
                       if is_absent old then [] else [(n, (old, absent))])
             (dedup (keys (remove_all (seen g) (rgit s)))).

  Lemma diff_closed_form s g : NoDup (keys g) ->
    ch_g (diff_refs_to_import s g) = spec_g (grefs s) g ++ left_g s g
    /\ ch_r (diff_refs_to_import s g) = spec_r (rgit s) g ++ left_r s g.
  Proof.
    intros Hnd. unfold diff_refs_to_import. rewrite fold_import_step by assumption.
    unfold import_leftovers. cbn [ch_g ch_r known_g known_r app]. split; reflexivity.
  Qed.

  Lemma in_spec_g kg g n t : NoDup (keys g) ->
    In (n, t) (spec_g kg g) <-> In n (seen g) /\ t = resolved (gget g n) /\ t <> get kg n.
  Proof.
    intros Hnd. unfold spec_g. rewrite in_flat_map. split.
    - intros [[k c] [Hin H]]. cbn [fst snd] in H.
      destruct (c =? 0) eqn:C; [contradiction|].
      destruct (teqb (resolved c) (get kg k)) eqn:E; [contradiction|].
      destruct H as [H|[]]. injection H as -> <-. apply N.eqb_neq in C.
      rewrite (gget_in g n c Hnd Hin). split; [|split; [reflexivity|now apply teqb_false]].
      apply seen_in. eauto.
    - intros [Hs [-> Hne]]. apply seen_in in Hs. destruct Hs as [c [Hin Hc]].
      exists (n, c). split; [assumption|]. cbn [fst snd]. rewrite (gget_in g n c Hnd Hin).
      apply N.eqb_neq in Hc. rewrite Hc. rewrite (gget_in g n c Hnd Hin) in Hne.
      apply teqb_false in Hne. rewrite Hne. now left.
  Qed.
  Lemma in_spec_r kr g n o t : NoDup (keys g) ->
    In (n, (o, t)) (spec_r kr g) <->
    In n (seen g) /\ o = get kr n /\ t = resolved (gget g n) /\ t <> get kr n.
  Proof.
    intros Hnd. unfold spec_r. rewrite in_flat_map. split.
    - intros [[k c] [Hin H]]. cbn [fst snd] in H.
      destruct (c =? 0) eqn:C; [contradiction|].
      destruct (teqb (resolved c) (get kr k)) eqn:E; [contradiction|].
      destruct H as [H|[]]. injection H as -> <- <-. apply N.eqb_neq in C.
      rewrite (gget_in g n c Hnd Hin).
      split; [|split; [reflexivity|split; [reflexivity|now apply teqb_false]]].
      apply seen_in. eauto.
    - intros [Hs [-> [-> Hne]]]. apply seen_in in Hs. destruct Hs as [c [Hin Hc]].
      exists (n, c). split; [assumption|]. cbn [fst snd]. rewrite (gget_in g n c Hnd Hin).
      apply N.eqb_neq in Hc. rewrite Hc. rewrite (gget_in g n c Hnd Hin) in Hne.
      apply teqb_false in Hne. rewrite Hne. now left.
  Qed.
  Lemma in_left_g s g n t :
    In (n, t) (left_g s g) <-> ~ In n (seen g) /\ In n (keys (grefs s)) /\ t = absent.
  Proof.
    unfold left_g. rewrite in_map_iff. split.
    - intros [k [E Hk]]. injection E as -> <-. apply dedup_in, remove_all_keys in Hk. tauto.
    - intros [H1 [H2 ->]]. exists n. split; [reflexivity|].
      apply dedup_in, remove_all_keys. tauto.
  Qed.
  Lemma in_left_r s g n o t :
    In (n, (o, t)) (left_r s g) <->
    ~ In n (seen g) /\ In n (keys (rgit s)) /\ o = get (rgit s) n /\ o <> absent /\ t = absent.
  Proof.
    unfold left_r. rewrite in_flat_map. split.
    - intros [k [Hk H]]. apply dedup_in, remove_all_keys in Hk. destruct Hk as [Hk1 Hk2].
      rewrite get_remove_all in H by assumption.
      destruct (is_absent (get (rgit s) k)) eqn:A; [contradiction|].
      destruct H as [H|[]]. injection H as -> <- <-.
      repeat split; try assumption. intros C. apply is_absent_spec in C. congruence.
    - intros [H1 [H2 [-> [H3 ->]]]]. exists n. split.
      + apply dedup_in, remove_all_keys. tauto.
      + rewrite get_remove_all by assumption.
        destruct (is_absent (get (rgit s) n)) eqn:A; [apply is_absent_spec in A; tauto|now left].
  Qed.

  Lemma left_r_names_nodup s g : NoDup (map fst (left_r s g)).
  Proof.
    unfold left_r. generalize (dedup_nodup (keys (remove_all (seen g) (rgit s)))).
    generalize (dedup (keys (remove_all (seen g) (rgit s)))) as l.
    induction l as [|k l IH]; cbn [flat_map]; intros H; [constructor|].
    inversion H as [|? ? Hn Hl]; subst.
    destruct (is_absent (get (remove_all (seen g) (rgit s)) k)); cbn [app map fst]; [auto|].
    constructor; [|auto]. intros C. apply Hn. apply in_map_iff in C.
    destruct C as [[k' ot] [E C]]. cbn [fst] in E. subst k'.
    apply in_flat_map in C. destruct C as [k' [Hk' C]].
    destruct (is_absent (get (remove_all (seen g) (rgit s)) k')); [contradiction|].
    destruct C as [C|[]]. injection C as ->. assumption.
  Qed.
  Lemma spec_r_names kr g n : In n (map fst (spec_r kr g)) -> In n (seen g).
  Proof.
    unfold spec_r, seen. induction g as [|[k c] g IH]; cbn [flat_map fst snd]; [tauto|].
    rewrite map_app, !in_app_iff. intros [H|H]; [left|right; auto].
    destruct (c =? 0); [contradiction|].
    destruct (teqb (resolved c) (get kr k)); [contradiction|]. exact H.
  Qed.
  Lemma spec_r_names_nodup kr g : NoDup (keys g) -> NoDup (map fst (spec_r kr g)).
  Proof.
    unfold spec_r, keys. induction g as [|[k c] g IH]; cbn [flat_map map fst snd]; [constructor|].
    intros H. inversion H as [|? ? Hn Hg]; subst. rewrite map_app.
    apply nodup_app; [|auto|].
    - destruct (c =? 0); [constructor|]. destruct (teqb (resolved c) (get kr k)); [constructor|].
      cbn. constructor; [tauto|constructor].
    - intros x Hx C. apply spec_r_names, seen_keys in C.
      destruct (c =? 0); [contradiction|]. destruct (teqb (resolved c) (get kr k)); [contradiction|].
      destruct Hx as [<-|[]]. contradiction.
  Qed.

  Lemma ch_r_names_nodup s g : NoDup (keys g) ->
    NoDup (map fst (ch_r (diff_refs_to_import s g))).
  Proof.
    intros Hnd. destruct (diff_closed_form s g Hnd) as [_ ->]. rewrite map_app.
    apply nodup_app; [now apply spec_r_names_nodup|apply left_r_names_nodup|].
    intros x Hx C. apply spec_r_names in Hx. apply in_map_iff in C.
    destruct C as [[k [o t]] [E C]]. cbn [fst] in E. subst k. apply in_left_r in C. tauto.
  Qed.

  (** What the change lists say about one name. *)
  Lemma ch_g_sound s g n t : NoDup (keys g) ->
    In (n, t) (ch_g (diff_refs_to_import s g)) -> t = resolved (gget g n).
  Proof.
    intros Hnd. destruct (diff_closed_form s g Hnd) as [-> _]. rewrite in_app_iff.
    intros [H|H].
    - apply in_spec_g in H; tauto.
    - apply in_left_g in H. destruct H as [H1 [_ ->]]. now rewrite gget_unseen.
  Qed.
  Lemma ch_g_complete s g n : NoDup (keys g) ->
    In n (map fst (ch_g (diff_refs_to_import s g))) \/ get (grefs s) n = resolved (gget g n).
  Proof.
    intros Hnd. destruct (diff_closed_form s g Hnd) as [-> _].
    destruct (teqb (get (grefs s) n) (resolved (gget g n))) eqn:E;
      [right; now apply teqb_spec|left]. apply teqb_false in E.
    rewrite map_app, in_app_iff.
    destruct (in_dec N.eq_dec n (seen g)) as [Hs|Hs].
    - left. apply in_map_iff. exists (n, resolved (gget g n)). split; [reflexivity|].
      apply in_spec_g; [assumption|]. repeat split; [assumption|congruence].
    - right. apply in_map_iff. exists (n, absent). split; [reflexivity|].
      apply in_left_g. repeat split; [assumption|].
      destruct (in_dec N.eq_dec n (keys (grefs s))) as [Hk|Hk]; [assumption|].
      exfalso. apply E. rewrite get_notin by assumption. now rewrite gget_unseen.
  Qed.
  Lemma ch_r_sound s g n o t : NoDup (keys g) ->
    In (n, (o, t)) (ch_r (diff_refs_to_import s g)) ->
    o = get (rgit s) n /\ t = resolved (gget g n) /\ t <> o.
  Proof.
    intros Hnd. destruct (diff_closed_form s g Hnd) as [_ ->]. rewrite in_app_iff.
    intros [H|H].
    - apply in_spec_r in H; [|assumption]. destruct H as [_ [-> [-> H]]]. auto.
    - apply in_left_r in H. destruct H as [H1 [_ [-> [H2 ->]]]].
      rewrite gget_unseen by assumption. repeat split. congruence.
  Qed.
  Lemma ch_r_complete s g n : NoDup (keys g) ->
    In (n, (get (rgit s) n, resolved (gget g n))) (ch_r (diff_refs_to_import s g))
    \/ get (rgit s) n = resolved (gget g n).
  Proof.
    intros Hnd. destruct (diff_closed_form s g Hnd) as [_ ->].
    destruct (teqb (get (rgit s) n) (resolved (gget g n))) eqn:E;
      [right; now apply teqb_spec|left]. apply teqb_false in E.
    rewrite in_app_iff.
    destruct (in_dec N.eq_dec n (seen g)) as [Hs|Hs].
    - left. apply in_spec_r; [assumption|]. repeat split; [assumption|congruence].
    - right. rewrite (gget_unseen g n Hs) in *. apply in_left_r. repeat split; try assumption.
      destruct (in_dec N.eq_dec n (keys (rgit s))) as [Hk|Hk]; [assumption|].
      exfalso. apply E. now rewrite get_notin.
  Qed.

  (** Applying the change lists. *)
  Lemma apply_git_fold l : forall s,
    local (fold_left apply_git_ref_change l s) = local s
    /\ rgit (fold_left apply_git_ref_change l s) = rgit s.
  Proof.
    induction l as [|u l IH]; intros s; cbn [fold_left]; [auto|].
    destruct (IH (apply_git_ref_change s u)) as [-> ->]. auto.
  Qed.
  Lemma apply_git_get (f : N -> target) l : forall s n,
    (forall k t, In (k, t) l -> t = f k) ->
    get (grefs (fold_left apply_git_ref_change l s)) n =
    if mem N.eqb n (map fst l) then f n else get (grefs s) n.
  Proof.
    induction l as [|[k t] l IH]; intros s n Hf; cbn [fold_left map fst]; [reflexivity|].
    rewrite IH by (intros; apply Hf; now right).
    unfold apply_git_ref_change. cbn [grefs fst snd].
    change (mem N.eqb n (k :: map fst l)) with ((n =? k) || mem N.eqb n (map fst l))%bool.
    destruct (mem N.eqb n (map fst l)); [now rewrite Bool.orb_true_r|].
    rewrite Bool.orb_false_r. rewrite get_set. rewrite (N.eqb_sym n k).
    destruct (k =? n) eqn:E; [|reflexivity]. apply N.eqb_eq in E. subst.
    apply Hf. now left.
  Qed.

  Lemma apply_remote_grefs l : forall s,
    grefs (fold_left (apply_remote_change anc) l s) = grefs s.
  Proof.
    induction l as [|[k [o t]] l IH]; intros s; cbn [fold_left]; [reflexivity|].
    now rewrite IH.
  Qed.
  Lemma apply_remote_other l : forall s n, ~ In n (map fst l) ->
    get (local (fold_left (apply_remote_change anc) l s)) n = get (local s) n
    /\ get (rgit (fold_left (apply_remote_change anc) l s)) n = get (rgit s) n.
  Proof.
    induction l as [|[k [o t]] l IH]; intros s n H; cbn [fold_left]; [auto|].
    cbn [map fst In] in H. destruct (IH (apply_remote_change anc s (k, (o, t))) n) as [-> ->];
      [tauto|]. cbn [apply_remote_change local rgit].
    rewrite !get_set_other by tauto. auto.
  Qed.
  Lemma apply_remote_in l : forall s n o t, NoDup (map fst l) -> In (n, (o, t)) l ->
    get (local (fold_left (apply_remote_change anc) l s)) n = merge_targets anc (get (local s) n) o t
    /\ get (rgit (fold_left (apply_remote_change anc) l s)) n = t.
  Proof.
    induction l as [|[k [o' t']] l IH]; intros s n o t Hnd Hin; [contradiction|].
    cbn [fold_left]. cbn [map fst] in Hnd. inversion Hnd as [|? ? Hn Hl]; subst.
    destruct Hin as [E|Hin].
    - injection E as -> -> ->.
      destruct (apply_remote_other l (apply_remote_change anc s (n, (o, t))) n Hn) as [-> ->].
      cbn [apply_remote_change local rgit]. now rewrite !get_set_same.
    - assert (k <> n).
      { intros ->. apply Hn. now apply (in_map fst) in Hin. }
      destruct (IH (apply_remote_change anc s (k, (o', t'))) n o t Hl Hin) as [-> ->].
      cbn [apply_remote_change local]. rewrite get_set_other by assumption. auto.
  Qed.

  (** ** What an import does, name by name. *)
  Theorem import_spec s g n : NoDup (keys g) ->
    let s' := import_refs anc s g in
    let gt := resolved (gget g n) in
    get (grefs s') n = gt
    /\ get (rgit s') n = gt
    /\ get (local s') n =
       (if teqb gt (get (rgit s) n) then get (local s) n
        else merge_targets anc (get (local s) n) (get (rgit s) n) gt).
  Proof.
    intros Hnd s' gt. subst s'. unfold import_refs.
    set (d := diff_refs_to_import s g).
    set (s1 := fold_left apply_git_ref_change (ch_g d) s).
    destruct (apply_git_fold (ch_g d) s) as [L1 R1]. fold s1 in L1, R1.
    split; [|].
    { rewrite apply_remote_grefs. unfold s1.
      rewrite (apply_git_get (fun k => resolved (gget g k))).
      - destruct (mem N.eqb n (map fst (ch_g d))) eqn:M; [reflexivity|].
        apply mem_false in M. destruct (ch_g_complete s g n Hnd); [contradiction|assumption].
      - intros k t Hin. now apply (ch_g_sound s g). }
    destruct (ch_r_complete s g n Hnd) as [Hin|Heq].
    - fold d in Hin.
      destruct (apply_remote_in (ch_r d) s1 n _ _ (ch_r_names_nodup s g Hnd) Hin) as [-> ->].
      split; [reflexivity|]. rewrite L1.
      apply ch_r_sound in Hin; [|assumption]. destruct Hin as [_ [_ Hne]].
      apply teqb_false in Hne. fold gt in Hne. now rewrite Hne.
    - assert (Hno : ~ In n (map fst (ch_r d))).
      { intros C. apply in_map_iff in C. destruct C as [[k [o t]] [E C]]. cbn [fst] in E. subst k.
        apply ch_r_sound in C; [|assumption]. destruct C as [-> [-> C]]. congruence. }
      destruct (apply_remote_other (ch_r d) s1 n Hno) as [-> ->].
      rewrite L1, R1. split; [assumption|]. fold gt in Heq. rewrite Heq, teqb_refl. reflexivity.
  Qed.

  (** An import with nothing to do returns the view itself. *)
  Lemma flat_map_nil {A B} (f : A -> list B) l : (forall x, In x l -> f x = []) -> flat_map f l = [].
  Proof.
    induction l as [|x l IH]; cbn [flat_map]; intros H; [reflexivity|].
    rewrite H by now left. apply IH. intros; apply H. now right.
  Qed.
  Theorem import_noop s g : NoDup (keys g) ->
    (forall n, get (grefs s) n = resolved (gget g n)) ->
    (forall n, get (rgit s) n = resolved (gget g n)) ->
    (forall n, In n (keys (grefs s)) -> get (grefs s) n <> absent) ->
    import_refs anc s g = s.
  Proof.
    intros Hnd Hg Hr Hwf. unfold import_refs.
    destruct (diff_closed_form s g Hnd) as [-> ->].
    assert (E1 : spec_g (grefs s) g = []).
    { apply flat_map_nil. intros [k c] Hin. cbn [fst snd].
      destruct (c =? 0); [reflexivity|]. rewrite Hg, (gget_in g k c Hnd Hin). now rewrite teqb_refl. }
    assert (E2 : left_g s g = []).
    { destruct (left_g s g) as [|[k t] l] eqn:E; [reflexivity|exfalso].
      assert (H : In (k, t) (left_g s g)) by (rewrite E; now left).
      apply in_left_g in H. destruct H as [H1 [H2 _]].
      apply (Hwf k H2). rewrite Hg, gget_unseen by assumption. reflexivity. }
    assert (E3 : spec_r (rgit s) g = []).
    { apply flat_map_nil. intros [k c] Hin. cbn [fst snd].
      destruct (c =? 0); [reflexivity|]. rewrite Hr, (gget_in g k c Hnd Hin). now rewrite teqb_refl. }
    assert (E4 : left_r s g = []).
    { destruct (left_r s g) as [|[k [o t]] l] eqn:E; [reflexivity|exfalso].
      assert (H : In (k, (o, t)) (left_r s g)) by (rewrite E; now left).
      apply in_left_r in H. destruct H as [H1 [_ [-> [H3 _]]]].
      apply H3. rewrite Hr, gget_unseen by assumption. reflexivity. }
    rewrite E1, E2, E3, E4. cbn. now destruct s.
  Qed.
End Import.

(** * Export *)
Lemma fold_pointwise {S P} (step : S -> N -> S) (proj : S -> N -> P) (eff : N -> P -> P) :
  (forall e m n, n <> m -> proj (step e m) n = proj e n) ->
  (forall e n, proj (step e n) n = eff n (proj e n)) ->
  forall names, NoDup names -> forall e n,
    proj (fold_left step names e) n =
    if mem N.eqb n names then eff n (proj e n) else proj e n.
Proof.
  intros Hother Hsame names. induction names as [|m t IH]; intros Hnd e n; [reflexivity|].
  inversion Hnd as [|? ? Hn Ht]; subst. cbn [fold_left]. rewrite IH by assumption.
  change (mem N.eqb n (m :: t)) with ((n =? m) || mem N.eqb n t)%bool.
  destruct (n =? m) eqn:E; cbn [orb].
  - apply N.eqb_eq in E. subst. apply mem_false in Hn. rewrite Hn. apply Hsame.
  - apply N.eqb_neq in E. rewrite Hother by assumption. reflexivity.
Qed.

Definition eproj (e : exp_state) (n : N) : target * N * list (N * reason) :=
  (get (x_grefs e) n, gget (x_git e) n, filter (fun p => fst p =? n) (x_failed e)).

Definition del_eff (f : N -> target * target) (n : N) (p : target * N * list (N * reason)) :=
  let '(gr, cur, fl) := p in
  match classify_export (fst (f n)) (snd (f n)) with
  | XDelete o =>
      if cur =? 0 then (absent, cur, fl)
      else if cur =? o then (absent, 0, fl)
      else (gr, cur, fl ++ [(n, DeletedInJjModifiedInGit)])
  | XFail r => (gr, cur, fl ++ [(n, r)])
  | _ => p
  end.
Definition upd_eff (f : N -> target * target) (n : N) (p : target * N * list (N * reason)) :=
  let '(gr, cur, fl) := p in
  match classify_export (fst (f n)) (snd (f n)) with
  | XUpdate o c =>
      if o =? 0 then
        (if cur =? 0 then (resolved c, c, fl)
         else if cur =? c then (resolved c, cur, fl)
         else (gr, cur, fl ++ [(n, AddedInJjAddedInGit)]))
      else
        (if cur =? o then (resolved c, c, fl)
         else if cur =? 0 then (gr, cur, fl ++ [(n, ModifiedInJjDeletedInGit)])
         else if cur =? c then (resolved c, cur, fl)
         else (gr, cur, fl ++ [(n, FailedToSet)]))
  | _ => p
  end.

Lemma filter_snoc_same n (fl : list (N * reason)) r :
  filter (fun p => fst p =? n) (fl ++ [(n, r)]) = filter (fun p => fst p =? n) fl ++ [(n, r)].
Proof. rewrite filter_app. cbn [filter fst]. now rewrite N.eqb_refl. Qed.
Lemma filter_snoc_other n m (fl : list (N * reason)) r : n <> m ->
  filter (fun p => fst p =? n) (fl ++ [(m, r)]) = filter (fun p => fst p =? n) fl.
Proof.
  intros H. rewrite filter_app. cbn [filter fst]. apply not_eq_sym, N.eqb_neq in H.
  rewrite H. apply app_nil_r.
Qed.

Lemma export_delete_other f e m n : n <> m -> eproj (export_delete f e m) n = eproj e n.
Proof.
  intros H. unfold export_delete, eproj. destruct (f m) as [old new].
  destruct (classify_export old new) as [|r|o c|o]; try reflexivity.
  - cbn [x_grefs x_git x_failed]. now rewrite filter_snoc_other.
  - unfold delete_git_ref. destruct (gget (x_git e) m =? 0).
    + cbn [x_grefs x_git x_failed]. rewrite get_set_other by congruence. reflexivity.
    + destruct (gget (x_git e) m =? o); cbn [x_grefs x_git x_failed].
      * rewrite get_set_other, gget_gset by congruence.
        apply not_eq_sym, N.eqb_neq in H. now rewrite H.
      * now rewrite filter_snoc_other.
Qed.
Lemma export_delete_same f e n : eproj (export_delete f e n) n = del_eff f n (eproj e n).
Proof.
  unfold export_delete, eproj, del_eff. destruct (f n) as [old new]. cbn [fst snd].
  destruct (classify_export old new) as [|r|o c|o]; try reflexivity.
  - cbn [x_grefs x_git x_failed]. now rewrite filter_snoc_same.
  - unfold delete_git_ref. destruct (gget (x_git e) n =? 0) eqn:Z.
    + cbn [x_grefs x_git x_failed]. now rewrite get_set_same.
    + destruct (gget (x_git e) n =? o); cbn [x_grefs x_git x_failed].
      * rewrite get_set_same, gget_gset, N.eqb_refl. reflexivity.
      * now rewrite filter_snoc_same.
Qed.
Lemma export_update_other f e m n : n <> m -> eproj (export_update f e m) n = eproj e n.
Proof.
  intros H. unfold export_update, eproj. destruct (f m) as [old new].
  assert (Hm : (m =? n) = false) by now apply N.eqb_neq, not_eq_sym.
  destruct (classify_export old new) as [|r|o c|o]; try reflexivity.
  unfold update_git_ref, create_git_ref, move_git_ref.
  destruct (o =? 0).
  - destruct (gget (x_git e) m =? 0); [|destruct (gget (x_git e) m =? c)];
      cbn [x_grefs x_git x_failed];
      rewrite ?get_set_other, ?gget_gset, ?Hm, ?filter_snoc_other by congruence; reflexivity.
  - destruct (gget (x_git e) m =? o);
      [|destruct (gget (x_git e) m =? 0); [|destruct (gget (x_git e) m =? c)]];
      cbn [x_grefs x_git x_failed];
      rewrite ?get_set_other, ?gget_gset, ?Hm, ?filter_snoc_other by congruence; reflexivity.
Qed.
Lemma export_update_same f e n : eproj (export_update f e n) n = upd_eff f n (eproj e n).
Proof.
  unfold export_update, eproj, upd_eff. destruct (f n) as [old new]. cbn [fst snd].
  destruct (classify_export old new) as [|r|o c|o]; try reflexivity.
  unfold update_git_ref, create_git_ref, move_git_ref.
  destruct (o =? 0).
  - destruct (gget (x_git e) n =? 0); [|destruct (gget (x_git e) n =? c)];
      cbn [x_grefs x_git x_failed];
      rewrite ?get_set_same, ?gget_gset, ?N.eqb_refl, ?filter_snoc_same; reflexivity.
  - destruct (gget (x_git e) n =? o);
      [|destruct (gget (x_git e) n =? 0); [|destruct (gget (x_git e) n =? c)]];
      cbn [x_grefs x_git x_failed];
      rewrite ?get_set_same, ?gget_gset, ?N.eqb_refl, ?filter_snoc_same; reflexivity.
Qed.

(** What an export does for one name, as a function of the recorded Git value [old], the
    local bookmark [new] and Git's current value [cur]:
    (new git_refs entry, new Git value, reported failure). *)
Definition export_name (old new : target) (cur : N) : target * N * option reason :=
  match classify_export old new with
  | XSkip => (old, cur, None)
  | XFail r => (old, cur, Some r)
  | XDelete o =>
      if cur =? 0 then (absent, cur, None)
      else if cur =? o then (absent, 0, None)
      else (old, cur, Some DeletedInJjModifiedInGit)
  | XUpdate o c =>
      if o =? 0 then
        (if cur =? 0 then (resolved c, c, None)
         else if cur =? c then (resolved c, cur, None)
         else (old, cur, Some AddedInJjAddedInGit))
      else
        (if cur =? o then (resolved c, c, None)
         else if cur =? 0 then (old, cur, Some ModifiedInJjDeletedInGit)
         else if cur =? c then (resolved c, cur, None)
         else (old, cur, Some FailedToSet))
  end.

Lemma classify_absent : classify_export absent absent = XSkip.
Proof. reflexivity. Qed.

Lemma insert_failed_in p q l : In p (insert_failed q l) <-> p = q \/ In p l.
Proof.
  induction l as [|x l IH]; cbn [insert_failed In]; [intuition congruence|].
  destruct (fst q <=? fst x); cbn [In]; [intuition congruence|]. rewrite IH. intuition congruence.
Qed.
Lemma sort_failed_in p l : In p (sort_failed l) <-> In p l.
Proof.
  unfold sort_failed. induction l as [|x l IH]; cbn [fold_right In]; [tauto|].
  rewrite insert_failed_in, IH. intuition congruence.
Qed.
Lemma in_filter_name n r (l : list (N * reason)) :
  In (n, r) l <-> In (n, r) (filter (fun p => fst p =? n) l).
Proof. rewrite filter_In. cbn [fst]. rewrite N.eqb_refl. tauto. Qed.

Definition exp_names (s : view) : list N := dedup (keys (local s) ++ keys (grefs s)).
Definition exp_old_new (s : view) : N -> target * target :=
  fun n => (get (grefs s) n, get (local s) n).

Lemma export_loops_spec s g n :
  let e2 := fold_left (export_update (exp_old_new s)) (exp_names s)
              (fold_left (export_delete (exp_old_new s)) (exp_names s) (mk_exp (grefs s) g [])) in
  let r := export_name (get (grefs s) n) (get (local s) n) (gget g n) in
  eproj e2 n = (fst (fst r), snd (fst r),
                match snd r with Some x => [(n, x)] | None => [] end).
Proof.
  intros e2 r. subst e2.
  rewrite (fold_pointwise _ eproj (upd_eff (exp_old_new s)) (export_update_other _)
             (export_update_same _) (exp_names s) (dedup_nodup _)).
  rewrite (fold_pointwise _ eproj (del_eff (exp_old_new s)) (export_delete_other _)
             (export_delete_same _) (exp_names s) (dedup_nodup _)).
  unfold eproj. cbn [x_grefs x_git x_failed filter].
  destruct (mem N.eqb n (exp_names s)) eqn:M.
  - subst r. unfold upd_eff, del_eff, export_name, exp_old_new. cbn [fst snd].
    destruct (classify_export (get (grefs s) n) (get (local s) n)) as [|x|o c|o] eqn:C.
    + reflexivity.
    + reflexivity.
    + destruct (o =? 0).
      * destruct (gget g n =? 0); [reflexivity|]. destruct (gget g n =? c); reflexivity.
      * destruct (gget g n =? o); [reflexivity|]. destruct (gget g n =? 0); [reflexivity|].
        destruct (gget g n =? c); reflexivity.
    + destruct (gget g n =? 0); [reflexivity|].
      destruct (gget g n =? o); reflexivity.
  - apply mem_false in M. unfold exp_names in M. rewrite dedup_in, in_app_iff in M.
    subst r. rewrite !get_notin by tauto. unfold export_name. rewrite classify_absent. reflexivity.
Qed.

Lemma copy_exportable_get s failed n :
  get (copy_exportable s failed) n =
  let l := get (local s) n in
  if negb (has_conflict l) && negb (teqb (get (rgit s) n) l) && negb (mem N.eqb n failed)
  then l else get (rgit s) n.
Proof.
  unfold copy_exportable.
  set (cond := fun k => negb (has_conflict (get (local s) k))
                        && negb (teqb (get (rgit s) k) (get (local s) k))
                        && negb (mem N.eqb k failed)).
  rewrite (fold_pointwise
             (fun acc k => if cond k then set acc k (get (local s) k) else acc)
             get (fun k t => if cond k then get (local s) k else t)).
  - cbv zeta. fold (cond n).
    destruct (mem N.eqb n (dedup (keys (local s) ++ keys (rgit s)))) eqn:M; [reflexivity|].
    apply mem_false in M. rewrite dedup_in, in_app_iff in M.
    destruct (cond n) eqn:Cn; [|reflexivity]. unfold cond in Cn.
    rewrite !get_notin in Cn by tauto. rewrite teqb_refl in Cn.
    rewrite Bool.andb_false_r in Cn. discriminate.
  - intros e m k H. destruct (cond m); [|reflexivity]. apply get_set_other. congruence.
  - intros e k. destruct (cond k); [|reflexivity]. apply get_set_same.
  - apply dedup_nodup.
Qed.

(** ** What an export does, name by name. *)
Theorem export_spec s g n :
  let '(s', g', failed) := export_refs s g in
  let old := get (grefs s) n in
  let new := get (local s) n in
  let r := export_name old new (gget g n) in
  local s' = local s
  /\ get (grefs s') n = fst (fst r)
  /\ gget g' n = snd (fst r)
  /\ (forall x, In (n, x) failed <-> snd r = Some x)
  /\ get (rgit s') n =
     (if negb (has_conflict new) && negb (teqb (get (rgit s) n) new)
         && match snd r with Some _ => false | None => true end
      then new else get (rgit s) n).
Proof.
  unfold export_refs. fold (exp_names s). fold (exp_old_new s).
  set (e2 := fold_left (export_update (exp_old_new s)) (exp_names s) _).
  cbv zeta. cbn [local grefs rgit].
  pose proof (export_loops_spec s g n) as H. cbv zeta in H. fold e2 in H.
  unfold eproj in H. injection H as H1 H2 H3.
  split; [reflexivity|]. split; [exact H1|]. split; [exact H2|].
  assert (HF : forall x, In (n, x) (sort_failed (x_failed e2)) <->
                         snd (export_name (get (grefs s) n) (get (local s) n) (gget g n)) = Some x).
  { intros x. rewrite sort_failed_in, in_filter_name, H3.
    destruct (snd (export_name (get (grefs s) n) (get (local s) n) (gget g n))) as [y|];
      cbn [In]; split; try tauto; try discriminate.
    - intros [E|[]]. now injection E as ->.
    - intros E. injection E as ->. now left. }
  split; [exact HF|].
  rewrite copy_exportable_get. cbv zeta.
  assert (HM : mem N.eqb n (failed_names (sort_failed (x_failed e2))) =
               match snd (export_name (get (grefs s) n) (get (local s) n) (gget g n)) with
               | Some _ => true | None => false end).
  { destruct (snd (export_name (get (grefs s) n) (get (local s) n) (gget g n))) as [y|] eqn:E.
    - apply mem_spec. unfold failed_names. apply in_map_iff. exists (n, y). split; [reflexivity|].
      now apply HF.
    - apply mem_false. unfold failed_names. intros C. apply in_map_iff in C.
      destruct C as [[k y] [Ek C]]. cbn [fst] in Ek. subst k. apply HF in C. discriminate. }
  rewrite HM.
  destruct (snd (export_name (get (grefs s) n) (get (local s) n) (gget g n))); reflexivity.
Qed.

(** * Shapes of targets *)
Lemma as_normal_some t c : as_normal t = Some c -> t = [c] /\ c <> 0.
Proof.
  unfold as_normal. destruct t as [|x [|y t]]; try discriminate.
  destruct (x =? 0) eqn:E; [discriminate|]. intros H. injection H as ->.
  split; [reflexivity|now apply N.eqb_neq].
Qed.
Lemma resolved_not_normal t : has_conflict t = false -> as_normal t = None -> t = absent.
Proof.
  unfold has_conflict, as_normal. destruct t as [|x [|y t]]; try discriminate.
  intros _. destruct (x =? 0) eqn:E; [|discriminate]. apply N.eqb_eq in E. now subst.
Qed.
Lemma has_conflict_resolved c : has_conflict (resolved c) = false.
Proof. reflexivity. Qed.
Lemma as_normal_resolved c : as_normal (resolved c) = if c =? 0 then None else Some c.
Proof. reflexivity. Qed.
Lemma teqb_resolved a b : teqb (resolved a) (resolved b) = (a =? b).
Proof. unfold teqb, resolved. cbn [list_eqb]. now rewrite Bool.andb_true_r. Qed.

(** ** Export as a compare-and-swap, for any view and any Git state *)
Ltac fin := repeat split; try congruence; try discriminate; auto.
Lemma export_name_cas old new cur :
  let r := export_name old new cur in
  (snd (fst r) <> cur ->
     old = resolved cur /\ resolved (snd (fst r)) = new /\ snd r = None
     /\ fst (fst r) = new /\ new <> old)
  /\ (snd r <> None -> fst r = (old, cur))
  /\ (has_conflict new = true ->
      fst r = (old, cur) /\ (snd r = None \/ snd r = Some ConflictedOldState)).
Proof.
  unfold export_name, classify_export.
  destruct (teqb new old) eqn:E0; cbn [fst snd].
  { fin. }
  apply teqb_false in E0.
  destruct (teqb new (resolved root_id)) eqn:E1; cbn [fst snd].
  { apply teqb_spec in E1. subst new. fin. }
  destruct (as_normal old) as [o|] eqn:Ao.
  - apply as_normal_some in Ao. destruct Ao as [-> Ho].
    assert (Eo : o =? 0 = false) by now apply N.eqb_neq.
    destruct (as_normal new) as [c|] eqn:An.
    + apply as_normal_some in An. destruct An as [-> Hc]. rewrite Eo.
      destruct (cur =? o) eqn:C1; cbn [fst snd].
      * apply N.eqb_eq in C1. subst cur. fin.
      * destruct (cur =? 0) eqn:C2; cbn [fst snd]; [fin|].
        destruct (cur =? c) eqn:C3; cbn [fst snd]; fin.
    + destruct (has_conflict new) eqn:Hn; cbn [fst snd].
      * fin.
      * apply resolved_not_normal in An; [|assumption]. subst new.
        destruct (cur =? 0) eqn:C1; cbn [fst snd]; [fin|].
        destruct (cur =? o) eqn:C2; cbn [fst snd].
        -- apply N.eqb_eq in C2. subst cur. fin.
        -- fin.
  - destruct (has_conflict old) eqn:Ho; cbv beta iota; cbn [fst snd].
    { fin. }
    apply resolved_not_normal in Ao; [|assumption]. subst old.
    destruct (as_normal new) as [c|] eqn:An.
    + apply as_normal_some in An. destruct An as [-> Hc]. cbn [N.eqb].
      destruct (cur =? 0) eqn:C1; cbn [fst snd].
      * apply N.eqb_eq in C1. subst cur. fin.
      * destruct (cur =? c) eqn:C2; cbn [fst snd]; fin.
    + destruct (has_conflict new) eqn:Hn; cbn [fst snd].
      * fin.
      * apply resolved_not_normal in An; [|assumption]. subst new. congruence.
Qed.

(** The recorded Git value is current (the situation right after an import). *)
Lemma export_name_synced new cur :
  let r := export_name (resolved cur) new cur in
  (new = resolved root_id /\ new <> resolved cur /\ r = (resolved cur, cur, Some OnRootCommit))
  \/ (has_conflict new = true /\ r = (resolved cur, cur, None))
  \/ (has_conflict new = false /\ snd r = None
      /\ resolved (snd (fst r)) = new /\ fst (fst r) = new).
Proof.
  unfold export_name, classify_export.
  destruct (teqb new (resolved cur)) eqn:E0.
  { apply teqb_spec in E0. subst new. right. right. cbn [fst snd]. auto. }
  apply teqb_false in E0.
  destruct (teqb new (resolved root_id)) eqn:E1.
  { apply teqb_spec in E1. left. auto. }
  rewrite as_normal_resolved, has_conflict_resolved. right.
  destruct (cur =? 0) eqn:C; cbv beta iota zeta.
  - apply N.eqb_eq in C. subst cur.
    destruct (as_normal new) as [c|] eqn:An.
    + apply as_normal_some in An. destruct An as [-> Hc]. right. cbn [has_conflict N.eqb fst snd]. auto.
    + destruct (has_conflict new) eqn:Hn; [left; auto|right].
      apply resolved_not_normal in An; [|assumption]. subst new. exfalso. now apply E0.
  - destruct (as_normal new) as [c|] eqn:An.
    + apply as_normal_some in An. destruct An as [-> Hc]. right. cbn [has_conflict].
      rewrite C, N.eqb_refl. cbn [fst snd]. auto.
    + destruct (has_conflict new) eqn:Hn; [left; auto|right].
      apply resolved_not_normal in An; [|assumption]. subst new.
      rewrite ?C, N.eqb_refl. cbn [fst snd]. auto.
Qed.

Lemma fold_invariant {S A} (P : S -> Prop) (step : S -> A -> S) l :
  (forall e a, P e -> P (step e a)) -> forall e, P e -> P (fold_left step l e).
Proof. intros H. induction l as [|a l IH]; intros e He; cbn [fold_left]; auto. Qed.

Lemma export_git_nodup s g :
  NoDup (keys g) -> NoDup (keys (snd (fst (export_refs s g)))).
Proof.
  intros H. unfold export_refs. cbn [fst snd].
  apply (fold_invariant (fun e => NoDup (keys (x_git e)))).
  { intros e n He. unfold export_update. cbv beta iota.
    destruct (classify_export (get (grefs s) n) (get (local s) n)) as [|r|o c|o]; try assumption.
    unfold update_git_ref, create_git_ref, move_git_ref.
    destruct (o =? 0).
    - destruct (gget (x_git e) n =? 0); [now apply gset_nodup|].
      destruct (gget (x_git e) n =? c); assumption.
    - destruct (gget (x_git e) n =? o); [now apply gset_nodup|].
      destruct (gget (x_git e) n =? 0); [assumption|].
      destruct (gget (x_git e) n =? c); assumption. }
  apply (fold_invariant (fun e => NoDup (keys (x_git e)))).
  { intros e n He. unfold export_delete. cbv beta iota.
    destruct (classify_export (get (grefs s) n) (get (local s) n)) as [|r|o c|o]; try assumption.
    unfold delete_git_ref.
    destruct (gget (x_git e) n =? 0); [assumption|].
    destruct (gget (x_git e) n =? o); [now apply gset_nodup|assumption]. }
  exact H.
Qed.

(** ** The theorems of the property, on the model *)
Section Theorems.
  Context (anc : N -> N -> bool).

  Definition synced (s : view) (g : gmap) : Prop :=
    forall n, get (grefs s) n = resolved (gget g n) /\ get (rgit s) n = resolved (gget g n).

  Lemma import_synced s g : NoDup (keys g) -> synced (import_refs anc s g) g.
  Proof. intros H n. destruct (import_spec anc s g n H) as [A [B _]]. auto. Qed.

  (** Export from a view whose records are current. *)
  Lemma export_after_sync s g : synced s g ->
    let '(s2, g2, failed) := export_refs s g in
    local s2 = local s
    /\ synced s2 g2
    /\ (forall n, ~ In n (failed_names failed) -> has_conflict (get (local s) n) = false ->
                  resolved (gget g2 n) = get (local s) n)
    /\ (forall n x, In (n, x) failed ->
                    x = OnRootCommit /\ get (local s) n = resolved root_id
                    /\ gget g2 n = gget g n)
    /\ (forall n, has_conflict (get (local s) n) = true ->
                  gget g2 n = gget g n /\ ~ In n (failed_names failed)).
  Proof.
    intros Hs.
    destruct (export_refs s g) as [[s2 g2] failed] eqn:E.
    assert (SP : forall n,
      let r := export_name (resolved (gget g n)) (get (local s) n) (gget g n) in
      local s2 = local s /\ get (grefs s2) n = fst (fst r) /\ gget g2 n = snd (fst r)
      /\ (forall x, In (n, x) failed <-> snd r = Some x)
      /\ get (rgit s2) n =
         (if negb (has_conflict (get (local s) n))
             && negb (teqb (resolved (gget g n)) (get (local s) n))
             && match snd r with Some _ => false | None => true end
          then get (local s) n else resolved (gget g n))).
    { intros n. pose proof (export_spec s g n) as H. rewrite E in H. cbv zeta in H.
      destruct (Hs n) as [Hg Hr]. rewrite Hg, Hr in H. exact H. }
    assert (NF : forall n, ~ In n (failed_names failed) <->
                 snd (export_name (resolved (gget g n)) (get (local s) n) (gget g n)) = None).
    { intros n. destruct (SP n) as [_ [_ [_ [HF _]]]]. unfold failed_names. split.
      - intros H. destruct (snd (export_name _ _ _)) as [x|] eqn:R; [|reflexivity].
        exfalso. apply H. apply in_map_iff. exists (n, x). split; [reflexivity|now apply HF].
      - intros R C. apply in_map_iff in C. destruct C as [[k x] [Ek C]]. cbn [fst] in Ek. subst k.
        apply HF in C. congruence. }
    split; [exact (proj1 (SP 0))|]. split; [|split; [|split]].
    - intros n. destruct (SP n) as [_ [A [B [_ D]]]]. rewrite A, B, D.
      destruct (export_name_synced (get (local s) n) (gget g n)) as [[H1 [H2 H3]]|[[H1 H3]|[H1 [H2 [H3 H4]]]]].
      + rewrite H3. cbn [fst snd]. rewrite Bool.andb_false_r. auto.
      + rewrite H3, H1. cbn [fst snd negb andb]. auto.
      + rewrite H2, H3, H4, H1. cbn [negb andb]. split; [reflexivity|].
        destruct (teqb (resolved (gget g n)) (get (local s) n)) eqn:T; cbn [negb andb]; [|reflexivity].
        now apply teqb_spec in T.
    - intros n Hnf Hc. apply NF in Hnf. destruct (SP n) as [_ [_ [B _]]]. rewrite B.
      destruct (export_name_synced (get (local s) n) (gget g n)) as [[H1 [H2 H3]]|[[H1 H3]|[H1 [H2 [H3 H4]]]]].
      + rewrite H3 in Hnf. discriminate.
      + congruence.
      + exact H3.
    - intros n x Hin. destruct (SP n) as [_ [_ [B [HF _]]]]. apply HF in Hin. rewrite B.
      destruct (export_name_synced (get (local s) n) (gget g n)) as [[H1 [H2 H3]]|[[H1 H3]|[H1 [H2 [H3 H4]]]]].
      + rewrite H3 in *. cbn [fst snd] in *. injection Hin as <-. auto.
      + rewrite H3 in Hin. discriminate.
      + rewrite H2 in Hin. discriminate.
    - intros n Hc. destruct (SP n) as [_ [_ [B _]]]. rewrite B. rewrite NF.
      destruct (export_name_synced (get (local s) n) (gget g n)) as [[H1 [H2 H3]]|[[H1 H3]|[H1 [H2 [H3 H4]]]]].
      + rewrite H1 in Hc. discriminate.
      + rewrite H3. auto.
      + congruence.
  Qed.

  (** An import of a view whose records are current changes nothing observable. *)
  Lemma import_of_synced s g n : NoDup (keys g) -> synced s g ->
    let s' := import_refs anc s g in
    get (local s') n = get (local s) n /\ get (rgit s') n = get (rgit s) n
    /\ get (grefs s') n = get (grefs s) n.
  Proof.
    intros Hnd Hs s'. destruct (import_spec anc s g n Hnd) as [A [B C]]. fold s' in A, B, C.
    destruct (Hs n) as [Hg Hr]. rewrite A, B, C, Hg, Hr, teqb_refl. auto.
  Qed.

  Theorem converge s g : NoDup (keys g) ->
    let s1 := import_refs anc s g in
    let '(s2, g2, failed) := export_refs s1 g in
    let s3 := import_refs anc s2 g2 in
    (forall n, ~ In n (failed_names failed) -> has_conflict (get (local s1) n) = false ->
               resolved (gget g2 n) = get (local s1) n)
    /\ (forall n x, In (n, x) failed ->
                    x = OnRootCommit /\ get (local s1) n = resolved root_id /\ gget g2 n = gget g n)
    /\ (forall n, has_conflict (get (local s1) n) = true ->
                  gget g2 n = gget g n /\ ~ In n (failed_names failed))
    /\ local s2 = local s1
    /\ (forall n, get (local s3) n = get (local s2) n /\ get (rgit s3) n = get (rgit s2) n
                  /\ get (grefs s3) n = get (grefs s2) n).
  Proof.
    intros Hnd s1.
    pose proof (export_after_sync s1 g (import_synced s g Hnd)) as H.
    pose proof (export_git_nodup s1 g Hnd) as Hnd2.
    destruct (export_refs s1 g) as [[s2 g2] failed]. cbn [fst snd] in Hnd2.
    destruct H as [H1 [H2 [H3 [H4 H5]]]]. cbv zeta.
    split; [exact H3|]. split; [exact H4|]. split; [exact H5|]. split; [exact H1|].
    intros n. apply (import_of_synced s2 g2 n Hnd2 H2).
  Qed.

  (** One-sided changes. *)
  Theorem git_change_propagates s g n : NoDup (keys g) ->
    get (local s) n = get (rgit s) n ->
    get (local (import_refs anc s g)) n = resolved (gget g n).
  Proof.
    intros Hnd H. destruct (import_spec anc s g n Hnd) as [_ [_ C]]. rewrite C.
    destruct (teqb (resolved (gget g n)) (get (rgit s) n)) eqn:E.
    - apply teqb_spec in E. congruence.
    - rewrite H. apply merge_left_unchanged.
  Qed.
  Theorem jj_change_kept_by_import s g n : NoDup (keys g) ->
    resolved (gget g n) = get (rgit s) n ->
    get (local (import_refs anc s g)) n = get (local s) n.
  Proof.
    intros Hnd H. destruct (import_spec anc s g n Hnd) as [_ [_ C]]. rewrite C, H, teqb_refl.
    reflexivity.
  Qed.
  Theorem same_change_both_sides s g n : NoDup (keys g) ->
    get (local s) n = resolved (gget g n) ->
    get (local (import_refs anc s g)) n = get (local s) n.
  Proof.
    intros Hnd H. destruct (import_spec anc s g n Hnd) as [_ [_ C]]. rewrite C.
    destruct (teqb (resolved (gget g n)) (get (rgit s) n)); [reflexivity|].
    rewrite <- H. apply merge_same_change.
  Qed.
  Theorem jj_change_propagates s g n : NoDup (keys g) ->
    resolved (gget g n) = get (rgit s) n ->
    has_conflict (get (local s) n) = false -> get (local s) n <> resolved root_id ->
    let s1 := import_refs anc s g in
    let '(s2, g2, failed) := export_refs s1 g in
    resolved (gget g2 n) = get (local s) n /\ get (local s2) n = get (local s) n
    /\ get (rgit s2) n = get (local s) n /\ ~ In n (failed_names failed).
  Proof.
    intros Hnd H Hc Hr s1.
    pose proof (jj_change_kept_by_import s g n Hnd H) as HL. fold s1 in HL.
    pose proof (export_after_sync s1 g (import_synced s g Hnd)) as HX.
    destruct (export_refs s1 g) as [[s2 g2] failed].
    destruct HX as [H1 [H2 [H3 [H4 H5]]]].
    assert (NF : ~ In n (failed_names failed)).
    { unfold failed_names. intros C. apply in_map_iff in C. destruct C as [[k x] [Ek C]].
      cbn [fst] in Ek. subst k. apply H4 in C. destruct C as [_ [C _]]. congruence. }
    rewrite <- HL. repeat split.
    - apply H3; [assumption|congruence].
    - now rewrite H1.
    - destruct (H2 n) as [_ ->]. apply H3; [assumption|congruence].
    - assumption.
  Qed.

  (** Both sides changed a resolved bookmark to different values. *)
  Theorem conflict_not_overwrite s g n a b : NoDup (keys g) ->
    get (local s) n = [a] -> get (rgit s) n = [b] ->
    a <> b -> b <> gget g n -> a <> gget g n ->
    let c := gget g n in
    let s1 := import_refs anc s g in
    let '(s2, g2, failed) := export_refs s1 g in
    match ff_resolves anc a b c with
    | None =>
        get (local s1) n = [a; b; c] /\ get (local s2) n = [a; b; c]
        /\ gget g2 n = c /\ ~ In n (failed_names failed) /\ get (rgit s2) n = resolved c
    | Some d =>
        get (local s1) n = [d] /\ ((d = c /\ anc a c = true) \/ (d = a /\ anc c a = true))
    end.
  Proof.
    intros Hnd HL HR Hab Hbc Hac c s1.
    assert (L1 : get (local s1) n =
                 match ff_resolves anc a b c with Some d => [d] | None => [a; b; c] end).
    { destruct (import_spec anc s g n Hnd) as [_ [_ C]]. fold s1 in C. rewrite C, HL, HR.
      fold c. change [b] with (resolved b). rewrite (teqb_resolved c b).
      assert (E : c =? b = false) by (apply N.eqb_neq; unfold c; congruence). rewrite E.
      apply merge_three_distinct; assumption. }
    pose proof (export_after_sync s1 g (import_synced s g Hnd)) as HX.
    destruct (export_refs s1 g) as [[s2 g2] failed].
    destruct HX as [H1 [H2 [H3 [H4 H5]]]].
    destruct (ff_resolves anc a b c) as [d|] eqn:F.
    - split; [assumption|]. unfold ff_resolves in F.
      destruct ((a =? 0) || (c =? 0)); [discriminate|].
      destruct (anc a c) eqn:Aac.
      + destruct ((b =? 0) || anc b a); [|discriminate]. injection F as <-. auto.
      + destruct (anc c a) eqn:Aca; [|discriminate].
        destruct ((b =? 0) || anc b c); [|discriminate]. injection F as <-. auto.
    - assert (Hc : has_conflict (get (local s1) n) = true) by now rewrite L1.
      destruct (H5 n Hc) as [G NF]. repeat split; try assumption.
      + now rewrite H1.
      + destruct (H2 n) as [_ ->]. now rewrite G.
  Qed.

  (** Export never overwrites: compare-and-swap per ref, for ANY view and Git state (this
      covers Git-side edits made between an import and the export). *)
  Theorem export_cas s g n :
    let '(s2, g2, failed) := export_refs s g in
    local s2 = local s
    /\ (gget g2 n <> gget g n ->
          get (grefs s) n = resolved (gget g n) /\ resolved (gget g2 n) = get (local s) n
          /\ ~ In n (failed_names failed) /\ get (grefs s2) n = get (local s) n)
    /\ (In n (failed_names failed) ->
          gget g2 n = gget g n /\ get (grefs s2) n = get (grefs s) n
          /\ get (rgit s2) n = get (rgit s) n)
    /\ (has_conflict (get (local s) n) = true ->
          gget g2 n = gget g n /\ (forall x, In (n, x) failed -> x = ConflictedOldState)
          /\ get (grefs s2) n = get (grefs s) n /\ get (rgit s2) n = get (rgit s) n)
    /\ (~ In n (failed_names failed) -> has_conflict (get (local s) n) = false ->
          get (rgit s2) n = get (local s) n).
  Proof.
    pose proof (export_spec s g n) as H.
    destruct (export_refs s g) as [[s2 g2] failed]. cbv zeta in H.
    destruct H as [HL [HG [HC [HF HR]]]].
    pose proof (export_name_cas (get (grefs s) n) (get (local s) n) (gget g n)) as K.
    cbv zeta in K. destruct K as [K1 [K2 K3]].
    set (r := export_name (get (grefs s) n) (get (local s) n) (gget g n)) in *.
    assert (NF : ~ In n (failed_names failed) <-> snd r = None).
    { unfold failed_names. split.
      - intros H. destruct (snd r) as [x|] eqn:R; [|reflexivity].
        exfalso. apply H. apply in_map_iff. exists (n, x). split; [reflexivity|now apply HF].
      - intros R C. apply in_map_iff in C. destruct C as [[k x] [Ek C]]. cbn [fst] in Ek. subst k.
        apply HF in C. congruence. }
    split; [exact HL|]. split; [|split; [|split]].
    - intros Hne. rewrite HC in Hne. destruct (K1 Hne) as [A [B [C [D _]]]].
      rewrite HC, HG, NF. auto.
    - intros Hin. assert (Hs : snd r <> None).
      { intros C. apply NF in C. contradiction. }
      specialize (K2 Hs). rewrite HC, HG, HR. rewrite K2. cbn [fst snd].
      destruct (snd r); [|congruence]. rewrite Bool.andb_false_r. auto.
    - intros Hc. destruct (K3 Hc) as [K3a K3b]. rewrite HC, HG, HR, K3a. cbn [fst snd].
      rewrite Hc. cbn [negb andb]. repeat split.
      intros x Hx. apply HF in Hx. destruct K3b as [K|K]; congruence.
    - intros Hnf Hc. apply NF in Hnf. rewrite HR, Hnf, Hc. cbn [negb andb].
      destruct (teqb (get (rgit s) n) (get (local s) n)) eqn:T; cbn [negb]; [|reflexivity].
      now apply teqb_spec in T.
  Qed.
End Theorems.

(** * The property checker: meaning, and the model passes it *)
Lemma if_else_true (b x : bool) : (if b then x else true) = true <-> (b = true -> x = true).
Proof. destruct b; split; auto; discriminate. Qed.
Lemma forallb_names {A} (f : A -> bool) l : forallb f l = true <-> (forall n, In n l -> f n = true).
Proof. apply forallb_forall. Qed.

Definition ImportOk (anc : N -> N -> bool) (pre post : snapshot) (n : N) : Prop :=
  let l := get (o_local pre) n in
  let r := get (o_rgit pre) n in
  let c := gget (o_git pre) n in
  let l' := get (o_local post) n in
  gget (o_git post) n = c
  /\ get (o_rgit post) n = resolved c /\ get (o_grefs post) n = resolved c
  /\ (resolved c = r -> l' = l)
  /\ (l = r -> l' = resolved c)
  /\ (l = resolved c -> l' = l)
  /\ (forall a b, l = [a] -> r = [b] -> a <> b -> b <> c -> a <> c ->
        l' = match ff_resolves anc a b c with Some d => [d] | None => [a; b; c] end).

Lemma import_name_ok_spec anc pre post n :
  import_name_ok anc pre post n = true <-> ImportOk anc pre post n.
Proof.
  unfold import_name_ok, ImportOk, tgt. cbv zeta.
  set (l := get (o_local pre) n). set (r := get (o_rgit pre) n).
  set (c := gget (o_git pre) n). set (l' := get (o_local post) n).
  rewrite !Bool.andb_true_iff, !if_else_true, !teqb_spec, N.eqb_eq.
  assert (Last :
    match l with
    | [a] => match r with
             | [b] => if (a =? b) || (b =? c) || (a =? c) then true
                      else match ff_resolves anc a b c with
                           | Some d => teqb l' [d] | None => teqb l' [a; b; c] end
             | _ => true end
    | _ => true end = true <->
    (forall a b, l = [a] -> r = [b] -> a <> b -> b <> c -> a <> c ->
        l' = match ff_resolves anc a b c with Some d => [d] | None => [a; b; c] end)).
  { destruct l as [|a [|? ?]].
    - split; [intros _ x y H; discriminate|reflexivity].
    - destruct r as [|b [|? ?]].
      + split; [intros _ x y H H2; discriminate|reflexivity].
      + destruct ((a =? b) || (b =? c) || (a =? c)) eqn:E.
        * split; [|reflexivity]. intros _ x y Ha Hb Hab Hbc Hac.
          injection Ha as <-. injection Hb as <-.
          apply Bool.orb_true_iff in E. destruct E as [E|E];
            [apply Bool.orb_true_iff in E; destruct E as [E|E]|]; apply N.eqb_eq in E; congruence.
        * apply Bool.orb_false_iff in E. destruct E as [E E3].
          apply Bool.orb_false_iff in E. destruct E as [E1 E2].
          apply N.eqb_neq in E1, E2, E3. split.
          -- intros H x y Ha Hb _ _ _. injection Ha as <-. injection Hb as <-.
             destruct (ff_resolves anc a b c); now apply teqb_spec in H.
          -- intros H. specialize (H a b eq_refl eq_refl E1 E2 E3). rewrite H.
             destruct (ff_resolves anc a b c); apply teqb_refl.
      + split; [intros _ x y H H2; discriminate|reflexivity].
    - split; [intros _ x y H; discriminate|reflexivity]. }
  rewrite Last. tauto.
Qed.

Definition ExportOk (pre post : snapshot) (failed : list (N * N)) (n : N) : Prop :=
  let l := get (o_local pre) n in
  let gr := get (o_grefs pre) n in
  let c := gget (o_git pre) n in
  let c' := gget (o_git post) n in
  let is_failed := In n (map fst failed) in
  get (o_local post) n = l
  /\ (c' = c \/ (gr = resolved c /\ l = resolved c' /\ ~ is_failed))
  /\ (has_conflict l = true ->
        c' = c /\ get (o_grefs post) n = gr /\ get (o_rgit post) n = get (o_rgit pre) n
        /\ forall x, In (n, x) failed -> x = 1)
  /\ (is_failed ->
        c' = c /\ get (o_grefs post) n = gr /\ get (o_rgit post) n = get (o_rgit pre) n)
  /\ (~ is_failed -> has_conflict l = false ->
        get (o_rgit post) n = l
        /\ (gr = resolved c -> resolved c' = l /\ get (o_grefs post) n = l)).

Lemma failed_codes_spec n (failed : list (N * N)) :
  forallb (fun p => negb (fst p =? n) || (snd p =? 1)) failed = true <->
  (forall x, In (n, x) failed -> x = 1).
Proof.
  rewrite forallb_forall. split.
  - intros H x Hin. specialize (H (n, x) Hin). cbn [fst snd] in H.
    rewrite N.eqb_refl in H. cbn [negb orb] in H. now apply N.eqb_eq.
  - intros H [k x] Hin. cbn [fst snd]. destruct (k =? n) eqn:E; [|reflexivity].
    apply N.eqb_eq in E. subst k. cbn [negb orb]. apply N.eqb_eq. now apply H.
Qed.

Lemma export_name_ok_spec pre post failed n :
  export_name_ok pre post failed n = true <-> ExportOk pre post failed n.
Proof.
  unfold export_name_ok, ExportOk, tgt. cbv zeta.
  set (l := get (o_local pre) n). set (gr := get (o_grefs pre) n).
  set (c := gget (o_git pre) n). set (c' := gget (o_git post) n).
  destruct (mem N.eqb n (map fst failed)) eqn:M;
    [apply mem_spec in M|apply mem_false in M];
    destruct (has_conflict l) eqn:Hc; cbn [negb andb];
    rewrite ?Bool.andb_true_r;
    rewrite ?Bool.andb_true_iff, ?if_else_true, ?Bool.orb_true_iff, ?Bool.andb_true_iff,
      ?teqb_spec, ?N.eqb_eq, ?failed_codes_spec;
    intuition (try congruence; try discriminate).
Qed.

Definition SnapEqAt (a b : snapshot) (n : N) : Prop :=
  get (o_local a) n = get (o_local b) n /\ get (o_rgit a) n = get (o_rgit b) n
  /\ get (o_grefs a) n = get (o_grefs b) n /\ gget (o_git a) n = gget (o_git b) n.
Definition SnapEq (names : list N) (a b : snapshot) : Prop :=
  forall n, In n names -> SnapEqAt a b n.

Lemma snap_eqb_on_spec names a b : snap_eqb_on names a b = true <-> SnapEq names a b.
Proof.
  unfold snap_eqb_on, rmap_eqb_on, gmap_eqb_on, SnapEq, SnapEqAt.
  rewrite !Bool.andb_true_iff, !forallb_forall. split.
  - intros [[[H1 H2] H3] H4] n Hn. specialize (H1 n Hn). specialize (H2 n Hn).
    specialize (H3 n Hn). specialize (H4 n Hn).
    apply teqb_spec in H1, H2, H3. apply N.eqb_eq in H4. auto.
  - intros H. repeat split; intros n Hn; destruct (H n Hn) as [H1 [H2 [H3 H4]]];
      try (now apply teqb_spec); now apply N.eqb_eq.
Qed.

Definition TripleOk (names : list N) (i1_post e_pre e_post : snapshot)
  (failed : list (N * N)) (i2_pre i2_post : snapshot) : Prop :=
  SnapEq names i1_post e_pre /\ SnapEq names e_post i2_pre /\ SnapEq names i2_pre i2_post
  /\ forall n, In n names ->
       let l := get (o_local i1_post) n in
       (In n (map fst failed) -> l = resolved root_id)
       /\ (~ In n (map fst failed) -> has_conflict l = false ->
           resolved (gget (o_git e_post) n) = l).

Lemma triple_ok_spec names a b c f d e :
  triple_ok names a b c f d e = true <-> TripleOk names a b c f d e.
Proof.
  unfold triple_ok, TripleOk, tgt. rewrite !Bool.andb_true_iff, !snap_eqb_on_spec, forallb_forall.
  split.
  - intros [[[H1 H2] H3] H4]. split; [exact H1|split; [exact H2|split; [exact H3|]]].
    intros n H. split.
    + intros Hf. specialize (H4 n H). cbv zeta in H4. apply mem_spec in Hf. rewrite Hf in H4.
      now apply teqb_spec.
    + intros Hf Hc. specialize (H4 n H). cbv zeta in H4. apply mem_false in Hf.
      rewrite Hf, Hc in H4. now apply teqb_spec.
  - intros [H1 [H2 [H3 H4]]]. split; [split; [split; [exact H1|exact H2]|exact H3]|].
    intros n Hn. specialize (H4 n Hn). cbv zeta in *. destruct H4 as [A B].
    destruct (mem N.eqb n (map fst f)) eqn:M.
    + apply mem_spec in M. apply teqb_spec. auto.
    + apply mem_false in M. destruct (has_conflict (get (o_local a) n)) eqn:Hc; [reflexivity|].
      apply teqb_spec. auto.
Qed.

(** The meaning of [steps_ok]: every observed import and export satisfies the per-name
    conditions, and every observed [Import; Export; Import] run converged. *)
Fixpoint StepsOk (anc : N -> N -> bool) (names : list N) (steps : list step) : Prop :=
  match steps with
  | [] => True
  | Import pre post :: r =>
      (forall n, In n names -> ImportOk anc pre post n)
      /\ match r with
         | Export epre epost failed :: Import ipre ipost :: _ =>
             TripleOk names post epre epost failed ipre ipost
         | _ => True
         end
      /\ StepsOk anc names r
  | Export pre post failed :: r =>
      (forall n, In n names -> ExportOk pre post failed n) /\ StepsOk anc names r
  | _ :: r => StepsOk anc names r
  end.

Lemma steps_ok_spec anc names steps :
  steps_ok anc names steps = true <-> StepsOk anc names steps.
Proof.
  induction steps as [|a r IH]; cbn [steps_ok StepsOk]; [tauto|].
  destruct a as [m t|m t|m t|m c|pre post|pre post failed]; try exact IH.
  - rewrite !Bool.andb_true_iff, forallb_forall, IH.
    assert (T : match r with
                | Export epre epost failed :: Import ipre ipost :: _ =>
                    triple_ok names post epre epost failed ipre ipost
                | _ => true end = true <->
                match r with
                | Export epre epost failed :: Import ipre ipost :: _ =>
                    TripleOk names post epre epost failed ipre ipost
                | _ => True end).
    { destruct r as [|[| | | | |epre epost failed] [|[| | | |ipre ipost|] r']]; try tauto.
      apply triple_ok_spec. }
    rewrite T. split.
    + intros [[H1 H2] H3]. split; [|split; assumption].
      intros k Hk. apply import_name_ok_spec. auto.
    + intros [H1 [H2 H3]]. split; [split; [|assumption]|assumption].
      intros k Hk. apply import_name_ok_spec. auto.
  - rewrite !Bool.andb_true_iff, forallb_forall, IH. split.
    + intros [H1 H2]. split; [|assumption]. intros k Hk. apply export_name_ok_spec. auto.
    + intros [H1 H2]. split; [|assumption]. intros k Hk. apply export_name_ok_spec. auto.
Qed.

(** ** The model's own runs pass the checker *)
Section ModelPasses.
  Context (anc : N -> N -> bool).

  Lemma model_import_ok s g n : NoDup (keys g) ->
    ImportOk anc (snap_of s g) (snap_of (import_refs anc s g) g) n.
  Proof.
    intros Hnd. unfold ImportOk, snap_of. cbn [o_local o_rgit o_grefs o_git].
    destruct (import_spec anc s g n Hnd) as [A [B C]].
    repeat split; try assumption.
    - intros H. now apply jj_change_kept_by_import.
    - intros H. now apply git_change_propagates.
    - intros H. now apply same_change_both_sides.
    - intros a b Ha Hb Hab Hbc Hac. rewrite C, Ha, Hb.
      change [b] with (resolved b). rewrite teqb_resolved.
      assert (E : gget g n =? b = false) by (apply N.eqb_neq; congruence). rewrite E.
      apply merge_three_distinct; assumption.
  Qed.

  Definition codes (f : list (N * reason)) : list (N * N) :=
    map (fun p => (fst p, reason_code (snd p))) f.
  Lemma codes_names f : map fst (codes f) = failed_names f.
  Proof. unfold codes, failed_names. rewrite map_map. reflexivity. Qed.

  Lemma export_synced_name s g n :
    get (grefs s) n = resolved (gget g n) ->
    let '(s2, g2, failed) := export_refs s g in
    ~ In n (failed_names failed) -> has_conflict (get (local s) n) = false ->
    resolved (gget g2 n) = get (local s) n /\ get (grefs s2) n = get (local s) n.
  Proof.
    intros Hg. pose proof (export_spec s g n) as H.
    destruct (export_refs s g) as [[s2 g2] failed]. cbv zeta in H.
    destruct H as [_ [HG [HC [HF _]]]]. rewrite Hg in *.
    intros Hnf Hc. rewrite HG, HC.
    destruct (export_name_synced (get (local s) n) (gget g n)) as [[H1 [H2 H3]]|[[H1 H3]|[H1 [H2 [H3 H4]]]]].
    - exfalso. apply Hnf. unfold failed_names. apply in_map_iff.
      exists (n, OnRootCommit). split; [reflexivity|]. apply HF. now rewrite H3.
    - congruence.
    - auto.
  Qed.

  Lemma model_export_ok s g n :
    let '(s2, g2, failed) := export_refs s g in
    ExportOk (snap_of s g) (snap_of s2 g2) (codes failed) n.
  Proof.
    pose proof (export_cas s g n) as H. pose proof (export_synced_name s g n) as K.
    destruct (export_refs s g) as [[s2 g2] failed].
    destruct H as [H1 [H2 [H3 [H4 H5]]]].
    unfold ExportOk, snap_of. cbn [o_local o_rgit o_grefs o_git]. rewrite codes_names.
    split; [now rewrite H1|]. split; [|split; [|split]].
    - destruct (N.eq_dec (gget g2 n) (gget g n)) as [E|E]; [now left|right].
      destruct (H2 E) as [A [B [C _]]]. auto.
    - intros Hc. destruct (H4 Hc) as [A [B [C D]]]. repeat split; try assumption.
      intros x Hx. unfold codes in Hx. apply in_map_iff in Hx.
      destruct Hx as [[k r] [E Hx]]. cbn [fst snd] in E. injection E as -> <-.
      now rewrite (B r Hx).
    - exact H3.
    - intros Hnf Hc. split; [now apply H5|]. intros Hg. now apply K.
  Qed.
End ModelPasses.

(** * Histories *)
Lemma run_nodup anc steps : forall sg,
  NoDup (keys (snd sg)) -> NoDup (keys (snd (fold_left (step_exec anc) steps sg))).
Proof.
  apply (fold_invariant (fun sg => NoDup (keys (snd sg)))).
  intros [s g] a H. cbn [snd] in H.
  destruct a as [m t|m t|m t|m c|pre post|pre post failed]; cbn [step_exec snd]; try assumption.
  - now apply gset_nodup.
  - now apply export_git_nodup.
Qed.
Lemma run_git_nodup anc steps : NoDup (keys (snd (run anc steps))).
Proof. unfold run. apply run_nodup. constructor. Qed.

Theorem one_sided_propagates anc (s : view) (g : gmap) (n : N) : NoDup (keys g) ->
  (get (local s) n = get (rgit s) n ->
     get (local (import_refs anc s g)) n = resolved (gget g n))
  /\ (resolved (gget g n) = get (rgit s) n ->
      get (local (import_refs anc s g)) n = get (local s) n
      /\ (has_conflict (get (local s) n) = false -> get (local s) n <> resolved root_id ->
          let '(s2, g2, failed) := export_refs (import_refs anc s g) g in
          resolved (gget g2 n) = get (local s) n /\ get (local s2) n = get (local s) n
          /\ get (rgit s2) n = get (local s) n /\ ~ In n (failed_names failed))).
Proof.
  intros Hnd. split.
  - now apply git_change_propagates.
  - intros H. split; [now apply jj_change_kept_by_import|].
    intros Hc Hr. exact (jj_change_propagates anc s g n Hnd H Hc Hr).
Qed.

Theorem merge_loop_terminates anc (m : target) :
  find_pair_to_remove anc (nontrivial anc (length m) m) = None.
Proof. apply nontrivial_fixpoint. lia. Qed.

Theorem converge_after_any_history anc (steps : list step) :
  let '(s, g) := run anc steps in
  let s1 := import_refs anc s g in
  let '(s2, g2, failed) := export_refs s1 g in
  let s3 := import_refs anc s2 g2 in
  (forall n, ~ In n (failed_names failed) -> has_conflict (get (local s1) n) = false ->
             resolved (gget g2 n) = get (local s1) n)
  /\ (forall n x, In (n, x) failed -> x = OnRootCommit /\ get (local s1) n = resolved root_id)
  /\ (forall n, get (local s3) n = get (local s2) n /\ get (rgit s3) n = get (rgit s2) n
                /\ get (grefs s3) n = get (grefs s2) n).
Proof.
  pose proof (run_git_nodup anc steps) as H.
  destruct (run anc steps) as [s g]. cbn [snd] in H.
  pose proof (converge anc s g H) as C. cbv zeta in C. cbv zeta.
  destruct (export_refs (import_refs anc s g) g) as [[s2 g2] failed].
  destruct C as [C1 [C2 [_ [_ C5]]]]. split; [exact C1|]. split; [|exact C5].
  intros n x Hin. destruct (C2 n x Hin) as [A [B _]]. auto.
Qed.

(** * Agreement with the model implies the property on the observations *)
Lemma SnapEqAt_sym a b n : SnapEqAt a b n -> SnapEqAt b a n.
Proof. unfold SnapEqAt. intuition congruence. Qed.
Lemma SnapEqAt_trans a b c n : SnapEqAt a b n -> SnapEqAt b c n -> SnapEqAt a c n.
Proof. unfold SnapEqAt. intuition congruence. Qed.

Lemma ImportOk_transfer anc a a' b b' n :
  SnapEqAt a a' n -> SnapEqAt b b' n -> ImportOk anc a b n -> ImportOk anc a' b' n.
Proof.
  intros [A1 [A2 [A3 A4]]] [B1 [B2 [B3 B4]]]. unfold ImportOk. cbv zeta.
  rewrite <- A1, <- A2, <- A4, <- B1, <- B2, <- B3, <- B4. auto.
Qed.
Lemma ExportOk_transfer a a' b b' f n :
  SnapEqAt a a' n -> SnapEqAt b b' n -> ExportOk a b f n -> ExportOk a' b' f n.
Proof.
  intros [A1 [A2 [A3 A4]]] [B1 [B2 [B3 B4]]]. unfold ExportOk. cbv zeta.
  rewrite <- A1, <- A2, <- A3, <- A4, <- B1, <- B2, <- B3, <- B4. auto.
Qed.

Lemma failed_eqb_spec f failed : failed_eqb f failed = true -> failed = codes f.
Proof.
  unfold failed_eqb, codes. generalize (map (fun p => (fst p, reason_code (snd p))) f) as l.
  intros l. revert failed. induction l as [|[k x] l IH]; destruct failed as [|[k' x'] failed];
    cbn [list_eqb]; try discriminate; [reflexivity|].
  rewrite Bool.andb_true_iff. unfold pair_eqb. cbn [fst snd]. rewrite Bool.andb_true_iff, !N.eqb_eq.
  intros [[-> ->] H]. f_equal. now apply IH.
Qed.

Theorem replay_implies_steps_ok anc names steps : forall s g,
  NoDup (keys g) -> replay anc names steps s g = true -> StepsOk anc names steps.
Proof.
  induction steps as [|a r IH]; intros s g Hnd Hr; cbn [StepsOk]; [exact I|].
  destruct a as [m t|m t|m t|m c|pre post|pre post failed]; cbn [replay] in Hr.
  - eapply IH; eassumption.
  - eapply IH; eassumption.
  - eapply IH; eassumption.
  - eapply IH; [|eassumption]. now apply gset_nodup.
  - rewrite !Bool.andb_true_iff, !snap_eqb_on_spec in Hr.
    destruct Hr as [[[[_ _] Hpre] Hpost] Hrest].
    split; [|split; [|eapply IH; eassumption]].
    + intros n Hn. apply (ImportOk_transfer anc (snap_of s g) pre
                            (snap_of (import_refs anc s g) g) post n); auto.
      now apply model_import_ok.
    + destruct r as [|[| | | | |epre epost failed] [|[| | | |ipre ipost|] r']]; try exact I.
      cbn [replay] in Hrest.
      pose proof (converge anc s g Hnd) as CV. cbv zeta in CV.
      pose proof (export_git_nodup (import_refs anc s g) g Hnd) as Hnd2.
      destruct (export_refs (import_refs anc s g) g) as [[s2 g2] f] eqn:EX.
      cbn [fst snd] in Hnd2.
      rewrite !Bool.andb_true_iff, !snap_eqb_on_spec in Hrest.
      destruct Hrest as [[[[[_ _] Hepre] Hepost] Hf] [[[[_ _] Hipre] Hipost] _]].
      apply failed_eqb_spec in Hf. subst failed.
      destruct CV as [C1 [C2 [C3 [C4 C5]]]].
      unfold TripleOk. split; [|split; [|split]].
      * intros n Hn. eapply SnapEqAt_trans; [apply SnapEqAt_sym; now apply Hpost|now apply Hepre].
      * intros n Hn. eapply SnapEqAt_trans; [apply SnapEqAt_sym; now apply Hepost|now apply Hipre].
      * intros n Hn. eapply SnapEqAt_trans; [apply SnapEqAt_sym; now apply Hipre|].
        eapply SnapEqAt_trans; [|now apply Hipost].
        unfold SnapEqAt, snap_of. cbn [o_local o_rgit o_grefs o_git].
        destruct (C5 n) as [A [B C]]. auto.
      * intros n Hn. cbv zeta. rewrite codes_names.
        destruct (Hpost n Hn) as [P1 _]. cbn [snap_of o_local] in P1. rewrite <- P1.
        destruct (Hepost n Hn) as [_ [_ [_ P4]]]. cbn [snap_of o_git] in P4. rewrite <- P4.
        split.
        -- intros Hin. unfold failed_names in Hin. apply in_map_iff in Hin.
           destruct Hin as [[k x] [E Hin]]. cbn [fst] in E. subst k.
           now destruct (C2 n x Hin) as [_ [? _]].
        -- intros Hnf Hc. now apply C1.
  - destruct (export_refs s g) as [[s2 g2] f] eqn:EX.
    rewrite !Bool.andb_true_iff, !snap_eqb_on_spec in Hr.
    destruct Hr as [[[[[_ _] Hpre] Hpost] Hf] Hrest].
    apply failed_eqb_spec in Hf. subst failed.
    split.
    + intros n Hn. apply (ExportOk_transfer (snap_of s g) pre (snap_of s2 g2) post (codes f) n); auto.
      pose proof (model_export_ok s g n) as M. now rewrite EX in M.
    + eapply IH; [|eassumption].
      pose proof (export_git_nodup s g Hnd) as H. now rewrite EX in H.
Qed.

Theorem corr_implies_okb c :
  c_flags_ok c = true ->
  replay (ancb (c_graph c)) (c_names c) (c_steps c) empty_view [] = true ->
  okb c = true.
Proof.
  intros Hf Hr. unfold okb. rewrite Hf. cbn [andb]. apply steps_ok_spec.
  eapply replay_implies_steps_ok; [|eassumption]. constructor.
Qed.

(** * The second import returns the very same view (not only the same lookups) when the
    recorded Git refs hold no explicit absent entry, which [View::set_git_ref_target]
    guarantees and every operation of the model preserves. *)
Definition wf_map (m : rmap) : Prop := forall k, In k (keys m) -> get m k <> absent.

Lemma wf_map_nil : wf_map [].
Proof. intros k []. Qed.
Lemma set_wf m k t : wf_map m -> wf_map (set m k t).
Proof.
  intros H j Hj. unfold set in *. destruct (is_absent t) eqn:A.
  - apply (remove_keys k j m) in Hj. destruct Hj as [Hne Hj].
    rewrite get_remove. apply not_eq_sym, N.eqb_neq in Hne. rewrite Hne. now apply H.
  - cbn [keys map fst In] in Hj. cbn [get]. destruct (k =? j) eqn:E.
    + intros C. subst t. discriminate A.
    + destruct Hj as [Hj|Hj]; [apply N.eqb_neq in E; congruence|].
      apply (remove_keys k j m) in Hj. destruct Hj as [_ Hj].
      rewrite get_remove, E. now apply H.
Qed.

Lemma import_grefs_wf anc s g : wf_map (grefs s) -> wf_map (grefs (import_refs anc s g)).
Proof.
  intros H. unfold import_refs. rewrite apply_remote_grefs.
  apply (fold_invariant (fun w => wf_map (grefs w))); [|assumption].
  intros e u He. unfold apply_git_ref_change. cbn [grefs]. now apply set_wf.
Qed.
Lemma export_grefs_wf s g : wf_map (grefs s) -> wf_map (grefs (fst (fst (export_refs s g)))).
Proof.
  intros H. unfold export_refs. cbn [fst grefs].
  apply (fold_invariant (fun e => wf_map (x_grefs e))).
  { intros e n He. unfold export_update. cbv beta iota.
    destruct (classify_export (get (grefs s) n) (get (local s) n)) as [|r|o c|o]; try assumption.
    destruct (update_git_ref (x_git e) n o c) as [[r|] g']; cbn [x_grefs]; [assumption|].
    now apply set_wf. }
  apply (fold_invariant (fun e => wf_map (x_grefs e))).
  { intros e n He. unfold export_delete. cbv beta iota.
    destruct (classify_export (get (grefs s) n) (get (local s) n)) as [|r|o c|o]; try assumption.
    destruct (delete_git_ref (x_git e) n o) as [[r|] g']; cbn [x_grefs]; [assumption|].
    now apply set_wf. }
  exact H.
Qed.

Theorem second_import_is_identity anc s g : NoDup (keys g) -> wf_map (grefs s) ->
  let s1 := import_refs anc s g in
  let '(s2, g2, _) := export_refs s1 g in
  import_refs anc s2 g2 = s2.
Proof.
  intros Hnd Hwf s1.
  pose proof (export_after_sync s1 g (import_synced anc s g Hnd)) as HX.
  pose proof (export_git_nodup s1 g Hnd) as Hnd2.
  pose proof (export_grefs_wf s1 g (import_grefs_wf anc s g Hwf)) as Hwf2.
  destruct (export_refs s1 g) as [[s2 g2] failed]. cbn [fst snd] in Hnd2, Hwf2.
  destruct HX as [_ [H2 _]].
  apply import_noop; try assumption.
  - intros n. now destruct (H2 n).
  - intros n. now destruct (H2 n).
Qed.

(** All views reached by the model's runs have well-formed recorded Git refs. *)
Lemma run_grefs_wf anc steps : wf_map (grefs (fst (run anc steps))).
Proof.
  unfold run. apply (fold_invariant (fun sg => wf_map (grefs (fst sg)))).
  - intros [s g] a H. cbn [fst] in H.
    destruct a as [m t|m t|m t|m c|pre post|pre post failed]; cbn [step_exec fst grefs]; try assumption.
    + now apply set_wf.
    + now apply import_grefs_wf.
    + now apply export_grefs_wf.
  - apply wf_map_nil.
Qed.

Theorem second_import_is_identity_after_any_history anc steps :
  let '(s, g) := run anc steps in
  let s1 := import_refs anc s g in
  let '(s2, g2, _) := export_refs s1 g in
  import_refs anc s2 g2 = s2.
Proof.
  pose proof (run_git_nodup anc steps) as H. pose proof (run_grefs_wf anc steps) as W.
  destruct (run anc steps) as [s g]. cbn [fst snd] in H, W.
  exact (second_import_is_identity anc s g H W).
Qed.
