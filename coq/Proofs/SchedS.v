(** Facts about schedules (Base/SchedS.v): invariants and monotone quantities hold after
    EVERY schedule, of any length, over any number of processes. *)
From Coq Require Import List.
Import ListNotations.
From Verif Require Import Base.SchedS.

Section Facts.
  Context {S E : Type}.
  Variable step : S -> E -> S.

  Lemma run_nil : forall s, run step [] s = s.
  Proof. reflexivity. Qed.

  Lemma run_cons : forall e r s, run step (e :: r) s = run step r (step s e).
  Proof. reflexivity. Qed.

  Lemma run_app : forall a b s, run step (a ++ b) s = run step b (run step a s).
  Proof. intros a b s. unfold run. apply fold_left_app. Qed.

  (** An invariant of every step is an invariant of every schedule. *)
  Lemma run_invariant : forall (Inv : S -> Prop),
    (forall s e, Inv s -> Inv (step s e)) ->
    forall sched s, Inv s -> Inv (run step sched s).
  Proof.
    intros Inv Hstep sched. induction sched as [|e r IH]; intros s Hs.
    - exact Hs.
    - rewrite run_cons. apply IH. apply Hstep. exact Hs.
  Qed.

  (** Same, when only the events of the schedule satisfying [P] preserve it. *)
  Lemma run_invariant_on : forall (P : E -> Prop) (Inv : S -> Prop),
    (forall s e, P e -> Inv s -> Inv (step s e)) ->
    forall sched s, Forall P sched -> Inv s -> Inv (run step sched s).
  Proof.
    intros P Inv Hstep sched. induction sched as [|e r IH]; intros s HP Hs.
    - exact Hs.
    - inversion HP; subst. rewrite run_cons. apply IH; auto.
  Qed.

  (** A preorder that every step (from a state satisfying the invariant) respects relates
      the endpoints of every schedule. *)
  Lemma run_preorder : forall (Inv : S -> Prop) (R : S -> S -> Prop),
    (forall s, R s s) ->
    (forall a b c, R a b -> R b c -> R a c) ->
    (forall s e, Inv s -> Inv (step s e)) ->
    (forall s e, Inv s -> R s (step s e)) ->
    forall sched s, Inv s -> R s (run step sched s).
  Proof.
    intros Inv R Hrefl Htrans Hinv HR sched.
    induction sched as [|e r IH]; intros s Hs.
    - apply Hrefl.
    - rewrite run_cons. eapply Htrans.
      + apply HR. exact Hs.
      + apply IH. apply Hinv. exact Hs.
  Qed.

  Lemma states_reaches : forall sched s s', In s' (states step sched s) -> reaches step s s'.
  Proof.
    induction sched as [|e r IH]; intros s s' Hin; simpl in Hin.
    - destruct Hin as [<-|[]]. exists []. reflexivity.
    - destruct Hin as [<-|Hin].
      + exists []. reflexivity.
      + destruct (IH _ _ Hin) as [sc Hsc]. exists (e :: sc). rewrite run_cons. exact Hsc.
  Qed.
End Facts.
